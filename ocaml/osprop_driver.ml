(* model-side driver for C12 (a): one derivation per line
     <id> T <vm_os> <ctx> [HC <ctx> | HL <ctx> | S | Y | I | F]*      (0 = none, k = recording OS k)
   prints  <id> TAB <effective os>   (0 = the real operating system) *)
open Osprop_model

let rec nat_of_int i = if i <= 0 then O else S (nat_of_int (i - 1))
let rec int_of_nat = function O -> 0 | S n -> 1 + int_of_nat n
let opt i = if i = 0 then None else Some (nat_of_int i)

let () =
  try
    while true do
      let line = input_line stdin in
      match String.split_on_char ' ' line with
      | id :: "T" :: v :: c :: rest ->
        let d = ref (mk_top (opt (int_of_string v)) (opt (int_of_string c))) in
        let rec go = function
          | "HC" :: c :: r -> d := mk_hostcall !d (opt (int_of_string c)); go r
          | "HL" :: c :: r -> d := mk_hostclone !d (opt (int_of_string c)); go r
          | "S" :: r -> d := mk_spawn !d; go r
          | "Y" :: r -> d := mk_clonesync !d; go r
          | "I" :: r -> d := mk_import !d; go r
          | "F" :: r -> d := mk_callfn !d; go r
          | _ -> () in
        go rest;
        Printf.printf "%s\t%d\n" id (int_of_nat (eff !d))
      | _ -> ()
    done
  with End_of_file -> ()
