(* model-side driver for C12 (a): one derivation per line
     <id> T <vm_os> <ctx> [HC <ctx> | HL <ctx> | S | Y | I | F | N <layer> <vm_os>]*
   (0 = none, k = recording OS k; a <ctx> of several decimal digits is a LAYERED context: 12 = WithOS(WithOS(bg, os1), os2),
   computed by the model's ctx_of_layers; N = a host builtin starts a nested evaluation on the context it received,
   layered with os <layer> if that is not 0, with the WithOS option <vm_os>)
   prints  <id> TAB <effective os>   (0 = the real operating system) *)
open Osprop_model

let rec nat_of_int i = if i <= 0 then O else S (nat_of_int (i - 1))
let rec int_of_nat = function O -> 0 | S n -> 1 + int_of_nat n
let opt i = if i = 0 then None else Some (nat_of_int i)
(* a host context: the decimal digits are the layers, first placed first *)
let ctx (s : string) =
  let ls = ref [] in
  String.iter (fun c -> if c <> '0' then ls := nat_of_int (Char.code c - 48) :: !ls) s;
  mk_layers (List.rev !ls)

let () =
  try
    while true do
      let line = input_line stdin in
      match String.split_on_char ' ' line with
      | id :: "T" :: v :: c :: rest ->
        let d = ref (mk_top (opt (int_of_string v)) (ctx c)) in
        let rec go = function
          | "HC" :: c :: r -> d := mk_hostcall !d (ctx c); go r
          | "HL" :: c :: r -> d := mk_hostclone !d (ctx c); go r
          | "N" :: l :: v :: r -> d := mk_nest !d (opt (int_of_string l)) (opt (int_of_string v)); go r
          | "S" :: r -> d := mk_spawn !d; go r
          | "Y" :: r -> d := mk_clonesync !d; go r
          | "I" :: r -> d := mk_import !d; go r
          | "F" :: r -> d := mk_callfn !d; go r
          | _ -> () in
        go rest;
        Printf.printf "%s\t%d\n" id (int_of_nat (eff !d))
      | _ -> ()
    done
  with End_of_file -> ()
