(* model-side driver for C11: reads the base graph written by `c11obs base` (file argv.(1)) and one
   configuration per stdin line; prints what the Gallina model predicts.

   config line:  <id> <nodefaults 0|1> <custom 0|1> tokens...; the option tokens are composed IN THE ORDER GIVEN by the
                 model's config_of:  ND (WithoutDefaultGlobals)  D:<hexname> (WithoutGlobal)  DM:<hex>,<hex>,... (WithoutGlobals)
                 G:<hexname>:<node> (WithGlobal)  GM:<hex>=<node>,... (WithGlobals)  O:<hexname>:<node> (WithGlobalOverride);
                 A:<node>:<hex>=<node>,... a module the host assembles (NewBuiltinsModule) before configuring;
                 L:<hexname> a name to look up afterwards
   output line:  <id> TAB env=x<hex>,x<hex>,... TAB reach=<n,n,...> TAB look=x<hex>:<n|none>,...
   special line: NAMES  -> the registered names of instance 1 (hex, comma separated) and check_deny for each *)
open Globals_model

let rec pos_of_int (i : int) : positive =
  if i = 1 then XH
  else if i land 1 = 0 then XO (pos_of_int (i lsr 1))
  else XI (pos_of_int (i lsr 1))
let rec int_of_pos = function
  | XH -> 1
  | XO p -> 2 * int_of_pos p
  | XI p -> 2 * int_of_pos p + 1

let ascii_of_char (c : char) : ascii =
  let n = Char.code c in
  let b i = (n lsr i) land 1 = 1 in
  Ascii (b 0, b 1, b 2, b 3, b 4, b 5, b 6, b 7)
let char_of_ascii (Ascii (b0, b1, b2, b3, b4, b5, b6, b7)) : char =
  let v b i = if b then 1 lsl i else 0 in
  Char.chr (v b0 0 + v b1 1 + v b2 2 + v b3 3 + v b4 4 + v b5 5 + v b6 6 + v b7 7)
let coq_string (s : Stdlib.String.t) : Globals_model.string =
  let r = ref EmptyString in
  for i = String.length s - 1 downto 0 do r := String (ascii_of_char s.[i], !r) done;
  !r
let ocaml_string (s : Globals_model.string) : Stdlib.String.t =
  let b = Buffer.create 16 in
  let rec go = function EmptyString -> () | String (c, r) -> Buffer.add_char b (char_of_ascii c); go r in
  go s; Buffer.contents b

let hex_of (s : Stdlib.String.t) : Stdlib.String.t =
  let b = Buffer.create (2 * String.length s) in
  String.iter (fun c -> Buffer.add_string b (Printf.sprintf "%02x" (Char.code c))) s;
  Buffer.contents b
let unhex (s : Stdlib.String.t) : Stdlib.String.t =
  String.init (String.length s / 2) (fun i -> Char.chr (int_of_string ("0x" ^ String.sub s (2 * i) 2)))

let () =
  let ic = open_in Sys.argv.(1) in
  let edges = ref [] and env1 = ref [] and env3 = ref [] and mods = ref [] in
  (try
     while true do
       let line = input_line ic in
       match String.split_on_char ' ' line with
       | ["E"; s; l; m; d] ->
         edges := mk_edge (pos_of_int (int_of_string s)) (coq_string (unhex l)) (m = "1") (pos_of_int (int_of_string d)) :: !edges
       | ["R"; "1"; n; v] -> env1 := (coq_string (unhex n), pos_of_int (int_of_string v)) :: !env1
       | ["R"; "3"; n; v] -> env3 := (coq_string (unhex n), pos_of_int (int_of_string v)) :: !env3
       | ["M"; v] -> mods := pos_of_int (int_of_string v) :: !mods
       | _ -> ()
     done
   with End_of_file -> ());
  close_in ic;
  let heap = List.rev !edges and env1 = List.rev !env1 and env3 = List.rev !env3 and mods = List.rev !mods in
  let defaults = mk_world env1 heap mods in
  let out = Buffer.create (1 lsl 16) in
  (try
     while true do
       let line = input_line stdin in
       if line = "NAMES" then begin
         let ns = all_names defaults in
         Buffer.add_string out "NAMES\t";
         Buffer.add_string out (if wf defaults then "wf=1" else "wf=0");
         Buffer.add_char out '\t';
         Buffer.add_string out (String.concat "," (List.map (fun n ->
             hex_of (ocaml_string n) ^ ":" ^ (if deny_ok defaults n then "1" else "0")) ns));
         Buffer.add_char out '\n'
       end else begin
         match String.split_on_char ' ' line with
         | id :: nd :: cu :: rest ->
           let opts = ref [] and look = ref [] and world = ref defaults in
           let pairs sep s =
             List.filter_map (fun it ->
                 match String.split_on_char sep it with
                 | [n; v] -> Some (coq_string (unhex n), pos_of_int (int_of_string v))
                 | _ -> None) (String.split_on_char ',' s) in
           if nd = "1" then opts := OptNoDefaults :: !opts;
           if cu = "1" then opts := OptGlobals env3 :: !opts;
           List.iter (fun tok ->
               match String.split_on_char ':' tok with
               | ["ND"] -> opts := OptNoDefaults :: !opts
               | ["D"; n] -> opts := OptWithout (coq_string (unhex n)) :: !opts
               | ["DM"; ns] ->
                 opts := OptWithoutMany (List.filter_map (fun n -> if n = "" then None else Some (coq_string (unhex n)))
                                           (String.split_on_char ',' ns)) :: !opts
               | ["G"; n; v] -> opts := OptGlobal (coq_string (unhex n), pos_of_int (int_of_string v)) :: !opts
               | ["GM"; ps] -> opts := OptGlobals (pairs '=' ps) :: !opts
               | ["O"; n; v] -> opts := OptOverride (coq_string (unhex n), pos_of_int (int_of_string v)) :: !opts
               | ["A"; v; ps] -> world := assemble_module !world (pos_of_int (int_of_string v)) (pairs '=' ps)
               | ["L"; n] -> look := unhex n :: !look
               | _ -> ()) rest;
           let w = run_options !world (List.rev !opts) in
           let envs = List.sort compare (List.map (fun n -> "x" ^ hex_of (ocaml_string n)) (env_names w)) in
           let reach = match reach_list w with
             | Some l -> String.concat "," (List.map string_of_int (List.sort compare (List.map int_of_pos l)))
             | None -> "FUEL" in
           let looks = List.map (fun n ->
               "x" ^ hex_of n ^ ":" ^ (match lookup w (coq_string n) with Some p -> string_of_int (int_of_pos p) | None -> "none"))
               (List.rev !look) in
           Buffer.add_string out id; Buffer.add_string out "\tenv=";
           Buffer.add_string out (String.concat "," envs);
           Buffer.add_string out "\treach="; Buffer.add_string out reach;
           Buffer.add_string out "\tlook="; Buffer.add_string out (String.concat "," looks);
           Buffer.add_char out '\n'
         | _ -> ()
       end;
       if Buffer.length out > 60000 then (print_string (Buffer.contents out); Buffer.clear out)
     done
   with End_of_file -> ());
  print_string (Buffer.contents out)
