(* model-side driver for C07: one history per line (token format, see checks/c07.py), prints per invocation
   "<outcome>|<global after>" joined by ";" *)
open Vmrun_model

let rec nat_of_int n = if n <= 0 then O else S (nat_of_int (n-1))
let rec pos_of_int (i : int) : positive =
  if i = 1 then XH else if i land 1 = 0 then XO (pos_of_int (i lsr 1)) else XI (pos_of_int (i lsr 1))
let z_of_int i = if i = 0 then Z0 else if i > 0 then Zpos (pos_of_int i) else Zneg (pos_of_int (-i))
let rec i64_of_pos = function
  | XH -> 1L
  | XO p -> Int64.mul 2L (i64_of_pos p)
  | XI p -> Int64.add (Int64.mul 2L (i64_of_pos p)) 1L
let i64_of_z = function Z0 -> 0L | Zpos p -> i64_of_pos p | Zneg p -> Int64.neg (i64_of_pos p)

let toks = ref [||] and pos = ref 0
let next () = let t = !toks.(!pos) in incr pos; t
let nexti () = int_of_string (next ())
let more () = !pos < Array.length !toks

let rec expr () =
  match next () with
  | "L" -> Lit (z_of_int (nexti ()))
  | "G" -> GetG
  | "A" -> AddG (z_of_int (nexti ()))
  | "B" -> let a = expr () in let b = expr () in Bin (a, b)
  | "S" -> let a = expr () in let b = expr () in Seq (a, b)
  | "N" -> let n = nexti () in let e = expr () in ListN (nat_of_int n, e)
  | "C" -> CallE (expr ())
  | "R" -> Raise
  | "P" -> HostPanic
  | "T" -> Gate
  | "X" -> Spin
  | "D" -> deep (nat_of_int (nexti ()))
  | "F" -> fact (nat_of_int (nexti ()))
  | "K" -> let d = nexti () in let e = expr () in at_depth (nat_of_int d) e
  | t -> failwith ("bad expr token " ^ t)

let ev () =
  match next () with
  | "c" -> Cancel (nat_of_int (nexti ()))
  | "f" -> Fire (nat_of_int (nexti ()))
  | "r" -> ignore (nexti ()); Reenter
  | t -> failwith ("bad event " ^ t)

let rec rep n f = if n <= 0 then [] else let x = f () in x :: rep (n-1) f

let item () =
  match next () with
  | "E" -> IEnv (ev ())
  | "I" ->
    let api = (match next () with "RC" -> ARunCode | "RN" -> ARun | "CL" -> ACall | t -> failwith ("bad api " ^ t)) in
    let ctx = nexti () in
    let imp = (nexti () = 1) in
    let ng = nexti () in
    let gates = rep ng (fun () -> let n = nexti () in rep n ev) in
    let e = expr () in
    IInv { iapi = api; ibody = e; ictx = nat_of_int ctx; igates = gates; iimport = imp }
  | t -> failwith ("bad item " ^ t)

let ecls = function ERuntime -> "runtime" | EHost -> "host" | EStack -> "bounds" | EFrames -> "bounds" | ECtx -> "ctx" | EImport -> "import"
let outcome = function
  | OVal (Some z) -> Printf.sprintf "V %Ld" (i64_of_z z)
  | OVal None -> "VNIL"
  | OErr e -> "E " ^ ecls e
  | OStale -> "STALE"
  | OWild -> "WILD"
  | OBusy -> "BUSY"
  | ODiverge -> "DIVERGE"

let () =
  let cfg = match (if Array.length Sys.argv > 1 then Sys.argv.(1) else "current") with
    | "current" -> cfg_current | "nodrop" -> cfg_nodrop | "nopush" -> cfg_nopush
    | "pinned" -> cfg_pinned | "noclone" -> cfg_noclone | "norunip" -> cfg_norunip | "nomods" -> cfg_nomods | t -> failwith ("bad config " ^ t) in
  try while true do
    let line = input_line stdin in
    toks := Array.of_list (List.filter (fun s -> s <> "") (String.split_on_char ' ' line));
    pos := 0;
    let id = next () in
    let g0 = z_of_int (nexti ()) in
    let items = ref [] in
    while more () do items := item () :: !items done;
    let res = exec0_out cfg g0 (List.rev !items) in
    let parts = List.map (fun (o, g) -> Printf.sprintf "%s|%Ld" (outcome o) (i64_of_z g)) res in
    Printf.printf "%s\t%s\n" id (String.concat ";" parts)
  done with End_of_file -> ()
