(* model-side driver for C16: same line protocol as harness/cmd/c16obs.
   Every case is run through the concrete model (crun / brun: Go slices in place, byte_slices over a heap of arrays) and
   printed through its abstraction; with argument "ref" the reference containers (arun / rbrun) are run instead. *)
open Containers_model

let rec pos_of_int64 (i : int64) : positive =
  if Int64.equal i 1L then XH
  else if Int64.equal (Int64.logand i 1L) 0L then XO (pos_of_int64 (Int64.shift_right_logical i 1))
  else XI (pos_of_int64 (Int64.shift_right_logical i 1))
let z_of_int64 (i : int64) : z =
  if Int64.equal i 0L then Z0
  else if Int64.compare i 0L > 0 then Zpos (pos_of_int64 i)
  else Zneg (pos_of_int64 (Int64.neg i))
let z_of_int (i : int) : z = z_of_int64 (Int64.of_int i)
let rec int64_of_pos = function
  | XH -> 1L
  | XO p -> Int64.shift_left (int64_of_pos p) 1
  | XI p -> Int64.logor (Int64.shift_left (int64_of_pos p) 1) 1L
let int64_of_z = function Z0 -> 0L | Zpos p -> int64_of_pos p | Zneg p -> Int64.neg (int64_of_pos p)
let int_of_z z = Int64.to_int (int64_of_z z)
let rec int_of_nat = function O -> 0 | S n -> 1 + int_of_nat n
let rec nat_of_int i = if i <= 0 then O else S (nat_of_int (i - 1))

let bytes_of_hex (s : string) : z list =
  List.init (String.length s / 2) (fun i -> z_of_int (int_of_string ("0x" ^ String.sub s (2 * i) 2)))
let hex_of_bytes (l : z list) : string =
  String.concat "" (List.map (fun c -> Printf.sprintf "%02x" ((int_of_z c) land 255)) l)

exception Bad of string
let after (t : string) (n : int) = String.sub t n (String.length t - n)
let starts t p = String.length t >= String.length p && String.sub t 0 (String.length p) = p

let rec parse_value (toks : string list) : value * string list =
  match toks with
  | [] -> raise (Bad "unexpected end of op")
  | t :: rest ->
    if t = "n" then (VNil, rest)
    else if t = "t" then (VBool true, rest)
    else if t = "f" then (VBool false, rest)
    else if starts t "s=" then (VStr (bytes_of_hex (after t 2)), rest)
    else if starts t "b=" then (VBytes (bytes_of_hex (after t 2)), rest)
    else match t.[0] with
      | 'i' -> (VInt (z_of_int64 (Int64.of_string (after t 1))), rest)
      | 'y' -> (VByte (z_of_int (int_of_string (after t 1))), rest)
      | 'd' ->
        let bits = Int64.of_string ("0x" ^ after t 1) in
        (VFloat (Int64.compare bits 0L < 0, z_of_int64 (Int64.logand bits 0x7FFFFFFFFFFFFFFFL)), rest)
      | 'L' | 'S' ->
        let k = int_of_string (after t 1) in
        let rec go k toks acc =
          if k = 0 then (List.rev acc, toks)
          else let (v, toks') = parse_value toks in go (k - 1) toks' (v :: acc) in
        let (items, rest') = go k rest [] in
        if t.[0] = 'L' then (VList items, rest')
        else (match set_of_list items [] with
            | Some s -> (VSet s, rest')
            | None -> raise (Bad "unhashable set member in case"))
      | 'M' ->
        let k = int_of_string (after t 1) in
        let rec go k toks acc =
          if k = 0 then (acc, toks)
          else match toks with
            | kt :: toks1 when starts kt "k=" ->
              let (v, toks2) = parse_value toks1 in
              go (k - 1) toks2 (map_set (bytes_of_hex (after kt 2)) v acc)
            | _ -> raise (Bad "map key expected") in
        let (m, rest') = go k rest [] in
        (VMap m, rest')
      | _ -> raise (Bad ("bad token " ^ t))

let parse_opt toks = match toks with
  | "-" :: rest -> (None, rest)
  | _ -> let (v, rest) = parse_value toks in (Some v, rest)

let parse_ref toks = match toks with
  | t :: rest when String.length t > 1 && t.[0] = 'r' -> (nat_of_int (int_of_string (after t 1)), rest)
  | _ -> raise (Bad "reference expected")

let rec show (v : value) : string =
  match v with
  | VNil -> "n"
  | VBool true -> "t"
  | VBool false -> "f"
  | VInt z -> "i" ^ Int64.to_string (int64_of_z z)
  | VFloat (neg, mag) -> Printf.sprintf "d%016Lx" (Int64.logor (int64_of_z mag) (if neg then Int64.min_int else 0L))
  | VByte z -> "y" ^ string_of_int (int_of_z z)
  | VStr s -> "s=" ^ hex_of_bytes s
  | VBytes s -> "b=" ^ hex_of_bytes s
  | VErr (_, _) -> "?error"
  | VList l -> String.concat " " (("L" ^ string_of_int (List.length l)) :: List.map show l)
  | VMap m ->
    let es = List.sort (fun (a, _) (b, _) -> Stdlib.compare a b) (List.map (fun (k, v) -> (hex_of_bytes k, v)) m) in
    String.concat " " (("M" ^ string_of_int (List.length m)) :: List.concat_map (fun (k, v) -> ["k=" ^ k; show v]) es)
  | VSet s ->
    let ms = List.sort Stdlib.compare (List.map show s) in
    String.concat " " (("S" ^ string_of_int (List.length s)) :: ms)

let err_name = function
  | EIndex -> "index" | ESlice -> "slice" | EType -> "type" | EKey -> "key" | EArgs -> "args"
  | EValue -> "value" | EAttr -> "attr"

let show_outcome = function
  | RVal v -> "V " ^ show v
  | RRef r -> "R" ^ string_of_int (int_of_nat r)
  | RErr e -> "E" ^ err_name e
  | RUnsup -> "U"

let parse_op (text : string) : op =
  let toks = List.filter (fun s -> s <> "") (String.split_on_char ' ' text) in
  match toks with
  | [] -> raise (Bad "empty op")
  | name :: rest ->
    let r1 () = let (r, t) = parse_ref rest in (r, t) in
    let rv () = let (r, t) = parse_ref rest in let (v, _) = parse_value t in (r, v) in
    let rvv () = let (r, t) = parse_ref rest in let (a, t) = parse_value t in let (b, _) = parse_value t in (r, a, b) in
    let rr () = let (r, t) = parse_ref rest in let (r2, _) = parse_ref t in (r, r2) in
    let roo () = let (r, t) = parse_ref rest in let (a, t) = parse_opt t in let (b, _) = parse_opt t in (r, a, b) in
    let rvo () = let (r, t) = parse_ref rest in let (a, t) = parse_value t in let (b, _) = parse_opt t in (r, a, b) in
    (match name with
     | "newlist" -> (match parse_value rest with (VList l, _) -> NewList l | _ -> raise (Bad "list expected"))
     | "newset" -> (match rest with
         | t :: rest' when t.[0] = 'S' || t.[0] = 'L' ->
           (* the members as written: NewSet inserts them one by one *)
           let k = int_of_string (after t 1) in
           let rec go k toks acc = if k = 0 then List.rev acc else let (v, toks') = parse_value toks in go (k - 1) toks' (v :: acc) in
           NewSet (go k rest' [])
         | _ -> raise (Bad "set expected"))
     | "newmap" -> (match rest with
         | t :: rest' when t.[0] = 'M' ->
           let k = int_of_string (after t 1) in
           let rec go k toks acc =
             if k = 0 then List.rev acc
             else match toks with
               | kt :: toks1 when starts kt "k=" ->
                 let (v, toks2) = parse_value toks1 in go (k - 1) toks2 ((bytes_of_hex (after kt 2), v) :: acc)
               | _ -> raise (Bad "map key expected") in
           NewMap (go k rest' [])
         | _ -> raise (Bad "map expected"))
     | "get" -> let (r, v) = rv () in Get (r, v)
     | "slice" -> let (r, a, b) = roo () in Slice (r, a, b)
     | "setitem" -> let (r, a, b) = rvv () in SetItem (r, a, b)
     | "addassign" -> let (r, a, b) = rvv () in AddAssign (r, a, b)
     | "del" -> let (r, v) = rv () in Del (r, v)
     | "contains" -> let (r, v) = rv () in Contains (r, v)
     | "len" -> let (r, _) = r1 () in Len r
     | "append" -> let (r, v) = rv () in Append (r, v)
     | "insert" -> let (r, a, b) = rvv () in Insert (r, a, b)
     | "pop" -> let (r, v) = rv () in Pop (r, v)
     | "remove" -> let (r, v) = rv () in Remove (r, v)
     | "extend" -> let (r, r2) = rr () in Extend (r, r2)
     | "reverse" -> let (r, _) = r1 () in Reverse r
     | "sort" -> let (r, _) = r1 () in Sort r
     | "clear" -> let (r, _) = r1 () in Clear r
     | "copy" -> let (r, _) = r1 () in Copy r
     | "count" -> let (r, v) = rv () in Count (r, v)
     | "index" -> let (r, v) = rv () in Index (r, v)
     | "reversed" -> let (r, _) = r1 () in Reversed r
     | "sorted" -> let (r, _) = r1 () in Sorted r
     | "keys" -> let (r, _) = r1 () in Keys r
     | "concat" -> let (r, r2) = rr () in Concat (r, r2)
     | "map_val" -> let (r, _) = r1 () in MapCb (r, CbVal)
     | "map_idx" -> let (r, _) = r1 () in MapCb (r, CbIdx)
     | "map_pair" -> let (r, _) = r1 () in MapCb (r, CbPair)
     | "map_idxcopy" -> let (r, _) = r1 () in MapCb (r, CbIdxCopy)
     | "filter_truthy" -> let (r, _) = r1 () in FilterCb (r, FTruthy)
     | "filter_all" -> let (r, _) = r1 () in FilterCb (r, FAll)
     | "filter_none" -> let (r, _) = r1 () in FilterCb (r, FNone)
     | "each_append" -> let (r, r2) = rr () in EachAppend (r, r2)
     | "mgetd" -> let (r, a, b) = rvo () in MGetD (r, a, b)
     | "mpop" -> let (r, a, b) = rvo () in MPop (r, a, b)
     | "msetdefault" -> let (r, a, b) = rvv () in MSetDefault (r, a, b)
     | "mupdate" -> let (r, r2) = rr () in MUpdate (r, r2)
     | "mvalues" -> let (r, _) = r1 () in MValues r
     | "mitems" -> let (r, _) = r1 () in MItems r
     | "sadd" -> let (r, v) = rv () in SAdd (r, v)
     | "sremove" -> let (r, v) = rv () in SRemove (r, v)
     | "sunion" -> let (r, r2) = rr () in SUnion (r, r2)
     | "sinter" -> let (r, r2) = rr () in SInter (r, r2)
     | "enumerate" -> let (r, _) = r1 () in Enumerate r
     | _ -> raise (Bad ("unknown op " ^ name)))

let show_obj = function
  | OList l -> show (VList l)
  | OMap m -> show (VMap m)
  | OSet s -> show (VSet s)

let split_ops (s : string) : string list =
  (* ops are separated by " | " *)
  let parts = String.split_on_char '|' s in
  List.map String.trim parts

(* run op by op so that every intermediate state can be printed *)
let run_store (use_ref : bool) (ops : op list) : string =
  let buf = Buffer.create 256 in
  let first = ref true in
  let emit out state =
    if not !first then Buffer.add_string buf " ;; ";
    first := false;
    Buffer.add_string buf (show_outcome out); Buffer.add_string buf " # ";
    Buffer.add_string buf (String.concat " , " (List.map show_obj state)) in
  if use_ref then begin
    let st = ref [] in
    List.iter (fun o -> let (s', outs) = arun !st [o] in st := s'; emit (List.hd outs) s') ops
  end else begin
    let st = ref [] in
    List.iter (fun o -> let (s', outs) = crun !st [o] in st := s'; emit (List.hd outs) (abs_store s')) ops
  end;
  Buffer.contents buf

let parse_bop (text : string) : bop =
  let toks = List.filter (fun s -> s <> "") (String.split_on_char ' ' text) in
  match toks with
  | [] -> raise (Bad "empty op")
  | name :: rest ->
    (match name with
     | "bnew" -> (match parse_value rest with (VBytes l, _) -> BNew l | _ -> raise (Bad "bytes expected"))
     | "bget" -> let (r, t) = parse_ref rest in let (v, _) = parse_value t in BGet (r, v)
     | "bslice" -> let (r, t) = parse_ref rest in let (a, t) = parse_opt t in let (b, _) = parse_opt t in BSlice (r, a, b)
     | "bsetitem" -> let (r, t) = parse_ref rest in let (a, t) = parse_value t in let (b, _) = parse_value t in BSetItem (r, a, b)
     | "bclone" -> let (r, _) = parse_ref rest in BClone r
     | "blen" -> let (r, _) = parse_ref rest in BLen r
     | "bconcat" -> let (r, t) = parse_ref rest in let (r2, _) = parse_ref t in BConcat (r, r2)
     | _ -> raise (Bad ("unknown op " ^ name)))

let run_bytes (use_ref : bool) (ops : bop list) : string =
  let buf = Buffer.create 256 in
  let first = ref true in
  let emit out state =
    if not !first then Buffer.add_string buf " ;; ";
    first := false;
    Buffer.add_string buf (show_outcome out); Buffer.add_string buf " # ";
    Buffer.add_string buf (String.concat " , " (List.map (fun l -> "b=" ^ hex_of_bytes l) state)) in
  if use_ref then begin
    let st = ref [] in
    List.iter (fun o -> let (s', outs) = rbrun !st [o] in st := s'; emit (List.hd outs) s') ops
  end else begin
    let st = ref { b_heap = []; b_objs = [] } in
    List.iter (fun o -> let (s', outs) = brun !st [o] in st := s'; emit (List.hd outs) (babs s')) ops
  end;
  Buffer.contents buf

let run_string (toks : string list) : string =
  match toks with
  | name :: rest ->
    let (sv, rest) = parse_value rest in
    let s = (match sv with VStr s -> s | _ -> raise (Bad "string expected")) in
    let r = (match name with
        | "get" -> let (k, _) = parse_value rest in
          (match str_get s k with Ok v -> "V " ^ show v | Er e -> "E" ^ err_name e)
        | "slice" -> let (a, t) = parse_opt rest in let (b, _) = parse_opt t in
          (match str_slice s a b with Ok v -> "V " ^ show v | Er e -> "E" ^ err_name e)
        | "len" -> "V i" ^ Int64.to_string (int64_of_z (str_len s))
        | _ -> raise (Bad "unknown string op")) in
    r ^ " # " ^ show sv
  | [] -> raise (Bad "empty")

let () =
  let use_ref = Array.length Sys.argv > 1 && Sys.argv.(1) = "ref" in
  let out = Buffer.create (1 lsl 16) in
  let flush_out () = print_string (Buffer.contents out); Buffer.clear out in
  (try
     while true do
       let line = input_line stdin in
       if line <> "" then begin
         let res =
           try
             let i1 = String.index line ' ' in
             let i2 = String.index_from line (i1 + 1) ' ' in
             let kind = String.sub line 0 i1 in
             let rest = String.sub line (i2 + 1) (String.length line - i2 - 1) in
             (match kind with
              | "Q" -> run_store use_ref (List.map parse_op (split_ops rest))
              | "B" -> run_bytes use_ref (List.map parse_bop (split_ops rest))
              | "X" -> run_string (List.filter (fun s -> s <> "") (String.split_on_char ' ' rest))
              | _ -> "BADCASE kind")
           with Bad m -> "BADCASE " ^ m
              | Failure m -> "BADCASE " ^ m
              | Not_found -> "BADCASE short" in
         Buffer.add_string out res; Buffer.add_char out '\n';
         if Buffer.length out > 60000 then flush_out ()
       end
     done
   with End_of_file -> ());
  flush_out ()
