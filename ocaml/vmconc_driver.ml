(* model-side driver for C06: per line "id instant(E|M|P) config <shape in prefix form>";
   prints id \t complete states results stuck maxsteps   (results: comma-separated nil/ctx/ctxtext/waiterr/nilhalt) *)
open Vmconc_model

let rec nat_of_int n = if n <= 0 then O else S (nat_of_int (n-1))
let rec int_of_nat = function O -> 0 | S n -> 1 + int_of_nat n

let toks = ref [||] and pos = ref 0
let next () = let t = !toks.(!pos) in incr pos; t
let nexti () = int_of_string (next ())

let blk () = match next () with
  | "recv" -> BRecv | "send" -> BSend | "recvm" -> BRecvM | "next" -> BNext | "sleep" -> BSleep | "wait" -> BWait
  | t -> failwith ("bad blk " ^ t)
let cbk () = match next () with
  | "each" -> CbEach | "map" -> CbMap | "filter" -> CbFilter | "sorted" -> CbSorted | "call" -> CbCall | "try" -> CbTry
  | t -> failwith ("bad cbk " ^ t)

let rec shape () =
  match next () with
  | "K" -> Skip
  | "T" -> Tick
  | "M" -> Mark
  | "B" -> Block (blk ())
  | "S" -> let a = shape () in let b = shape () in Seq (a, b)
  | "F" -> Forever (shape ())
  | "C" -> let c = cbk () in let n = nexti () in let b = shape () in Callback (c, nat_of_int n, b)
  | "W" -> Spawn (shape ())
  | "D" -> let d = nexti () in let b = shape () in Deep (nat_of_int d, b)
  | t -> failwith ("bad shape token " ^ t)

let ecls = function ECtx -> "ctx" | ECtxText -> "ctxtext" | EWait -> "waiterr" | ENilHalt -> "nilhalt"
let tres = function TOk -> "nil" | TErr e -> ecls e

let () =
  try while true do
    let line = input_line stdin in
    toks := Array.of_list (List.filter (fun s -> s <> "") (String.split_on_char ' ' line));
    pos := 0;
    let id = next () in
    let inst = (match next () with "E" -> IEarly | "M" -> IMarked | "P" -> IMainParked | t -> failwith ("bad instant " ^ t)) in
    let k = (match next () with
      | "current" -> k_current | "noclone" -> k_noclone | "textual" -> k_textual
      | "tryrecovers" -> k_tryrecovers | "wakesilent" -> k_wakesilent | t -> failwith ("bad config " ^ t)) in
    let s = shape () in
    let v = analyse k inst s in
    Printf.printf "%s\t%b\t%d\t%s\t%b\t%d\n" id v.v_complete (int_of_nat v.v_states)
      (String.concat "," (List.map tres v.v_results)) v.v_stuck (int_of_nat v.v_live_after_flag)
  done with End_of_file -> ()
