(* model-side driver for C10: line protocol, one case per line (fields separated by TAB)
     seq    <cap> <ops>                      single-goroutine history: s<v> | r | i | c | k | m  (comma separated)
                                             i = one range step (Take; Fin), k = keys(ch), m = map(ch) (Take; Fin to the end)
     accept <progs> <logs>                   observed per-receiver logs against the acceptor
     reach  <cap> <progs> <kinds>            all outcomes of the fixed protocol (senders, closer, receivers)
                                             kinds: r = receive loop, i = range loop (Take), p = Next/Entry protocol loop
     spawn  <copy> <vals> <args> <assigns> <pokes> <kind> <nwait>
   progs: senders separated by ';', values by ','.   logs: receivers by ';', entries i:v by ','. *)
open Chan_model

let rec pos_of_int (i : int) : positive =
  if i = 1 then XH
  else if i land 1 = 0 then XO (pos_of_int (i lsr 1))
  else XI (pos_of_int (i lsr 1))
let n_of_int (i : int) : n = if i = 0 then N0 else Npos (pos_of_int i)
let rec int_of_pos = function
  | XH -> 1
  | XO p -> 2 * int_of_pos p
  | XI p -> 2 * int_of_pos p + 1
let int_of_n = function N0 -> 0 | Npos p -> int_of_pos p
let rec nat_of_int (i : int) : nat = if i <= 0 then O else S (nat_of_int (i - 1))
let rec int_of_nat = function O -> 0 | S k -> 1 + int_of_nat k

let split c s = if s = "" then [] else String.split_on_char c s

let parse_progs (s : string) : n list list =
  List.map (fun p -> List.map (fun v -> n_of_int (int_of_string v)) (split ',' p)) (String.split_on_char ';' s)

let parse_logs (s : string) : (nat * n) list list =
  List.map (fun p ->
      List.map (fun e -> match String.split_on_char ':' e with
          | [i; v] -> (nat_of_int (int_of_string i), n_of_int (int_of_string v))
          | _ -> failwith "bad log entry") (split ',' p))
    (String.split_on_char ';' s)

let prog_fun (progs : n list list) : nat -> n list =
  fun i -> match List.nth_opt progs (int_of_nat i) with Some l -> l | None -> []

let ev_str (e : ev) : string =
  match e with
  | EvSent (_, _) -> "sent"
  | EvSendClosed _ -> "sendclosed"
  | EvRecv (_, (_, v)) -> Printf.sprintf "recv:%d" (int_of_n v)
  | EvRecvNil _ -> "nil"
  | EvNext _ -> "next"
  | EvTaken _ -> "taken"
  | EvStore _ -> "store"
  | EvCount _ -> "count"
  | EvIterEnd _ -> "end"
  | EvEntry (_, k, (_, v)) -> Printf.sprintf "entry:%d:%d" (int_of_nat k) (int_of_n v)
  | EvClosed _ -> "closed"
  | EvCloseErr _ -> "closeerr"
  | EvCancel -> "cancel"
  | EvSendCtx _ -> "sendctx"
  | EvRecvCtx _ -> "recvctx"
  | EvIterCtx _ -> "iterctx"

(* ---- seq *)
let do_seq cap ops =
  let ops = split ',' ops in
  let vals = List.filter_map (fun o -> if String.length o > 0 && o.[0] = 's'
                               then Some (n_of_int (int_of_string (String.sub o 1 (String.length o - 1)))) else None) ops in
  let s = ref (chan_init (nat_of_int cap) (fun i -> match i with O -> vals | _ -> [])) in
  let out = ref [] in
  let blocked = ref false in
  let stepa a =
    match chan_seq_step !s a with
    | Some (s', e) -> s := s'; Some e
    | None -> blocked := true; None in
  (try
     List.iter (fun o ->
         if !blocked then raise Exit;
         match o.[0] with
         | 's' -> (match stepa (Send O) with Some e -> out := ev_str e :: !out | None -> ())
         | 'r' -> (match stepa (Recv O) with Some e -> out := ev_str e :: !out | None -> ())
         | 'c' -> (match stepa (Close O) with Some e -> out := ev_str e :: !out | None -> ())
         | 'i' -> (match stepa (Take O) with
             | Some (EvTaken _) -> (match stepa (Fin O) with Some e -> out := ev_str e :: !out | None -> ())
             | Some e -> out := ev_str e :: !out
             | None -> ())
         | 'k' | 'm' ->
           (* keys(ch) / map(ch): Take; Fin (object.IterNextEntry) until Take reports the end *)
           let acc = ref [] in
           let fin = ref false in
           while not !fin && not !blocked do
             match stepa (Take O) with
             | Some (EvTaken _) ->
               (match stepa (Fin O) with
                | Some (EvEntry (_, k, (_, v))) ->
                  acc := (if o.[0] = 'k' then string_of_int (int_of_nat k)
                          else Printf.sprintf "%d=%d" (int_of_nat k) (int_of_n v)) :: !acc
                | _ -> ())
             | Some (EvIterEnd _) -> fin := true
             | _ -> ()
           done;
           if not !blocked then
             out := ((if o.[0] = 'k' then "keys:" else "map:") ^ String.concat "|" (List.rev !acc)) :: !out
         | _ -> failwith "bad op") ops
   with Exit -> ());
  String.concat "," (List.rev (if !blocked then "BLOCK" :: !out else !out))

(* ---- accept *)
let do_accept progs logs =
  let p = parse_progs progs and l = parse_logs logs in
  Printf.sprintf "accept=%d weak=%d" (if chan_accept p l then 1 else 0) (if chan_weak_accept p l then 1 else 0)

(* ---- reach: exhaustive exploration of the protocol
   sender i sends its program; the closer closes once every sender is done; receiver j of kind 'r' receives
   until nil, of kind 'i' ranges until the loop ends *)
let do_reach cap progs kinds =
  let progs = parse_progs progs in
  let ns = List.length progs and nr = String.length kinds in
  let s0 = chan_init (nat_of_int cap) (prog_fun progs) in
  let key (s : st) (fin : bool array) =
    let b = Buffer.create 64 in
    List.iter (fun (i, v) -> Buffer.add_string b (Printf.sprintf "%d.%d," (int_of_nat i) (int_of_n v))) s.buf;
    Buffer.add_char b '|'; Buffer.add_char b (if s.closed then 'C' else 'o');
    for i = 0 to ns - 1 do Buffer.add_string b (Printf.sprintf "t%d" (List.length (s.todo (nat_of_int i)))) done;
    Buffer.add_char b '|';
    List.iter (fun e -> match e with
        | EvRecv (j, (_, v)) -> Buffer.add_string b (Printf.sprintf "r%d:%d," (int_of_nat j) (int_of_n v))
        | EvEntry (j, k, (_, v)) -> Buffer.add_string b (Printf.sprintf "e%d:%d:%d," (int_of_nat j) (int_of_nat k) (int_of_n v))
        | _ -> ()) s.seen;
    Buffer.add_char b '|';
    (match s.last with Some (_, v) -> Buffer.add_string b (string_of_int (int_of_n v)) | None -> ());
    Buffer.add_string b (Printf.sprintf "|%d|" (int_of_nat s.rxcount));
    List.iter (fun (j, ph, v) -> Buffer.add_string b (Printf.sprintf "%d%s%d," j ph v))
      (List.sort compare (List.map (fun (j, (ph, (_, v))) ->
           (int_of_nat j, (match ph with Taken -> "t" | Got -> "g" | Stored -> "s" | Counted -> "c"), int_of_n v)) s.iters));
    Array.iter (fun f -> Buffer.add_char b (if f then 'F' else '-')) fin;
    Buffer.contents b in
  let niter = ref 0 in
  String.iter (fun c -> if c = 'p' then incr niter) kinds;
  let keyed = !niter <= 1 in   (* keys of overlapping iterations are a racy read-modify-write: not compared *)
  let outcome (s : st) =
    let per = Array.make nr [] in
    List.iter (fun e -> match e with
        | EvRecv (j, (_, v)) -> let j = int_of_nat j in per.(j) <- string_of_int (int_of_n v) :: per.(j)
        | EvEntry (j, k, (_, v)) -> let j = int_of_nat j in
          per.(j) <- (if keyed then Printf.sprintf "%d:%d" (int_of_nat k) (int_of_n v)
                      else Printf.sprintf "_:%d" (int_of_n v)) :: per.(j)
        | _ -> ()) s.seen;
    String.concat ";" (Array.to_list (Array.map (fun l -> String.concat "," (List.rev l)) per)) in
  let visited = Hashtbl.create 4096 in
  let outcomes = Hashtbl.create 256 in
  let states = ref 0 and transitions = ref 0 in
  let rec dfs (s : st) (fin : bool array) =
    let k = key s fin in
    if not (Hashtbl.mem visited k) then begin
      Hashtbl.add visited k (); incr states;
      if Array.for_all (fun f -> f) fin then Hashtbl.replace outcomes (outcome s) ()
      else begin
        let try_act a onev =
          match chan_step s a with
          | Some (s', e) -> incr transitions; let fin' = Array.copy fin in onev e fin'; dfs s' fin'
          | None -> () in
        for i = 0 to ns - 1 do try_act (Send (nat_of_int i)) (fun _ _ -> ()) done;
        let all_sent = ref true in
        for i = 0 to ns - 1 do if s.todo (nat_of_int i) <> [] then all_sent := false done;
        if !all_sent && not s.closed then try_act (Close O) (fun _ _ -> ());
        for j = 0 to nr - 1 do
          if not fin.(j) then begin
            let nj = nat_of_int j in
            if kinds.[j] = 'r' then
              try_act (Recv nj) (fun e f -> match e with EvRecvNil _ -> f.(j) <- true | _ -> ())
            else if kinds.[j] = 'i' then
              (match List.assoc_opt nj s.iters with
               | Some (Taken, _) -> try_act (Fin nj) (fun _ _ -> ())
               | _ -> try_act (Take nj) (fun e f -> match e with EvIterEnd _ -> f.(j) <- true | _ -> ()))
            else match List.assoc_opt nj s.iters with
              | Some (Taken, _) -> ()
              | Some (Got, _) -> try_act (Store nj) (fun _ _ -> ())
              | Some (Stored, _) -> try_act (Count nj) (fun _ _ -> ())
              | Some (Counted, _) -> try_act (Entry nj) (fun _ _ -> ())
              | None -> try_act (Next nj) (fun e f -> match e with EvIterEnd _ -> f.(j) <- true | _ -> ())
          end
        done
      end
    end in
  dfs s0 (Array.make nr false);
  let outs = List.sort compare (Hashtbl.fold (fun k () acc -> k :: acc) outcomes []) in
  Printf.sprintf "states=%d transitions=%d outcomes=%d\t%s" !states !transitions (List.length outs) (String.concat " | " outs)

(* ---- spawn *)
let parse_pairs s = List.map (fun e -> match String.split_on_char ':' e with
    | [a; b] -> (nat_of_int (int_of_string a), n_of_int (int_of_string b)) | _ -> failwith "bad pair") (split ',' s)

let res_str = function
  | None -> "gonil"
  | Some (RVal l) -> "val(" ^ String.concat "," (List.map (fun v -> string_of_int (int_of_n v)) l) ^ ")"
  | Some (RErr (ERaised c)) -> Printf.sprintf "raised(%d)" (int_of_n c)
  | Some (RErr (EPanic c)) -> Printf.sprintf "panic(%d)" (int_of_n c)
  | Some (RErr EWaitCtx) -> "waitctx"

let do_spawn cp vals args assigns pokes kind nwait =
  let kind = match String.split_on_char ':' kind with
    | ["ret"] -> KReturnArgs
    | ["raise"; c] -> KRaise (n_of_int (int_of_string c))
    | ["panic"; c] -> KPanic (n_of_int (int_of_string c))
    | _ -> failwith "bad kind" in
  let sc = { sc_vals = List.map (fun v -> n_of_int (int_of_string v)) (split ',' vals);
             sc_args = List.map (fun v -> nat_of_int (int_of_string v)) (split ',' args);
             sc_assigns = parse_pairs assigns; sc_pokes = parse_pairs pokes; sc_kind = kind;
             sc_nwait = nat_of_int nwait } in
  match spawn_predict (cp = "1") sc with
  | None -> "NONE"
  | Some (params, waits) ->
    Printf.sprintf "params=%s waits=%s" (String.concat "," (List.map (fun v -> string_of_int (int_of_n v)) params))
      (String.concat "|" (List.map (fun (k, r) -> Printf.sprintf "%d:%s" (int_of_nat k) (res_str r)) waits))

let () =
  (try
     while true do
       let line = input_line stdin in
       let f = Array.of_list (String.split_on_char '\t' line) in
       let get i = if i < Array.length f then f.(i) else "" in
       let r =
         try
           match f.(0) with
           | "seq" -> do_seq (int_of_string f.(1)) (get 2)
           | "accept" -> do_accept (get 1) (get 2)
           | "reach" -> do_reach (int_of_string f.(1)) (get 2) (get 3)
           | "spawn" -> do_spawn (get 1) (get 2) (get 3) (get 4) (get 5) (get 6) (int_of_string (get 7))
           | _ -> "BADCMD"
         with Failure m -> "FAIL " ^ m | Not_found -> "FAIL notfound" | Invalid_argument m -> "FAIL " ^ m in
       print_string r; print_char '\n'; flush stdout
     done
   with End_of_file -> ())
