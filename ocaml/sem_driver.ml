open Sem_model

(* ---- number conversions ---- *)
let rec pos_of_int (i : int) : positive =
  if i = 1 then XH else if i land 1 = 0 then XO (pos_of_int (i lsr 1)) else XI (pos_of_int (i lsr 1))
let n_of_int (i : int) : n = if i = 0 then N0 else Npos (pos_of_int i)
let rec int_of_pos = function XH -> 1 | XO p -> 2 * int_of_pos p | XI p -> 2 * int_of_pos p + 1
let int_of_n = function N0 -> 0 | Npos p -> int_of_pos p
let rec nat_of_int i = if i = 0 then O else S (nat_of_int (i - 1))

(* arbitrary precision decimal <-> positive, via Z arithmetic on strings (values fit in int64/uint64) *)
let pos_of_decimal (s : string) : positive =
  (* s is a decimal string of a positive number up to 2^64 *)
  let bits = ref [] in
  let digits = Array.init (String.length s) (fun i -> Char.code s.[i] - 48) in
  let is_zero () = Array.for_all (fun d -> d = 0) digits in
  while not (is_zero ()) do
    let carry = ref 0 in
    for i = 0 to Array.length digits - 1 do
      let v = !carry * 10 + digits.(i) in
      digits.(i) <- v / 2; carry := v mod 2
    done;
    bits := !carry :: !bits
  done;
  (* bits: most significant first *)
  match !bits with
  | [] -> XH
  | _ :: rest -> List.fold_left (fun acc b -> if b = 1 then XI acc else XO acc) XH rest

let z_of_decimal (s : string) : z =
  if s = "0" || s = "-0" then Z0
  else if s.[0] = '-' then Zneg (pos_of_decimal (String.sub s 1 (String.length s - 1)))
  else Zpos (pos_of_decimal s)

let decimal_of_pos (p : positive) : string =
  (* repeated doubling on a decimal digit array *)
  let rec bits p acc = match p with XH -> 1 :: acc | XO q -> bits q (0 :: acc) | XI q -> bits q (1 :: acc) in
  let bs = bits p [] in
  let digits = ref [0] in
  List.iter (fun b ->
      let carry = ref b in
      digits := List.rev (List.map (fun d -> let v = d * 2 + !carry in carry := v / 10; v mod 10) (List.rev !digits));
      if !carry > 0 then digits := !carry :: !digits) bs;
  String.concat "" (List.map string_of_int !digits)

let decimal_of_z = function Z0 -> "0" | Zpos p -> decimal_of_pos p | Zneg p -> "-" ^ decimal_of_pos p

let bytes_of_hex (s : string) : n list =
  List.init (String.length s / 2) (fun i -> n_of_int (int_of_string ("0x" ^ String.sub s (2 * i) 2)))
let hex_of_bytes (l : n list) : string =
  String.concat "" (List.map (fun c -> Printf.sprintf "%02x" (int_of_n c)) l)

(* ---- s-expressions ---- *)
type sx = A of string | L of sx list

let parse_sx (s : string) : sx =
  let n = String.length s in
  let pos = ref 0 in
  let rec skip () = while !pos < n && s.[!pos] = ' ' do incr pos done in
  let rec item () : sx =
    skip ();
    if s.[!pos] = '(' then begin
      incr pos;
      let items = ref [] in
      skip ();
      while s.[!pos] <> ')' do items := item () :: !items; skip () done;
      incr pos; L (List.rev !items)
    end else begin
      let st = !pos in
      while !pos < n && s.[!pos] <> ' ' && s.[!pos] <> ')' && s.[!pos] <> '(' do incr pos done;
      A (String.sub s st (!pos - st))
    end in
  ignore skip; item ()

let hx = function A s when String.length s >= 2 && String.sub s 0 2 = "h:" -> bytes_of_hex (String.sub s 2 (String.length s - 2))
                | _ -> failwith "hex expected"
let zi = function A s when String.length s >= 2 && String.sub s 0 2 = "i:" -> z_of_decimal (String.sub s 2 (String.length s - 2))
                | _ -> failwith "int expected"
let bl = function A "#t" -> true | A "#f" -> false | _ -> failwith "bool expected"

let rec node (x : sx) : node =
  match x with
  | L [A "nil"] -> NNil
  | L [A "int"; z] -> NInt (zi z)
  | L [A "float"; z] -> NFloat (zi z)
  | L [A "bool"; b] -> NBool (bl b)
  | L [A "str"; v; A "_"] -> NString (hx v, None)
  | L [A "str"; v; L (A "frags" :: fs)] -> NString (hx v, Some (List.map frag fs))
  | L [A "ident"; nm] -> NIdent (hx nm)
  | L [A "prefix"; op; r] -> NPrefix (hx op, node r)
  | L [A "infix"; op; l; r] -> NInfix (hx op, node l, node r)
  | L [A "if"; c; t; e] -> NIf (node c, blk t, optblk e)
  | L [A "tern"; c; t; e] -> NTernary (node c, node t, node e)
  | L [A "call"; f; L (A "args" :: args)] -> NCall (node f, List.map node args)
  | L [A "getattr"; o; nm] -> NGetAttr (node o, hx nm)
  | L (A "pipe" :: es) -> NPipe (List.map node es)
  | L [A "ocall"; o; nm; L (A "args" :: args)] -> NObjectCall (node o, hx nm, List.map node args)
  | L [A "index"; l; i] -> NIndex (node l, node i)
  | L [A "slice"; l; f; t] -> NSlice (node l, opt f, opt t)
  | L (A "switch" :: v :: cases) -> NSwitch (node v, List.map scase cases)
  | L [A "in"; l; r] -> NIn (node l, node r)
  | L [A "notin"; l; r] -> NNotIn (node l, node r)
  | L [A "range"; c] -> NRange (node c)
  | L [A "recv"; c] -> NReceive (node c)
  | L [A "func"; nm; L (A "params" :: ps); L (A "defaults" :: ds); b] ->
      NFunc ((match nm with A "_" -> None | _ -> Some (hx nm)), List.map hx ps,
             List.map (function L [k; v] -> (hx k, node v) | _ -> failwith "default") ds, blk b)
  | L (A "list" :: es) -> NList (List.map node es)
  | L (A "set" :: es) -> NSet (List.map node es)
  | L (A "map" :: kvs) -> NMap (List.map (function L [k; v] -> (node k, node v) | _ -> failwith "kv") kvs)
  | L [A "var"; nm; v] -> NVar (hx nm, node v)
  | L [A "mvar"; L (A "names" :: ns); v; w] -> NMultiVar (List.map hx ns, node v, bl w)
  | L [A "const"; nm; v] -> NConst (hx nm, node v)
  | L [A "break"] -> NBreak
  | L [A "continue"] -> NContinue
  | L [A "return"; v] -> NReturn (opt v)
  | L [A "for"; c; i; p; b] -> NFor (opt c, opt i, opt p, blk b)
  | L [A "forin"; v; it; b] -> NForIn (hx v, node it, blk b)
  | L [A "assign"; nm; op; v] -> NAssign (hx nm, hx op, node v)
  | L [A "assignidx"; l; i; op; v] -> NAssignIndex (node l, node i, hx op, node v)
  | L [A "import"; p; a] -> NImport (hx p, (match a with A "_" -> None | _ -> Some (hx a)))
  | L [A "fromimport"; L (A "parents" :: ps); L (A "imports" :: is)] ->
      NFromImport (List.map hx ps, List.map (function L [p; A "_"] -> (hx p, None) | L [p; a] -> (hx p, Some (hx a)) | _ -> failwith "imp") is)
  | L [A "postfix"; nm; op] -> NPostfix (hx nm, hx op)
  | L [A "setattr"; o; nm; op; v] -> NSetAttr (node o, hx nm, hx op, node v)
  | L [A "go"; c] -> NGo (node c)
  | L [A "defer"; c] -> NDefer (node c)
  | L [A "send"; c; v] -> NSend (node c, node v)
  | _ -> failwith "unknown node"
and opt = function A "_" -> None | x -> Some (node x)
and blk = function L (A "blk" :: ss) -> List.map node ss | _ -> failwith "blk"
and optblk = function A "_" -> None | x -> Some (blk x)
and frag = function
  | L [A "text"; s] -> FText (hx s)
  | L [A "var"; A "_"] -> FVar None
  | L [A "var"; e] -> FVar (Some (node e))
  | _ -> failwith "frag"
and scase = function
  | L [A "case"; d; L (A "exprs" :: es); b] -> SCase (bl d, List.map node es, optblk b)
  | _ -> failwith "case"


let rec value (st : state) (depth : int) (v : value) : string =
  if depth > 20 then "(deep)" else
  match v with
  | VNil -> "(nil)"
  | VBool b -> if b then "(b 1)" else "(b 0)"
  | VInt z -> "(i " ^ decimal_of_z z ^ ")"
  | VStr s -> "(s " ^ hex_of_bytes s ^ ")"
  | VList l -> let items = List.nth st.lists (int_of_nat l) in
      "(l" ^ String.concat "" (List.map (fun x -> " " ^ value st (depth + 1) x) items) ^ ")"
  | VMap l -> let items = List.nth st.maps (int_of_nat l) in
      "(m" ^ String.concat "" (List.map (fun (k, x) -> " (" ^ hex_of_bytes k ^ " " ^ value st (depth + 1) x ^ ")") items) ^ ")"
  | VClosure _ -> "(f)"
  | VBuiltin _ -> "(bi)"
  | VMethod (_, _) -> "(bi)"
  | VErrorV _ -> "(e)"
and int_of_nat = function O -> 0 | S n -> 1 + int_of_nat n

let errk_name = function
  | XType -> "XType" | XIndex -> "XIndex" | XKey -> "XKey" | XArgs -> "XArgs" | XDiv0 -> "XDiv0"
  | XSlice -> "XSlice" | XUnpack -> "XUnpack" | XNotCallable -> "XNotCallable" | XUndefined -> "XUndefined"
  | XUser -> "XUser" | XAttr -> "XAttr" | XUnsupported -> "UNSUPPORTED" | XFuel -> "FUEL"

let trace st = String.concat "" (List.map (fun args -> "(" ^ String.concat " " (List.map (value st 0) args) ^ ")") st.trace)

exception Budget

let () =
  let fuel = nat_of_int (try int_of_string (Sys.getenv "SEM_FUEL") with Not_found -> 800) in
  let budget = (try int_of_string (Sys.getenv "SEM_BUDGET_S") with Not_found -> 30) in
  Sys.set_signal Sys.sigalrm (Sys.Signal_handle (fun _ -> raise Budget));
  try
    while true do
      let line = input_line stdin in
      if String.length line < 5 || String.sub line 0 5 <> "(prog" then print_endline ("SKIP " ^ line)
      else begin
        match parse_sx line with
        | L (A "prog" :: stmts) ->
            (match (try Some (List.map node stmts) with Failure _ -> None) with
             | None -> print_endline "UNSUPPORTED ast"
             | Some ns ->
                 (* nested loops that never end cost fuel^depth steps: a wall-clock budget per program; a program
                    that exceeds it is not an observation (SKIP), exactly like a timeout on the implementation's side *)
                 (match (try ignore (Unix.alarm budget); let r = run fuel ns in ignore (Unix.alarm 0); Some r
                         with Budget -> None) with
                  | None -> print_endline "SKIP time-budget"
                  | Some (OVal v, st) -> print_endline ("OK " ^ value st 0 v ^ " TRACE " ^ trace st)
                  | Some (OErr k, st) -> print_endline ("ERR " ^ errk_name k ^ " TRACE " ^ trace st)
                  | Some (OBrk, _) | Some (OCont, _) -> print_endline "ERR ctl"
                  | Some (ORet v, st) -> print_endline ("ERR ret")))
        | _ -> print_endline "BADINPUT"
      end
    done
  with End_of_file -> ()
