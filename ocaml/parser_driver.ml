open Parser_model

let rec pos_of_int (i : int) : positive =
  if i = 1 then XH else if i land 1 = 0 then XO (pos_of_int (i lsr 1)) else XI (pos_of_int (i lsr 1))
let n_of_int (i : int) : n = if i = 0 then N0 else Npos (pos_of_int i)
let rec int_of_pos = function XH -> 1 | XO p -> 2 * int_of_pos p | XI p -> 2 * int_of_pos p + 1
let int_of_n = function N0 -> 0 | Npos p -> int_of_pos p
let rec nat_of_int i = if i = 0 then O else S (nat_of_int (i - 1))
let rec int_of_nat = function O -> 0 | S n -> 1 + int_of_nat n

let decimal_of_pos (p : positive) : string =
  let rec bits p acc = match p with XH -> 1 :: acc | XO q -> bits q (0 :: acc) | XI q -> bits q (1 :: acc) in
  let bs = bits p [] in
  let digits = ref [0] in
  List.iter (fun b ->
      let carry = ref b in
      digits := List.rev (List.map (fun d -> let v = d * 2 + !carry in carry := v / 10; v mod 10) (List.rev !digits));
      if !carry > 0 then digits := !carry :: !digits) bs;
  String.concat "" (List.map string_of_int !digits)
let decimal_of_z = function Z0 -> "0" | Zpos p -> decimal_of_pos p | Zneg p -> "-" ^ decimal_of_pos p

let h (l : n list) : string = "h:" ^ String.concat "" (List.map (fun c -> Printf.sprintf "%02x" (int_of_n c)) l)

let rec node (x : node) : string =
  match x with
  | NNil -> "(nil)"
  | NInt z -> "(int i:" ^ decimal_of_z z ^ ")"
  | NFloat z -> "(float i:" ^ decimal_of_z z ^ ")"
  | NFloatText l -> "(floatlit " ^ h l ^ ")"
  | NTypedNilReturn -> "(typednil)"
  | NBool b -> if b then "(bool #t)" else "(bool #f)"
  | NString (v, None) -> "(str " ^ h v ^ " _)"
  | NString (v, Some fs) -> "(str " ^ h v ^ " (frags" ^ String.concat "" (List.map (fun f -> " " ^ frag f) fs) ^ "))"
  | NIdent nm -> "(ident " ^ h nm ^ ")"
  | NPrefix (op, r) -> "(prefix " ^ h op ^ " " ^ node r ^ ")"
  | NInfix (op, l, r) -> "(infix " ^ h op ^ " " ^ node l ^ " " ^ node r ^ ")"
  | NIf (c, t, e) -> "(if " ^ node c ^ " " ^ blk t ^ optblk e ^ ")"
  | NTernary (c, t, e) -> "(tern " ^ node c ^ " " ^ node t ^ " " ^ node e ^ ")"
  | NCall (f, args) -> "(call " ^ node f ^ " (args" ^ nodes args ^ "))"
  | NGetAttr (o, nm) -> "(getattr " ^ node o ^ " " ^ h nm ^ ")"
  | NPipe es -> "(pipe" ^ nodes es ^ ")"
  | NObjectCall (o, nm, args) -> "(ocall " ^ node o ^ " " ^ h nm ^ " (args" ^ nodes args ^ "))"
  | NIndex (l, i) -> "(index " ^ node l ^ " " ^ node i ^ ")"
  | NSlice (l, f, t) -> "(slice " ^ node l ^ opt f ^ opt t ^ ")"
  | NSwitch (v, cases) -> "(switch " ^ node v ^ String.concat "" (List.map (fun c -> " " ^ scase c) cases) ^ ")"
  | NIn (l, r) -> "(in " ^ node l ^ " " ^ node r ^ ")"
  | NNotIn (l, r) -> "(notin " ^ node l ^ " " ^ node r ^ ")"
  | NRange c -> "(range " ^ node c ^ ")"
  | NReceive c -> "(recv " ^ node c ^ ")"
  | NFunc (nm, ps, ds, b) ->
      let ds = List.sort compare (List.map (fun (k, v) -> (h k, v)) ds) in
      "(func" ^ (match nm with None -> " _" | Some n -> " " ^ h n) ^ " (params" ^ String.concat "" (List.map (fun p -> " " ^ h p) ps)
      ^ ") (defaults" ^ String.concat "" (List.map (fun (k, v) -> " (" ^ k ^ " " ^ node v ^ ")") ds) ^ ") " ^ blk b ^ ")"
  | NList es -> "(list" ^ nodes es ^ ")"
  | NSet es -> "(set" ^ nodes es ^ ")"
  | NMap kvs ->
      (* the Go map keeps one entry per distinct key NODE (pointer identity), so all pairs are kept *)
      let ps = List.map (fun (k, v) -> "(" ^ node k ^ " " ^ node v ^ ")") kvs in   (* source order *)
      "(map" ^ String.concat "" (List.map (fun p -> " " ^ p) ps) ^ ")"
  | NVar (nm, v) -> "(var " ^ h nm ^ " " ^ node v ^ ")"
  | NMultiVar (ns, v, w) -> "(mvar (names" ^ String.concat "" (List.map (fun p -> " " ^ h p) ns) ^ ") " ^ node v ^ (if w then " #t)" else " #f)")
  | NConst (nm, v) -> "(const " ^ h nm ^ " " ^ node v ^ ")"
  | NBreak -> "(break)"
  | NContinue -> "(continue)"
  | NReturn v -> "(return" ^ opt v ^ ")"
  | NFor (c, i, p, b) -> "(for" ^ opt c ^ opt i ^ opt p ^ " " ^ blk b ^ ")"
  | NForIn (v, it, b) -> "(forin " ^ h v ^ " " ^ node it ^ " " ^ blk b ^ ")"
  | NAssign (nm, op, v) -> "(assign " ^ h nm ^ " " ^ h op ^ " " ^ node v ^ ")"
  | NAssignIndex (l, i, op, v) -> "(assignidx " ^ node l ^ " " ^ node i ^ " " ^ h op ^ " " ^ node v ^ ")"
  | NImport (p, a) -> "(import " ^ h p ^ (match a with None -> " _)" | Some x -> " " ^ h x ^ ")")
  | NFromImport (ps, is) ->
      "(fromimport (parents" ^ String.concat "" (List.map (fun p -> " " ^ h p) ps) ^ ") (imports"
      ^ String.concat "" (List.map (fun (p, a) -> " (" ^ h p ^ (match a with None -> " _)" | Some x -> " " ^ h x ^ ")")) is) ^ "))"
  | NPostfix (nm, op) -> "(postfix " ^ h nm ^ " " ^ h op ^ ")"
  | NSetAttr (o, nm, op, v) -> "(setattr " ^ node o ^ " " ^ h nm ^ " " ^ h op ^ " " ^ node v ^ ")"
  | NGo c -> "(go " ^ node c ^ ")"
  | NDefer c -> "(defer " ^ node c ^ ")"
  | NSend (c, v) -> "(send " ^ node c ^ " " ^ node v ^ ")"
and nodes l = String.concat "" (List.map (fun x -> " " ^ node x) l)
and opt = function None -> " _" | Some x -> " " ^ node x
and blk l = "(blk" ^ nodes l ^ ")"
and optblk = function None -> " _" | Some b -> " " ^ blk b
and frag = function FText s -> "(text " ^ h s ^ ")" | FVar None -> "(var _)" | FVar (Some e) -> "(var " ^ node e ^ ")"
and scase = function SCase (d, es, b) -> "(case " ^ (if d then "#t" else "#f") ^ " (exprs" ^ nodes es ^ ")" ^ optblk b ^ ")"

let lexerr_name = function
  | EUnexpectedChar _ -> "S_UnexpectedChar" | EUnterminatedString -> "S_UnterminatedString"
  | EInvalidEscape _ -> "S_InvalidEscape" | EUnterminatedEscape -> "S_UnterminatedEscape"
  | EIllegalEscapeChar _ -> "S_IllegalEscapeChar" | EEscapeNotNumber -> "S_EscapeNotNumber"
  | EInvalidDecimal -> "S_InvalidDecimal" | EInvalidIdentifier -> "S_InvalidIdentifier"
  | EUnsupported -> "UNSUPPORTED"

let pk_name = function
  | PK_NoPrefix -> "PK_NoPrefix" | PK_Peek -> "PK_Peek" | PK_FollowingStatement -> "PK_FollowingStatement"
  | PK_MissingValue -> "PK_MissingValue" | PK_InvalidSyntax -> "PK_InvalidSyntax" | PK_ExpectedExpr -> "PK_ExpectedExpr"
  | PK_IllegalToken -> "PK_IllegalToken" | PK_InvalidIdent -> "PK_InvalidIdent" | PK_InvalidInt -> "PK_InvalidInt"
  | PK_InvalidFloat -> "PK_InvalidFloat" | PK_UntermSwitch -> "PK_UntermSwitch" | PK_ExpectedCase -> "PK_ExpectedCase"
  | PK_MultiDefault -> "PK_MultiDefault" | PK_ImportPath -> "PK_ImportPath" | PK_ModulePath -> "PK_ModulePath"
  | PK_FromMissingImport -> "PK_FromMissingImport" | PK_InvalidPrefix -> "PK_InvalidPrefix" | PK_InvalidExpr -> "PK_InvalidExpr"
  | PK_InvalidTernary -> "PK_InvalidTernary" | PK_NestedTernary -> "PK_NestedTernary" | PK_TernTrue -> "PK_TernTrue"
  | PK_TernFalse -> "PK_TernFalse" | PK_ForInIterable -> "PK_ForInIterable" | PK_ForExpr -> "PK_ForExpr"
  | PK_ForSemicolon -> "PK_ForSemicolon" | PK_ForCond -> "PK_ForCond" | PK_ForPost -> "PK_ForPost"
  | PK_UntermBlock -> "PK_UntermBlock" | PK_UntermParams -> "PK_UntermParams" | PK_ExpectedIdentGot -> "PK_ExpectedIdentGot"
  | PK_InvalidGo -> "PK_InvalidGo" | PK_InvalidDefer -> "PK_InvalidDefer" | PK_Template -> "PK_Template"
  | PK_TemplateMulti -> "PK_TemplateMulti" | PK_TemplateStmt -> "PK_TemplateStmt" | PK_ListSyntax -> "PK_ListSyntax"
  | PK_InvalidIndex -> "PK_InvalidIndex" | PK_AssignTarget -> "PK_AssignTarget" | PK_AssignOp -> "PK_AssignOp"
  | PK_AssignValue -> "PK_AssignValue" | PK_InvalidCall -> "PK_InvalidCall" | PK_InvalidPipe -> "PK_InvalidPipe"
  | PK_InvalidIn -> "PK_InvalidIn" | PK_ExpectedIn -> "PK_ExpectedIn" | PK_InvalidNotIn -> "PK_InvalidNotIn"
  | PK_RangeBrace -> "PK_RangeBrace" | PK_InvalidRange -> "PK_InvalidRange" | PK_SetSyntax -> "PK_SetSyntax" | PK_MapSyntax -> "PK_MapSyntax"
  | PK_InvalidAttr -> "PK_InvalidAttr" | PK_ExpectedIdentAfter -> "PK_ExpectedIdentAfter" | PK_SendChannel -> "PK_SendChannel"
  | PK_SendValue -> "PK_SendValue" | PK_InvalidReceive -> "PK_InvalidReceive" | PK_InvalidReturn -> "PK_InvalidReturn" | PK_InvalidCase -> "PK_InvalidCase" | PK_InvalidElseIf -> "PK_InvalidElseIf"

let () =
  let fuel = nat_of_int 400 in
  try
    while true do
      let line = input_line stdin in
      let runes = List.filter_map (fun s -> if s = "" then None else Some (n_of_int (int_of_string s)))
          (String.split_on_char ' ' line) in
      match parse fuel runes with
      | (_, Some e) ->
          let cls = match e.pe_kind with PSyntax le -> lexerr_name le | PParse k -> pk_name k in
          Printf.printf "ERR %s %d %d\n" cls (int_of_nat e.pe_line) (int_of_nat e.pe_col)
      | (Some stmts, None) -> print_endline ("(prog" ^ nodes stmts ^ ")")
      | (None, None) -> print_endline "NONE"
    done
  with End_of_file -> ()
