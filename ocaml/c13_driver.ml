(* model-side driver for C13: same line protocol as harness/cmd/c13obs *)
open Paths_model

let rec pos_of_int (i : int) : positive =
  if i = 1 then XH
  else if i land 1 = 0 then XO (pos_of_int (i lsr 1))
  else XI (pos_of_int (i lsr 1))
let n_of_int (i : int) : n = if i = 0 then N0 else Npos (pos_of_int i)
let rec int_of_pos = function
  | XH -> 1
  | XO p -> 2 * int_of_pos p
  | XI p -> 2 * int_of_pos p + 1
let int_of_n = function N0 -> 0 | Npos p -> int_of_pos p

let to_list (s : string) : n list =
  List.init (String.length s) (fun i -> n_of_int (Char.code s.[i]))
let of_list (l : n list) : string =
  let b = Buffer.create 16 in
  List.iter (fun c -> Buffer.add_char b (Char.chr (int_of_n c))) l;
  Buffer.contents b

let hex_of (s : string) : string =
  let b = Buffer.create (2 * String.length s) in
  String.iter (fun c -> Buffer.add_string b (Printf.sprintf "%02x" (Char.code c))) s;
  Buffer.contents b
let unhex (s : string) : string =
  String.init (String.length s / 2) (fun i -> Char.chr (int_of_string ("0x" ^ String.sub s (2 * i) 2)))

let split_on c s = String.split_on_char c s

let () =
  let mode = Sys.argv.(1) in
  let out = Buffer.create (1 lsl 16) in
  let flush_out () = print_string (Buffer.contents out); Buffer.clear out in
  (try
    match mode with
    | "resolve" ->
      let base = to_list Sys.argv.(2) in
      while true do
        let line = input_line stdin in
        let p = to_list line in
        let c = of_list (cleanN p) in
        let r = match resolveN base p with Ok q -> "OK " ^ of_list (Obj.magic q) | Invalid -> "INVALID" in
        Buffer.add_string out line; Buffer.add_char out '\t'; Buffer.add_string out c;
        Buffer.add_char out '\t'; Buffer.add_string out r; Buffer.add_char out '\n';
        if Buffer.length out > 60000 then flush_out ()
      done
    | "stdin-resolve" ->
      let base = to_list Sys.argv.(2) in
      while true do
        let line = input_line stdin in
        let p = to_list (unhex line) in
        let c = hex_of (of_list (cleanN p)) in
        let r = match resolveN base p with Ok q -> "OK " ^ hex_of (of_list (Obj.magic q)) | Invalid -> "INVALID" in
        Buffer.add_string out line; Buffer.add_char out '\t'; Buffer.add_string out c;
        Buffer.add_char out '\t'; Buffer.add_string out r; Buffer.add_char out '\n';
        if Buffer.length out > 60000 then flush_out ()
      done
    | "mounts" | "stdin-mounts" ->
      let hexmode = (mode = "stdin-mounts") in
      let cwd = to_list Sys.argv.(2) in
      let keys = List.map to_list (split_on ',' Sys.argv.(3)) in
      while true do
        let line = input_line stdin in
        let p = to_list (if hexmode then unhex line else line) in
        let r = match find_mountN cwd keys p with
          | Some (k, rel) -> of_list (Obj.magic k) ^ "\t" ^ of_list (Obj.magic rel)
          | None -> "NONE" in
        Buffer.add_string out line; Buffer.add_char out '\t';
        Buffer.add_string out (if hexmode then hex_of r else r); Buffer.add_char out '\n';
        if Buffer.length out > 60000 then flush_out ()
      done
    | "stdin-two" ->
      (* two-path operations: one pair per line, <hex p1> SP <hex p2>; prints the pair, TAB, NONE | hex(k) : hex(r1) : hex(r2) *)
      let cwd = to_list Sys.argv.(2) in
      let keys = List.map to_list (split_on ',' Sys.argv.(3)) in
      while true do
        let line = input_line stdin in
        (match split_on ' ' line with
         | [a; b] ->
           let r = match mount_twoN cwd keys (to_list (unhex a)) (to_list (unhex b)) with
             | Some ((k, r1), r2) ->
               hex_of (of_list (Obj.magic k)) ^ ":" ^ hex_of (of_list (Obj.magic r1)) ^ ":" ^ hex_of (of_list (Obj.magic r2))
             | None -> "NONE" in
           Buffer.add_string out line; Buffer.add_char out '\t'; Buffer.add_string out r; Buffer.add_char out '\n'
         | _ -> Buffer.add_string out "BADLINE\n");
        if Buffer.length out > 60000 then flush_out ()
      done
    | "hist" ->
      (* one history per line: cwd0 SP keys(comma separated) SP ops, all hex; op = C<hex> | U<hex>, separated by ';' *)
      while true do
        let line = input_line stdin in
        (match split_on ' ' line with
         | [cwd; keys; ops] ->
           let cwd = to_list (unhex cwd) in
           let keys = List.map (fun k -> to_list (unhex k)) (split_on ',' keys) in
           let ops = List.map (fun o ->
             let body = to_list (unhex (String.sub o 1 (String.length o - 1))) in
             if o.[0] = 'C' then VChdir (Obj.magic body) else VUse (Obj.magic body)) (split_on ';' ops) in
           let rs = vrunN keys cwd ops in
           let show = function
             | Some (k, rel) -> hex_of (of_list (Obj.magic k)) ^ ":" ^ hex_of (of_list (Obj.magic rel))
             | None -> "NONE" in
           Buffer.add_string out (String.concat ";" (List.map show rs)); Buffer.add_char out '\n'
         | _ -> Buffer.add_string out "BADLINE\n");
        if Buffer.length out > 60000 then flush_out ()
      done
    | _ -> prerr_endline "unknown mode"; exit 2
  with End_of_file -> ());
  flush_out ()
