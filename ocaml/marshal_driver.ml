(* C17: reads the flat code definitions of a marshalled state (as printed by c17obs: hex fields
   id|name|parent|funcid|fid:name,... joined by ';', plus the compiler's named flags n=0/1 per def)
   and prints what the model's relinking gives:  ok=<defs_ok> parent,fnlinks,named ; ... *)
open Marshal_model
let rec pos_of_int (i : int) : positive =
  if i = 1 then XH else if i land 1 = 0 then XO (pos_of_int (i lsr 1)) else XI (pos_of_int (i lsr 1))
let n_of_int (i : int) : n = if i = 0 then N0 else Npos (pos_of_int i)
let rec int_of_nat = function O -> 0 | S n -> 1 + int_of_nat n
let unhex (s : string) : n list =
  List.init (String.length s / 2) (fun i -> n_of_int (int_of_string ("0x" ^ String.sub s (2 * i) 2)))

let () =
  try while true do
    let line = input_line stdin in
    match String.split_on_char '\t' line with
    | [defs; named] when defs <> "" ->
        let flags = String.split_on_char ',' named in
        let ds = List.mapi (fun i d ->
          match String.split_on_char '|' d with
          | [id; name; parent; funcid; refs] ->
              let fr = if refs = "" then [] else
                  List.map (fun r -> unhex (List.hd (String.split_on_char ':' r))) (String.split_on_char ',' refs) in
              { cd_id = unhex id; cd_name = unhex name; cd_parent = unhex parent; cd_funcid = unhex funcid;
                cd_named = (List.nth flags i = "1"); cd_fnrefs = fr }
          | _ -> failwith "bad def") (String.split_on_char ';' defs) in
        let ok = defs_ok ds in
        let r = relink ds in
        let show ((p, l), nm) =
          (match p with None -> "-" | Some i -> string_of_int (int_of_nat i)) ^ "," ^
          (match l with None -> "UNRESOLVED" | Some is -> String.concat "." (List.map (fun i -> string_of_int (int_of_nat i)) is)) ^ "," ^
          (if nm then "1" else "0") in
        print_endline ((if ok then "ok=1 " else "ok=0 ") ^ String.concat ";" (List.map show r))
    | _ -> print_endline "-"
  done with End_of_file -> ()
