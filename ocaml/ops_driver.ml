(* model-side driver for C15: same line protocol as harness/cmd/c15obs *)
open Ops_model

let rec pos_of_int64 (i : int64) : positive =
  if Int64.equal i 1L then XH
  else if Int64.equal (Int64.logand i 1L) 0L then XO (pos_of_int64 (Int64.shift_right_logical i 1))
  else XI (pos_of_int64 (Int64.shift_right_logical i 1))
(* i is read as an unsigned 64-bit number *)
let z_of_uint64 (i : int64) : z = if Int64.equal i 0L then Z0 else Zpos (pos_of_int64 i)
let z_of_int64 (i : int64) : z =
  if Int64.equal i 0L then Z0
  else if Int64.compare i 0L > 0 then Zpos (pos_of_int64 i)
  else Zneg (pos_of_int64 (Int64.neg i))   (* min_int negates to itself = 2^63 unsigned: correct *)
let z_of_int (i : int) : z = z_of_int64 (Int64.of_int i)

let rec int64_of_pos = function
  | XH -> 1L
  | XO p -> Int64.shift_left (int64_of_pos p) 1
  | XI p -> Int64.logor (Int64.shift_left (int64_of_pos p) 1) 1L
let int64_of_z = function Z0 -> 0L | Zpos p -> int64_of_pos p | Zneg p -> Int64.neg (int64_of_pos p)
let int_of_z z = Int64.to_int (int64_of_z z)
let rec int_of_nat = function O -> 0 | S n -> 1 + int_of_nat n

let bytes_of_hex (s : string) : z list =
  List.init (String.length s / 2) (fun i -> z_of_int (int_of_string ("0x" ^ String.sub s (2 * i) 2)))
let hex_of_bytes (l : z list) : string =
  String.concat "" (List.map (fun c -> Printf.sprintf "%02x" (int_of_z c)) l)

exception Bad of string

let after (t : string) (n : int) = String.sub t n (String.length t - n)
let starts t p = String.length t >= String.length p && String.sub t 0 (String.length p) = p

let rec parse_value (toks : string list) : value * string list =
  match toks with
  | [] -> raise (Bad "unexpected end of case")
  | t :: rest ->
    if t = "n" then (VNil, rest)
    else if t = "t" then (VBool true, rest)
    else if t = "f" then (VBool false, rest)
    else if starts t "s=" then (VStr (bytes_of_hex (after t 2)), rest)
    else if starts t "b=" then (VBytes (bytes_of_hex (after t 2)), rest)
    else if starts t "e0=" then (VErr (bytes_of_hex (after t 3), false), rest)
    else if starts t "e1=" then (VErr (bytes_of_hex (after t 3), true), rest)
    else match t.[0] with
      | 'i' -> (VInt (z_of_int64 (Int64.of_string (after t 1))), rest)
      | 'y' -> (VByte (z_of_int (int_of_string (after t 1))), rest)
      | 'd' ->
        let bits = Int64.of_string ("0x" ^ after t 1) in
        let neg = Int64.compare bits 0L < 0 in
        let mag = Int64.logand bits 0x7FFFFFFFFFFFFFFFL in
        (VFloat (neg, z_of_int64 mag), rest)
      | 'L' | 'S' ->
        let k = int_of_string (after t 1) in
        let rec go k toks acc =
          if k = 0 then (List.rev acc, toks)
          else let (v, toks') = parse_value toks in go (k - 1) toks' (v :: acc) in
        let (items, rest') = go k rest [] in
        if t.[0] = 'L' then (VList items, rest')
        else (match set_of_list items [] with
            | Some s -> (VSet s, rest')
            | None -> raise (Bad "unhashable set member in case"))
      | 'M' ->
        let k = int_of_string (after t 1) in
        let rec go k toks acc =
          if k = 0 then (acc, toks)
          else match toks with
            | kt :: toks1 when starts kt "k=" ->
              let (v, toks2) = parse_value toks1 in
              go (k - 1) toks2 (map_set (bytes_of_hex (after kt 2)) v acc)
            | _ -> raise (Bad "map key expected") in
        let (m, rest') = go k rest [] in
        (VMap m, rest')
      | _ -> raise (Bad ("bad token " ^ t))

let rec show (v : value) : string =
  match v with
  | VNil -> "n"
  | VBool true -> "t"
  | VBool false -> "f"
  | VInt z -> "i" ^ Int64.to_string (int64_of_z z)
  | VFloat (neg, mag) ->
    let bits = Int64.logor (int64_of_z mag) (if neg then Int64.min_int else 0L) in
    Printf.sprintf "d%016Lx" bits
  | VByte z -> "y" ^ string_of_int (int_of_z z)
  | VStr s -> "s=" ^ hex_of_bytes s
  | VBytes s -> "b=" ^ hex_of_bytes s
  | VErr (m, r) -> (if r then "e1=" else "e0=") ^ hex_of_bytes m
  | VList l -> String.concat " " (("L" ^ string_of_int (List.length l)) :: List.map show l)
  | VMap m ->
    let es = List.sort (fun (a, _) (b, _) -> Stdlib.compare a b) (List.map (fun (k, v) -> (hex_of_bytes k, v)) m) in
    String.concat " " (("M" ^ string_of_int (List.length m)) :: List.concat_map (fun (k, v) -> ["k=" ^ k; show v]) es)
  | VSet s ->
    let ms = List.sort Stdlib.compare (List.map show s) in
    String.concat " " (("S" ^ string_of_int (List.length s)) :: ms)

let b01 b = if b then "1" else "0"
let cmp_char a b = match vcompare a b with
  | None -> "X" | Some Lt -> "L" | Some Eq -> "E" | Some Gt -> "G"
let op_char o a b = match cmp_op o a b with None -> "X" | Some b -> b01 b
let rel_ops = [OLt; OLe; OGt; OGe]

let pair_obs a b =
  let h = match hashkey a, hashkey b with
    | Some x, Some y -> b01 (hkey_eqb x y)
    | _, _ -> "-" in
  "E" ^ op_char OEq a b ^ op_char OEq b a ^ " N" ^ op_char ONe a b ^ op_char ONe b a
  ^ " C" ^ cmp_char a b ^ cmp_char b a
  ^ " O" ^ String.concat "" (List.map (fun o -> op_char o a b) rel_ops)
  ^ String.concat "" (List.map (fun o -> op_char o b a) rel_ops)
  ^ " H" ^ h

let elements c = match c with
  | VList l -> l
  | VSet s -> s
  | VMap m -> List.map (fun (k, _) -> VStr k) m
  | VStr s -> List.map (fun r -> VStr (utf8_encode r)) (runes_of s)
  | VBytes s -> List.map (fun b -> VByte b) s
  | _ -> []

let contains_obs c x =
  match contains c x with
  | None -> "IX"
  | Some r ->
    let q = List.map (fun e -> b01 (equals e x)) (elements c) in
    let q = match c with VSet _ | VMap _ -> List.sort Stdlib.compare q | _ -> q in
    "I" ^ b01 r ^ " Q" ^ String.concat "" q

let perm_string (l : (value * nat) list) = String.concat "," (List.map (fun (_, i) -> string_of_int (int_of_nat i)) l)

let sorted_obs v =
  match v with
  | VList l ->
    let n = List.length l in
    let matrix = String.concat "" (List.concat_map (fun a -> List.map (fun b -> cmp_char a b) l) l) in
    let first = match sorted_idx l with
      | SOk r ->
        let ident = String.concat "," (List.init n string_of_int) in
        let r1 = List.map fst r in
        let second = match sorted_idx r1 with
          | SOk r2 -> " ROK " ^ perm_string r2
          | SErr -> " RERR"
          | SPanic -> " RPANIC" in
        "ROK " ^ perm_string r ^ " A" ^ ident ^ second
      | SErr -> "RERR"
      | SPanic -> "RPANIC" in
    first ^ " M" ^ matrix
  | _ -> "BADCASE"

let set_obs v =
  match v with
  | VList l ->
    (match set_of_list l [] with
     | None -> "UNHASHABLE"
     | Some s ->
       let sv = VSet s in
       "N" ^ (match vlen sv with Some n -> string_of_int (int_of_nat n) | None -> "-")
       ^ " T" ^ b01 (truthy sv)
       ^ " I" ^ String.concat "" (List.map (fun x -> match contains sv x with Some b -> b01 b | None -> "X") l)
       ^ " E" ^ String.concat "" (List.concat_map (fun a -> List.map (fun b -> b01 (equals a b)) l) l)
       ^ " V " ^ show sv)
  | _ -> "BADCASE"

let truthy_obs v =
  "T" ^ b01 (truthy v) ^ " N" ^ (match vlen v with Some n -> string_of_int (int_of_nat n) | None -> "-")

let () =
  let out = Buffer.create (1 lsl 16) in
  let flush_out () = print_string (Buffer.contents out); Buffer.clear out in
  (try
     while true do
       let line = input_line stdin in
       if line <> "" then begin
         let toks = List.filter (fun s -> s <> "") (String.split_on_char ' ' line) in
         let res =
           try
             match toks with
             | [] -> "BADCASE empty"
             | kind :: rest ->
               let rec all toks acc = match toks with
                 | [] -> List.rev acc
                 | _ -> let (v, r) = parse_value toks in all r (v :: acc) in
               let vals = all rest [] in
               (match kind, vals with
                | ("P" | "p"), [a; b] -> pair_obs a b
                | ("C" | "c"), [c; x] -> contains_obs c x
                | ("S" | "s"), [l] -> sorted_obs l
                | "U", [l] -> set_obs l
                | "Y", [v] -> truthy_obs v
                | _ -> "BADCASE arity")
           with Bad m -> "BADCASE " ^ m
              | Failure m -> "BADCASE " ^ m in
         Buffer.add_string out res; Buffer.add_char out '\n';
         if Buffer.length out > 60000 then flush_out ()
       end
     done
   with End_of_file -> ());
  flush_out ()
