(* reduced closure language: reads one body per line in prefix form, prints the value the source
   semantics (eb) assigns and whether the reduced compiler (cb) accepts it.
   exprs:  C <int> | V <n> | A e e | L <x> body | P e e      bodies: R e | D <n> e body | S <n> e body *)
open Clos_model
let rec nat_of_int n = if n <= 0 then O else S (nat_of_int (n-1))
let rec pos_of_int (i : int) : positive =
  if i = 1 then XH else if i land 1 = 0 then XO (pos_of_int (i lsr 1)) else XI (pos_of_int (i lsr 1))
let z_of_int i = if i = 0 then Z0 else if i > 0 then Zpos (pos_of_int i) else Zneg (pos_of_int (-i))
(* results are int64 values: OCaml's native int has only 63 bits *)
let rec i64_of_pos = function
  | XH -> 1L
  | XO p -> Int64.mul 2L (i64_of_pos p)
  | XI p -> Int64.add (Int64.mul 2L (i64_of_pos p)) 1L
let i64_of_z = function Z0 -> 0L | Zpos p -> i64_of_pos p | Zneg p -> Int64.neg (i64_of_pos p)

let toks = ref [||] and pos = ref 0
let next () = let t = !toks.(!pos) in incr pos; t
let rec expr () =
  match next () with
  | "C" -> EConst (z_of_int (int_of_string (next ())))
  | "V" -> EVar (nat_of_int (int_of_string (next ())))
  | "A" -> let a = expr () in let b = expr () in EAdd (a, b)
  | "L" -> let x = nat_of_int (int_of_string (next ())) in let b = body () in ELam (x, b)
  | "P" -> let g = expr () in let a = expr () in EApp (g, a)
  | t -> failwith ("bad expr token " ^ t)
and body () =
  match next () with
  | "R" -> BRet (expr ())
  | "D" -> let n = nat_of_int (int_of_string (next ())) in let e = expr () in let b = body () in BDecl (n, e, b)
  | "S" -> let n = nat_of_int (int_of_string (next ())) in let e = expr () in let b = body () in BAssign (n, e, b)
  | t -> failwith ("bad body token " ^ t)

let () =
  try while true do
    let line = input_line stdin in
    toks := Array.of_list (List.filter (fun s -> s <> "") (String.split_on_char ' ' line));
    pos := 0;
    let b = body () in
    let compiled = match cb [] [] O b with Some _ -> "compiled" | None -> "rejected" in
    (match eb (nat_of_int 400) [] O O s0 b with
     | Some (VInt z, _) -> Printf.printf "OK (i %Ld) %s\n" (i64_of_z z) compiled
     | Some (VClos _, _) -> Printf.printf "OK (f) %s\n" compiled
     | None -> Printf.printf "STUCK %s\n" compiled)
  done with End_of_file -> ()
