(* model-side driver for C19: same value tokens as harness/cmd/c19obs (see its header) *)
open C19_model

let rec pos_of_int64 (i : int64) : positive =
  if Int64.equal i 1L then XH
  else if Int64.equal (Int64.logand i 1L) 0L then XO (pos_of_int64 (Int64.shift_right_logical i 1))
  else XI (pos_of_int64 (Int64.shift_right_logical i 1))
let n_of_int64 (i : int64) : n = if Int64.equal i 0L then N0 else Npos (pos_of_int64 i)
let n_of_int (i : int) : n = n_of_int64 (Int64.of_int i)
let rec int64_of_pos = function
  | XH -> 1L
  | XO p -> Int64.shift_left (int64_of_pos p) 1
  | XI p -> Int64.logor (Int64.shift_left (int64_of_pos p) 1) 1L
let int64_of_n = function N0 -> 0L | Npos p -> int64_of_pos p
let int_of_n x = Int64.to_int (int64_of_n x)
let rec nat_to_int = function O -> 0 | S k -> 1 + nat_to_int k

(* decimal text <-> Z, through int64 (two's complement: min_int64 wraps correctly) *)
let z_of_dec (s : Stdlib.String.t) : z =
  let i = Int64.of_string s in
  if Int64.equal i 0L then Z0
  else if Int64.compare i 0L > 0 then Zpos (pos_of_int64 i)
  else Zneg (pos_of_int64 (Int64.neg i))   (* neg min_int = min_int, read as unsigned 2^63 *)
let dec_of_z (x : z) : Stdlib.String.t =
  match x with
  | Z0 -> "0"
  | Zpos p -> Printf.sprintf "%Lu" (int64_of_pos p)
  | Zneg p -> "-" ^ Printf.sprintf "%Lu" (int64_of_pos p)
let int_of_z = function Z0 -> 0 | Zpos p -> Int64.to_int (int64_of_pos p) | Zneg p -> - (Int64.to_int (int64_of_pos p))
let z_of_int (i : int) : z = z_of_dec (string_of_int i)

let to_list (s : Stdlib.String.t) : n list =
  List.init (String.length s) (fun i -> n_of_int (Char.code s.[i]))
let of_list (l : n list) : Stdlib.String.t =
  let b = Buffer.create 16 in
  List.iter (fun c -> Buffer.add_char b (Char.chr ((int_of_n c) land 255))) l;
  Buffer.contents b
let hex_of (s : Stdlib.String.t) : Stdlib.String.t =
  let b = Buffer.create (2 * String.length s) in
  String.iter (fun c -> Buffer.add_string b (Printf.sprintf "%02x" (Char.code c))) s;
  Buffer.contents b
let unhex (s : Stdlib.String.t) : Stdlib.String.t =
  String.init (String.length s / 2) (fun i -> Char.chr (int_of_string ("0x" ^ String.sub s (2 * i) 2)))
let hexl (l : n list) = hex_of (of_list l)
let unhexl s = to_list (unhex s)

(* IEEE bits <-> model floats *)
let f64_of_bits (b : int64) : f64 =
  let neg = Int64.compare b 0L < 0 in
  let ex = Int64.to_int (Int64.logand (Int64.shift_right_logical b 52) 0x7ffL) in
  let frac = Int64.logand b 0xfffffffffffffL in
  if ex = 2047 then (if Int64.equal frac 0L then FInf neg else FNaN)
  else if ex = 0 then mk_fin neg (n_of_int64 frac) (z_of_int (-1074))
  else mk_fin neg (n_of_int64 (Int64.logor frac 0x10000000000000L)) (z_of_int (ex - 1075))
let rec bitlen (m : int64) = if Int64.equal m 0L then 0 else 1 + bitlen (Int64.shift_right_logical m 1)
let bits_tok (f : f64) : Stdlib.String.t =
  match f with
  | FNaN -> "nan"
  | FInf neg -> if neg then "fff0000000000000" else "7ff0000000000000"
  | FFin (neg, m, e) ->
    let s = if neg then Int64.min_int else 0L in
    let m = int64_of_n m and e = int_of_z e in
    if Int64.equal m 0L then Printf.sprintf "%016Lx" s
    else begin
      let nb = bitlen m in
      let p = nb - 1 + e in
      if p >= -1022 then begin
        if p > 1023 || nb > 53 then "unrepresentable"
        else
          let frac = Int64.sub (Int64.shift_left m (53 - nb)) 0x10000000000000L in
          Printf.sprintf "%016Lx" (Int64.logor s (Int64.logor (Int64.shift_left (Int64.of_int (p + 1023)) 52) frac))
      end else if e >= -1074 then Printf.sprintf "%016Lx" (Int64.logor s (Int64.shift_left m (e + 1074)))
      else "unrepresentable"
    end
let f64_of_tok (t : Stdlib.String.t) : f64 =
  if t = "nan" then FNaN else f64_of_bits (Int64.of_string ("0x" ^ t))

(* ------------------------------------------------------------------ value tokens *)
let split_tag (t : Stdlib.String.t) =
  match String.index_opt t ':' with
  | None -> (t, "")
  | Some i -> (String.sub t 0 i, String.sub t (i + 1) (String.length t - i - 1))

let type_code (name : Stdlib.String.t) : n = n_of_int (Hashtbl.hash name land 0xffff)

let rec parse_value (toks : Stdlib.String.t list ref) : obj =
  match !toks with
  | [] -> failwith "value expected"
  | t :: rest ->
    toks := rest;
    let (tag, r) = split_tag t in
    (match tag with
     | "n" -> ONil
     | "T" -> OBool true
     | "F" -> OBool false
     | "i" -> OInt (z_of_dec r)
     | "y" -> OByte (n_of_int (int_of_string r))
     | "f" -> OFloat (f64_of_tok r)
     | "s" -> OString (unhexl r)
     | "b" -> OBytes (unhexl r)
     | "U" -> OBuffer (unhexl r)
     | "r" -> ORegexp (unhexl r)
     | "l" ->
       let k = int_of_string r in
       let items = List.init k (fun _ -> 0) |> List.map (fun _ -> parse_value toks) in
       OList items
     | "m" ->
       let k = int_of_string r in
       let items = List.init k (fun _ -> 0) |> List.map (fun _ ->
           match !toks with
           | kt :: rest2 -> toks := rest2;
             let (_, kh) = split_tag kt in
             let v = parse_value toks in (unhexl kh, v)
           | [] -> failwith "map key expected") in
       OMap items
     | "o" -> OOther (type_code r)
     | _ -> failwith ("bad value token " ^ t))

let parse_values (s : Stdlib.String.t) : obj list =
  let toks = ref (List.filter (fun x -> x <> "") (String.split_on_char ' ' s)) in
  let out = ref [] in
  while !toks <> [] do out := parse_value toks :: !out done;
  List.rev !out

let show_err = function
  | EArgs -> "e:args"
  | EType -> "e:type"
  | EValue -> "e:value"
  | EGo tok -> "e:go:" ^ hexl tok

let rec show (o : obj) : Stdlib.String.t =
  match o with
  | ONil -> "n"
  | OBool true -> "T"
  | OBool false -> "F"
  | OInt z -> "i:" ^ dec_of_z z
  | OByte b -> "y:" ^ string_of_int (int_of_n b)
  | OFloat f -> "f:" ^ bits_tok f
  | OString s -> "s:" ^ hexl s
  | OBytes s -> "b:" ^ hexl s
  | OBuffer s -> "U:" ^ hexl s
  | ORegexp s -> "r:" ^ hexl s
  | OList l -> String.concat " " (("l:" ^ string_of_int (List.length l)) :: List.map show l)
  | OMap kv -> String.concat " " (("m:" ^ string_of_int (List.length kv))
                                  :: List.concat_map (fun (k, v) -> ["k:" ^ hexl k; show v]) kv)
  | OErr e -> show_err e
  | OOther _ -> "o:other"

let show_outcome = function
  | Ret o -> show o
  | Panic tok -> "P:" ^ hexl tok

(* Go values *)
let parse_native (t : Stdlib.String.t) : gret =
  let (tag, r) = split_tag t in
  match tag with
  | "S" -> GOk (GStr (unhexl r))
  | "Y" -> GOk (GBytes (unhexl r))
  | "I" -> GOk (GInt (z_of_dec r))
  | "D" -> GOk (GFloat (f64_of_tok r))
  | "B" -> GOk (GBool (r = "T"))
  | "L" ->
    let i = String.index r ';' in
    let k = int_of_string (String.sub r 0 i) in
    let body = String.sub r (i + 1) (String.length r - i - 1) in
    GOk (GStrs (if k = 0 then [] else List.map unhexl (String.split_on_char ',' body)))
  | "R" -> GOk (GRegexp (unhexl r))
  | "E" -> GFail (unhexl r)
  | "P" -> GPanic (unhexl r)
  | _ -> GPanic (to_list "harness gave no direct result")

let show_native (g : gval) : Stdlib.String.t =
  match g with
  | GStr s -> "S:" ^ hexl s
  | GBytes s -> "Y:" ^ hexl s
  | GInt z -> "I:" ^ dec_of_z z
  | GFloat f -> "D:" ^ bits_tok f
  | GBool b -> if b then "B:T" else "B:F"
  | GStrs l -> "L:" ^ string_of_int (List.length l) ^ ";" ^ String.concat "," (List.map hexl l)
  | GRegexp s -> "R:" ^ hexl s

let content_bytes (t : Stdlib.String.t) : n list =
  let (_, r) = split_tag t in unhexl r

let cshape_of = function
  | "base64" -> Some cs_base64
  | "base32" -> Some cs_base32
  | "gzip" -> Some cs_gzip
  | "urlquery" -> Some cs_urlquery
  | _ -> None

let dec_fun (ddec : Stdlib.String.t) : n list -> (n list, n list) sum =
  fun _ ->
    let (tag, r) = split_tag ddec in
    if tag = "Y" then Inl (unhexl r) else Inr (unhexl r)

let () =
  let out = Buffer.create (1 lsl 16) in
  let flush_out () = print_string (Buffer.contents out); Buffer.clear out in
  (try
     while true do
       let line = input_line stdin in
       let f = Array.of_list (String.split_on_char '\t' line) in
       let id = f.(1) in
       let res =
         try
           (match f.(0) with
            | "W" ->
              (match lookup (to_list f.(2)) with
               | None -> "norec"
               | Some w when not (w_regular w) -> "irregular"
               | Some w ->
                 let args = parse_values f.(3) in
                 let direct = parse_native f.(4) in
                 let dargs = match callee_args w args with
                   | None -> "-"
                   | Some [] -> "none"
                   | Some l -> String.concat " " (List.map show_native l) in
                 let o = run (fun _ -> direct) w args in
                 "callee=" ^ of_list (callee_name w) ^ "\tdargs=" ^ dargs ^ "\tout=" ^ show_outcome o)
            | "C" ->
              let v = List.hd (parse_values f.(3)) in
              if f.(2) = "hex" then begin
                let e = hex_codec_encode v in
                let d = match e with OErr _ -> "-" | _ -> show (hex_codec_decode e) in
                "enc=" ^ show e ^ "\tdec=" ^ d
              end else if f.(2) = "json" then begin
                (match json_roundtrip v with
                 | Some v' -> "enc=?\tdec=" ^ show v'
                 | None -> "enc=e:value\tdec=-")
              end else begin
                match cshape_of f.(2) with
                | None -> "nomodel"
                | Some cs ->
                  let enc = (fun _ -> content_bytes f.(4)) in
                  let e = codec_encode enc cs v in
                  let d = match e with OErr _ -> "-" | _ -> show (codec_decode (dec_fun f.(5)) cs e) in
                  "enc=" ^ show e ^ "\tdec=" ^ d
              end
            | "D" ->
              let v = List.hd (parse_values f.(3)) in
              if f.(2) = "hex" then "dec=" ^ show (hex_codec_decode v)
              else (match cshape_of f.(2) with
                  | None -> "nomodel"
                  | Some cs -> "dec=" ^ show (codec_decode (dec_fun f.(4)) cs v))
            | "J" ->
              let v = List.hd (parse_values f.(2)) in
              let m = json_marshal v and e = json_encode v in
              let sh = function Some j -> show (of_jv j) | None -> "e:value" in
              "agree=" ^ (if m = e then "T" else "F") ^ "\tunmarshal=" ^ sh m ^ "\tdecode=" ^ sh e
              ^ "\tdom=" ^ (if json_dom v then "T" else "F") ^ "\tsafe=" ^ (if json_safe v then "T" else "F")
            | _ -> "nomodel")
         with Failure m -> "driver-failure=" ^ m | Not_found -> "driver-failure=not-found"
            | Invalid_argument m -> "driver-failure=" ^ m in
       Buffer.add_string out id; Buffer.add_char out '\t'; Buffer.add_string out res; Buffer.add_char out '\n';
       if Buffer.length out > 60000 then flush_out ()
     done
   with End_of_file -> ());
  flush_out ()
