(* C04: runs the extracted, proved-sound certificate checker on code dumps (one program per line,
   code objects separated by " || ", main first).  Output per program:
     CERT <idhex>=<max>:<pc>.<h>,<pc>.<h>... <idhex>=...
     REJECT <idhex> code=<k> pc=<pc> why=<n>      (first rejected code object) *)
open Verify_model
let rec nat_of_int n = if n <= 0 then O else S (nat_of_int (n-1))
let rec int_of_nat = function O -> 0 | S n -> 1 + int_of_nat n

let split_str (s : string) (sep : string) : string list =
  let n = String.length s and m = String.length sep in
  let rec go i start acc =
    if i + m > n then List.rev (String.sub s start (n - start) :: acc)
    else if String.sub s i m = sep then go (i + m) (i + m) (String.sub s start (i - start) :: acc)
    else go (i + 1) start acc in
  go 0 0 []

let () =
  try while true do
    let line = input_line stdin in
    if String.length line < 5 || String.sub line 0 5 <> "code " then
      print_endline ("- " ^ (if String.length line > 40 then String.sub line 0 40 else line))
    else begin
      let parts = split_str line " || " in
      let rejected = ref None in
      let certs = List.mapi (fun i p ->
        let fields = String.split_on_char ' ' p in
        let id = List.nth fields 1 in
        let ins = List.find (fun f -> String.length f >= 4 && String.sub f 0 4 = "ins=") fields in
        let ins = String.sub ins 4 (String.length ins - 4) in
        let code = if ins = "" then [] else List.map (fun x -> nat_of_int (int_of_string x)) (String.split_on_char ',' ins) in
        match certify_labels code (i = 0) with
        | Some l ->
            let mx = match certify code (i = 0) with Some m -> int_of_nat m | None -> -1 in
            Printf.sprintf "%s=%d:%s" id mx
              (String.concat "," (List.map (fun (pc, h) -> Printf.sprintf "%d.%d" (int_of_nat pc) (int_of_nat h)) l))
        | None ->
            (match verify code (i = 0) with
             | VFail (pc, why) -> if !rejected = None then rejected := Some (id, i, int_of_nat pc, int_of_nat why)
             | VOk _ -> if !rejected = None then rejected := Some (id, i, -1, 0));
            "") parts in
      match !rejected with
      | Some (id, i, pc, why) -> Printf.printf "REJECT %s code=%d pc=%d why=%d\n" id i pc why
      | None -> print_endline ("CERT " ^ String.concat " " certs)
    end
  done with End_of_file -> ()
