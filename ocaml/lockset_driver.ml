(* model-side driver for C09.  stdin:
     site <loc> <w:0|1> <lock:mode,lock:mode,...>     (defines the next site, index = order of definition)
     allok                                            -> allok=0|1 bad=<i>,<j> (first bad pair) witness=0|1
     pair <i> <j>                                     -> pair_ok=0|1
     badpairs                                         -> every (i,j) with pair_ok = false
     sched <progs> <schedule>                         -> run a schedule: ok race=0|1 | BLOCKED
        progs: threads separated by '|', events by ',': a<m>w | a<m>r | u<m> | r<x> | w<x>; schedule: thread ids by ',' *)
open Lockset_model

let rec nat_of_int (i : int) : nat = if i <= 0 then O else S (nat_of_int (i - 1))
let rec int_of_nat = function O -> 0 | S k -> 1 + int_of_nat k
let split c s = if s = "" then [] else String.split_on_char c s

let sites : site list ref = ref []

let parse_site loc w locks =
  { s_loc = nat_of_int (int_of_string loc); s_write = (w = "1");
    s_held = List.map (fun e -> match String.split_on_char ':' e with
        | [m; md] -> (nat_of_int (int_of_string m), md = "1")
        | _ -> failwith "bad lock") (split ',' locks) }

let index_of (st : site) =
  let rec go i = function [] -> -1 | x :: r -> if x == st then i else go (i + 1) r in
  go 0 !sites

let parse_event e =
  let n = int_of_string (String.sub e 1 (String.length e - (if e.[0] = 'a' then 2 else 1))) in
  match e.[0] with
  | 'a' -> Acq (nat_of_int n, e.[String.length e - 1] = 'w')
  | 'u' -> Rel (nat_of_int n)
  | 'r' -> Rd (nat_of_int n)
  | 'w' -> Wr (nat_of_int n)
  | _ -> failwith "bad event"

let () =
  (try
     while true do
       let line = input_line stdin in
       let f = Array.of_list (String.split_on_char ' ' line) in
       let get i = if i < Array.length f then f.(i) else "" in
       let r =
         try
           match f.(0) with
           | "site" -> sites := !sites @ [parse_site (get 1) (get 2) (get 3)]; "ok"
           | "allok" ->
             let ok = ls_all_pairs_ok !sites in
             (match ls_find_bad_pair !sites with
              | None -> Printf.sprintf "allok=%d bad=none witness=0" (if ok then 1 else 0)
              | Some (a, b) ->
                Printf.sprintf "allok=%d bad=%d,%d witness=%d" (if ok then 1 else 0) (index_of a) (index_of b)
                  (if ls_check_witness !sites a b then 1 else 0))
           | "pair" ->
             let a = List.nth !sites (int_of_string (get 1)) and b = List.nth !sites (int_of_string (get 2)) in
             Printf.sprintf "pair_ok=%d" (if ls_pair_ok a b then 1 else 0)
           | "badpairs" ->
             let out = ref [] in
             List.iteri (fun i a -> List.iteri (fun j b -> if not (ls_pair_ok a b) then out := Printf.sprintf "%d,%d" i j :: !out) !sites) !sites;
             "badpairs=" ^ String.concat ";" (List.rev !out)
           | "sched" ->
             let progs = List.map (fun p -> List.map parse_event (split ',' p)) (String.split_on_char '|' (get 1)) in
             let sched = List.map (fun t -> nat_of_int (int_of_string t)) (split ',' (get 2)) in
             (match ls_run (ls_init progs) sched with
              | Some s -> Printf.sprintf "ok race=%d" (if ls_raceb s then 1 else 0)
              | None -> "BLOCKED")
           | _ -> "BADCMD"
         with Failure m -> "FAIL " ^ m | Not_found -> "FAIL notfound" | Invalid_argument m -> "FAIL " ^ m in
       print_string r; print_char '\n'; flush stdout
     done
   with End_of_file -> ())
