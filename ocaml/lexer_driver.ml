open Lexer_model

let rec pos_of_int (i : int) : positive =
  if i = 1 then XH else if i land 1 = 0 then XO (pos_of_int (i lsr 1)) else XI (pos_of_int (i lsr 1))
let n_of_int (i : int) : n = if i = 0 then N0 else Npos (pos_of_int i)
let rec int_of_pos = function XH -> 1 | XO p -> 2 * int_of_pos p | XI p -> 2 * int_of_pos p + 1
let int_of_n = function N0 -> 0 | Npos p -> int_of_pos p
let rec int_of_nat = function O -> 0 | S n -> 1 + int_of_nat n

let kind_name = function
  | AND -> "&&" | ASSIGN -> "=" | ASTERISK -> "*" | ASTERISK_EQUALS -> "*=" | BACKTICK -> "`"
  | FSTRING -> "'" | BANG -> "!" | CASE -> "case" | COLON -> ":" | COMMA -> "," | CONST -> "CONST"
  | DECLARE -> ":=" | DEFAULT -> "DEFAULT" | DEFER -> "DEFER" | FUNC -> "FUNC" | ELSE -> "ELSE"
  | EOF -> "EOF" | EQ -> "==" | FALSE -> "FALSE" | FLOAT -> "FLOAT" | FOR -> "FOR" | GT -> ">"
  | GT_GT -> ">>" | GT_EQUALS -> ">=" | GO -> "GO" | IDENT -> "IDENT" | IF -> "IF" | INT -> "INT"
  | LBRACE -> "{" | LBRACKET -> "[" | LPAREN -> "(" | LT -> "<" | LT_LT -> "<<" | LT_EQUALS -> "<="
  | MINUS -> "-" | MINUS_EQUALS -> "-=" | MINUS_MINUS -> "--" | MOD -> "%" | NOT_EQ -> "!="
  | NIL -> "nil" | NOT -> "NOT" | PIPE -> "|" | OR -> "||" | PERIOD -> "." | PLUS -> "+"
  | AMPERSAND -> "&" | PLUS_EQUALS -> "+=" | PLUS_PLUS -> "++" | POW -> "**" | QUESTION -> "?"
  | RBRACE -> "}" | RBRACKET -> "]" | RETURN -> "RETURN" | RPAREN -> ")" | SEMICOLON -> ";"
  | SEND -> "<-" | SLASH -> "/" | SLASH_EQUALS -> "/=" | STRING -> "STRING" | STRUCT -> "STRUCT"
  | SWITCH -> "switch" | TRUE -> "TRUE" | NEWLINE -> "EOL" | IMPORT -> "IMPORT" | BREAK -> "BREAK"
  | CONTINUE -> "CONTINUE" | VAR -> "VAR" | IN -> "IN" | RANGE -> "RANGE" | FROM -> "FROM"
  | AS -> "AS" | ILLEGAL -> "ILLEGAL" | EMPTY -> ""

let err_name = function
  | EUnexpectedChar _ -> "UnexpectedChar" | EUnterminatedString -> "UnterminatedString"
  | EInvalidEscape _ -> "InvalidEscape" | EUnterminatedEscape -> "UnterminatedEscape"
  | EIllegalEscapeChar _ -> "IllegalEscapeChar" | EEscapeNotNumber -> "EscapeNotNumber"
  | EInvalidDecimal -> "InvalidDecimal" | EInvalidIdentifier -> "InvalidIdentifier"
  | EUnsupported -> "UNSUPPORTED"

let hex l = String.concat "" (List.map (fun c -> Printf.sprintf "%02x" (int_of_n c)) l)
let pos p = Printf.sprintf "%d,%d,%d,%d,%d" (int_of_nat p.p_char) (int_of_nat p.p_line)
    (int_of_nat p.p_linestart) (int_of_nat p.p_col) (int_of_n p.p_value)
let tok t = Printf.sprintf "%s:%s:%s:%s" (kind_name t.t_kind) (hex t.t_lit) (pos t.t_start) (pos t.t_end)

let () =
  try
    while true do
      let line = input_line stdin in
      let runes = List.filter_map (fun s -> if s = "" then None else Some (n_of_int (int_of_string s)))
          (String.split_on_char ' ' line) in
      let (ts, e) = lex runes in
      let parts = List.map tok ts in
      let parts = match e with
        | None -> parts
        | Some (t, er) -> parts @ [ "ERR:" ^ err_name er ^ ":" ^ tok t ] in
      print_endline (String.concat " " parts)
    done
  with End_of_file -> ()
