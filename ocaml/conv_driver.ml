(* model-side driver for C08: line protocol, see checks/c08.py *)
open Conv_model

let rec pos_of_int (i : int) : positive =
  if i = 1 then XH else if i land 1 = 0 then XO (pos_of_int (i lsr 1)) else XI (pos_of_int (i lsr 1))
let n_of_int (i : int) : n = if i = 0 then N0 else Npos (pos_of_int i)
let z_of_int (i : int) : z = if i = 0 then Z0 else if i > 0 then Zpos (pos_of_int i) else Zneg (pos_of_int (- i))
let rec int_of_pos = function XH -> 1 | XO p -> 2 * int_of_pos p | XI p -> 2 * int_of_pos p + 1
let int_of_n = function N0 -> 0 | Npos p -> int_of_pos p
let rec nat_of_int i = if i <= 0 then O else S (nat_of_int (i - 1))
let int_of_nat n = let rec go acc = function O -> acc | S m -> go (acc + 1) m in go 0 n

(* arbitrary-size decimal <-> Z *)
let z_of_decimal (s : string) : z =
  let neg = String.length s > 0 && s.[0] = '-' in
  let digits = if neg then String.sub s 1 (String.length s - 1) else s in
  let ten = z_of_int 10 in
  let acc = ref Z0 in
  String.iter (fun ch -> acc := Z.add (Z.mul !acc ten) (z_of_int (Char.code ch - 48))) digits;
  if neg then Z.opp !acc else !acc
let decimal_of_pos (p : positive) : string =
  let rec bits p acc = match p with XH -> 1 :: acc | XO q -> bits q (0 :: acc) | XI q -> bits q (1 :: acc) in
  let bs = bits p [] in
  let digits = ref [0] in
  List.iter (fun b ->
      let carry = ref b in
      digits := List.rev (List.map (fun d -> let v = d * 2 + !carry in carry := v / 10; v mod 10) (List.rev !digits));
      if !carry > 0 then digits := !carry :: !digits) bs;
  String.concat "" (List.map string_of_int !digits)
let decimal_of_z = function Z0 -> "0" | Zpos p -> decimal_of_pos p | Zneg p -> "-" ^ decimal_of_pos p
(* 64-bit hex <-> N *)
let n_of_hex (s : string) : n =
  let sixteen = z_of_int 16 in
  let acc = ref Z0 in
  String.iter (fun ch ->
      let d = if ch >= '0' && ch <= '9' then Char.code ch - 48 else Char.code (Char.lowercase_ascii ch) - 87 in
      acc := Z.add (Z.mul !acc sixteen) (z_of_int d)) s;
  Z.to_N !acc
let hex16_of_n (x : n) : string =
  let rec bits p acc = match p with XH -> 1 :: acc | XO q -> bits q (0 :: acc) | XI q -> bits q (1 :: acc) in
  let bs = match x with N0 -> [] | Npos p -> bits p [] in
  let bs = List.init (64 - List.length bs) (fun _ -> 0) @ bs in
  let buf = Buffer.create 16 in
  let rec go = function
    | a :: b :: c :: d :: r -> Buffer.add_string buf (Printf.sprintf "%x" (a * 8 + b * 4 + c * 2 + d)); go r
    | _ -> () in
  go bs; Buffer.contents buf

let unhex (s : string) : n list =
  if s = "-" then [] else
  List.init (String.length s / 2) (fun i -> n_of_int (int_of_string ("0x" ^ String.sub s (2 * i) 2)))
let hex (l : n list) : string = String.concat "" (List.map (fun c -> Printf.sprintf "%02x" (int_of_n c)) l)

let toks : string array ref = ref [||]
let pos = ref 0
let next () = let t = !toks.(!pos) in incr pos; t
let next_int () = int_of_string (next ())
let rec times n f = if n <= 0 then [] else let x = f () in x :: times (n - 1) f

let ikind_of = function
  | "int" -> KInt | "int8" -> KInt8 | "int16" -> KInt16 | "int32" -> KInt32 | "int64" -> KInt64
  | "uint" -> KUint | "uint8" -> KUint8 | "uint16" -> KUint16 | "uint32" -> KUint32 | "uint64" -> KUint64
  | s -> failwith ("ikind " ^ s)
let ikind_s = function
  | KInt -> "int" | KInt8 -> "int8" | KInt16 -> "int16" | KInt32 -> "int32" | KInt64 -> "int64"
  | KUint -> "uint" | KUint8 -> "uint8" | KUint16 -> "uint16" | KUint32 -> "uint32" | KUint64 -> "uint64"

let rec parse_t () : gotype =
  match next () with
  | "bool" -> TBool | "f32" -> TFloat32 | "f64" -> TFloat64 | "str" -> TString | "time" -> TTime | "iface" -> TIface
  | "N" -> let id = next_int () in let u = parse_t () in TNamed (n_of_int id, u)
  | "P" -> TPtr (parse_t ()) | "SL" -> TSlice (parse_t ())
  | "AR" -> let n = next_int () in TArray (nat_of_int n, parse_t ())
  | "MP" -> TMap (parse_t ())
  | "ST" -> let id = next_int () in let nf = next_int () in
      let fs = times nf (fun () -> let nm = unhex (next ()) in let t = parse_t () in (nm, t)) in
      TStruct (n_of_int id, fs)
  | t when String.length t > 2 && String.sub t 0 2 = "i:" -> TInt (ikind_of (String.sub t 2 (String.length t - 2)))
  | t -> failwith ("bad type token " ^ t)

let rec parse_v () : goval =
  match next () with
  | "b0" -> GBool false | "b1" -> GBool true
  | "I" -> GInt (z_of_decimal (next ()))
  | "F" -> GFloat (n_of_hex (next ()))
  | "S" -> GStr (unhex (next ()))
  | "T" -> GTime (z_of_decimal (next ()))
  | "nil" -> GNil
  | "BOX" -> GBox (parse_v ())
  | "REF" -> let c = next_int () in let np = next_int () in let p = times np (fun () -> nat_of_int (next_int ())) in GRef (nat_of_int c, p)
  | "SL" -> let n = next_int () in GSlice (times n parse_v)
  | "ARR" -> let n = next_int () in GArray (times n parse_v)
  | "MAP" -> let n = next_int () in GMap (times n (fun () -> let k = unhex (next ()) in let v = parse_v () in (k, v)))
  | "STV" -> let n = next_int () in GStruct (times n parse_v)
  | "DYN" -> let t = parse_t () in let v = parse_v () in GDyn (t, v)
  | t -> failwith ("bad value token " ^ t)

let rec parse_o () : robj =
  match next () with
  | "nil" -> RNil | "b0" -> RBool false | "b1" -> RBool true
  | "I" -> RInt (z_of_decimal (next ()))
  | "Y" -> RByte (z_of_decimal (next ()))
  | "F" -> RFloat (n_of_hex (next ()))
  | "S" -> RStr (unhex (next ()))
  | "L" -> let n = next_int () in RList (times n parse_o)
  | "M" -> let n = next_int () in RMap (times n (fun () -> let k = unhex (next ()) in let v = parse_o () in (k, v)))
  | "BS" -> let n = next_int () in RBytes (false, times n (fun () -> z_of_decimal (next ())))
  | "FS" -> let n = next_int () in RFloats (false, times n (fun () -> n_of_hex (next ())))
  | t -> failwith ("bad object token " ^ t)

let rec parse_x () : sexpr =
  match next () with
  | "LIT" -> XLit (parse_o ())
  | "G" -> XGlobal (nat_of_int (next_int ()))
  | "C" -> XCell (nat_of_int (next_int ()))
  | "AT" -> let e = parse_x () in let n = unhex (next ()) in XAttr (e, n)
  | "IX" -> let e = parse_x () in let i = next_int () in XIndex (e, nat_of_int i)
  | "XL" -> let n = next_int () in XList (times n parse_x)
  | "XM" -> let n = next_int () in XMap (times n (fun () -> let k = unhex (next ()) in let v = parse_x () in (k, v)))
  | t -> failwith ("bad expr token " ^ t)

let parse_script () : script =
  match next () with
  | "EXPR" -> SExpr (parse_x ())
  | "SET" -> let t = parse_x () in let n = unhex (next ()) in let r = parse_x () in SSet (t, n, r)
  | "CALL" -> let np = next_int () in let ps = times np parse_t in let na = next_int () in let xs = times na parse_x in SCall (ps, xs)
  | "RET" -> let t = parse_t () in let v = parse_v () in SRet (t, v)
  | t -> failwith ("bad script token " ^ t)

(* ---- canonical descriptions, the same strings as harness/cmd/c08obs *)
let rec type_s (t : gotype) : string =
  match t with
  | TBool -> "bool" | TInt k -> ikind_s k | TFloat32 -> "float32" | TFloat64 -> "float64" | TString -> "string"
  | TTime -> "time" | TIface -> "iface"
  | TNamed (id, _) -> "N" ^ string_of_int (int_of_n id)
  | TPtr x -> "*" ^ type_s x | TSlice x -> "[]" ^ type_s x
  | TArray (n, x) -> "[" ^ string_of_int (int_of_nat n) ^ "]" ^ type_s x
  | TMap x -> "map[string]" ^ type_s x
  | TStruct (id, _) -> "S" ^ string_of_int (int_of_n id)

let rec desc_go (h : goval list) (v : goval) : string =
  match v with
  | GBool b -> if b then "b:true" else "b:false"
  | GInt z -> "i:" ^ decimal_of_z z
  | GFloat b -> "f:" ^ hex16_of_n b
  | GStr s -> "s:" ^ hex s
  | GTime z -> "t:" ^ decimal_of_z z
  | GNil -> "nil"
  | GRef (c, p) -> (match heap_get h c p with
                    | Some (GBox x) -> "ref(" ^ desc_go h x ^ ")"
                    | Some x -> "ref(" ^ desc_go h x ^ ")"
                    | None -> "ref(?)")
  | GBox (GStruct _ as x) -> "ref(" ^ desc_go h x ^ ")"
  | GBox (GTime _ as x) -> "ref(" ^ desc_go h x ^ ")"
  | GBox x -> "box(" ^ desc_go h x ^ ")"
  | GSlice l -> "sl[" ^ String.concat "," (List.map (desc_go h) l) ^ "]"
  | GArray l -> "arr[" ^ String.concat "," (List.map (desc_go h) l) ^ "]"
  | GMap m -> "map{" ^ String.concat "," (List.sort compare (List.map (fun (k, x) -> hex k ^ "=" ^ desc_go h x) m)) ^ "}"
  | GStruct fs -> "st{" ^ String.concat "," (List.map (desc_go h) fs) ^ "}"
  | GDyn (t, x) -> "dyn(" ^ type_s t ^ ";" ^ desc_go h x ^ ")"

let rec desc_obj (h : goval list) (o : robj) : string =
  match o with
  | RNil -> "nil"
  | RBool b -> if b then "bool:true" else "bool:false"
  | RInt z -> "int:" ^ decimal_of_z z
  | RByte z -> "byte:" ^ decimal_of_z z
  | RFloat b -> "float:" ^ hex16_of_n b
  | RStr s -> "str:" ^ hex s
  | RTime z -> "time:" ^ decimal_of_z z
  | RList l -> "list[" ^ String.concat "," (List.map (desc_obj h) l) ^ "]"
  | RMap m -> "map{" ^ String.concat "," (List.sort compare (List.map (fun (k, x) -> hex k ^ "=" ^ desc_obj h x) m)) ^ "}"
  | RBytes (_, l) -> "bytes[" ^ String.concat "," (List.map decimal_of_z l) ^ "]"
  | RFloats (_, l) -> "floats[" ^ String.concat "," (List.map hex16_of_n l) ^ "]"
  | RProxy (t, c, p) -> "proxy(" ^ type_s t ^ ";" ^ desc_go h (GRef (c, p)) ^ ")"
  | RProxyNil t -> "proxynil(" ^ type_s t ^ ")"
  | RProxyOwn (t, v) -> "proxy(" ^ type_s t ^ ";ref(" ^ desc_go h v ^ "))"

let outc_s = function OOk -> "ok" | OErr -> "err" | OPanic -> "panic" | OEscaped -> "escaped" | OUnsup -> "UNSUP"

let do_case () =
  let nc = next_int () in
  let cells = times nc (fun () -> let t = parse_t () in let v = parse_v () in (t, v)) in
  let ng = next_int () in
  let globals = times ng (fun () ->
      if !toks.(!pos) = "U" then (incr pos; None) else (let t = parse_t () in let v = parse_v () in Some (t, v))) in
  let s = parse_script () in
  let r = run_case (List.map fst cells) (List.map snd cells) globals s in
  let h = r.r_heap in
  Printf.printf "%s\t%s\t%s\t%s\t%s\n" (outc_s r.r_out)
    (match r.r_obj with Some o -> desc_obj h o | None -> "-")
    (match r.r_obj with Some o -> desc_go h (iface_of o) | None -> "-")
    (String.concat " " (List.map (desc_go h) h))
    (String.concat " " (List.map (fun (t, v) -> type_s t ^ ";" ^ desc_go h v) r.r_got))

let () =
  try
    while true do
      let line = input_line stdin in
      toks := Array.of_list (List.filter (fun s -> s <> "") (String.split_on_char ' ' line));
      pos := 0;
      (try
        match next () with
        | "CASE" -> do_case ()
        | t -> print_endline ("BADINPUT " ^ t)
      with Failure m -> print_endline ("BADINPUT " ^ m) | Invalid_argument m -> print_endline ("BADINPUT " ^ m))
    done
  with End_of_file -> ()
