(* model-side driver for C14: line protocol, see checks/c14.py *)
open Importer_model

let rec pos_of_int (i : int) : positive =
  if i = 1 then XH else if i land 1 = 0 then XO (pos_of_int (i lsr 1)) else XI (pos_of_int (i lsr 1))
let n_of_int (i : int) : n = if i = 0 then N0 else Npos (pos_of_int i)
let rec int_of_pos = function XH -> 1 | XO p -> 2 * int_of_pos p | XI p -> 2 * int_of_pos p + 1
let int_of_n = function N0 -> 0 | Npos p -> int_of_pos p
let rec nat_of_int i = if i <= 0 then O else S (nat_of_int (i - 1))
let int_of_nat n = let rec go acc = function O -> acc | S m -> go (acc + 1) m in go 0 n
let z_of_int (i : int) : z = if i = 0 then Z0 else if i > 0 then Zpos (pos_of_int i) else Zneg (pos_of_int (- i))
let int_of_z = function Z0 -> 0 | Zpos p -> int_of_pos p | Zneg p -> - (int_of_pos p)

let unhex (s : string) : n list =
  if s = "-" then [] else
  List.init (String.length s / 2) (fun i -> n_of_int (int_of_string ("0x" ^ String.sub s (2 * i) 2)))
let hex (l : n list) : string =
  if l = [] then "-" else String.concat "" (List.map (fun c -> Printf.sprintf "%02x" (int_of_n c)) l)

(* token stream *)
let toks : string array ref = ref [||]
let pos = ref 0
let next () = let t = !toks.(!pos) in incr pos; t
let next_int () = int_of_string (next ())
let next_hex () = unhex (next ())
let next_opt () = let t = next () in if t = "_" then None else Some (unhex t)
let rec times n f = if n <= 0 then [] else let x = f () in x :: times (n - 1) f

let rec parse_action () : action =
  match next () with
  | "I" -> let p = next_hex () in let a = next_opt () in AImport (p, a)
  | "F" ->
      let np = next_int () in let ps = times np next_hex in
      let ni = next_int () in let is = times ni (fun () -> let n = next_hex () in let a = next_opt () in (n, a)) in
      AFrom (ps, is)
  | "S" -> let x = next_hex () in let v = next_int () in ASet (x, z_of_int v)
  | "D" -> let x = next_hex () in ADef x
  | "C" -> let n = next_int () in let p = times n next_hex in let x = next_hex () in let v = next_int () in
      ACallSet (p, x, z_of_int v)
  | "O" -> let n = next_int () in let p = times n next_hex in AObs (EPath p)
  | "Q" -> let n = next_int () in let p = times n next_hex in let m = next_int () in let q = times m next_hex in
      AObs (ESame (p, q))
  | "X" -> AFail
  | "T" -> let n = next_int () in let b = times n parse_action in ATry b
  | "R" -> let k = next_int () in let n = next_int () in let b = times n parse_action in AIfRun (nat_of_int k, b)
  | t -> failwith ("bad action token " ^ t)

let outcome_s = function
  | OK -> "ok"
  | Err ENotFound -> "notfound" | Err ECompile -> "compile" | Err EBoom -> "boom"
  | Err ECannotImport -> "cannotimport" | Err EAttr -> "attr" | Err ENotModule -> "notmodule" | Err EUnbound -> "UNBOUND"
  | Err ECycle -> "cycle"
  | Panic -> "panic-depth" | Fuel -> "FUEL"

let obs_s = function
  | OInt z -> "i:" ^ string_of_int (int_of_z z)
  | OBool b -> if b then "b:true" else "b:false"
  | ONil -> "nil"
  | OMod (n, id) -> "m:" ^ hex n ^ "#" ^ string_of_int (int_of_nat id)

let cur_root : n list ref = ref []
let event_s = function
  | EvReq (n, RFound (e, fresh)) ->
      "R:" ^ hex n ^ ":found:" ^ hex e ^ ":" ^ (if fresh then "1" else "0") ^ ":" ^ hex (local_file !cur_root n e)
  | EvReq (n, RNotFound) -> "R:" ^ hex n ^ ":notfound"
  | EvReq (n, RBad e) -> "R:" ^ hex n ^ ":bad:" ^ hex e
  | EvStart (n, k, d) -> "S:" ^ hex n ^ ":" ^ string_of_int (int_of_nat k) ^ "@" ^ string_of_int (int_of_nat d)
  | EvDone (n, d) -> "D:" ^ hex n ^ "@" ^ string_of_int (int_of_nat d)
  | EvObs (v, d) -> "O:" ^ obs_s v ^ "@" ^ string_of_int (int_of_nat d)

let uniq l = List.sort_uniq compare l

let do_case () =
  cur_root := next_hex ();
  let nf = next_int () in
  let files = times nf (fun () ->
      let n = next_hex () in let e = next_hex () in
      match next () with
      | "B" -> ((n, e), MBad)
      | "M" -> let k = next_int () in let b = times k parse_action in ((n, e), MBody b)
      | t -> failwith ("bad file kind " ^ t)) in
  (match next () with "MAIN" -> () | t -> failwith ("expected MAIN, got " ^ t));
  let k = next_int () in
  let main = times k parse_action in
  let fuel = nat_of_int 200000 in
  let (o, s) = run_main fuel files default_exts main in
  let evs = List.rev_map event_s s.trace in
  let names = uniq (List.map fst s.starts @ List.map fst s.cycles) in
  let counters = List.map (fun n ->
      Printf.sprintf "%s:%d:%d:%d:%d" (hex n) (int_of_nat (get n s.starts)) (int_of_nat (get n s.dones))
        (int_of_nat (get n s.fails)) (int_of_nat (get n s.cycles))) names in
  let acc = (List.for_all action_accepted main) && tree_accepted files in
  Printf.printf "%s | %s | %s | acc=%d\n" (outcome_s o) (String.concat " " evs) (String.concat " " counters)
    (if acc then 1 else 0)

let do_spelling () =
  let root = next_hex () in
  let sp = match next () with
    | "ii" -> let p = next_hex () in SpImportIdent (p, None)
    | "iq" -> let p = next_hex () in SpImportQuoted (p, None)
    | "fd" -> let np = next_int () in let ps = times np next_hex in
        let ni = next_int () in let is = times ni (fun () -> (next_hex (), None)) in SpFromDotted (ps, is, false)
    | "fq" -> let p = next_hex () in
        let ni = next_int () in let is = times ni (fun () -> (next_hex (), None)) in SpFromQuoted (p, is, false)
    | t -> failwith ("bad spelling " ^ t) in
  let acc = accepted sp in
  let names = requested sp in
  Printf.printf "acc=%d names=%s ok=%s local=%s fs=%s\n" (if acc then 1 else 0)
    (String.concat "," (List.map hex names))
    (String.concat "," (List.map (fun n -> if name_okb n then "1" else "0") names))
    (String.concat "," (List.concat_map (fun n -> List.map (fun e -> hex (local_file root n e)) default_exts) names))
    (String.concat "," (List.concat_map (fun n -> List.map (fun e -> hex (fs_file n e)) default_exts) names))

let () =
  try
    while true do
      let line = input_line stdin in
      toks := Array.of_list (List.filter (fun s -> s <> "") (String.split_on_char ' ' line));
      pos := 0;
      (try
        match next () with
        | "CASE" -> do_case ()
        | "SP" -> do_spelling ()
        | t -> print_endline ("BADINPUT " ^ t)
      with Failure m -> print_endline ("BADINPUT " ^ m) | Invalid_argument m -> print_endline ("BADINPUT " ^ m))
    done
  with End_of_file -> ()
