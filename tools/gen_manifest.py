#!/usr/bin/env python3
"""Regenerates /verif/MANIFEST.json from the table below (kept valid at all times)."""
import json, os, sys

VERIF = os.path.dirname(os.path.dirname(os.path.abspath(__file__)))
props = [json.loads(l) for l in open(os.path.join(VERIF, "properties.jsonl"))]

CLAIMS = {
 "C14": dict(
  text="Gallina model of validateImportPath, name/file derivation (over the proved filepath model of C13) and the VM's import machinery; proved confinement of every file/name for every accepted spelling and every evaluation, start accounting for all programs, once/same-object, distinct globals arrays and write locality; refutation witnesses replayed on the implementation. Tied by extracted-model trace correspondence on three importer routes (local importer, recording wrapper, FSImporter over a recording fs.FS) and a sentinel / call-stack oracle.",
  note="Parser-node acceptance is a checked hypothesis (every node of the real parser's AST must be accepted by the model on every run); operand stack not modelled beyond the body result; clones/symlinks out of scope.",
  technique="Rocq invariant proofs over a fuel-indexed interpreter + extracted-model trace correspondence on three importer routes + sentinel/call-stack oracle", ref="DESIGN.md section 5 C14"),
 "C08": dict(
  text="Gallina model of typeconv.go/proxy.go including reflect assignability; proved for all unnamed types of any depth: From is total, From/To round trip, read-after-write of fields, exact argument delivery; refutation witnesses (named scalars, uint64, pointer-to-named, copy proxies ...) replayed on the implementation. Tied by extracted-model correspondence on reflect-built types to depth 3 with zero/nil/extreme values and a widening / read-back / argument oracle; every evaluation runs under recover so an escaped panic is observed directly.",
  note="reflect is trusted and validated by the tie; inexact float conversions skipped; the inductive theorems exclude declared types, structs and interface{} (covered by exact correspondence).",
  technique="Rocq induction on Go types + extracted-model correspondence on reflect-built types + widening/read-back/args oracle", ref="DESIGN.md section 5 C08"),
 "C15": dict(
  text="Gallina model of Equals/Compare/HashKey/contains/sorted/IsTruthy over ints (wrapping), floats (bit patterns), bytes, strings, bools, nil, byte_slices and nested lists/maps/sets. Proved for all values: == is reflexive off NaN; symmetric and transitive under explicit guards, with kernel-checked refutation witnesses for the unguarded statements (int/float rounding above 2^53); != is the negation; <,<=,>,>= form a total preorder consistent with == on every single type (int, float without NaN, byte, string, bool, lists of one type) with a refutation for mixed lists; set membership agrees with == under a guard (refuted across numeric types); sorted is a stable ordered permutation and idempotent; truthiness agrees with len. Tied by differential runs of the extracted model against object-API and script evaluation of the same operand tuples, plus algebraic oracles on the implementation alone.",
  note="Trusted: Coq kernel, extraction, harness, float bit-pattern conversion in the harness. Known findings: int/float equality is not transitive above 2^53; set membership is per-type.",
  technique="Rocq theorems on a Gallina model of the value algebra + extracted-model correspondence + algebraic oracles", ref="DESIGN.md section 5 C15"),
 "C16": dict(
  text="The index/slice resolution functions are regenerated from object/list.go by a mini-translator and proved equal to the specification for all integers. Lists are modelled as Go slices (backing array + length, in-place delete, append growth) and proved to refine immutable mathematical lists for every operation sequence (C16_refines), with read-only operations pure, a frame theorem, errors leaving the state unchanged; maps and sets satisfy the finite-map / finite-set laws; byte_slices refine independent byte strings; strings index and slice by code point (UTF-8 round trip proved for all valid code points). Tied by running random operation histories through the extracted model and through scripts and the object API, comparing every result and the final store.",
  note="Trusted: Coq kernel, c16tr (go/ast translator for resolveIndex/resolveIntSlice), extraction, harness. The Go runtime's slice semantics are modelled (gslice), not verified.",
  technique="Rocq refinement proof (Go-slice model to mathematical lists) + regenerated index arithmetic + extracted-model correspondence over operation histories", ref="DESIGN.md section 5 C16"),
 "C19": dict(
  text="Every wrapper is a record interpreted by a generic Gallina interpreter with the Go function as a parameter. Proved for all records and all argument tuples: exact agreement with the Go function on converted arguments, the first conversion error otherwise, value guards (repeat) give errors, never panics. Every record regenerated from the source by go/ast passes its parameters in declaration order to the specified callee (kernel computation over the regenerated table). Codec inversion is proved from the encoder/decoder law; hex is proved outright; the tree-level JSON round trip is guarded by |int| <= 2^53 and valid UTF-8 with refutation witnesses; json.marshal equals the codec on the JSON domain. Tied by differential runs of every wrapped function through the object API and through scripts against direct Go calls, and of the codecs against an independent Python reference.",
  note="Trusted: Coq kernel, c19gen (go/ast) and the specification tables (re-validated by executing each record against the implementation), extraction, harness, Python reference codecs. The Go standard library is a parameter; the round-trip law of base64/base32/gzip/urlquery is a section hypothesis tested on every run; 19 irregular wrappers are covered differentially only. Known findings: JSON integers above 2^53, invalid UTF-8 in JSON, byte_slice encoding differs between codec and json.marshal.",
  technique="Rocq theorems on a regenerated wrapper table + extracted-model correspondence + independent reference oracle", ref="DESIGN.md section 5 C19"),
 "C11": dict(
  text="Gallina model of Config.init (defaults, denylist with dotted module paths, overrides), Module.Override and resolveModule over a labelled object graph regenerated on every run from the running packages (GetAttr closure of two default configurations, 1865 nodes). Proved: the fuelled reachability search is exact for every graph (reach_complete); script access paths (identifier, import, attribute, getattr, __module__) are graph paths and conversely; denying or overriding a registered name - nested to any depth - removes or redirects exactly that edge; for each of the 246 registered names of the generated graph the denied object has no access path (finite domain, kernel computation lifted through forallb_forall); configurations are independent (frame theorem). Tied by differential runs: every single-deny and single-override configuration, nested host-defined module trees, sampled subsets, judged by object identity on the real objects and by risor.Eval access attempts.",
  note="Trusted: Coq kernel, the graph generator (c11gen with the add-only overlay hook VerifAttrNames), extraction, harness. Map-order independence of deny/override lists is observed, not proved. Capability aliases (distinct builtins wrapping one Go function, e.g. os.getenv and getenv) are reported in evidence only.",
  technique="Rocq reachability completeness + regenerated object graph (finite-domain kernel computation) + identity-based differential oracle", ref="DESIGN.md section 5 C11"),
 "C12": dict(
  text="Proved by induction on context derivations (top level, host call, clone, spawn, synchronous clone call, import, callback, in any nesting) mirroring vm.getOS / initContext / Clone: when the host supplies an OS, every derived context sees that OS. Proved by a reachability computation with the completeness lemma over a static call graph regenerated with go/ssa on every run (18028 functions): no function of modules os / filepath / fmt, the builtins or object/file.go reaches a function of Go's os, os/user, io/ioutil or syscall packages (calls through the ros.OS / FS / File interfaces cut). Tied by a recording OS passed with WithOS and, separately, in the context, over every OS-facing builtin x context x supply mode, with real-process sentinels (files, environment, cwd, standard streams).",
  note="Trusted: Coq kernel, c12gen (go/ssa static call graph; interface calls not followed, one documented cut at time.initLocal), extraction, harness. Two documented fall-backs lie outside the hypothesis host_supplies (context value wins over WithOS; a clone called with a bare context when the OS was supplied in the context only).",
  technique="Rocq induction on derivations + proved reachability over a regenerated static call graph + recording-OS differential oracle", ref="DESIGN.md section 5 C12"),
 "C05": dict(
  text="Go's map iteration order is made an explicit parameter (a permutation of the entries). Proved in Coq for maps of any size: the three order-insensitive loop shapes found in risor - copy by key, collect-then-sort under a total order, commutative aggregate - give the same result for every visiting order. Tied to the source by a go/types translator that regenerates the list of every range-over-map site in the packages the embedding API depends on; the obligation that each existing site is classified is a kernel computation, so a new map iteration breaks it. The oracle compiles and evaluates generated and map/set-centred programs repeatedly in fresh VMs and fresh processes and compares marshalled bytes, results, error texts and captured output.",
  note="Trusted: Coq kernel, the translator, and the hand classification of the 58 sites (coq/model/MapSites.v; seven sites are outside the property: I/O modules, a test helper, error-message choice, overlapping deny/override names). rand/time/scheduling are excluded by the property.",
  technique="Rocq permutation-invariance theorems + regenerated site table obligation + repeated fresh-process oracle", ref="DESIGN.md section 5 C05"),
 "C18": dict(
  text="Theorems on a reduced store-transformer model of incremental evaluation (Coq, closed): for every program, every partition into consecutive pieces and every placement of rejected pieces, the incremental run ends in the whole-program store when no statement fails, and rejected pieces are inert (same store, same results of the other pieces) also in the presence of run-time failures. The oracle drives ONE compiler and ONE VM exactly as cmd/risor/repl does on random partitions of generated programs with parser-rejected, compiler-rejected and failing pieces inserted, and compares globals, values and print trace with the whole-program run / the history without the insert; 1100 consecutive expression pieces check the stack.",
  note="Trusted: Coq kernel, harness. The theorems assume what the oracle checks on the code: a rejected piece leaves no trace and a statement's effect depends only on the globals. Known finding: a compiler-rejected compound piece is not rolled back.",
  technique="Rocq theorems on a reduced model + REPL-equivalence oracle on the implementation", ref="DESIGN.md section 5 C18"),
 "C17": dict(
  text="Proved in Coq for marshalled states of any size and nesting: with distinct function ids and code ids (what the compiler produces, checked on every real state) codeFromState's lookups link every function constant to its own code object and every code object to its parent again, and the repaired rule recomputes the named flag exactly (the pre-repair rule is refuted by a function called __main__). The extracted relinking is run on the real definitions of every program and compared with what UnmarshalCode rebuilt. The oracle marshals twice, unmarshals, re-marshals and evaluates original and reloaded code side by side for the programs of the C01/C02 generators and the corpus.",
  note="Trusted: Coq kernel, extraction, harness; encoding/json's verbatim transport of numbers, valid UTF-8 strings and arrays is assumed (and exercised by the byte-equality oracle). Known finding: string constants that are not valid UTF-8.",
  technique="Rocq lookup/uniqueness theorems on the flat state + extracted-model correspondence + round-trip oracle", ref="DESIGN.md section 5 C17"),
 "C03": dict(
  text="Crash-isolated differential fuzzing of the embedding API (parser.Parse, error renderers, Program.String, compiler.Compile, risor.Eval with the default globals, host-side Inspect/Interface/Equals/HashKey) on token soup, single-token mutants, truncations and hostile scripts, in child processes under a memory limit and a watchdog: an escaping Go panic, a dead child or a hang is a violation with the input as replay. Proved in Coq: the natively recursive object traversals (Equals, and the item visitors Inspect/Interface/MarshalJSON) terminate on every acyclic heap within a rank-bounded depth, and diverge for every fuel on the cyclic witness (the known finding). The lexer/parser/compiler/VM models of C01/C20 carry the outcome-class correspondence for the same inputs.",
  note="Trusted: Coq kernel, harness, watchdog limits. Native stack size, memory exhaustion and Go's recover semantics are runtime facts; the traversal model abstracts object/list.go (lists of ints and references). Panic-freedom of the parser/compiler is not a theorem: it is searched for by the fuzz streams (which found and led to the repair of four parser defects). Known finding: cyclic containers.",
  technique="Rocq termination/divergence theorems on a traversal model + crash-isolated fuzzing oracle", ref="DESIGN.md section 5 C03"),
 "C20": dict(
  text="Proved in Coq for the lexer model and every input text: every position carried by every token (and by the token a lexical error is reported at) is a position of the source - line = number of newlines before the offset, column = distance from the line start, no newline in between, offset within the text - hence the reported line exists and the column lies within it; the repeat counts of the error renderer are never negative; the parser model's precedence table equals the regenerated one. Tied to the code by token-level correspondence including all five position fields on generated programs, their layout variants and single-token mutants; the layout oracle (AST and bytecode of every re-laid-out variant equal the original's) and the diagnostics oracle (line/column exist, quoted line verbatim, rendering succeeds) run on the implementation.",
  note="Trusted: Coq kernel, extraction, harness, variant generator. The layout-invariance theorem for the lexer model is not proved (checked by the variant correspondence on model and implementation). Parser/compiler error positions are token positions of the lexer (by inspection of the models, exercised by the mutant stream). An error at the very end of the input quotes the last line that has text (deliberate).",
  technique="Rocq invariant proof over the lexer model + model correspondence + layout/diagnostics oracles", ref="DESIGN.md section 5 C20"),
 "C01": dict(
  text="The whole pipeline is modelled in Gallina (lexer, Pratt parser, compiler with symbol tables, VM) next to an independent definitional source semantics Sem. Proved: parse(print e)=e for the reduced Pratt parser instantiated with the precedence table regenerated from parser/precedence.go (all trees over all binary operators, unbounded), and the equality of the parser model's precedence function with that table. Tied to the code on every run by exact agreement of tokens+positions, ASTs, bytecode and results between the implementation and the extracted models on seeded grammar-directed programs, and judged by the Sem oracle (value, error class, print trace).",
  note="Trusted: Coq kernel, extraction, harness, generators; Sem states the source-level rules and is itself validated against the implementation; the compile-correctness theorem over the full models (C01_back) is not proved yet - the back end is covered by exact bytecode/result correspondence and the Sem oracle. Known finding: compound assignment to an index/attribute target evaluates the target twice.",
  technique="Rocq theorem on regenerated tables + extracted-model correspondence at four stages + definitional-semantics oracle", ref="DESIGN.md section 5 C01"),
 "C02": dict(
  text="Closure simulation theorem (Coq): for the reduced closure language, whenever the lexical source semantics evaluates a program, the code produced by the cell-passing closure conversion (MakeCell for own locals, LoadCell for received cells) computes a related value, for capture at any depth and any call path. The reduced source semantics is run against the implementation on random programs; the full compiler/VM models agree exactly with the real bytecode and results; Sem (lexical by construction) judges nestings of depth 1..5 over in-model escape routes, and route independence judges list.map/each/filter, sorted, try, spawn, go+channel and vm.Get+vm.Call from Go.",
  note="Trusted: Coq kernel, extraction, harness; the theorem is about the reduced language of model/Clos.v, tied behaviourally and by inspection of the real bytecode (no positional MakeCell); goroutine timing not modelled.",
  technique="Rocq simulation proof on reduced closure language + model correspondence + Sem/route-independence oracles", ref="DESIGN.md section 5 C02, Appendix A.8"),
 "C13": dict(
  text="Theorems (Coq, closed under the global context) over a Gallina model of filepath.Clean/Join, os.ResolvePath and VirtualOS.findMount: confinement of every resolved path under the base for all strings; longest component-wise mount prefix, refusal iff under no mount. The model is tied to the code by an exhaustive comparison over the property's whole path alphabet plus random paths, and an independent oracle checks the implementation's outputs and real filesystem effects.",
  note="Trusted: Coq kernel, extraction (ExtrOcamlBasic), the Go harness and Python oracle; Go's filepath/strings functions are modelled, not verified; mount keys assumed clean absolute paths equal to Mount.Target.",
  technique="Rocq proof over hand model + exhaustive extracted-model correspondence", ref="DESIGN.md section 5 C13"),
 "C04": dict(
  text="A certificate checker for stack heights over risor bytecode is proved sound in Coq (for every path, taken or not, and any number of loop iterations: no underflow, height a function of the pc, bounded, main ends with exactly its result). The extracted checker is run on the real bytecode of every generated program; the abstract machine is tied to the real VM by a build-time trace hook (observed height before every executed instruction must equal the certified label) and to package op by a regenerated opcode table; loop bodies are also run with bounds 3 and 3000.",
  note="Trusted: Coq kernel, extraction, harness; the abstract height machine models vm.eval's dispatch (validated dynamically on every executed instruction); calls assumed to return one value. Known finding: control flow in operand position of an unfinished expression.",
  technique="Rocq-proved certificate checker run on real bytecode + traced VM correspondence", ref="DESIGN.md section 5 C04, Appendix A.7"),
}

def main():
    checks = []
    for pid in sorted(CLAIMS):
        c = CLAIMS[pid]
        checks.append({
            "property_id": pid,
            "quick_cmd": "./check %s --tier quick" % pid,
            "thorough_cmd": "./check %s --tier thorough" % pid,
            "evidence_file": "evidence/%s.json" % pid,
            "replay_cmd_template": "./check %s --replay {path}" % pid,
            "engine": "rocq-proof",
            "level_claimed": {"category": c.get("category", "proof"), "text": c["text"], "design_ref": c["ref"]},
            "level_note": c["note"],
            "technique": c["technique"],
        })
    m = {
        "version": 1,
        "setup_cmd": "./check --setup",
        "hooks": {"guard": "verif",
                  "enable": "go build -tags verif in the harness module /verif/harness (replace => /repo); the vm trace hook is an add-only file hooks/vm_verif.go.txt injected with `go build -overlay` together with a copy of the current vm/vm.go that has one call inserted at the head of the eval loop; hooks/module_verif.go.txt (attribute names of modules, C11) and hooks/repl_c18_test.go.txt (a verif-tagged test file of package cmd/risor/repl that drives the REPL's own evaluator, built with `go test -c -overlay` in the repository's workspace, C18) are injected the same way; no file under /repo is edited",
                  "baseline_off_cmd": "./tools/baseline.sh",
                  "source_commits": [],
                  "add_only": True},
        "engines": [{"name": "rocq-proof", "path": "coq/", "serves_properties": sorted(CLAIMS),
                     "kind_free_text": "Coq 8.16.1 theorems over Gallina models (hand-written, plus tables regenerated from the source), extracted-model correspondence against the Go implementation, independent oracles on the implementation's observations"}],
        "checks": checks,
        "notes": "see DESIGN.md; known findings in known_findings.jsonl",
        "not_applicable": [{"property_id": p["id"], "reason": "check under construction in this build round (DESIGN.md section 8 work plan); not yet claimed"}
                           for p in props if p["id"] not in CLAIMS],
    }
    json.dump(m, open(os.path.join(VERIF, "MANIFEST.json"), "w"), indent=1)
    print("claimed:", sorted(CLAIMS))

if __name__ == "__main__":
    main()
