#!/bin/bash
# The repository's stable baseline with the verification guard OFF (no -tags verif, no overlay).
# Same command as /root/.vp/BASELINE.json.
for m in $(cat /w/out/gomods.txt); do MF=$(cd /repo/$m && . /w/out/goenv.sh && gomodflag); (cd /repo/$m && go test $MF -json -vet=off -count=1 -timeout 25m ./...); done
