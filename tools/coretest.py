#!/usr/bin/env python3
"""dev helper: generate N programs from a seed, run all stages, print disagreements."""
import sys, time, collections
sys.path.insert(0, '/verif')
from lib import common as C, gen, core
n = int(sys.argv[1]); seed = int(sys.argv[2]); show = int(sys.argv[3]) if len(sys.argv) > 3 else 3
feats = sys.argv[4].split(',') if len(sys.argv) > 4 else []
rng = C.Rng(seed)
srcs = []
for i in range(n):
    srcs.append(gen.Gen(rng, features=feats, budget=40).program())
class R:
    def violation(self, *a, **k): print("VIOL", a, k)
tools = core.build(R(), "C01")
t = time.time()
st = core.stages(srcs, tools, "/verif/build/work/t1")
print("time %.1f" % (time.time() - t), st["_problems"])
def cmp(a, b, name):
    d = 0; sk = 0
    for i, (x, y) in enumerate(zip(st[a], st[b])):
        x = core.canon_eval(x); y = core.canon_eval(y)
        if core.skipped(x) or core.skipped(y): sk += 1; continue
        if x.startswith("ERR FUEL") and y.startswith("ERR FUEL"): continue
        if x != y:
            d += 1
            if d <= show:
                print("=====", name, i); print(srcs[i]); print("IMPL ", x[:400]); print("MODEL", y[:400])
    print(name, "diffs", d, "skipped", sk, "of", len(st[a]))
cmp("tok_go", "tok_mo", "tok"); cmp("past_go", "past_mo", "past"); cmp("code_go", "code_mo", "code")
cmp("eval_go", "vm_mo", "vm"); cmp("eval_go", "sem_mo", "sem")
c = collections.Counter(x.split(' ')[0] + ' ' + (x.split(' ')[1] if x.startswith('ERR') or x.startswith('SKIP') else '') for x in st["eval_go"])
print(c.most_common(12))
c = collections.Counter(' '.join(x.split(' ')[:2]) for x in st["sem_mo"] if core.skipped(x)); print("sem skipped:", c.most_common(5))
