#!/bin/bash
# usage: tools/seedtest.sh Cnn patch.diff   -> applies the patch to /repo, runs the quick check, restores /repo
prop=$1; patch=$2
cd /repo && git apply --check "$patch" || { echo "PATCH DOES NOT APPLY"; exit 2; }
git apply "$patch"
cd /verif && ./check $prop > /tmp/seed_$prop.out 2>/tmp/seed_$prop.err; rc=$?
git -C /repo checkout -- . ; git -C /repo clean -fdq -e cmd/risor-docs/risor-docs -e cmd/risor-modgen/risor-modgen >/dev/null 2>&1
echo "rc=$rc violations=$(grep -c '^VIOLATION' /tmp/seed_$prop.out) nofail=$(grep -c 'no-failing-input-found' /tmp/seed_$prop.out)"
grep '^VIOLATION' /tmp/seed_$prop.out | head -2
