#!/usr/bin/env python3
"""Resolve a merge conflict in known_findings.jsonl: union of both sides; for the same (property, id) the other
side's line (the branch being merged: the newer statement, e.g. an entry turned into `fixed`) wins."""
import json, subprocess
def show(stage):
    return [l for l in subprocess.run(["git", "show", ":%d:known_findings.jsonl" % stage], stdout=subprocess.PIPE).stdout.decode().splitlines() if l.strip()]
ours, theirs = show(2), show(3)
def ident(l):
    if l.startswith('#'): return None
    d = json.loads(l); return (d['property'], d.get('id')) if d.get('id') else None
out = list(ours)
byid = {ident(l): i for i, l in enumerate(out) if ident(l)}
for l in theirs:
    if l in out: continue
    k = ident(l)
    if k and k in byid: out[byid[k]] = l
    else:
        out.append(l)
        if k: byid[k] = len(out) - 1
open('known_findings.jsonl', 'w').write("\n".join(out) + "\n")
print(len(ours), len(theirs), len(out))
