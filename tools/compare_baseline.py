#!/usr/bin/env python3
"""Compare a `go test -json` stream with BASELINE.json's stable_pass list."""
import json, sys
base = json.load(open('/root/.vp/BASELINE.json'))
stable = set(base['stable_pass'])
passed, failed = set(), set()
for line in open(sys.argv[1], errors='replace'):
    line = line.strip()
    if not line.startswith('{'):
        continue
    try:
        j = json.loads(line)
    except Exception:
        continue
    if j.get('Test') and j.get('Action') in ('pass', 'fail'):
        k = j['Package'] + '::' + j['Test']
        (passed if j['Action'] == 'pass' else failed).add(k)
missing = sorted(stable - passed)
print('stable', len(stable), 'passed', len(passed), 'failed', len(failed), 'stable-not-passed', len(missing))
for m in missing[:40]:
    print('  MISSING', m)
sys.exit(1 if missing else 0)
