#!/usr/bin/env python3
"""Run every seeded change under /verif/seeded against the check of its property.

For each seeded/<id>/patch.diff: git -C /repo apply, ./check <Cnn> --tier quick, git -C /repo checkout -- .
(and removal of files the patch added).  Records the outcome in seeded/<id>/meta.json ("check_result") and
writes seeded/RESULTS.md.  /repo is left exactly as it was."""
import json
import os
import subprocess
import sys

VERIF = os.path.dirname(os.path.dirname(os.path.abspath(__file__)))
REPO = "/repo"


def sh(cmd, cwd=VERIF):
    p = subprocess.run(cmd, cwd=cwd, shell=True, stdout=subprocess.PIPE, stderr=subprocess.STDOUT)
    return p.returncode, p.stdout.decode("utf-8", "replace")


def main():
    only = sys.argv[1:]
    rows = []
    if sh("git status --porcelain", REPO)[1].strip():
        print("refusing: /repo has uncommitted changes")
        return 2
    for d in sorted(os.listdir(os.path.join(VERIF, "seeded"))):
        sd = os.path.join(VERIF, "seeded", d)
        if not os.path.isdir(sd) or (only and d not in only):
            continue
        meta = json.load(open(os.path.join(sd, "meta.json")))
        prop = meta["property"]
        rc, o = sh("git apply %s" % os.path.join(sd, "patch.diff"), REPO)
        if rc != 0:
            rows.append((d, prop, "PATCH DOES NOT APPLY", ""))
            print(d, prop, "PATCH DOES NOT APPLY", flush=True)
            sh("git checkout -- . && git clean -fdq", REPO)
            continue
        ev = os.path.join(VERIF, "evidence", prop + ".json")
        keep = open(ev, "rb").read() if os.path.exists(ev) else None
        try:
            rc, out = sh("./check %s --tier quick" % prop)
        finally:
            sh("git checkout -- . && git clean -fdq", REPO)
            if keep is not None:
                open(ev, "wb").write(keep)      # evidence stays the one of the last clean-tree run
        viol = [l for l in out.splitlines() if l.startswith("VIOLATION")]
        nofail = [l for l in viol if l.rstrip().endswith("no-failing-input-found")]
        if rc == 0 and not viol:
            verdict = "MISSED"
        elif viol and len(nofail) == len(viol):
            verdict = "caught (proof obligation / correspondence broken, no failing input found)"
        else:
            verdict = "caught with a concrete failing input"
        first = ""
        if viol:
            rp = viol[0].split("replay=")[1].split()[0]
            try:
                rj = json.load(open(os.path.join(VERIF, rp)))
                first = str(rj.get("why") or rj.get("kind") or "")[:200]
            except Exception:
                pass
        meta["check_result"] = {"command": "./check %s --tier quick" % prop, "exit": rc, "violation_lines": len(viol),
                                "verdict": verdict, "first_violation": first,
                                "repo_head": sh("git rev-parse --short HEAD", REPO)[1].strip()}
        json.dump(meta, open(os.path.join(sd, "meta.json"), "w"), indent=1)
        rows.append((d, prop, verdict, first))
        print(d, prop, verdict, flush=True)
    # the table is rebuilt from every seed's recorded result (a partial run keeps the other rows)
    allrows = []
    for d in sorted(os.listdir(os.path.join(VERIF, "seeded"))):
        mp = os.path.join(VERIF, "seeded", d, "meta.json")
        if os.path.exists(mp):
            m = json.load(open(mp))
            cr = m.get("check_result") or {}
            if isinstance(cr, dict):
                allrows.append((d, m.get("property", ""), cr.get("verdict", "not run"), str(cr.get("first_violation", "")), cr.get("repo_head", "")))
    with open(os.path.join(VERIF, "seeded", "RESULTS.md"), "w") as f:
        f.write("# Seeded changes against the checks (quick tier)\n\n| seed | property | result | first violation | /repo HEAD |\n|---|---|---|---|---|\n")
        for r in allrows:
            f.write("| %s | %s | %s | %s | %s |\n" % (r[0], r[1], r[2], r[3].replace("|", "/").replace("\n", " "), r[4]))
    return 0


if __name__ == "__main__":
    sys.exit(main())
