#!/usr/bin/env python3
"""Confirm a seeded change delivered by a mutation sub-agent and file it under /verif/seeded/<id>/.

usage: tools/confirmseed.py <Cnn> <k> <delivery-dir> [--check "<what the check reported>"]

In a scratch git worktree of /repo's HEAD (outside /repo and /verif, removed afterwards):
  1. the patch applies, the tree builds, the root module's test suite passes with it (go test -count=1 ./...);
  2. the demonstration fails with the patch and passes without it.
Only then is the change stored: patch.diff, demo_test.go, RUN.md, meta.json (the agent's own description plus
a "confirmed" block with what was run here).  Nothing is ever applied to /repo by this tool."""
import json
import os
import re
import shutil
import subprocess
import sys

VERIF = os.path.dirname(os.path.dirname(os.path.abspath(__file__)))
REPO = "/repo"
PKGDIR = {"risor": ".", "vm": "vm", "repl": "cmd/risor/repl", "os": "os", "compiler": "compiler", "parser": "parser",
          "lexer": "lexer", "object": "object", "errz": "errz", "ast": "ast", "builtins": "builtins", "importer": "importer", "localfs": "os/localfs", "filepath": "modules/filepath", "strings": "modules/strings", "bytes": "modules/bytes", "json": "modules/json", "regexp": "modules/regexp", "fmt": "modules/fmt", "math": "modules/math", "strconv": "modules/strconv", "compiler_test": "compiler"}


def sh(cmd, cwd, timeout=1800):
    env = dict(os.environ, GOPROXY="off")
    env.pop("GOFLAGS", None)
    p = subprocess.run(cmd, cwd=cwd, shell=True, stdout=subprocess.PIPE, stderr=subprocess.STDOUT, env=env, timeout=timeout)
    return p.returncode, p.stdout.decode("utf-8", "replace")


def main():
    pid, k, src = sys.argv[1], sys.argv[2], sys.argv[3]
    note = sys.argv[5] if len(sys.argv) > 5 and sys.argv[4] == "--check" else ""
    wt = "/tmp/seedwt-%s-%s" % (pid, k)
    sh("git worktree remove --force %s" % wt, REPO)
    rc, o = sh("git worktree add --detach %s HEAD" % wt, REPO)
    if rc != 0:
        print("worktree failed", o)
        return 2
    conf = {"repo_head": sh("git rev-parse --short HEAD", REPO)[1].strip()}
    try:
        demo = open(os.path.join(src, "demo_test.go")).read()
        m = re.search(r"^package (\w+)", demo, re.M)
        pkg = m.group(1)
        if pkg.endswith("_test"):
            pkg = pkg[:-5]
        d = PKGDIR[pkg]
        tname = "zz_seed_demo_test.go"
        tests = re.findall(r"^func (Test\w+)\(", demo, re.M)
        runre = "^(%s)$" % "|".join(tests)
        # without the patch: the demonstration passes
        shutil.copy(os.path.join(src, "demo_test.go"), os.path.join(wt, d, tname))
        rc0, o0 = sh("go test -vet=off -count=1 -run '%s' ./%s" % (runre, d), wt)
        conf["demo_without_patch"] = "pass" if rc0 == 0 else "FAIL"
        os.remove(os.path.join(wt, d, tname))
        rc, o = sh("git apply %s" % os.path.join(src, "patch.diff"), wt)
        conf["patch_applies"] = rc == 0
        if rc != 0:
            print(o)
        rc, o = sh("go build ./...", wt)
        conf["builds"] = rc == 0
        rc, o = sh("go test -vet=off -count=1 ./... 2>&1 | grep -v '^ok\\|no test files' ; true", wt)
        bad = [l for l in o.splitlines() if l.strip() and "conda" not in l]
        conf["suite_with_patch"] = "pass" if not bad else "FAIL: " + " | ".join(bad[:5])
        shutil.copy(os.path.join(src, "demo_test.go"), os.path.join(wt, d, tname))
        rc1, o1 = sh("go test -vet=off -count=1 -run '%s' ./%s" % (runre, d), wt)
        conf["demo_with_patch"] = "fail" if rc1 != 0 else "PASSES"
        conf["demo_failure_excerpt"] = "\n".join(l for l in o1.splitlines() if "FAIL" in l or "Error" in l or "panic" in l)[:600]
        conf["commands"] = ["git worktree add --detach %s HEAD" % wt, "go test -vet=off -count=1 -run '%s' ./%s   (clean: expect pass)" % (runre, d),
                            "git apply patch.diff", "go build ./...", "go test -vet=off -count=1 ./...",
                            "go test -vet=off -count=1 -run '%s' ./%s   (patched: expect fail)" % (runre, d)]
    finally:
        sh("git worktree remove --force %s" % wt, REPO)
        shutil.rmtree(wt, ignore_errors=True)
    ok = conf.get("patch_applies") and conf.get("builds") and conf.get("suite_with_patch") == "pass" \
        and conf.get("demo_with_patch") == "fail" and conf.get("demo_without_patch") == "pass"
    conf["confirmed"] = bool(ok)
    print(json.dumps(conf, indent=1))
    if not ok:
        return 1
    dst = os.path.join(VERIF, "seeded", "%s-%s" % (pid, k))
    os.makedirs(dst, exist_ok=True)
    for f in ("patch.diff", "demo_test.go", "RUN.md"):
        if os.path.exists(os.path.join(src, f)):
            shutil.copy(os.path.join(src, f), os.path.join(dst, f))
    try:
        meta = json.load(open(os.path.join(src, "meta.json")))
    except Exception as ex:
        meta = {"agent_meta_unreadable": str(ex), "raw": open(os.path.join(src, "meta.json")).read()[:4000]}
    meta["property"] = pid
    meta["demo_dir"] = d
    meta["confirmed_by_builder"] = conf
    if note:
        meta["check_result"] = note
    json.dump(meta, open(os.path.join(dst, "meta.json"), "w"), indent=1)
    return 0


if __name__ == "__main__":
    sys.exit(main())
