#!/bin/bash
# usage: tools/coqshow.sh coq/proofs/X.v LINE   -> prints the goals after the first LINE lines
f=$1; n=$2
tmp=/verif/coq/proofs/ZZShow$$.v
head -n $n $f > $tmp
printf '\nShow.\nAbort.\n' >> $tmp
(cd /verif/coq && timeout 120 coqc -R . RV -w none proofs/$(basename $tmp) 2>&1 | tail -${3:-60})
rm -f $tmp /verif/coq/proofs/ZZShow$$.* /verif/coq/proofs/.ZZShow$$.aux
