"""Shared plumbing for the risor verification checks (stdlib only).

Every check follows DESIGN.md section 1:
  build harness -> translate -> prove (make) -> correspond -> oracle -> decide -> evidence
"""
import fcntl
import glob
import hashlib
import json
import os
import re
import shutil
import subprocess
import sys
import time

VERIF = os.path.dirname(os.path.dirname(os.path.abspath(__file__)))
REPO = os.environ.get("VERIF_REPO", "/repo")
BUILD = os.path.join(VERIF, "build")
BIN = os.path.join(BUILD, "bin")
WORK = os.path.join(BUILD, "work")
COQ = os.path.join(VERIF, "coq")
HARNESS = os.path.join(VERIF, "harness")
EVIDENCE = os.path.join(VERIF, "evidence")
REPLAYS = os.path.join(VERIF, "replays")
NCPU = os.cpu_count() or 4

GOENV = dict(os.environ)
GOENV.update({
    "GOFLAGS": "-mod=mod",
    "GOPROXY": "off",
    "GOSUMDB": "off",
    "GOTOOLCHAIN": "local",
    "GOWORK": "off",
    "CGO_ENABLED": os.environ.get("CGO_ENABLED", "0"),
})

TRUSTED_BASE_COMMON = [
    "Coq 8.16.1 kernel incl. vm_compute (no native_compute); full .vo build, no -vos",
    "extraction: ExtrOcamlBasic only (Extract Inductive bool/option/unit/list/prod/sumbool/sumor; "
    "no Extract Constant of ours); N/Z/positive/nat stay Coq datatypes; OCaml 4.13.1 + line-protocol driver",
    "correspondence harness (Go, /verif/harness), generators and canonicalisers",
]


_T0 = time.time()


def log(*a):
    print("[%7.1fs]" % (time.time() - _T0), *a, file=sys.stderr, flush=True)


class Lock:
    """Serialises builds (go build, make, ocaml) between concurrently running checks."""

    def __init__(self, name="build"):
        os.makedirs(BUILD, exist_ok=True)
        self.path = os.path.join(BUILD, "." + name + ".lock")

    def __enter__(self):
        self.f = open(self.path, "w")
        fcntl.flock(self.f, fcntl.LOCK_EX)
        return self

    def __exit__(self, *a):
        fcntl.flock(self.f, fcntl.LOCK_UN)
        self.f.close()


def run(cmd, cwd=None, env=None, timeout=None, input=None, check=False):
    """Run a command, return (rc, stdout, stderr) with text decoded leniently."""
    try:
        p = subprocess.run(cmd, cwd=cwd, env=env, timeout=timeout, input=input,
                           stdout=subprocess.PIPE, stderr=subprocess.PIPE)
        rc, out, err = p.returncode, p.stdout, p.stderr
    except subprocess.TimeoutExpired as e:
        rc, out, err = 124, e.stdout or b"", (e.stderr or b"") + b"\n[timeout]"
    out = out.decode("utf-8", "replace") if isinstance(out, bytes) else out
    err = err.decode("utf-8", "replace") if isinstance(err, bytes) else err
    if check and rc != 0:
        raise RuntimeError("command failed (%d): %s\n%s\n%s" % (rc, cmd, out[-4000:], err[-4000:]))
    return rc, out, err


def write_if_changed(path, text):
    os.makedirs(os.path.dirname(path), exist_ok=True)
    try:
        with open(path) as f:
            if f.read() == text:
                return False
    except FileNotFoundError:
        pass
    with open(path + ".tmp", "w") as f:
        f.write(text)
    os.replace(path + ".tmp", path)
    return True


# --------------------------------------------------------------------------- Go harness

def ensure_harness_mod():
    """go.sum of the harness must cover risor's dependencies: copy /repo/go.sum (brief, 'On this image')."""
    src = os.path.join(REPO, "go.sum")
    dst = os.path.join(HARNESS, "go.sum")
    extra = os.path.join(HARNESS, "go.sum.extra")
    text = open(src).read() if os.path.exists(src) else ""
    if os.path.exists(extra):
        text += open(extra).read()
    write_if_changed(dst, text)
    # the harness module builds against REPO (normally /repo; a scratch copy when VERIF_REPO is set)
    gm = os.path.join(HARNESS, "go.mod")
    lines = open(gm).read().split("\n")
    new = ["replace github.com/risor-io/risor => " + REPO if l.startswith("replace github.com/risor-io/risor =>") else l for l in lines]
    write_if_changed(gm, "\n".join(new))


def go_build(pkg, out=None, tags="verif", race=False, cover=False, overlay=None):
    """Build harness command ./cmd/<pkg> against /repo's current working tree."""
    os.makedirs(BIN, exist_ok=True)
    out = out or os.path.join(BIN, pkg + ("-race" if race else ""))
    with Lock("go"):
        ensure_harness_mod()
        cmd = ["go", "build", "-tags", tags, "-o", out]
        env = dict(GOENV)
        if race:
            cmd.append("-race")
            env["CGO_ENABLED"] = "1"
        if cover:
            cmd.append("-cover")
        if overlay:
            cmd += ["-overlay", overlay]
        cmd.append("./cmd/" + pkg)
        rc, o, e = run(cmd, cwd=HARNESS, env=env, timeout=900)
    if rc != 0:
        return None, (o + e)
    return out, ""


# --------------------------------------------------------------------------- Coq

def coq_project():
    """(Re)generate _CoqProject and Makefile.coq from the files on disk."""
    files = []
    for sub in ("model", "gen", "proofs", "props"):
        files += sorted(glob.glob(os.path.join(COQ, sub, "**", "*.v"), recursive=True))
    rel = [os.path.relpath(f, COQ) for f in files]
    text = "-R . RV\n-arg -w -arg -notation-overridden,-deprecated-hint-without-locality,-deprecated-instance-without-locality,-ambiguous-paths,-deprecated-hint-rewrite-without-locality\n" + "\n".join(rel) + "\n"
    changed = write_if_changed(os.path.join(COQ, "_CoqProject"), text)
    if changed or not os.path.exists(os.path.join(COQ, "Makefile.coq")):
        run(["coq_makefile", "-f", "_CoqProject", "-o", "Makefile.coq"], cwd=COQ, check=True)


def coq_make(targets, timeout=1500, jobs=None):
    """make the given .vo targets (paths relative to coq/). Returns (ok, log)."""
    with Lock("coq"):
        coq_project()
        cmd = ["timeout", str(timeout), "make", "-f", "Makefile.coq", "-j", str(jobs or NCPU)] + list(targets)
        rc, o, e = run(cmd, cwd=COQ, timeout=timeout + 30)
    return rc == 0, o + e


def theorem_names(vfile):
    txt = open(vfile).read()
    txt = re.sub(r"\(\*.*?\*\)", "", txt, flags=re.S)
    return re.findall(r"^\s*(?:Theorem|Corollary)\s+([A-Za-z0-9_']+)", txt, flags=re.M)


def print_assumptions(prop, names, extra_requires=()):
    """Ask Coq for the axioms each property theorem depends on. Returns {name: [axioms] or ['closed']}."""
    os.makedirs(WORK, exist_ok=True)
    d = os.path.join(WORK, "assum_" + prop)
    os.makedirs(d, exist_ok=True)
    src = ["Require Import RV.props.%s." % prop] + ["Require Import %s." % r for r in extra_requires]
    for n in names:
        src.append('Goal True. idtac "@@BEGIN %s". Abort.' % n)
        src.append("Print Assumptions %s." % n)
    src.append('Goal True. idtac "@@END". Abort.')
    f = os.path.join(d, "Assum.v")
    open(f, "w").write("\n".join(src) + "\n")
    rc, o, e = run(["timeout", "300", "coqc", "-R", COQ, "RV", "-w", "none", "Assum.v"], cwd=d, timeout=330)
    res = {}
    if rc != 0:
        return None, o + e
    cur = None
    for line in o.splitlines():
        m = re.match(r"@@BEGIN (\S+)", line)
        if m:
            cur = m.group(1)
            res[cur] = []
            continue
        if line.startswith("@@END"):
            cur = None
            continue
        if cur is None:
            continue
        if "Closed under the global context" in line:
            res[cur] = ["closed under the global context"]
        elif line.startswith("Axioms:"):
            continue
        else:
            m = re.match(r"^([A-Za-z_][A-Za-z0-9_.']*)\s*:", line)
            if m:
                res[cur].append(m.group(1))
    return res, ""


ALLOWED_AXIOM_PREFIXES = (
    "Classical_Prop.classic", "FunctionalExtensionality.functional_extensionality_dep",
    "ClassicalDedekindReals.sig_not_dec", "ClassicalDedekindReals.sig_forall_dec",
    "Coq.Logic.", "Eqdep.Eq_rect_eq.eq_rect_eq", "JMeq.JMeq_eq", "ProofIrrelevance.proof_irrelevance",
    "PropExtensionality.propositional_extensionality",
)


def hygiene_scan():
    """grep for forbidden constructs in the Coq development (comments stripped). Returns list of offenders."""
    bad = []
    pat = re.compile(r"\b(Admitted|admit|Axiom|Axioms|Parameter|Parameters|Conjecture|Conjectures|"
                     r"Unset\s+Guard|bypass_check|Admit\s+Obligations|Unset\s+Positivity|Unset\s+Universe\s+Checking|"
                     r"give_up)\b")
    for f in glob.glob(os.path.join(COQ, "**", "*.v"), recursive=True):
        txt = open(f).read()
        txt = re.sub(r"\(\*.*?\*\)", "", txt, flags=re.S)
        txt = re.sub(r'"[^"]*"', '""', txt)
        for m in pat.finditer(txt):
            bad.append("%s: %s" % (os.path.relpath(f, COQ), m.group(0)))
    return bad


# --------------------------------------------------------------------------- OCaml extraction

def build_extracted(name, extract_v, driver_ml, extra_ml=()):
    """Extract with coqc in build/ocaml/<name> and link with the driver. Returns path of the executable.

    extract_v is a file under coq/extract that ends with `Extraction "<x>.ml" ...` (relative output).
    Rebuilt only when the extraction source, the driver or the .vo files it loads changed.
    """
    d = os.path.join(BUILD, "ocaml", name)
    os.makedirs(d, exist_ok=True)
    exe = os.path.join(BIN, "model_" + name)
    os.makedirs(BIN, exist_ok=True)
    with Lock("ocaml_" + name):
        ev = os.path.join(COQ, "extract", extract_v)
        dv = os.path.join(VERIF, "ocaml", driver_ml)
        h = hashlib.sha256()
        for f in [ev, dv] + [os.path.join(VERIF, "ocaml", x) for x in extra_ml]:
            h.update(open(f, "rb").read())
        for vo in sorted(glob.glob(os.path.join(COQ, "model", "**", "*.vo"), recursive=True)):
            h.update(vo.encode())
            h.update(str(os.path.getmtime(vo)).encode())
        stamp = os.path.join(d, "stamp")
        key = h.hexdigest()
        if os.path.exists(exe) and os.path.exists(stamp) and open(stamp).read() == key:
            return exe, ""
        shutil.copy(ev, os.path.join(d, "Extract.v"))
        rc, o, e = run(["timeout", "600", "coqc", "-R", COQ, "RV", "-w", "none", "Extract.v"], cwd=d, timeout=630)
        if rc != 0:
            return None, "extraction failed:\n" + o + e
        mls = sorted(set(glob.glob(os.path.join(d, "*.ml"))) - {os.path.join(d, "driver.ml")})
        for x in list(extra_ml) + [driver_ml]:
            shutil.copy(os.path.join(VERIF, "ocaml", x), os.path.join(d, os.path.basename(x) if x != driver_ml else "driver.ml"))
        # interface files first
        srcs = []
        for ml in mls:
            mli = ml[:-3] + ".mli"
            if os.path.exists(mli):
                srcs.append(os.path.basename(mli))
            srcs.append(os.path.basename(ml))
        srcs += [os.path.basename(x) for x in extra_ml] + ["driver.ml"]
        rc, o, e = run(["ocamlfind", "ocamlopt", "-package", "unix", "-linkpkg", "-O3", "-w", "-a", "-o", exe] + srcs, cwd=d, timeout=600)
        if rc != 0:
            rc, o, e = run(["ocamlfind", "ocamlopt", "-package", "unix", "-linkpkg", "-w", "-a", "-o", exe] + srcs, cwd=d, timeout=600)
        if rc != 0:
            return None, "ocaml build failed:\n" + o + e
        open(stamp, "w").write(key)
    return exe, ""


# --------------------------------------------------------------------------- findings, replay, evidence

def load_known(prop):
    out = []
    p = os.path.join(VERIF, "known_findings.jsonl")
    if not os.path.exists(p):
        return out
    for line in open(p):
        line = line.strip()
        if not line or line.startswith("#"):
            continue
        j = json.loads(line)
        if j.get("property") == prop and not j.get("fixed"):
            out.append(j)
    return out


def _json_safe(x):
    """dict keys of any type become strings (json.dump cannot sort mixed keys), tuples become lists"""
    if isinstance(x, dict):
        return {str(k): _json_safe(v) for k, v in x.items()}
    if isinstance(x, (list, tuple, set)):
        return [_json_safe(v) for v in x]
    return x


def write_replay(prop, seed, k, data):
    os.makedirs(REPLAYS, exist_ok=True)
    path = os.path.join(REPLAYS, "%s-%s-%s.json" % (prop, seed, k))
    with open(path, "w") as f:
        json.dump(_json_safe(data), f, indent=1, sort_keys=True, default=str)
    return path


class Result:
    """Accumulates what a check run did; turned into evidence + exit status."""

    def __init__(self, prop, tier, seed):
        self.prop, self.tier, self.seed = prop, tier, seed
        self.t0 = time.time()
        self.violations = []       # (replay_path, no_failing_input_found)
        self.known = []            # strings
        self.coverage = {}
        self.assumptions = []
        self.notes = []

    def violation(self, data, nofail=False, tag=None):
        k = tag or len(self.violations)
        path = write_replay(self.prop, self.seed, k, data)
        self.violations.append((path, nofail))
        return path

    def known_finding(self, what):
        if what not in self.known:
            self.known.append(what)

    def finish(self, level="proof"):
        wall = time.time() - self.t0
        ev = {
            "property_id": self.prop,
            "tier": self.tier,
            "seed": int(self.seed),
            "level": level,
            "coverage": self.coverage,
            "assumptions": self.assumptions,
            "wall_s": round(wall, 2),
            "violations": len(self.violations),
            "known_findings_reported": self.known,
            "notes": self.notes,
        }
        os.makedirs(EVIDENCE, exist_ok=True)
        with open(os.path.join(EVIDENCE, self.prop + ".json"), "w") as f:
            json.dump(ev, f, indent=1, sort_keys=False, default=str)
            f.write("\n")
        for w in self.known:
            print("KNOWN-FINDING: property=%s %s" % (self.prop, w))
        for path, nofail in self.violations[:20]:
            rel = os.path.relpath(path, VERIF)
            print("VIOLATION property=%s replay=%s%s" % (self.prop, rel, " no-failing-input-found" if nofail else ""))
        sys.stdout.flush()
        return 1 if self.violations else 0


def prove(res, prop, extra_targets=(), obligations_extra=0):
    """Step 3 of a check: build props/<prop>.vo (+ extra), record obligations and Print Assumptions.

    Returns True when every obligation is discharged.  On failure the caller runs its search for a
    failing input and then reports VIOLATION (with or without no-failing-input-found).
    """
    vfile = os.path.join(COQ, "props", prop + ".v")
    names = theorem_names(vfile)
    targets = ["props/%s.vo" % prop] + list(extra_targets)
    ok, mlog = coq_make(targets)
    bad = hygiene_scan()
    cov = res.coverage
    cov["obligations"] = len(names) + obligations_extra
    cov["theorems"] = names
    cov["checker_cmd"] = "make -f Makefile.coq " + " ".join(targets) + " (coqc 8.16.1, full .vo); thorough: coqchk -silent -o"
    cov["discharged"] = 0
    cov["trusted_base"] = list(TRUSTED_BASE_COMMON)
    if bad:
        res.notes.append("hygiene scan found forbidden constructs: " + "; ".join(bad[:10]))
        ok = False
    if not ok:
        m = re.findall(r'File "([^"]+)", line (\d+)[^\n]*\n((?:.*\n){0,12})', mlog)
        res.broken = {"log_tail": mlog[-3000:], "errors": [(a, b, c[:600]) for a, b, c in m[:3]]}
        return False
    ass, elog = print_assumptions(prop, names)
    if ass is None:
        res.broken = {"log_tail": elog[-3000:], "errors": []}
        return False
    cov["print_assumptions"] = ass
    axioms = sorted({a for v in ass.values() for a in v if a != "closed under the global context"})
    for a in axioms:
        if not a.startswith(ALLOWED_AXIOM_PREFIXES):
            res.notes.append("unexpected axiom: " + a)
            res.broken = {"log_tail": "unexpected axiom " + a, "errors": []}
            return False
    cov["trusted_base"].append("axioms reported by Print Assumptions: " + (", ".join(axioms) if axioms else "none (all theorems closed under the global context)"))
    cov["discharged"] = cov["obligations"]
    res.broken = None
    return True


def coqchk(res, prop, timeout=3000):
    """Thorough tier: independent re-check of the property's .vo closure."""
    with Lock("coq"):
        rc, o, e = run(["timeout", str(timeout), "coqchk", "-silent", "-o", "-R", COQ, "RV", "RV.props." + prop],
                       cwd=COQ, timeout=timeout + 30)
    res.coverage["coqchk"] = {"rc": rc, "tail": (o + e)[-1500:]}
    return rc == 0


class Rng:
    """splitmix64: one PRNG state drives every random choice, so disagreements replay exactly."""

    def __init__(self, seed):
        self.s = (int(seed) * 0x9E3779B97F4A7C15 + 0x1234567) & 0xFFFFFFFFFFFFFFFF

    def next(self):
        self.s = (self.s + 0x9E3779B97F4A7C15) & 0xFFFFFFFFFFFFFFFF
        z = self.s
        z = ((z ^ (z >> 30)) * 0xBF58476D1CE4E5B9) & 0xFFFFFFFFFFFFFFFF
        z = ((z ^ (z >> 27)) * 0x94D049BB133111EB) & 0xFFFFFFFFFFFFFFFF
        return z ^ (z >> 31)

    def below(self, n):
        return self.next() % n

    def choice(self, xs):
        return xs[self.below(len(xs))]

    def chance(self, num, den):
        return self.below(den) < num


def translate(what, outfile):
    """Step 2 of a check: regenerate coq/gen/<outfile> from the current source / running packages.
    Returns (ok, log).  The file is rewritten only when its content changes (keeps make incremental)."""
    exe, err = go_build("translate")
    if not exe:
        return False, err
    rc, o, e = run([exe] + what.split(), timeout=300)
    if rc != 0 or not o.strip():
        return False, o + e
    write_if_changed(os.path.join(COQ, "gen", outfile), o)
    return True, ""


def make_overlay():
    """Build-time instrumentation without editing /repo: an overlay that (1) adds the verif-tagged hook
    file to package vm and (2) replaces vm/vm.go by a copy of the CURRENT file with one call inserted at
    the head of the eval loop.  Returns (overlay_json_path, error)."""
    import json as _json
    d = os.path.join(BUILD, "overlay")
    os.makedirs(d, exist_ok=True)
    src = open(os.path.join(REPO, "vm", "vm.go")).read()
    anchor = "for vm.ip < len(vm.activeCode.Instructions) {"
    if src.count(anchor) != 1:
        return None, "anchor of the eval loop not found exactly once in vm/vm.go"
    inst = src.replace(anchor, anchor + "\n\t\tvm.verifTrace()")
    inst = "//go:build verif\n\n" + inst if False else inst
    write_if_changed(os.path.join(d, "vm_instrumented.go"), inst)
    hook = open(os.path.join(VERIF, "hooks", "vm_verif.go.txt")).read()
    write_if_changed(os.path.join(d, "vm_verif_hook.go"), hook)
    ov = {"Replace": {os.path.join(REPO, "vm", "vm.go"): os.path.join(d, "vm_instrumented.go"),
                      os.path.join(REPO, "vm", "zz_verif_hook.go"): os.path.join(d, "vm_verif_hook.go")}}
    p = os.path.join(d, "overlay.json")
    write_if_changed(p, _json.dumps(ov, indent=1))
    return p, ""
