"""Cross-type operations over every ordered PAIR of value kinds the default globals can produce (C03).

A pair script binds `a` and `b` to two values and applies every two-operand construct of the language and of the default
builtins to them: binary operators, comparisons, membership, switch case matching, equality of containers that hold them,
hashing into sets / map lookups, comparison-driven builtins and methods (sorted, index, count, remove, contains, union ...).
Every operation sits in its own try(): whether it yields a value or an error is not looked at - only that the process
survives and the evaluation returns.  The values are a few bytes long, nothing is cyclic or deep, nothing blocks and no
operand is big enough to make an operation expensive, so a death or a hang of the child is a fault of the operation itself.

`single(a, b, op)` is the script with one operation: the replay of a death names a concrete small script.
"""

PRELUDE = "import base64\nimport bytes\nimport errors\nimport json\nimport math\nimport regexp\nimport strconv\nimport strings\nimport time\n"

# (kind, label, expression).  The FIRST entries of a kind are its primary representatives (all their ordered pairs are in
# the quick tier); values of different kinds that denote "the same" thing (1 / 1.0 / true, "a" / byte_slice("a") / buffer("a") /
# ["a"] ..., 65 / byte(65) / "A") are there on purpose: cross-type equality is where two implementations have to agree.
VALUES = [
    ("nil", "nil", "nil"),
    ("bool", "true", "true"),
    ("bool", "false", "false"),
    ("int", "1", "1"),
    ("int", "0", "0"),
    ("int", "65", "65"),
    ("int", "neg", "-1"),
    ("int", "300", "300"),
    ("int", "big", "100000"),
    ("float", "1.0", "1.0"),
    ("float", "nan", "(math.inf() - math.inf())"),
    ("float", "inf", "math.inf()"),
    ("float", "1.5", "1.5"),
    ("float", "0.0", "0.0"),
    ("float", "neginf", "(0.0 - math.inf())"),
    ("float", "65.0", "65.0"),
    ("byte", "65", "byte(65)"),
    ("byte", "1", "byte(1)"),
    ("byte", "0", "byte(0)"),
    ("string", "a", "\"a\""),
    ("string", "empty", "\"\""),
    ("string", "A", "\"A\""),
    ("string", "1", "\"1\""),
    ("string", "abc", "\"abc\""),
    ("string", "fmt", "\"%s-%d\""),
    ("string", "uni", "\"h\\u00e9\""),
    ("byte_slice", "a", "byte_slice(\"a\")"),
    ("byte_slice", "empty", "byte_slice(\"\")"),
    ("byte_slice", "A", "byte_slice([65])"),
    ("byte_slice", "abc", "byte_slice(\"abc\")"),
    ("buffer", "a", "buffer(\"a\")"),
    ("buffer", "empty", "buffer()"),
    ("float_slice", "1", "float_slice([1.0])"),
    ("float_slice", "empty", "float_slice([])"),
    ("list", "a", "[\"a\"]"),
    ("list", "empty", "[]"),
    ("list", "1", "[1]"),
    ("list", "bs", "[byte_slice(\"a\")]"),
    ("list", "nested", "[[1], [\"a\"]]"),
    ("list", "nil", "[nil]"),
    ("list", "mixed", "[1, \"a\", 1.0, byte(1), nil, true]"),
    ("map", "a", "{\"a\": \"a\"}"),
    ("map", "empty", "{}"),
    ("map", "1", "{\"a\": 1}"),
    ("map", "bs", "{\"a\": byte_slice(\"a\")}"),
    ("map", "nested", "{\"a\": {\"a\": [1]}}"),
    ("set", "a", "set([\"a\"])"),
    ("set", "empty", "set()"),
    ("set", "1", "set([1])"),
    ("set", "mixed", "set([1, 1.0, \"a\", true, byte(1)])"),
    ("error", "new", "errors.new(\"a\")"),
    ("error", "caught", "try(func() { error(\"a\") }, func(e) { return e })"),
    ("error", "type", "errors.type_error(\"a\")"),
    ("time", "epoch", "time.unix(0, 0)"),
    ("time", "now", "time.now()"),
    ("time", "parsed", "time.parse(time.RFC3339, \"2020-01-01T00:00:00Z\")"),
    ("function", "f0", "func() { return 1 }"),
    ("function", "f1", "func(x) { return x }"),
    ("function", "f2", "func(x, y) { return x == y }"),
    ("function", "fdefault", "func(x=\"a\") { return x }"),
    ("builtin", "len", "len"),
    ("builtin", "method", "\"a\".to_upper"),
    ("builtin", "modfn", "strings.compare"),
    ("builtin", "listmethod", "[\"a\"].index"),
    ("module", "math", "math"),
    ("module", "strings", "strings"),
    ("iterator", "list", "iter([\"a\", 1])"),
    ("iterator", "string", "iter(\"ab\")"),
    ("iterator", "map", "iter({\"a\": 1})"),
    ("iterator", "int", "iter(3)"),
    ("iterator", "set", "iter(set([1]))"),
    ("iter_entry", "list", "iter([\"a\"]).entry()"),
    # channels are closed: receiving from / iterating an open one blocks until the evaluation's deadline
    ("chan", "closed_full", "func() { c := chan(4); c <- \"a\"; c <- 1; close(c); return c }()"),
    ("chan", "closed", "func() { c := chan(1); close(c); return c }()"),
    ("thread", "done", "spawn(func() { return \"a\" })"),
    ("regexp", "a", "regexp.compile(\"a\")"),
    ("slice_result", "string", "\"abc\"[0:1]"),
    ("slice_result", "list", "[\"a\", \"b\"][0:1]"),
    ("slice_result", "bytes", "byte_slice(\"abc\")[0:1]"),
    ("index_result", "string", "\"abc\"[0]"),
    ("index_result", "bytes", "byte_slice(\"abc\")[0]"),
    ("decoded", "base64", "base64.decode(base64.encode(\"a\"))"),
    ("decoded", "json_list", "json.unmarshal(\"[\\\"a\\\", 1, 1.5, null, true]\")"),
    ("decoded", "json_map", "json.unmarshal(\"{\\\"a\\\": \\\"a\\\"}\")"),
    ("decoded", "encode", "encode(\"a\", \"base64\")"),
    ("decoded", "atoi", "strconv.atoi(\"1\")"),
    ("decoded", "fields", "strings.fields(\"a b\")"),
    ("decoded", "string_of_bytes", "string(byte_slice(\"a\"))"),
    ("decoded", "bytes_clone", "bytes.clone(byte_slice(\"a\"))"),
    ("decoded", "regexp_find", "regexp.compile(\"a\").find_all(\"aa\")"),
    ("decoded", "keys", "keys({\"a\": 1})"),
    ("decoded", "type", "type(\"a\")"),
    ("decoded", "reversed", "reversed([\"a\", 1])"),
    ("decoded", "sorted", "sorted([\"b\", \"a\"])"),
    ("decoded", "chunk", "chunk([\"a\", 1], 1)"),
    ("decoded", "json_marshal", "json.marshal(\"a\")"),
]

# operations over `a` and `b`; each one is the BODY of a function literal.  The simplest comparisons come first so that the
# first operation that dies under `single` is the plainest one.
OPS = [
    "return a == b", "return a != b", "return b == a", "return a < b", "return a <= b", "return a > b", "return a >= b",
    "return a in b", "return b in a", "return a not in b", "return a in [b]", "return a in [1, b, nil]", "return a in {\"k\": b}",
    "return a in set([b])", "return !(a == b)", "return a == b && b == a", "return a != b || a == b", "return a == b ? 1 : 2",
    "switch a { case b: return 1\n default: return 0 }",
    "switch a { case 1, b: return 1\n case nil: return 2 }",
    "switch [a] { case [b]: return 1\n default: return 0 }",
    "if a == b { return 1 } else { return 0 }",
    # containers holding the two values
    "return [a] == [b]", "return [a] != [b]", "return [1, a] == [1, b]", "return [[a]] == [[b]]", "return [a, b] == [b, a]",
    "return {\"k\": a} == {\"k\": b}", "return {\"k\": a} != {\"k\": b}", "return {\"k\": [a]} == {\"k\": [b]}", "return [{\"k\": a}] == [{\"k\": b}]",
    "return set([a]) == set([b])", "return set([a]) != set([b])", "return [a] < [b]", "return [a] in [[b]]", "return {\"k\": a} in [{\"k\": b}]",
    "return [a].index(b)", "return [a].count(b)", "return [a, b].count(a)", "return [a].contains(b)", "l := [a, 1]\nl.remove(b)\nreturn l",
    "return [1, a, b].index(b)", "return reversed([a, b]) == [b, a]",
    "return set([a, b])", "return len(set([a, b, a]))", "return set([a]).union(set([b]))", "return set([a]).intersection(set([b]))",
    "return set([a]).difference(set([b]))", "return set([a]).has(b)", "return set([a]).issubset(set([b]))", "return set([a]).issuperset(set([b]))",
    "s := set([a])\ns.add(b)\ns.remove(a)\nreturn s", "return {a: 1}", "return {a: 1, b: 2}", "m := {}\nm[a] = 1\nreturn m[b]", "return {\"k\": a}.get(b)",
    "return {\"k\": a}.get(\"k\") == b", "return {\"k\": a}.get(\"x\", b) == b", "m := {\"k\": a}\nm.update({\"k\": b})\nreturn m == {\"k\": b}",
    "m := {\"k\": a}\nreturn m.pop(\"k\", b) == b", "m := {\"k\": a}\nm.setdefault(\"j\", b)\nreturn m", "return keys({\"k\": a}) == keys({\"k\": b})",
    "return list(set([a])) == list(set([b]))", "return any([a, b])", "return all([a, b])", "return coalesce(a, b)", "return coalesce(nil, b) == a",
    "return [a].map(func(x) { return x == b })", "return [a, b].filter(func(x) { return x == a })", "return [a, b].reduce(nil, func(acc, x) { return acc == x })",
    "return [a, b].each(func(x) { x == a })", "return string(a) == string(b)", "return string(a) == b", "return type(a) == type(b)", "return hash(string(a)) == hash(string(b))",
    "return is_hashable(a) == is_hashable(b)", "return json.marshal([a, b])", "return json.marshal({\"k\": a}) == json.marshal({\"k\": b})",
    "return sprintf(\"%v %v\", a, b)", "return sprintf(\"%s %d\", a, b)", "return '{a}{b}' == '{b}{a}'", "return errors.is(a, b)", "assert(a == b, b)",
    "return errors.new(string(a)) == errors.new(string(b))", "return error(a, b)",
    # arithmetic, bit and logic operators
    "return a + b", "return a - b", "return a * b", "return a / b", "return a % b", "return a ** b", "return a << b", "return a >> b", "return a & b",
    "return a && b", "return a || b", "x := a\nx += b\nreturn x", "x := a\nx -= b\nreturn x", "x := a\nx *= b\nreturn x", "x := a\nx /= b\nreturn x",
    "return -a == b", "return !a == !b",
    # indexing, slicing, attribute access, calls
    "return a[b]", "return a[b:]", "return a[:b]", "return a[b:b]", "x := a\nx[b] = b\nreturn x", "return [a][0] == [b][-1]", "return getattr(a, b)",
    "return getattr(a, \"x\", b)", "delete(a, b)\nreturn a", "return len(a) == len(b)",
    "return chunk(a, b)", "return make(a, b)", "return encode(a, b)", "return decode(a, b)", "return int(a) == int(b)", "return float(a) == float(b)",
    "return bool(a) == bool(b)", "return byte_slice(a) == byte_slice(b)", "return list(a) == list(b)", "return set(a) == set(b)", "return buffer(a) == buffer(b)",
    "return byte(a) == b", "return chr(a) == b", "return ord(a) == b", "return float_slice(a) == float_slice(b)", "return hash(a, b)",
    # comparison-driven methods and module functions
    "return a.contains(b)", "return a.index(b)", "return a.count(b)", "return a.has_prefix(b)", "return a.has_suffix(b)", "return a.compare(b)", "return a.equals(b)",
    "return a.contains_any(b)", "return a.last_index(b)", "return a.split(b)", "return a.join(b)", "return a.trim(b)", "return a.replace_all(b, b)",
    "return a.get(b)", "return a.get(b, b)", "return a.has(b)", "return a.union(b)", "return a.intersection(b)", "return a.difference(b)", "return a.issubset(b)",
    "return a.issuperset(b)", "return a.before(b)", "return a.after(b)", "return a.format(b)", "return a.match(b)", "return a.find(b)", "return a.index_byte(b)",
    "x := a\nx.append(b)\nreturn x == [b]", "x := a\nx.extend(b)\nreturn x", "x := a\nx.insert(0, b)\nreturn x", "x := a\nx.remove(b)\nreturn x", "x := a\nx.add(b)\nreturn x",
    "x := a\nx.update(b)\nreturn x", "x := a\nx.pop(b)\nreturn x", "x := a\nx.setdefault(b, b)\nreturn x", "x := a\nx.write(b)\nreturn x",
    "return strings.compare(a, b)", "return strings.contains(a, b)", "return strings.index(a, b)", "return strings.count(a, b)", "return strings.has_prefix(a, b)",
    "return strings.split(a, b)", "return strings.join(a, b)", "return strings.repeat(a, b)", "return strings.trim(a, b)", "return bytes.equals(a, b)",
    "return bytes.contains(a, b)", "return bytes.index(a, b)", "return bytes.count(a, b)", "return bytes.has_prefix(a, b)", "return bytes.repeat(a, b)",
    "return bytes.index_byte(a, b)", "return bytes.contains_any(a, b)", "return regexp.match(a, b)", "return math.max(a, b)", "return math.min(a, b)",
    "return math.pow(a, b)", "return math.mod(a, b)", "return math.sum([a, b])", "return math.max(a, b) == math.min(b, a)", "return time.parse(a, b)",
    "return strconv.parse_int(a, b)", "return fmt_like(a, b)",
]

# operations whose failure ends the whole evaluation with an error (object/sort.go panics on operands without an order and the VM recovers
# that at the top): the evaluation returns an error - fine - but the rest of the script is not run, so each of them gets a
# script of its own
TAIL_OPS = ["return sorted([a, b])", "return sorted([b, a, a])", "return sorted([[a], [b]])", "return sorted([a, b], func(x, y) { return x < y })",
            "return sorted([a, b], func(x, y) { return x == y })", "return sorted({\"x\": a, \"y\": b})", "return sorted(set([a, b]))",
            # calling one value with the other: an arity mismatch is an error try() does not catch
            "return a(b)", "return call(a, b)", "return a(b, b)", "return a(a, b)", "return a.map(b)", "return a.filter(b)", "return a.each(b)",
            "return a.reduce(b, b)", "return [a, b].map(a)", "return spawn(a, b).wait()",
            # sending on a closed channel is a recovered Go panic
            "a <- b\nreturn 1"]

# operations that may legitimately take long or much memory with some operand pair are kept out on purpose: the operands
# above are at most 100000, so repetition and shifts stay cheap.

_FMT = "func fmt_like(x, y) { return '{x}' == '{y}' }\n"


def _wrap(op):
    return "try(func() {\n" + op + "\n}, nil)\n"


def script(va, vb, ops=None):
    """the pair script of two VALUES entries"""
    ops = OPS if ops is None else ops
    return PRELUDE + _FMT + "a := " + va[2] + "\nb := " + vb[2] + "\n" + "".join(_wrap(o) for o in ops) + "len([a, b])"


def single(va, vb, op):
    return script(va, vb, [op])


def primaries():
    seen, out = set(), []
    for v in VALUES:
        if v[0] not in seen:
            seen.add(v[0])
            out.append(v)
    return out


def label(va, vb):
    return "%s.%s~%s.%s" % (va[0], va[1], vb[0], vb[1])


def gen_pairs(rng, nrandom, everything=False):
    """-> list of (label, va, vb).  All ordered pairs of the primary representative of each kind (kind x kind, including a kind
    with itself), all ordered pairs of values that could be mistaken for each other (the 'same' datum in different kinds), then
    `nrandom` further pairs drawn from the whole value list (all of them when `everything`)."""
    out, seen = [], set()

    def add(x, y):
        k = (x[2], y[2])
        if k not in seen:
            seen.add(k)
            out.append((label(x, y), x, y))
    pr = primaries()
    for x in pr:
        for y in pr:
            add(x, y)
    if everything:
        for x in VALUES:
            for y in VALUES:
                add(x, y)
        return out
    # every kind against every VALUE of the data kinds (two kinds may agree on one representative and not on another)
    data = [v for v in VALUES if v[0] in ("string", "byte_slice", "buffer", "int", "float", "byte", "bool", "list", "map", "set", "decoded",
                                          "slice_result", "index_result")]
    left = [(x, y) for x in data for y in data if (x[2], y[2]) not in seen]
    for _ in range(min(nrandom, len(left))):
        i = rng.below(len(left))
        x, y = left[i]
        left[i] = left[-1]
        left.pop()
        add(x, y)
    for _ in range(nrandom // 3):
        add(rng.choice(VALUES), rng.choice(VALUES))
    return out
