"""C02 generator: nestings of function literals (depth 1..5) x which enclosing bindings each one
reads/writes x escape route of the inner functions x order in which the escaped functions are called."""


def nest(rng, depth):
    """Returns (lines defining `mk`, call expression producing [inc, get], number of levels).

    Level i (1..depth) is a function with parameter p<i> and a local a<i>.  The innermost level
    builds two sibling closures sharing bindings: `inc` writes one enclosing binding and returns a
    sum of several, `get` reads the written binding.  Everything else is threaded outward by return."""
    names = []
    for i in range(1, depth + 1):
        names += ["p%d" % i, "a%d" % i]
    target = rng.choice([n for n in names if n.startswith("a")] + ["p1"])
    reads = [n for n in names if rng.chance(2, 3)] or [names[0]]
    upd = rng.choice(["%s += 1" % target, "%s = %s + 2" % (target, target), "%s++" % target])
    others = [n for n in names if n != target]
    if others and rng.chance(1, 4):
        # two captured bindings written by one multi-assignment (each store goes through its own cell)
        o = rng.choice(others)
        upd = rng.choice(["%s, %s = [%s + 1, %s + 3]" % (target, o, target, o), "%s, %s = [%s + 3, %s + 1]" % (o, target, o, target),
                          "%s, %s = [%s, %s]; %s += 1" % (target, o, o, target, target)])
        if o not in reads:
            reads.append(o)
    shadow = rng.below(4)
    if shadow == 0:
        # the closure first uses the captured binding, then declares its own variable of the same name and
        # uses THAT from nested blocks: reads and writes below the declaration belong to the inner binding
        inc = ("func() { %s; s := %s; %s := s + 7; if s >= 0 { %s += 1 }; for k := 0; k < 2; k++ { %s = %s + k }; "
               "return %s + %s }") % (upd, target, target, target, target, target, target, " + ".join(reads))
    elif shadow == 1:
        # ... the same with the shadowing declaration inside a block
        inc = ("func() { %s; s := %s; if s >= 0 { %s := 50; if s >= 0 { %s += s }; s = %s }; return s + %s }") % (
            upd, target, target, target, target, " + ".join(reads))
    else:
        inc = "func() { %s; return %s }" % (upd, " + ".join(reads))
    inner = "[%s, func() { return %s }]" % (inc, target)
    body = "return " + inner
    # more than 8 local slots per function: the VM moves such frames to separately allocated storage
    wide = rng.chance(1, 3)
    for i in range(depth, 0, -1):
        decl = "a%d := p%d * %d" % (i, i, rng.choice([2, 10, 3]))
        extra = ""
        if rng.chance(1, 3):
            extra = "; if p%d > 100 { a%d = 0 }" % (i, i)      # a block between declaration and capture
        if wide:
            nq = 8 + rng.below(4)
            extra += "; " + "; ".join("q%d_%d := p%d + %d" % (i, j, i, j) for j in range(nq))
            extra += "; a%d = a%d + q%d_%d - q%d_%d" % (i, i, i, nq - 1, i, nq - 1)
        fn = "func(p%d) { %s%s; %s }" % (i, decl, extra, body)
        body = "return " + fn
    top = body[len("return "):]
    args = [rng.choice([1, 2, 3, 5]) for _ in range(depth)]
    return top, args


def block_program(rng):
    """Closures over variables declared in BLOCKS of a function (bodies of if / for, nested blocks) that outlive their
    block, next to variables declared later in sibling blocks and in the enclosing scope: every declaration is a binding
    of its own, whatever slot it was given; two activations of the function share nothing."""
    nv = [0]
    count = [0]
    body = ["fs := []"]

    def fresh():
        nv[0] += 1
        return "b%d" % nv[0]

    def capture(v, times=1):
        count[0] += times
        return rng.choice(["fs.append(func() { return %s })" % v,
                           "fs.append(func() { %s += 1; return %s })" % (v, v),
                           "fs.append(func() { %s = %s * 2 + 1; return %s })" % (v, v, v)])

    tops = []               # top-level functions that the body shadows with nested named functions
    for _ in range(2 + rng.below(5)):
        c = rng.below(10)
        v = fresh()
        k = rng.below(50)
        if c == 0:
            body.append("if p >= 0 { %s := p + %d; %s }" % (v, k, capture(v)))
        elif c == 1:
            # the loop runs ONCE: a variable declared in a loop body is one binding per activation in the implementation
            # (closures of different iterations share it) while Sem allocates per execution of the declaration - an
            # observation recorded in DESIGN.md, not something this generator may turn into an alarm
            n = 1
            body.append("for i := 0; i < 1; i++ { %s := i * 10 + %d; %s }" % (v, k, capture(v, n)))
        elif c == 2:
            w = fresh()
            body.append("if p >= 0 { %s := %d; if %s >= 0 { %s := %s + p; %s }; %s }" % (v, k, v, w, v, capture(w), capture(v)))
        elif c == 3:
            body.append("%s := %d; %s = %s + p" % (v, k, v, v) + ("; " + capture(v) if rng.chance(1, 2) else ""))
        elif c == 4:
            body.append("for j := 0; j < 2; j++ { %s := j + %d; %s = %s + 1 }" % (v, k, v, v))     # a block without closures
        elif c == 5:
            w = fresh()
            body.append("if p >= 0 { %s := %d; %s } else { %s := %d; %s }" % (v, k, capture(v), w, k + 1, capture(w)))
            count[0] -= 1                                                                          # only one branch runs
        elif c == 6:
            w = fresh()
            body.append("%s, %s := [p, %d]; %s" % (v, w, k, capture(w)))
        elif c == 7:
            # a declaration that shadows an outer variable with a function literal that uses that name: the literal still
            # means the OUTER variable (the new one does not exist yet while its initializer is compiled)
            body.append("%s := p + %d; if p >= 0 { %s := func() { return %s + 1 }; fs.append(%s) }" % (v, k, v, v, v))
            count[0] += 1
        elif c == 8:
            # ... the same with a parameter-like function value (decorator idiom)
            body.append("%s := func(x) { return x + %d }; if p >= 0 { %s := func(x) { return %s(x) * 2 }; fs.append(func() { return %s(p) }) }" % (v, k, v, v, v))
            count[0] += 1
        else:
            # a closure that calls a TOP-LEVEL function, followed - later in the same body - by a nested function statement of
            # the same name: the earlier closure keeps meaning the top-level function, a later one means the nested one
            h = "h%d" % (len(tops) + 1)
            tops.append("func %s() { return %d }" % (h, 1000 + k))
            body.append("fs.append(func() { return %s() })" % h)
            body.append("func %s() { return p + %d }" % (h, k))
            body.append("fs.append(func() { return %s() + 1 })" % h)
            count[0] += 2
    if count[0] == 0:
        v = fresh()
        body.append("if p >= 0 { %s := p; %s }" % (v, capture(v)))
    body.append("return fs")
    lines = tops + ["func build(p) { " + "; ".join(body) + " }", "fs := build(%d)" % (1 + rng.below(5)), "gs := build(%d)" % (7 + rng.below(5)), "r := []"]
    calls = ["fs[%d]()" % i for i in range(count[0])] * 2 + ["gs[%d]()" % i for i in range(count[0])]
    for i in range(len(calls) - 1, 0, -1):
        j = rng.below(i + 1)
        calls[i], calls[j] = calls[j], calls[i]
    lines += ["r.append(%s)" % c for c in calls[:14]]
    lines.append("r")
    return "\n".join(lines)


def call_chain(name, args):
    return name + "".join("(%d)" % a for a in args)


def model_program(rng):
    """A closure program inside the fragment that Sem and the VM model support."""
    if rng.chance(1, 4):
        return block_program(rng), 1, 6
    depth = 1 + rng.below(5)
    top, args = nest(rng, depth)
    lines = ["mk := " + top, "pair := " + call_chain("mk", args), "inc := pair[0]", "get := pair[1]"]
    route = rng.below(6)
    if "q1_7" in top and rng.chance(2, 3):
        route = 4
    if route == 0:
        calls = ["inc()", "get()", "inc()", "get()"]
    elif route == 1:
        lines.append("fs := [inc, get]")
        calls = ["fs[0]()", "fs[1]()", "fs[0]()"]
    elif route == 2:
        lines.append('m := {"f": inc}')
        calls = ['m["f"]()', "get()", 'm["f"]()']
    elif route == 3:
        lines.append("func apply(f) { return f() }")
        calls = ["apply(inc)", "apply(get)", "apply(inc)", "get()"]
    elif route == 4:
        # a second instance from a different call chain: bindings must not be shared between activations
        lines.append("pair2 := " + call_chain("mk", [a + 1 for a in args]))
        calls = ["inc()", "pair2[0]()", "get()", "pair2[1]()", "inc()"]
    else:
        lines.append("func twice(f) { f(); return f() }")
        calls = ["twice(inc)", "get()"]
    order = list(range(len(calls)))
    if rng.chance(1, 2):
        # permute the call order
        for i in range(len(order) - 1, 0, -1):
            j = rng.below(i + 1)
            order[i], order[j] = order[j], order[i]
    lines.append("r := [" + ", ".join(calls[k] for k in order) + "]")
    lines.append("r")
    return "\n".join(lines), depth, route


ROUTES = ["direct", "list.map", "list.each", "list.filter", "sorted", "try", "spawn", "go-chan", "vmcall", "after-error", "after-error",
          "escape-then-fail", "escape-then-fail"]


def route_programs(rng):
    """The same closure and call sequence, once through direct calls and once through an escape
    route outside the modelled fragment; both results must be equal (route independence).
    Returns (direct_program, routed_program, route, depth); for route 'vmcall' the routed program
    defines `inc`/`get` only and the harness calls them from Go."""
    depth = 1 + rng.below(5)
    top, args = nest(rng, depth)
    pre = ["mk := " + top, "pair := " + call_chain("mk", args), "inc := pair[0]", "get := pair[1]"]
    n = 2 + rng.below(3)
    direct = pre + ["r := []"] + ["r.append(inc())" for _ in range(n)] + ["r.append(get())", "r"]
    route = rng.choice(ROUTES[1:])
    if route == "escape-then-fail":
        # closures that ESCAPE from an activation (into a top-level list, a map, an outer variable) which then ends with an
        # error - raised by the function itself or by something it calls - that is caught further up: the closures keep the
        # variables of that activation, exactly as when the function returns normally
        wide = rng.chance(1, 3)
        locs = "".join("w%d := %d; " % (i, i) for i in range(9)) if wide else ""
        k = rng.below(3)
        store = ["keep.append(%s)", 'km["f%d"] = %s', "keep.append(%s)"][k]
        def put(i, f):
            return (store % ((i, f) if k == 1 else f))
        body = "%sz := n * 3; y := n + 1; %s; %s; z = z + 1; %s" % (
            locs, put(0, "func() { z = z + y; return z }"), put(1, "func() { return [z, y] }"),
            put(2, "func() { y = y + 1; return func() { return y + z } }"))
        fail = rng.choice(['error("boom")', "[1][5]", "deeper()", 'error("x%d", n)'])     # (1 / 0 is a Go panic that try does not catch)
        defs = ["keep := []", "km := {}", 'func deeper() { error("deep") }']
        get = (lambda i: 'km["f%d"]' % i) if k == 1 else (lambda i: "keep[%d]" % i)
        calls = ["r.append(%s())" % get(0), "r.append(%s())" % get(1), "r.append(%s()())" % get(2), "r.append(%s())" % get(0), "r.append(%s())" % get(1)]
        n = len(calls)
        direct = defs + ["func mk(n) { %s; return 0 }" % body, "mk(%d)" % (2 + rng.below(5))] + ["r := []"] + calls + ["r"]
        arg = direct[4][3:-1]
        routed = defs + ["func mk(n) { %s; %s; return 0 }" % (body, fail),
                         rng.choice(["try(func() { return mk(%s) }, 0)" % arg, "try(func() { mk(%s) }, 0)" % arg])] + ["r := []"] + calls + ["r"]
        return "\n".join(direct), "\n".join(routed), route, 1, n
    if route == "list.map":
        routed = pre + ["r := list(range(%d)).map(func(x) { return inc() })" % n if False else
                        "r := [%s].map(func(x) { return inc() })" % ", ".join("0" for _ in range(n)), "r.append(get())", "r"]
    elif route == "list.each":
        routed = pre + ["r := []", "[%s].each(func(x) { r.append(inc()) })" % ", ".join("0" for _ in range(n)), "r.append(get())", "r"]
    elif route == "list.filter":
        routed = pre + ["r := []", "[%s].filter(func(x) { r.append(inc()); return true })" % ", ".join("0" for _ in range(n)),
                        "r.append(get())", "r"]
    elif route == "sorted":
        # a two-element list: the comparison function is called exactly once
        n = 1
        direct = pre + ["r := []", "r.append(inc())", "r.append(get())", "r"]
        routed = pre + ["r := []", "sorted([2, 1], func(a, b) { r.append(inc()); return a < b })", "r.append(get())", "r"]
    elif route == "try":
        routed = pre + ["r := []"] + ["r.append(try(inc))" for _ in range(n)] + ["r.append(try(get))", "r"]
    elif route == "spawn":
        routed = pre + ["r := []"] + ["r.append(spawn(inc).wait())" for _ in range(n)] + ["r.append(spawn(get).wait())", "r"]
    elif route == "go-chan":
        routed = pre + ["r := []", "c := chan(1)"] + ["go func() { x := inc(); c <- x }()\nv%d := <-c\nr.append(v%d)" % (k, k) for k in range(n)] + \
                 ["r.append(get())", "r"]
    elif route == "after-error":
        # an earlier activation that created closures and was then left by an error (caught by try) must leave nothing
        # behind: the same program after such a failure - at the same call depth, one deeper, or from a frame with more
        # than 8 locals - binds exactly as without it.  The failing function also fails between creation and use.
        wide = rng.chance(1, 3)
        locs = "".join("w%d := %d; " % (i, i) for i in range(9)) if wide else ""
        boom = ["func boom(n=5) { %sz := n; g := func() { z = z + 1; return z }; h := func() { return z }; g(); error(\"boom\"); return [g, h] }" % locs]
        k = rng.below(3)
        if k == 0:
            fail = ["try(func() { return boom(5) }, 0)" if rng.chance(1, 4) else "try(boom, 0)"]
        elif k == 1:
            boom = boom + ["func outer() { return boom(7) }"]
            fail = ["try(outer, 0)"]
        else:
            fail = ["try(boom, 0)", "try(boom, 0)"]
        where = rng.below(3)
        if where == 0:
            routed = boom + fail + direct
        elif where == 1:
            routed = boom + pre[:1] + fail + pre[1:] + direct[len(pre):]
        else:
            routed = boom + pre + fail + direct[len(pre):len(pre) + 2] + fail + direct[len(pre) + 2:]
    else:
        routed = pre + ["nil"]
    return "\n".join(direct), "\n".join(routed), route, depth, n


def incremental_program(rng):
    """Pieces for ONE compiler and ONE VM (the REPL protocol): functions nested 1-4 deep that read and write TOP-LEVEL variables,
    called in an early piece (their code is loaded then) and again after later pieces have changed those variables from top-level
    code, from a depth-1 function, or by declaring more variables; evaluated piece by piece the program must end as when it is
    evaluated as a whole.  Returns the list of pieces."""
    depth = 1 + rng.below(4)
    inner = rng.choice(["g = g + 1; return g", "return g + h", "h = h + g; return h", "g, h = [h, g]; return g * 100 + h"])
    fn = "func() { %s }" % inner
    for _ in range(depth - 1):
        fn = "func() { return %s }" % fn
    pieces = ["g := %d" % (1 + rng.below(5)), "h := %d" % (10 + rng.below(5)), "func outer() { return %s }" % fn,
              "f := outer()" + "()" * (depth - 1), "func bump() { g = g + 7 }", "r := []"]
    steps = ["r.append(f())"]
    for _ in range(2 + rng.below(4)):
        steps.append(rng.choice(["g = g * 2", "h = h + 3", "bump()", "k%d := g + h" % len(steps), "r.append(f())", "r.append(f())",
                                 "f2 := outer()" + "()" * (depth - 1), "r.append([g, h])"]))
    steps += ["r.append(f())", "r.append([g, h])", "r"]
    return pieces + steps

