"""Tiny S-expression reader for the AST dumps of harness/cmd/astobs."""


def parse_sexp(s):
    pos = 0
    n = len(s)

    def rd():
        nonlocal pos
        while pos < n and s[pos] == " ":
            pos += 1
        if pos >= n:
            raise ValueError("eof")
        if s[pos] == "(":
            pos += 1
            out = []
            while True:
                while pos < n and s[pos] == " ":
                    pos += 1
                if pos >= n:
                    raise ValueError("eof in list")
                if s[pos] == ")":
                    pos += 1
                    return out
                out.append(rd())
        start = pos
        while pos < n and s[pos] not in " ()":
            pos += 1
        return s[start:pos]

    return rd()
