"""Shared machinery of the 'core pipeline' properties (C01 C02 C03 C04 C05 C17 C18 C20):
the Go stage dumpers, the extracted Gallina models of lexer/parser/compiler/VM/Sem, and the
stage-by-stage comparison of their projected observables."""
import os
import subprocess
from concurrent.futures import ThreadPoolExecutor

from lib import common as C

GO_TOOLS = ["lexobs", "astobs", "evalobs"]
MODELS = [("lexer", "ExtractLexer.v", "lexer_driver.ml"), ("parser", "ExtractParser.v", "parser_driver.ml"),
          ("compiler", "ExtractCompiler.v", "compiler_driver.ml"), ("vm", "ExtractVM.v", "vm_driver.ml"),
          ("sem", "ExtractSem.v", "sem_driver.ml")]


def build(res, prop, go_tools=GO_TOOLS, models=MODELS):
    """Build the Go dumpers (against /repo's working tree) and the extracted models.
    On failure records a no-failing-input-found violation and returns None."""
    tools = {}
    for g in go_tools:
        out, err = C.go_build(g)
        if not out:
            res.violation({"property": prop, "kind": "harness-build-failed", "stage": "go build " + g,
                           "log": err[-3000:]}, nofail=True, tag="build")
            return None
        tools[g] = out
    # the model .vo files must be current before extraction
    ok, log = C.coq_make(["model/VM.vo", "model/Sem.vo", "model/Parser.vo"])
    if not ok:
        res.violation({"property": prop, "kind": "model-build-failed", "stage": "coq models", "log": log[-3000:]},
                      nofail=True, tag="model")
        return None
    for name, ev, dv in models:
        exe, err = C.build_extracted(name, ev, dv)
        if not exe:
            res.violation({"property": prop, "kind": "model-build-failed", "stage": "extraction " + name,
                           "log": err[-3000:]}, nofail=True, tag="extract")
            return None
        tools["model_" + name] = exe
    return tools


def _pipe(cmd, fin, fout, timeout=3600):
    with open(fout, "wb") as out:
        i = open(fin, "rb") if fin else None
        try:
            rc = subprocess.run(cmd, stdin=i, stdout=out, stderr=subprocess.PIPE, timeout=timeout).returncode
        except subprocess.TimeoutExpired:
            rc = 124
        if i:
            i.close()
    return rc


def _lines(path):
    with open(path, "rb") as f:
        return [l.rstrip(b"\n").decode("utf-8", "replace") for l in f]


def stages(sources, tools, work, want=("tok", "past", "code", "eval", "vm", "sem"), shards=None):
    """Run every source (str) through the implementation and the model, stage by stage.
    Returns dict stage -> list aligned with sources."""
    os.makedirs(work, exist_ok=True)
    shards = shards or min(C.NCPU, max(1, len(sources) // 200))
    n = len(sources)
    bounds = [(i * n // shards, (i + 1) * n // shards) for i in range(shards)]
    out = {}

    def one(k, lo, hi):
        pre = os.path.join(work, "s%d_" % k)
        hx = pre + "src.hex"
        with open(hx, "w") as f:
            for s in sources[lo:hi]:
                f.write(s.encode("utf-8", "surrogateescape").hex() + "\n")
        r = {}
        rcs = []
        if "tok" in want:
            rcs.append(_pipe([tools["lexobs"], "lines"], hx, pre + "tok_go"))
            r["tok_go"] = _lines(pre + "tok_go")
            if "model_lexer" in tools:
                rcs.append(_pipe([tools["lexobs"], "lines-in"], hx, pre + "runes"))
                rcs.append(_pipe([tools["model_lexer"]], pre + "runes", pre + "tok_mo"))
                r["tok_mo"] = _lines(pre + "tok_mo")
        if "past" in want:
            rcs.append(_pipe([tools["astobs"], "lines", "past"], hx, pre + "past_go"))
            rcs.append(_pipe([tools["astobs"], "lines", "runes"], hx, pre + "runes2"))
            rcs.append(_pipe([tools["model_parser"]], pre + "runes2", pre + "past_mo"))
            r["past_go"], r["past_mo"] = _lines(pre + "past_go"), _lines(pre + "past_mo")
        if "code" in want or "vm" in want or "sem" in want:
            rcs.append(_pipe([tools["astobs"], "lines", "ast"], hx, pre + "ast"))
            r["ast"] = _lines(pre + "ast")
        if "code" in want:
            g = subprocess.run([tools["astobs"], "lines", "globals"], stdin=subprocess.DEVNULL,
                               stdout=subprocess.PIPE).stdout.decode().strip()
            rcs.append(_pipe([tools["astobs"], "lines", "code"], hx, pre + "code_go"))
            r["code_go"] = _lines(pre + "code_go")
            if "model_compiler" in tools:
                rcs.append(_pipe([tools["model_compiler"], g], pre + "ast", pre + "code_mo"))
                r["code_mo"] = _lines(pre + "code_mo")
        if "eval" in want:
            rcs.append(_pipe([tools["evalobs"]], hx, pre + "eval_go"))
            r["eval_go"] = _lines(pre + "eval_go")
        if "vm" in want:
            rcs.append(_pipe([tools["model_vm"]], pre + "ast", pre + "vm_mo"))
            r["vm_mo"] = _lines(pre + "vm_mo")
        if "sem" in want:
            rcs.append(_pipe([tools["model_sem"]], pre + "ast", pre + "sem_mo"))
            r["sem_mo"] = _lines(pre + "sem_mo")
        r["_rc"] = rcs
        r["_n"] = hi - lo
        return r

    with ThreadPoolExecutor(max_workers=shards) as ex:
        parts = list(ex.map(lambda a: one(*a), [(k, lo, hi) for k, (lo, hi) in enumerate(bounds)]))
    bad = []
    for p in parts:
        for key, val in p.items():
            if key.startswith("_"):
                continue
            if len(val) != p["_n"]:
                bad.append("%s: %d lines for %d sources" % (key, len(val), p["_n"]))
            out.setdefault(key, []).extend(val + [""] * max(0, p["_n"] - len(val)))
        if any(p["_rc"]):
            bad.append("exit statuses %s" % p["_rc"])
    # a TIMEOUT of the real evaluator depends on the load of the machine: those sources are evaluated again, one process,
    # with a budget twenty times as long; what is judged is the second observation
    if "eval_go" in out:
        slow = [i for i, l in enumerate(out["eval_go"]) if l.startswith("ERR TIMEOUT")][:60]
        if slow:
            hx = os.path.join(work, "retry_src.hex")
            with open(hx, "w") as f:
                for i in slow:
                    f.write(sources[i].encode("utf-8", "surrogateescape").hex() + "\n")
            env = dict(os.environ, EVALOBS_TIMEOUT_MS="10000")
            with open(hx, "rb") as fin:
                r = subprocess.run([tools["evalobs"]], stdin=fin, stdout=subprocess.PIPE, env=env)
            lines = r.stdout.decode("utf-8", "replace").splitlines()
            if len(lines) == len(slow):
                for i, l in zip(slow, lines):
                    out["eval_go"][i] = l
            out["_retried_timeouts"] = len(slow)
    out["_problems"] = bad
    return out


def canon_eval(line):
    """canonicalise result lines: TIMEOUT == FUEL, iterator labels"""
    line = line.replace("ERR TIMEOUT", "ERR FUEL").replace("(other list_iter)", "(other iter)")
    return line


def skipped(line):
    return line.startswith("SKIP") or "UNSUPPORTED" in line or line.startswith("BADINPUT")
