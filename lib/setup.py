"""./check --setup : build everything from files on disk, offline."""
import os
import sys
import time

from lib import common as C
from lib.registry import REGISTRY


def main():
    t0 = time.time()
    os.makedirs(C.WORK, exist_ok=True)
    ok = True
    # translators first: coq/gen/*.v are part of the Coq project
    for prop, need in sorted(REGISTRY.items()):
        for what, outfile in need.get("translate", []):
            good, log = C.translate(what, outfile)
            if not good:
                ok = False
                C.log("translator %s failed:\n%s" % (what, log[-2000:]))
        for tool, args, outfile in need.get("pregen", []):
            exe, err = C.go_build(tool)
            if not exe:
                ok = False
                C.log("go build %s failed:\n%s" % (tool, err[-2000:]))
                continue
            rc, out, e = C.run([exe, C.REPO] + list(args), timeout=300)
            if rc != 0 or not out.strip():
                ok = False
                C.log("generator %s failed:\n%s" % (tool, (out + e)[-2000:]))
            else:
                C.write_if_changed(os.path.join(C.COQ, "gen", outfile), out)
    g09, e9 = C.go_build('c09gen')
    if g09:
        rc, out, e = C.run([g09, 'coq'], env=dict(os.environ, VERIF_REPO=C.REPO), timeout=300)
        if rc == 0 and 'Definition gen_sites' in out:
            C.write_if_changed(os.path.join(C.COQ, 'gen', 'GenLockSites.v'), out)
        else:
            ok = False
            C.log('c09gen failed: ' + (out + e)[-1500:])
    else:
        ok = False
        C.log('go build c09gen failed: ' + e9[-1500:])
    try:
        from checks import c16 as _c16
        ok16, tlog = _c16.translate_resolve(None)
        if not ok16:
            ok = False
            C.log('c16tr failed: ' + tlog[-1500:])
    except Exception as ex:
        ok = False
        C.log('c16tr setup failed: %r' % (ex,))
    # C11 / C12: generators that need their own overlay / x-tools module (helpers live in the check modules)
    try:
        import json as _json, tempfile, shutil
        from checks import c11 as _c11, c12 as _c12
        ov = _c11.make_overlay()
        g11, e1 = C.go_build("c11gen", overlay=ov)
        if g11:
            rc, out, e = C.run([g11, _c11.repo_dir()], timeout=300)
            if rc == 0 and "Definition heap" in out:
                C.write_if_changed(os.path.join(C.COQ, "gen", "GenGlobalsGraph.v"), out)
            else:
                ok = False
                C.log("c11gen failed: " + (out + e)[-1500:])
        else:
            ok = False
            C.log("go build c11gen failed: " + e1[-1500:])
        C.go_build("c11obs", overlay=ov)
        C.go_build("c12obs", overlay=ov)
        _c12.sync_xt_mod()
        g05, e5 = _c12.build_xt("c05gen")
        if g05:
            rc, out, e = C.run([g05, _c12.XT], env=dict(C.GOENV), timeout=600)
            if rc == 0 and "gen_map_range_sites" in out:
                C.write_if_changed(os.path.join(C.COQ, "gen", "GenMapRangeSites.v"), out)
            else:
                ok = False
                C.log("c05gen failed: " + (out + e)[-1500:])
        else:
            ok = False
            C.log("go build c05gen failed: " + (e5 or "")[-1500:])
        g12, e2 = _c12.build_xt("c12gen")
        if g12:
            d = tempfile.mkdtemp(prefix="c12gen-", dir=C.WORK)
            cf, jf = os.path.join(d, "g.v"), os.path.join(d, "g.json")
            rc, out, e = C.run([g12, "both", _c12.XT, cf, jf], env=dict(C.GOENV), timeout=600)
            if rc == 0 and os.path.exists(cf):
                C.write_if_changed(os.path.join(C.COQ, "gen", "GenOsCallGraph.v"), open(cf).read())
            else:
                ok = False
                C.log("c12gen failed: " + (out + e)[-1500:])
            shutil.rmtree(d, ignore_errors=True)
        else:
            ok = False
            C.log("go build c12gen failed: " + (e2 or "")[-1500:])
    except Exception as ex:     # the checks regenerate these themselves; setup only pre-builds
        ok = False
        C.log("C11/C12 pre-generation failed: %r" % (ex,))
    # Coq: full .vo build of every model, proof and property file
    C.coq_project()
    good, log = C.coq_make([], timeout=7000)
    if not good:
        ok = False
        C.log("coq build failed:\n" + log[-4000:])
    bad = C.hygiene_scan()
    if bad:
        ok = False
        C.log("forbidden constructs: " + "; ".join(bad))
    seen = set()
    for prop, need in sorted(REGISTRY.items()):
        for g in need.get("go", []):
            if g in seen:
                continue
            seen.add(g)
            out, err = C.go_build(g)
            if not out:
                ok = False
                C.log("go build %s failed:\n%s" % (g, err[-3000:]))
        for g in need.get("overlay_go", []):
            ov, err = C.make_overlay()
            out, err2 = C.go_build(g, overlay=ov) if ov else (None, err)
            if not out:
                ok = False
                C.log("go build %s (overlay) failed:\n%s" % (g, (err or err2)[-3000:]))
        for name, ev, dv in need.get("extract", []) :
            if name in seen:
                continue
            seen.add(name)
            exe, err = C.build_extracted(name, ev, dv)
            if not exe:
                ok = False
                C.log("extraction %s failed:\n%s" % (name, err[-3000:]))
    C.log("setup %s in %.1fs" % ("ok" if ok else "FAILED", time.time() - t0))
    return 0 if ok else 1
