"""./check --setup : build everything from files on disk, offline."""
import os
import sys
import time

from lib import common as C
from lib.registry import REGISTRY


def main():
    t0 = time.time()
    os.makedirs(C.WORK, exist_ok=True)
    ok = True
    # Coq: full .vo build of every model, proof and property file
    C.coq_project()
    good, log = C.coq_make([], timeout=7000)
    if not good:
        ok = False
        C.log("coq build failed:\n" + log[-4000:])
    bad = C.hygiene_scan()
    if bad:
        ok = False
        C.log("forbidden constructs: " + "; ".join(bad))
    seen = set()
    for prop, need in sorted(REGISTRY.items()):
        for g in need.get("go", []):
            if g in seen:
                continue
            seen.add(g)
            out, err = C.go_build(g)
            if not out:
                ok = False
                C.log("go build %s failed:\n%s" % (g, err[-3000:]))
        for name, ev, dv in need.get("extract", []):
            if name in seen:
                continue
            seen.add(name)
            exe, err = C.build_extracted(name, ev, dv)
            if not exe:
                ok = False
                C.log("extraction %s failed:\n%s" % (name, err[-3000:]))
    C.log("setup %s in %.1fs" % ("ok" if ok else "FAILED", time.time() - t0))
    return 0 if ok else 1
