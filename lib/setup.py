"""./check --setup : build everything from files on disk, offline."""
import os
import sys
import time

from lib import common as C
from lib.registry import REGISTRY


def main():
    t0 = time.time()
    os.makedirs(C.WORK, exist_ok=True)
    ok = True
    # translators first: coq/gen/*.v are part of the Coq project
    for prop, need in sorted(REGISTRY.items()):
        for what, outfile in need.get("translate", []):
            good, log = C.translate(what, outfile)
            if not good:
                ok = False
                C.log("translator %s failed:\n%s" % (what, log[-2000:]))
        for tool, args, outfile in need.get("pregen", []):
            exe, err = C.go_build(tool)
            if not exe:
                ok = False
                C.log("go build %s failed:\n%s" % (tool, err[-2000:]))
                continue
            rc, out, e = C.run([exe, C.REPO] + list(args), timeout=300)
            if rc != 0 or not out.strip():
                ok = False
                C.log("generator %s failed:\n%s" % (tool, (out + e)[-2000:]))
            else:
                C.write_if_changed(os.path.join(C.COQ, "gen", outfile), out)
    # Coq: full .vo build of every model, proof and property file
    C.coq_project()
    good, log = C.coq_make([], timeout=7000)
    if not good:
        ok = False
        C.log("coq build failed:\n" + log[-4000:])
    bad = C.hygiene_scan()
    if bad:
        ok = False
        C.log("forbidden constructs: " + "; ".join(bad))
    seen = set()
    for prop, need in sorted(REGISTRY.items()):
        for g in need.get("go", []):
            if g in seen:
                continue
            seen.add(g)
            out, err = C.go_build(g)
            if not out:
                ok = False
                C.log("go build %s failed:\n%s" % (g, err[-3000:]))
        for g in need.get("overlay_go", []):
            ov, err = C.make_overlay()
            out, err2 = C.go_build(g, overlay=ov) if ov else (None, err)
            if not out:
                ok = False
                C.log("go build %s (overlay) failed:\n%s" % (g, (err or err2)[-3000:]))
        for name, ev, dv in need.get("extract", []):
            if name in seen:
                continue
            seen.add(name)
            exe, err = C.build_extracted(name, ev, dv)
            if not exe:
                ok = False
                C.log("extraction %s failed:\n%s" % (name, err[-3000:]))
    C.log("setup %s in %.1fs" % ("ok" if ok else "FAILED", time.time() - t0))
    return 0 if ok else 1
