"""Grammar-directed generator of well-scoped risor programs (DESIGN section 5, C01 Gen/bounds).

Every random choice comes from one lib.common.Rng, so a seed replays exactly.  Programs are
mostly valid and mostly terminate: the generator threads the set of visible names with their
kinds (int, str, list of int, map, function of arity n), whether a loop / function encloses the
hole, and bounds every loop.  An effectful `t(k, v)` (appends k to `log`, returns v) is put at
operand positions so that evaluation order and short-circuiting are observable; a type-blind mode
supplies runtime errors whose class must agree.
"""


class Scope:
    def __init__(self, parent=None, is_func=False):
        self.parent = parent
        self.vars = {}       # name -> kind: 'i','s','l','m','f<n>','c' (const int)
        self.is_func = is_func

    def all(self, kind):
        out, s, seen = [], self, set()
        while s:
            for n, k in s.vars.items():
                if n not in seen:
                    seen.add(n)
                    if k == kind or (kind == 'i' and k == 'c'):
                        out.append(n)
            s = s.parent
        return out

    def assignable(self, kind):
        out, s, seen = [], self, set()
        while s:
            for n, k in s.vars.items():
                if n not in seen:
                    seen.add(n)
                    if k == kind:
                        out.append(n)
            s = s.parent
        return out

    def visible(self, name):
        s = self
        while s:
            if name in s.vars:
                return True
            s = s.parent
        return False


class Gen:
    def __init__(self, rng, features=None, budget=40):
        self.r = rng
        self.budget = budget
        self.counter = 0
        self.tk = 0
        self.stats = {}
        self.f = set(features or [])   # enabled optional features

    def st(self, k):
        self.stats[k] = self.stats.get(k, 0) + 1

    def fresh(self, p):
        self.counter += 1
        return "%s%d" % (p, self.counter)

    def spend(self, n=1):
        self.budget -= n
        return self.budget > 0

    # ---------------------------------------------------------------- expressions
    def t(self, e):
        """wrap an operand in the effectful logger (sometimes)"""
        if self.r.chance(1, 4):
            self.tk += 1
            self.st("t()")
            return "t(%d, %s)" % (self.tk, e)
        return e

    def int_expr(self, sc, d=0):
        r = self.r
        self.spend()
        leaf = d >= 3 or self.budget <= 0 or r.chance(2, 5)
        if leaf:
            vs = sc.all('i')
            if vs and r.chance(3, 5):
                return r.choice(vs)
            return str(r.choice([0, 1, 2, 3, 4, 5, 7, 10, -1, -3, 9223372036854775807, 100]))
        k = r.below(16)
        if k < 5:
            op = r.choice(["+", "-", "*", "+", "-", "/", "%", "&"])
            self.st("infix " + op)
            return "(%s %s %s)" % (self.t(self.int_expr(sc, d + 1)), op, self.t(self.int_expr(sc, d + 1)))
        if k == 5:
            self.st("prefix -")
            return "(-(%s))" % self.int_expr(sc, d + 1)
        if k == 6:
            parts = (self.bool_expr(sc, d + 1), self.t(self.int_expr(sc, d + 1)), self.t(self.int_expr(sc, d + 1)))
            if any(" ? " in p for p in parts):      # the parser rejects nested ternaries
                self.st("if-expr")
                return "(if %s { %s } else { %s })" % parts
            self.st("ternary")
            return "(%s ? %s : %s)" % parts
        if k == 7:
            self.st("if-expr")
            return "(if %s { %s } else { %s })" % (self.bool_expr(sc, d + 1), self.int_expr(sc, d + 1), self.int_expr(sc, d + 1))
        if k == 8:
            ls = sc.all('l')
            if ls:
                self.st("index")
                return "%s[%s]" % (r.choice(ls), self.t(str(r.choice([0, 1, -1, 0, 1, 2, 5, -4]))))
            return "len([1, 2])"
        if k == 9:
            ls = sc.all('l') + sc.all('s')
            if ls:
                self.st("len")
                return "len(%s)" % r.choice(ls)
            return "3"
        if k == 10:
            fs = [(n, int(kd[1:])) for n in self._funcs(sc) for kd in [self._kind(sc, n)]]
            if fs:
                n, ar = r.choice(fs)
                self.st("call")
                nargs = ar if r.chance(9, 10) else max(0, ar - 1)
                return "%s(%s)" % (n, ", ".join(self.t(self.int_expr(sc, d + 1)) for _ in range(nargs)))
            return "4"
        if k == 11:
            ls = sc.all('l')
            if ls:
                self.st("slice")
                lo = r.choice(["", "0", "1", "-2", "t(%d, 0)" % self._tk()])
                hi = r.choice(["", "2", "1", "-1", "t(%d, 2)" % self._tk(), "9"])
                return "len(%s[%s:%s])" % (r.choice(ls), lo, hi)
            return "2"
        if k == 12:
            ms = sc.all('m')
            if ms:
                self.st("map-index")
                return '%s["%s"]' % (r.choice(ms), r.choice(["a", "b", "a", "zz"]))
            return "6"
        if k == 13:
            self.st("switch-expr")
            return "(switch %s { case 0: %s\n case 1, 2: %s\n default: %s\n })" % (
                self.t(self.int_expr(sc, d + 1)), self.int_expr(sc, d + 1), self.int_expr(sc, d + 1), self.int_expr(sc, d + 1))
        if k == 14:
            self.st("&&/|| value")
            return "(%s %s %s)" % (self.t(self.int_expr(sc, d + 1)), r.choice(["&&", "||"]), self.t(self.int_expr(sc, d + 1)))
        self.st("func-literal-call")
        p = self.fresh("p")
        inner = Scope(sc, is_func=True)
        inner.vars[p] = 'i'
        return "func(%s) { return %s }(%s)" % (p, self.int_expr(inner, d + 1), self.int_expr(sc, d + 1))

    def _tk(self):
        self.tk += 1
        return self.tk

    def _kind(self, sc, name):
        s = sc
        while s:
            if name in s.vars:
                return s.vars[name]
            s = s.parent
        return None

    def _funcs(self, sc):
        out, s, seen = [], sc, set()
        while s:
            for n, k in s.vars.items():
                if n not in seen:
                    seen.add(n)
                    if k.startswith('f'):
                        out.append(n)
            s = s.parent
        return out

    def bool_expr(self, sc, d=0):
        r = self.r
        self.spend()
        k = r.below(10)
        if d >= 3 or k < 5:
            op = r.choice(["<", "<=", ">", ">=", "==", "!="])
            self.st("cmp " + op)
            return "%s %s %s" % (self.t(self.int_expr(sc, d + 1)), op, self.t(self.int_expr(sc, d + 1)))
        if k < 7:
            op = r.choice(["&&", "||"])
            self.st("logic " + op)
            return "(%s %s %s)" % (self.bool_expr(sc, d + 1), op, self.bool_expr(sc, d + 1))
        if k == 7:
            self.st("prefix !")
            return "!(%s)" % self.bool_expr(sc, d + 1)
        if k == 8:
            ls = sc.all('l')
            if ls:
                self.st("in")
                op = r.choice(["in", "in", "not in"])
                return "(%s %s %s)" % (self.t(self.int_expr(sc, d + 1)), op, self.t(r.choice(ls)))
        return r.choice(["true", "false"])

    def str_expr(self, sc, d=0):
        r = self.r
        vs = sc.all('s')
        k = r.below(6)
        if vs and k < 2:
            return r.choice(vs)
        if k == 2 and d < 2:
            self.st("str +")
            return "(%s + %s)" % (self.str_expr(sc, d + 1), self.str_expr(sc, d + 1))
        if k == 3 and vs:
            self.st("str index")
            return "%s[%s]" % (r.choice(vs), r.choice(["0", "-1", "1"]))
        if k == 4 and 'template' in self.f:
            self.st("template")
            return "'v={%s};'" % self.int_expr(sc, 2)
        return '"%s"' % r.choice(["", "a", "ab", "hello", "x y", "Zz"])

    def list_expr(self, sc):
        n = self.r.below(5)
        self.st("list-literal")
        return "[" + ", ".join(self.t(self.int_expr(sc, 2)) for _ in range(n)) + "]"

    # ---------------------------------------------------------------- statements
    def block(self, sc, in_loop, in_func, depth, n=None):
        inner = Scope(sc)
        n = n if n is not None else 1 + self.r.below(3)
        out = []
        for _ in range(n):
            if self.budget <= 0:
                break
            out.append(self.stmt(inner, in_loop, in_func, depth + 1))
        if not out:
            out = ["nil"]
        return "{ " + "; ".join(out) + " }"

    def stmt(self, sc, in_loop, in_func, depth):
        r = self.r
        self.spend()
        k = r.below(30)
        ints = sc.assignable('i')
        if depth >= 3:
            k = r.below(9)
            if in_loop and r.chance(1, 5):
                k = 21 + r.below(2)      # break / continue at any nesting depth (switch in switch in loop)
        if k < 3 or not ints:
            name = self.fresh("v")
            kind = r.below(8)
            outer = [n for n in ints if n not in sc.vars]
            if kind < 5 and outer and sc.parent is not None and r.chance(1, 3):
                # a declaration that SHADOWS a variable of an enclosing scope and reads it in its own initializer
                # (`x := x + 1` in a block, a loop body, a function): the initializer still means the outer variable
                name = r.choice(outer)
                e = "(%s %s %s)" % (name, r.choice(["+", "-", "*"]), self.t(self.int_expr(sc, 2)))
                sc.vars[name] = 'i'
                self.st("decl shadow")
                return ("%s := %s" if kind < 3 else "var %s = %s") % (name, e)
            if kind < 5:
                e = self.int_expr(sc)
                sc.vars[name] = 'i'
                self.st("decl :=" if kind < 3 else "decl var")
                return ("%s := %s" if kind < 3 else "var %s = %s") % (name, e)
            if kind == 5:
                ls0 = sc.all('l')
                if ls0 and r.chance(1, 2):
                    # a list built by + from a list that may have grown by append: the result is a NEW list, however
                    # often the same left operand is extended (two results from one operand must not share storage)
                    self.st("list-concat")
                    e = "%s + %s" % (r.choice(ls0), self.list_expr(sc))
                else:
                    e = self.list_expr(sc)
                sc.vars[name] = 'l'
                return "%s := %s" % (name, e)
            if kind == 6:
                e = self.str_expr(sc)
                sc.vars[name] = 's'
                self.st("decl str")
                return "%s := %s" % (name, e)
            self.st("decl map")
            e = r.choice(['{}', '{"a": %s}' % self.int_expr(sc, 2), '{b: 2}',
                          '{"a": %s, b: %s}' % (self.t(self.int_expr(sc, 2)), self.t(self.int_expr(sc, 2))),
                          '{b: %s, "a": %s, "c": %s}' % (self.t(self.int_expr(sc, 2)), self.t("1"), self.t(self.int_expr(sc, 2))),
                          '{"a": %s, "a": %s}' % (self.t("1"), self.t("2")),
                          # entries on several lines, later keys starting in smaller columns than earlier ones: the values are
                          # still evaluated in source order
                          '{"c": %s,\n"a": %s,\n "b": %s}' % (self.t(self.int_expr(sc, 2)), self.t(self.int_expr(sc, 2)), self.t(self.int_expr(sc, 2))),
                          '{\n    "b": %s, "a": %s,\n  "c": %s,\n"d": %s}' % (self.t(self.int_expr(sc, 2)), self.t("1"), self.t(self.int_expr(sc, 2)), self.t("2"))])
            sc.vars[name] = 'm'
            return "%s := %s" % (name, e)
        if k < 7:
            op = r.choice(["=", "=", "+=", "-=", "*=", "/="])
            self.st("assign " + op)
            return "%s %s %s" % (r.choice(ints), op, self.t(self.int_expr(sc)))
        if k == 7:
            self.st("postfix")
            return "%s%s" % (r.choice(ints), r.choice(["++", "--"]))
        if k == 8:
            ls = sc.all('l')
            if ls:
                c = r.below(4)
                if c == 0:
                    self.st("append")
                    return "%s.append(%s)" % (r.choice(ls), self.int_expr(sc, 2))
                if c == 1 and 'compound-index' in self.f:
                    self.st("index compound")
                    return "%s[%s] %s %s" % (r.choice(ls), self.t("0"), r.choice(["+=", "-=", "*="]), self.t(self.int_expr(sc, 2)))
                self.st("index assign")
                return "%s[%s] = %s" % (r.choice(ls), self.t(str(r.choice([0, 1, -1, 3]))), self.t(self.int_expr(sc, 2)))
            ms = sc.all('m')
            if ms:
                self.st("map assign")
                return '%s["%s"] = %s' % (r.choice(ms), r.choice(["a", "b", "c"]), self.int_expr(sc, 2))
            return "print(%s)" % self.int_expr(sc, 2)
        if k == 9:
            self.st("print")
            return "print(%s)" % ", ".join(self.int_expr(sc, 2) for _ in range(1 + r.below(2)))
        if k < 13:
            self.st("if-stmt")
            s = "if %s %s" % (self.bool_expr(sc), self.block(sc, in_loop, in_func, depth))
            if r.chance(1, 2):
                if r.chance(1, 3):
                    self.st("else-if")
                    s += " else if %s %s" % (self.bool_expr(sc), self.block(sc, in_loop, in_func, depth))
                s += " else %s" % self.block(sc, in_loop, in_func, depth)
            return s
        if k < 16:
            self.st("switch-stmt")
            cases = []
            nc = 1 + r.below(3)
            used = set()
            for _ in range(nc):
                vals = [str(r.below(4)) for _ in range(1 + r.below(2))]
                body = "; ".join(self.stmt(Scope(sc), in_loop, in_func, depth + 1) for _ in range(1 + r.below(2))) if r.chance(5, 6) else ""
                if in_loop and r.chance(1, 6):
                    # a switch nested directly in this case, leaving the loop iteration from inside both
                    self.st("switch-in-switch jump")
                    jump = r.choice(["break", "continue"])
                    inner = "switch %s { case %d: %s\n default: %s\n }" % (
                        self.t(self.int_expr(sc, 2)), r.below(3),
                        r.choice([jump, "if %s { %s }" % (self.bool_expr(sc, 2), jump)]),
                        r.choice(["", jump, "print(%s)" % self.int_expr(sc, 2)]))
                    body = (body + "; " if body else "") + inner
                cases.append("case %s: %s\n" % (", ".join(vals), body))
            if r.chance(2, 3):
                body = self.stmt(Scope(sc), in_loop, in_func, depth + 1) if r.chance(5, 6) else ""
                pos = r.below(len(cases) + 1)
                cases.insert(pos, "default: %s\n" % body)
            return "switch %s { %s }" % (self.t(self.int_expr(sc, 2)), " ".join(cases))
        if k < 21:
            return self.loop(sc, in_func, depth)
        if k == 21 and in_loop:
            self.st("break")
            return "if %s { break }" % self.bool_expr(sc, 2) if r.chance(2, 3) else "break"
        if k == 22 and in_loop:
            self.st("continue")
            return "if %s { continue }" % self.bool_expr(sc, 2) if r.chance(2, 3) else "continue"
        if k == 23 and in_func:
            self.st("return")
            return "if %s { return %s }" % (self.bool_expr(sc, 2), self.int_expr(sc, 2))
        if k == 24:
            return self.func_decl(sc, depth)
        if k == 25:
            a, b = self.fresh("v"), self.fresh("v")
            self.st("multi :=")
            s = "%s, %s := [%s, %s]" % (a, b, self.t(self.int_expr(sc, 2)), self.t(self.int_expr(sc, 2)))
            sc.vars[a] = 'i'
            sc.vars[b] = 'i'
            return s
        if k == 26 and len(set(ints)) >= 2:
            self.st("multi =")
            a = r.choice(ints)
            b = r.choice([x for x in ints if x != a])   # `v, v = ...` stores right to left: an observation, not generated
            return "%s, %s = [%s, %s]" % (a, b, b, self.int_expr(sc, 2))
        if k == 27:
            name = self.fresh("k")
            self.st("const")
            e = self.int_expr(sc, 2)
            sc.vars[name] = 'c'
            return "const %s = %s" % (name, e)
        if k == 28 and 'defer' in self.f and in_func:
            return self.defer_stmt(sc)
        if k == 29:
            self.st("expr-stmt")
            return self.int_expr(sc, 1)
        self.st("assign =")
        return "%s = %s" % (r.choice(ints), self.int_expr(sc))

    def loop(self, sc, in_func, depth):
        r = self.r
        k = r.below(7)
        inner = Scope(sc)
        if k == 0:
            i = self.fresh("i")
            inner.vars[i] = 'c'
            v = r.below(6)
            if v < 3:
                self.st("for 3-part")
                return "for %s := 0; %s < %d; %s++ %s" % (i, i, 1 + r.below(4), i, self.block(inner, True, in_func, depth))
            # the other shapes of the three clauses: an expression / an assignment / nothing as init, an expression as post
            del inner.vars[i]
            sc.vars[i] = 'c'
            body = self.block(inner, True, in_func, depth)
            n = 1 + r.below(4)
            if v == 3:
                self.st("for 3-part expr-init")
                return "%s := 0\nfor %s; %s < %d; %s++ %s" % (i, self.int_expr(sc, 2), i, n, i, body)
            if v == 4:
                self.st("for 3-part no-init")
                return "%s := 0\nfor ; %s < %d; %s++ %s" % (i, i, n, i, body)
            self.st("for 3-part expr-post")
            return "%s := 5\nfor %s = 0; %s < %d; %s { %s++; %s }" % (i, i, i, n, self.int_expr(sc, 2), i, body[1:-1])
        if k == 1:
            c = self.fresh("n")
            self.st("for cond")
            # declared outside so that the condition sees it
            sc.vars[c] = 'c'
            body = self.block(inner, True, in_func, depth)
            return "%s := 0\nfor %s < %d { %s++; %s }" % (c, c, 1 + r.below(4), c, body[1:-1])
        if k == 2:
            c = self.fresh("n")
            sc.vars[c] = 'c'
            self.st("for infinite")
            body = self.block(inner, True, in_func, depth)
            return "%s := 0\nfor { %s++; if %s > %d { break }; %s }" % (c, c, c, r.below(4), body[1:-1])
        if k == 3:
            a, b = self.fresh("i"), self.fresh("x")
            inner.vars[a] = 'i'
            inner.vars[b] = 'i'
            ls = sc.all('l')
            if ls and r.chance(1, 3):
                # the body grows (up to a bound) the very list the loop runs over: the loop sees the new items
                lst = r.choice(ls)
                self.st("for over growing list")
                form = r.below(3)
                if form == 1:
                    del inner.vars[a]
                body = self.block(inner, True, in_func, depth)
                grow = "if len(%s) < %d { %s.append(%s) }" % (lst, 3 + r.below(5), lst,
                                                              r.choice([b, "(%s + 1)" % b, "7"] + ([a] if form != 1 else [])))
                head = "for %s in %s" % (b, lst) if form == 1 else "for %s, %s := range %s" % (a, b, lst)
                return "%s { %s; %s }" % (head, grow, body[1:-1])
            src = r.choice(ls) if ls and r.chance(2, 3) else self.list_expr(sc)
            self.st("for range 2")
            return "for %s, %s := range %s %s" % (a, b, self.t(src), self.block(inner, True, in_func, depth))
        ms = sc.all('m')
        if k == 4 and ms and r.chance(1, 2):
            # a map: keys in sorted order, as they are at loop entry (the body may assign to the map)
            a, b = self.fresh("k"), self.fresh("x")
            inner.vars[a] = 's'
            inner.vars[b] = 'i'
            self.st("for range map")
            if r.chance(1, 2):
                return "for %s, %s := range %s %s" % (a, b, r.choice(ms), self.block(inner, True, in_func, depth))
            del inner.vars[b]
            return "for %s := range %s %s" % (a, r.choice(ms), self.block(inner, True, in_func, depth))
        if k == 4:
            a = self.fresh("i")
            inner.vars[a] = 'i'
            self.st("for range 1")
            src = r.choice([str(1 + r.below(4)), self.list_expr(sc)])
            return "for %s := range %s %s" % (a, src, self.block(inner, True, in_func, depth))
        if k == 5:
            self.st("for range 0")
            return "for range %d %s" % (1 + r.below(3), self.block(inner, True, in_func, depth))
        x = self.fresh("x")
        inner.vars[x] = 'i'
        ls = sc.all('l')
        src = r.choice(ls) if ls and r.chance(2, 3) else self.list_expr(sc)
        self.st("for in")
        return "for %s in %s %s" % (x, src, self.block(inner, True, in_func, depth))

    def defer_stmt(self, sc):
        """a deferred call: builtin, bound method, compiled function (named or literal); arguments are evaluated now"""
        r = self.r
        c = r.below(5)
        self.tk += 1
        if c == 0:
            self.st("defer builtin")
            return "defer print(%s)" % self.int_expr(sc, 2)
        if c == 1:
            self.st("defer compiled")
            return "defer t(%d, %s)" % (self.tk, self.int_expr(sc, 2))
        if c == 2:
            self.st("defer method")
            return "defer log.append(%d)" % (1000 + self.tk)
        ints = sc.assignable('i')
        self.st("defer literal")
        if c == 3 or not ints:
            return "defer func() { log.append(%d); print(%s) }()" % (2000 + self.tk, self.int_expr(sc, 2))
        return "defer func(d) { log.append(d); %s = %s + d }(%s)" % (r.choice(ints), r.choice(ints), self.int_expr(sc, 2))

    def func_decl(self, sc, depth):
        r = self.r
        name = self.fresh("f")
        ar = r.below(3)
        params = [self.fresh("p") for _ in range(ar)]
        inner = Scope(sc, is_func=True)
        for p in params:
            inner.vars[p] = 'i'
        ndef = r.below(ar + 1) if r.chance(1, 3) else 0
        plist = []
        for i, p in enumerate(params):
            if i >= ar - ndef:
                plist.append("%s=%d" % (p, r.below(5)))
                self.st("default-param")
            else:
                plist.append(p)
        named = r.chance(2, 3)
        if named and r.chance(1, 3) and ar >= 1:
            # recursion, bounded by the first parameter
            self.st("recursion")
            body = "{ if %s <= 0 { return %s }; return %s(%s) + 1 }" % (
                params[0], self.int_expr(inner, 2), name, ", ".join(["%s - 1" % params[0]] + params[1:]))
            sc.vars[name] = 'f%d' % ar
            return "func %s(%s) %s" % (name, ", ".join(plist), body)
        inner.vars[name] = 'x'   # not callable inside (avoid unbounded recursion)
        body = self.block(inner, False, True, depth, n=1 + r.below(3))
        ret = "return %s" % self.int_expr(inner, 2)
        if 'defer' in self.f and r.chance(1, 2):
            # several pending deferred calls of different kinds in one activation
            ds = "; ".join(self.defer_stmt(inner) for _ in range(2 + r.below(2)))
            body = "{ " + ds + "; " + body[1:]
        body = body[:-1] + "; " + ret + " }"
        sc.vars[name] = 'f%d' % ar
        if named:
            self.st("func named")
            return "func %s(%s) %s" % (name, ", ".join(plist), body)
        self.st("func literal")
        return "%s := func(%s) %s" % (name, ", ".join(plist), body)

    # ---------------------------------------------------------------- programs
    def program_parts(self):
        """the program as a list of chunks, each made of whole top-level statements"""
        sc = Scope()
        lines = ["log := []", "func t(k, v) { log.append(k); return v }"]
        sc.vars['log'] = 'x'
        sc.vars['t'] = 'x'
        n = 3 + self.r.below(6)
        for _ in range(n):
            if self.budget <= 0:
                break
            lines.append(self.stmt(sc, False, False, 0))
        finals = [v for v, k in sc.vars.items() if k in ('i', 'l', 's', 'm', 'c')]
        lines.append("[" + ", ".join(finals + ["log"]) + "]")
        return lines

    def program(self):
        return "\n".join(self.program_parts())


def closure_program(rng, depth, escape):
    """C02: nestings of function literals; every level reads/writes bindings of enclosing levels."""
    r = rng
    names = ["a%d" % i for i in range(depth + 1)]
    # level i declares names[i]; innermost returns the sum and bumps a chosen outer variable
    victim = r.below(depth + 1)
    reads = [n for n in names if r.chance(3, 4)] or [names[0]]
    inner = "func() { %s += 1; return %s }" % (names[victim], " + ".join(reads))
    body = inner
    for i in range(depth, 0, -1):
        body = "func(%s) { %s := %s * 10; return %s }" % ("p%d" % i, names[i], "p%d" % i, body) if False else \
               "func(p%d) { %s := p%d * 10; %s; return %s }" % (i, names[i], i, "nil", body)
    prog = ["%s := 1" % names[0], "mk := %s" % body if depth > 0 else "mk := %s" % inner]
    call = "mk" + "".join("(%d)" % (i + 1) for i in range(depth))
    if depth == 0:
        call = "mk"
    prog.append("g := %s" % call)
    if escape == "direct":
        prog.append("r := [g(), g(), %s]" % names[0])
    elif escape == "list":
        prog.append("fs := [g, g]")
        prog.append("r := [fs[0](), fs[1](), %s]" % names[0])
    elif escape == "map":
        prog.append('m := {"f": g}')
        prog.append('r := [m["f"](), m["f"](), %s]' % names[0])
    elif escape == "callback":
        prog.append("r := [1, 2].map(func(x) { return g() + x })")
    elif escape == "two":
        prog.append("h := %s" % call)
        prog.append("r := [g(), h(), g(), %s]" % names[0])
    prog.append("r")
    return "\n".join(prog)
