"""Generator for C04: every expression FORM of the grammar in every operand POSITION.

The property says every expression adds exactly one value wherever it stands.  `lib/gen.py` grows programs from a fixed set of
typed sub-generators; this generator is organised the other way round: a table of expression forms (every literal kind and
every template-string shape, operators, containers, calls, function literals, conditional / switch expressions, receives,
pipes, ...) and a table of contexts with a hole (container elements, call arguments, callee, index / slice operands, operator
operands, conditions, subjects, right-hand sides, range operands, interpolations, send / defer / go operands, ...).  A
program puts forms into holes - straight-line, inside range loops, inside functions called from loops, nested in one another.
Forms and holes carry a coarse type so that most programs also RUN (final stack pointer, trace, scaled loops); the static
certificate does not depend on that.
"""

PRELUDE = ("x := 5\ny := 2\ns := \"st\"\nb := true\nl := [1, 2, 3]\nm := {\"a\": 1, \"st\": 2}\n"
           "func f(a, c=2) { return a }\nfunc g(a) { return [a, a] }\nfunc id(a) { return a }\n"
           "func h(a, b2, c) { return a }\nc4 := chan(8)\n")

# template bodies: every shape of interpolation (a hole @ stands for an expression of any type)
TEMPLATES = ["", "plain", "{x}", "{}", "{ }", "a{}b", "a{ }b", "{}{}", "{ }{ }", "{x}{}", "{}{x}", "a{x}b", "{x}{y}", "{x}-{ }-{x}", "{}a", "a{}",
             "{x}{}{y}", "{}{x}{}", "{@}", "a{@}", "{@}{}", "{}{@}", "{@}{@}", "{@}{ }{@}b", "{ x }", "{\tx\t}", "{s}{s}{s}{s}{s}",
             "{x + y}", "{f(x)}", "{l[0]}", "{m[\"a\"]}", "{\"q\"}", "{[x, y]}", "{b ? x : y}", "{x}{ }{x}{ }{x}{ }{x}", "{   }", "é{x}ü{}"]


class Forms:
    def __init__(self, rng):
        self.r = rng
        self.n = 0
        self.in_tern = False

    def fresh(self, p):
        self.n += 1
        return "%s%d" % (p, self.n)

    def key(self, d):
        r = self.r
        if r.chance(1, 2):
            return self.template(d)
        return r.choice(["\"a\"", "\"st\"", "\"\"", "kk", "s", "`raw`"])

    def template(self, d):
        body = self.r.choice(TEMPLATES)
        while "@" in body:
            inner = "x"
            for _ in range(6):
                cand = self.form("a", d + 1)
                if not any(ch in cand for ch in "'{}\n`\\"):
                    inner = cand
                    break
            body = body.replace("@", inner, 1)
        return "'" + body + "'"

    # forms by type: i int, s string, b bool, l list, m map, a any
    def form(self, ty, d=0):
        out = self.form0(ty, d)
        return out

    def tern(self, ty, d):
        """cond ? a : b - the parser refuses a ternary inside a ternary, so the parts are generated without one"""
        if self.in_tern:
            return self.form0(ty, 3)
        self.in_tern = True
        try:
            return "(%s ? %s : %s)" % (self.form("b", d + 1), self.form(ty, d + 1), self.form(ty, d + 1))
        finally:
            self.in_tern = False

    def form0(self, ty, d=0):
        r = self.r
        if ty == "a":
            ty = r.choice(["i", "i", "s", "s", "b", "l", "m", "n", "s"])
        deep = d >= 2
        if ty == "i":
            k = r.below(8 if deep else 22)
            if k < 3:
                return r.choice(["0", "1", "7", "x", "y", "-3", "0x1F", "int(1.5)"])
            if k < 5:
                return r.choice(["x", "y"])
            if k == 5:
                return "len(%s)" % self.form(r.choice(["s", "l"]), d + 1)
            if k == 6:
                return "-(%s)" % self.form("i", d + 1)
            if k == 7:
                return "(%s)" % self.form("i", d + 1)
            if k < 11:
                return "(%s %s %s)" % (self.form("i", d + 1), r.choice(["+", "-", "*", "%", "&", "<<", "**", "/"]), self.form("i", d + 1) if k < 10 else r.choice(["1", "2", "3"]))
            if k == 11:
                return "%s[%s]" % (self.form("l", d + 1), r.choice(["0", "-1", "1"]))
            if k == 12:
                return "f(%s)" % self.form("i", d + 1)
            if k == 13:
                return "f(%s, %s)" % (self.form("i", d + 1), self.form("a", d + 1))
            if k == 14:
                return self.tern("i", d)
            if k == 15:
                return "func(p) { return p + %s }(%s)" % (self.form("i", d + 1), self.form("i", d + 1))
            if k == 16:
                return "m[%s]" % r.choice(["\"a\"", "s", "'{s}'", "'s{}t'", "'{}a'"])
            if k == 17:
                return "h(%s, %s, %s)" % (self.form("i", d + 1), self.form("a", d + 1), self.form("a", d + 1))
            if k == 18:
                return "id(id(%s))" % self.form("i", d + 1)
            if k == 19:
                return "(%s | id)" % self.form("i", d + 1)
            if k == 20:
                return "%s.len()" % self.form("l", d + 1) if False else "len(%s)" % self.form("l", d + 1)
            return "int(%s)" % self.form("i", d + 1)
        if ty == "s":
            k = r.below(6 if deep else 14)
            if k < 2:
                return r.choice(["\"\"", "\"a\"", "\"st\"", "s", "`raw`", "\"é\\n\""])
            if k < 6:
                return self.template(d)
            if k == 6:
                return "(%s + %s)" % (self.form("s", d + 1), self.form("s", d + 1))
            if k == 7:
                return "string(%s)" % self.form("a", d + 1)
            if k == 8:
                return "%s.to_upper()" % self.form("s", d + 1)
            if k == 9:
                return "id(%s)" % self.form("s", d + 1)
            if k == 10:
                return "%s[0]" % self.form("s", d + 1) if False else "s[0]"
            if k == 11:
                return self.tern("s", d)
            if k == 12:
                return "\", \".join([%s, %s])" % (self.form("s", d + 1), self.form("s", d + 1))
            return "s[%s:%s]" % (r.choice(["", "0", "1"]), r.choice(["", "1", "2"]))
        if ty == "b":
            k = r.below(4 if deep else 10)
            if k < 2:
                return r.choice(["true", "false", "b"])
            if k == 2:
                return "!%s" % self.form("b", d + 1)
            if k == 3:
                return "(%s %s %s)" % (self.form("i", d + 1), r.choice(["<", "<=", ">", ">=", "==", "!="]), self.form("i", d + 1))
            if k == 4:
                return "(%s %s %s)" % (self.form("b", d + 1), r.choice(["&&", "||"]), self.form("b", d + 1))
            if k == 5:
                return "(%s %s %s)" % (self.form("a", d + 1), r.choice(["in", "not in"]), self.form("l", d + 1))
            if k == 6:
                return "(%s == %s)" % (self.form("s", d + 1), self.form("s", d + 1))
            if k == 7:
                return "(%s in m)" % self.form("s", d + 1)
            if k == 8:
                return "(%s != nil)" % self.form("a", d + 1)
            return "bool(%s)" % self.form("a", d + 1)
        if ty == "l":
            k = r.below(3 if deep else 10)
            if k == 0:
                return r.choice(["l", "[]", "[1]", "[1, 2, 3]"])
            if k < 4:
                n = 1 + r.below(4)
                return "[" + ", ".join(self.form("a", d + 1) for _ in range(n)) + "]"
            if k == 4:
                return "g(%s)" % self.form("a", d + 1)
            if k == 5:
                return "%s[%s:%s]" % (self.form("l", d + 1), r.choice(["", "0", "1"]), r.choice(["", "1", "2"]))
            if k == 6:
                return "(%s + %s)" % (self.form("l", d + 1), self.form("l", d + 1))
            if k == 7:
                return "%s.map(func(e) { return %s })" % (self.form("l", d + 1), self.form("a", d + 1))
            if k == 8:
                return "sorted(keys(%s))" % self.form("m", d + 1)
            return "[%s, %s][1:]" % (self.form("a", d + 1), self.form("a", d + 1))
        if ty == "m":
            k = r.below(2 if deep else 6)
            if k == 0:
                return r.choice(["m", "{}", "{\"a\": 1}"])
            if k < 3:
                n = 1 + r.below(3)
                return "{" + ", ".join("%s: %s" % (self.key(d + 1), self.form("a", d + 1)) for _ in range(n)) + "}"
            if k == 3:
                return "{%s, %s}" % (self.form("i", d + 1), self.form("s", d + 1))      # a set
            if k == 4:
                return "id(%s)" % self.form("m", d + 1)
            return "{\"k\": %s}" % self.form("a", d + 1)
        # n: values of other kinds
        k = r.below(3 if deep else 8)
        if k == 0:
            return r.choice(["nil", "1.5", "f", "len"])
        if k == 1:
            return "func(p, q=%s) { return [p, q] }" % r.choice(["1", "\"d\"", "nil", "true", "1.5"])
        if k == 2:
            return "func() { %s }()" % self.form("a", d + 1)
        if k == 3:
            return "try(func() { return %s }, %s)" % (self.form("a", d + 1), self.form("a", d + 1))
        if k == 4:
            return "(if %s { %s } else { %s })" % (self.form("b", d + 1), self.form("a", d + 1), self.form("a", d + 1))
        if k == 5:
            return "(switch %s { case 1: %s\n case 2, 3: %s\n default: %s })" % (self.form("i", d + 1), self.form("a", d + 1), self.form("a", d + 1), self.form("a", d + 1))
        if k == 6:
            return "getattr(%s, \"append\")" % self.form("l", d + 1)
        return "func() { c4 <- %s; return <-c4 }()" % self.form("a", d + 1)

    # contexts: (statement text with holes %(i)s %(s)s ... , types of the holes)
    def context(self):
        r = self.r
        v = self.fresh("v")
        A = lambda: self.form("a")
        I = lambda: self.form("i")
        S = lambda: self.form("s")
        B = lambda: self.form("b")
        L = lambda: self.form("l")
        M = lambda: self.form("m")
        c = [
            lambda: "%s := [%s, %s, %s]" % (v, A(), A(), A()),
            lambda: "%s := [1, %s, 2]" % (v, A()),
            lambda: "%s := [%s]" % (v, A()),
            lambda: "%s := {\"k\": %s, \"j\": %s}" % (v, A(), A()),
            lambda: "%s := {%s: 1, %s: %s}" % (v, self.key(0), self.key(0), A()),
            lambda: "%s := {%s, %s}" % (v, S(), I()),
            lambda: "%s := f(%s)" % (v, A()),
            lambda: "%s := f(%s, %s)" % (v, A(), A()),
            lambda: "%s := h(%s, %s, %s)" % (v, A(), A(), A()),
            lambda: "%s := id(g(%s))[0]" % (v, A()),
            lambda: "%s := h(1, id(%s), g(%s))" % (v, A(), A()),
            lambda: "%s := (%s)[%s]" % (v, L(), r.choice(["0", "-1"])),
            lambda: "%s := l[%s %% 3]" % (v, I()),
            lambda: "%s := l[%s:%s]" % (v, r.choice(["0", "(0 * %s)" % I()]), r.choice(["2", "(1 + 0 * %s)" % I()])),
            lambda: "%s := %s + %s" % (v, S(), S()),
            lambda: "%s := %s * %s - %s" % (v, I(), I(), I()),
            lambda: "%s := -(%s)" % (v, I()),
            lambda: "%s := %s" % (v, self.tern("a", 0)),
            lambda: "%s := %s && %s || %s" % (v, B(), B(), B()),
            lambda: "%s := 0\nif %s { %s = 1 } else { %s = 2 }" % (v, B(), v, v),
            lambda: "%s := 0\nif len(%s) > 0 { %s = 1 }" % (v, S(), v),
            lambda: "%s := 0\nswitch %s { case %s: %s = 1\n case %s, %s: %s = 2\n default: %s = 3 }" % (v, A(), A(), v, A(), A(), v, v),
            lambda: "%s := func() { return %s }()" % (v, A()),
            lambda: "%s := func(p) { if p { return %s }; return %s }(%s)" % (v, A(), A(), B()),
            lambda: "var %s = %s" % (v, A()),
            lambda: "%s := 1\n%s = %s" % (v, v, A()),
            lambda: "%s := 1\n%s += %s" % (v, v, I()),
            lambda: "%s := \"\"\n%s += %s" % (v, v, S()),
            lambda: "%s := [1, 2, 3]\n%s[%s %% 3] = %s" % (v, v, I(), A()),
            lambda: "%s := {}\n%s[%s] = %s" % (v, v, S(), A()),
            lambda: "%s, %s_b := [%s, %s]" % (v, v, A(), A()),
            lambda: "%s := 0\n%s" % (v, A()),                                         # expression statement
            lambda: "%s := 0\n%s\n%s\n%s" % (v, A(), S(), A()),                      # several expression statements
            lambda: "%s := []\nfor _, e := range (%s) { %s.append(e) }" % (v, L(), v),
            lambda: "%s := []\nfor k, e := range (%s) { %s.append([k, e]) }" % (v, M(), v),
            lambda: "%s := []\nfor k := range [%s, %s] { %s.append(%s) }" % (v, A(), A(), v, A()),
            lambda: "%s := 0\nfor %s < 2 && %s { %s++ }" % (v, v, B(), v),
            lambda: "%s := %s" % (v, self.template(0)),
            lambda: "%s := %s | id" % (v, A()),
            lambda: "%s := %s | f(%s)" % (v, A(), A()),
            lambda: "c4 <- %s\n%s := <-c4" % (A(), v),
            lambda: "%s := [0]\nfunc() { defer f(%s); %s[0] = %s }()" % (v, A(), v, A()),
            lambda: "%s := (%s)(%s)" % (v, r.choice(["f", "id", "func(p) { return p }", "true ? id : f"]), A()),
            lambda: "%s := %s.append(%s)" % (v, r.choice(["[1]", "[]", "[x, y]"]), A()),
            lambda: "%s := (%s in %s)" % (v, A(), L()),
            lambda: "%s := func(p, q=2) { return [p, q, %s] }(%s)" % (v, A(), A()),
        ]
        return v, c[r.below(len(c))]()

    # ------------------------------------------------------------------ programs
    def program(self):
        """straight-line: a few contexts, then the list of what they produced"""
        r = self.r
        names, body = [], []
        for _ in range(1 + r.below(4)):
            v, st = self.context()
            names.append(v)
            body.append(st)
        where = r.below(4)
        text = "\n".join(body)
        if where == 1:       # inside a range loop (an iterator is pending under every statement)
            text = "for zi := range 2 {\n" + text + "\n}"
            names = []
        elif where == 2:     # inside a function that is called from operand positions
            fn = self.fresh("fn")
            text = "func %s() {\n%s\nreturn [%s]\n}\n%s := [1, %s(), 2, id(%s())]" % (fn, text, ", ".join(names), fn + "_r", fn, fn)
            names = [fn + "_r"]
        elif where == 3:     # nested range loops + switch
            text = "for zi := range 2 { for _, zj := range [1, 2] { switch zj { case 1:\n" + text.replace("\n", "\n ") + "\n default: zi } } }"
            names = []
        return PRELUDE + text + "\n[" + ", ".join(names) + "]"

    def loop_program(self):
        """the same material as a loop body, for bounds 3 and 3000 (@@N@@)"""
        r = self.r
        body = []
        for _ in range(1 + r.below(2)):
            v, st = self.context()
            body.append(st)
        text = "\n".join(body)
        form = r.below(4)
        if form == 0:
            loop = "for zi := 0; zi < @@N@@; zi++ {\n" + text + "\n}"
        elif form == 1:
            loop = "for zi := range @@N@@ {\n" + text + "\n}"
        elif form == 2:
            fn = self.fresh("fn")
            loop = "func %s() {\n%s\n}\nfor zi := range @@N@@ { %s() }" % (fn, text, fn)
        else:
            fn = self.fresh("fn")
            loop = "func %s(q) {\n%s\nreturn q\n}\nzacc := []\nfor zi := range @@N@@ { zacc = [1, %s(zi), %s] }" % (fn, text, fn, self.form("a", 1))
        return PRELUDE + loop + "\nx"
