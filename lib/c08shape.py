"""C08 - shapes of the parameter and result lists of proxied Go methods.

Go methods cannot be made with reflect, so the zoo is Go source: `zoo_source()` writes harness/cmd/c08shape/zoo.go (regenerated on
every run, committed so that `./check --setup` builds the tool).  Every method is determined by its name:

  R_<codes>(mask int) (<results>)      results of kinds I int, S string, E error, A any, P *Pt, L []int, M map[string]int,
                                        F float64, B bool, U uint8, V Pt; 0-3 results, `error` at any position, several errors.
                                        Bit i of mask makes the i-th result a non-nil error (kind E) / a nil value (kinds A P L M).
  P_<codes>[_v<code>](...) string       parameters of kinds I S A L P F B (C = context.Context, first), optionally a variadic tail of
                                        kind I S A; the result echoes every received argument as `%T:%v`.

Receivers: *Zoo (pointer receiver, handed over as pointer), ZooV (value receiver, handed over by value and by pointer), ZooE
(embeds *Zoo: promoted methods).  The oracle below is computed from the method's name, the mask / the argument literals alone:
a call returns what Go returns (no non-error result: nil, one: the value, several: the list of them), or - when a result that is
an error is not nil, or an argument is not representable - ends with a script error; never with a panic.
"""
import itertools

RES_ALL = "ISEAPLMFBUV"
GOT = {"I": "int", "S": "string", "E": "error", "A": "any", "P": "*Pt", "L": "[]int", "M": "map[string]int", "F": "float64",
       "B": "bool", "U": "uint8", "V": "Pt", "C": "context.Context"}
NILABLE = "APLM"


def result_shapes():
    out = [""]
    out += list(RES_ALL)
    out += ["".join(p) for p in itertools.product(RES_ALL, repeat=2)]
    out += ["".join(p) for p in itertools.product("ISEAP", repeat=3)]
    # a few longer lists: the error first / in the middle / twice among four and five results
    out += ["EISA", "IESA", "ISEA", "EIES", "IEESP", "EEIIE"]
    return out


def value_shapes():
    """the subset declared on the value receiver too"""
    return [s for s in result_shapes() if len(s) <= 2 or set(s) <= set("ISE")]


def param_shapes():
    out = [("", None)]
    out += [(c, None) for c in "ISALPFB"]
    out += [("".join(p), None) for p in itertools.product("ISALPFB", repeat=2)]
    out += [("".join(p), None) for p in itertools.product("ISAP", repeat=3)]
    for base in ["", "I", "S", "A", "IS", "PA"]:
        for v in "ISA":
            out.append((base, v))
    out += [("C" + b, v) for b, v in [("", None), ("I", None), ("SA", None), ("I", "S"), ("", "A")]]
    return out


def rname(shape):
    return "R_" + shape if shape else "R0"


def pname(base, var):
    return "P_" + (base or "0") + ("_v" + var if var else "")


def _res_expr(code, i):
    """Go expression of result i (mask bit i: error set / value nil)"""
    bit = "mask&%d != 0" % (1 << i)
    if code == "I":
        return None, "%d" % (10 + i)
    if code == "S":
        return None, '"s%d"' % i
    if code == "E":
        return "var r%d error\n\tif %s {\n\t\tr%d = errors.New(\"e%d\")\n\t}" % (i, bit, i, i), "r%d" % i
    if code == "A":
        dyn = ["int32(7)", '"dyn"', "2.5", "true", "int64(-3)"][i % 5]
        return "var r%d any = %s\n\tif %s {\n\t\tr%d = nil\n\t}" % (i, dyn, bit, i), "r%d" % i
    if code == "P":
        return "r%d := &Pt{X: %d}\n\tif %s {\n\t\tr%d = nil\n\t}" % (i, 40 + i, bit, i), "r%d" % i
    if code == "L":
        return "r%d := []int{%d, %d}\n\tif %s {\n\t\tr%d = nil\n\t}" % (i, i, i + 1, bit, i), "r%d" % i
    if code == "M":
        return "r%d := map[string]int{\"k\": %d}\n\tif %s {\n\t\tr%d = nil\n\t}" % (i, i, bit, i), "r%d" % i
    if code == "F":
        return None, "%d.5" % (1 + i)
    if code == "B":
        return None, "true" if i % 2 == 0 else "false"
    if code == "U":
        return None, "uint8(%d)" % (200 + i)
    if code == "V":
        return None, "Pt{X: %d}" % (50 + i)
    raise ValueError(code)


def _rmethod(recv, shape):
    pre, rets = [], []
    for i, c in enumerate(shape):
        p, e = _res_expr(c, i)
        if p:
            pre.append("\t" + p)
        rets.append(e)
    sig = "(" + ", ".join(GOT[c] for c in shape) + ")" if shape else ""
    body = "\n".join(pre)
    uses_mask = any(c in "E" + NILABLE for c in shape)
    return "func (z %s) %s(mask int) %s {\n%s%s\n\t%s\n}\n" % (
        recv, rname(shape), sig, "" if uses_mask else "\t_ = mask\n", body, ("return " + ", ".join(rets)) if shape else "z.mark()")


def _pmethod(recv, base, var):
    ps, shows = [], []
    for i, c in enumerate(base):
        ps.append("a%d %s" % (i, GOT[c]))
        if c == "C":
            shows.append('ctxShow(a%d)' % i)
        else:
            shows.append("sh(a%d)" % i)
    if var:
        ps.append("rest ...%s" % GOT[var])
        shows.append("sh(rest)")
    return "func (z %s) %s(%s) string {\n\treturn strings.Join([]string{%s}, \"|\")\n}\n" % (recv, pname(base, var), ", ".join(ps), ", ".join(shows))


def zoo_source():
    out = ["// Code generated by lib/c08shape.py (zoo_source); DO NOT EDIT.\n", "package main\n",
           'import (\n\t"context"\n\t"errors"\n\t"strings"\n)\n',
           "var _ = errors.New\nvar _ context.Context\n"]
    for s in result_shapes():
        out.append(_rmethod("*Zoo", s))
    for s in value_shapes():
        out.append(_rmethod("ZooV", s))
    for b, v in param_shapes():
        out.append(_pmethod("*Zoo", b, v))
    for b, v in param_shapes():
        if len(b) <= 1:
            out.append(_pmethod("ZooV", b, v))
    return "\n".join(out)


# ------------------------------------------------------------------ expectations

def _res_want(code, i, nil):
    """canonical description (as harness/cmd/c08shape describes objects) of result i; a list of acceptable descriptions"""
    if code == "I":
        return ["i:%d" % (10 + i)]
    if code == "S":
        return ["s:s%d" % i]
    if code == "A":
        if nil:
            return ["nil"]
        return [["i:7", "s:dyn", "f:2.5", "b:true", "i:-3"][i % 5]]
    if code == "P":
        # a nil pointer to a struct travels as a proxy of the nil pointer (it converts back to the equal Go value): accepted
        return ["nil", "pt:nilptr"] if nil else ["pt:%d" % (40 + i)]
    if code == "L":
        return ["nil", "[]"] if nil else ["[i:%d,i:%d]" % (i, i + 1)]
    if code == "M":
        return ["nil", "{}"] if nil else ["{k=i:%d}" % i]
    if code == "F":
        return ["f:%d.5" % (1 + i)]
    if code == "B":
        return ["b:true" if i % 2 == 0 else "b:false"]
    if code == "U":
        return ["i:%d" % (200 + i)]
    if code == "V":
        # a struct value travels as a proxy of a pointer to an equal struct (the documented widening)
        return ["pt:%d" % (50 + i), "ptv:%d" % (50 + i)]
    raise ValueError(code)


def masks(shape):
    bits = [i for i, c in enumerate(shape) if c in "E" + NILABLE]
    out = []
    for k in range(1 << len(bits)):
        out.append(sum(1 << b for j, b in enumerate(bits) if k >> j & 1))
    return out


def expect_result(shape, mask):
    """-> ("err", [texts of the errors that are set]) | ("ok", [acceptable descriptions])"""
    errs = ["e%d" % i for i, c in enumerate(shape) if c == "E" and mask >> i & 1]
    if errs:
        return "err", errs
    vals = [_res_want(c, i, bool(mask >> i & 1)) for i, c in enumerate(shape) if c != "E"]
    if not vals:
        return "ok", ["nil"]
    if len(vals) == 1:
        return "ok", vals[0]
    return "ok", ["[" + ",".join(p) + "]" for p in itertools.product(*vals)]


# arguments: (risor source, echo the method must give for it under a parameter of that kind or None when not exactly representable)
ARGS = {
    "I": [("5", "int:5"), ("-7", "int:-7"), ("0", "int:0")],
    "S": [('"ab"', "string:ab"), ('""', "string:")],
    "A": [("5", "int64:5"), ('"x"', "string:x"), ("1.5", "float64:1.5"), ("true", "bool:true"), ("nil", "<nil>:<nil>"),
          ("[1, 2]", "[]interface {}:[1 2]"), ("pt", "*Pt:3")],
    "L": [("[1, 2]", "[]int:[1 2]"), ("[]", "[]int:[]")],
    "P": [("pt", "*Pt:3"), ("nil", "*Pt:nil")],
    "F": [("1.5", "float64:1.5"), ("-2.25", "float64:-2.25")],
    "B": [("true", "bool:true"), ("false", "bool:false")],
}
# arguments of a wrong kind: must be rejected by a script error (or, where a conversion exists, arrive converted - not judged)
WRONG = {"I": ['"x"', "[1]"], "S": ["5", "nil"], "L": ["5", '"x"'], "P": ["5", '"x"'], "F": ['"x"'], "B": ['"x"'], "A": []}
VSLICE = {"I": "[]int", "S": "[]string", "A": "[]interface {}"}


def gen_calls(rng, n_param_calls):
    """-> list of cases {recv, src, kind, want...}"""
    cases = []
    for recv, shapes in (("z", result_shapes()), ("zv", value_shapes()), ("zp", value_shapes()), ("ze", result_shapes())):
        for s in shapes:
            ms = masks(s)
            if recv in ("zp", "ze") and len(ms) > 2:
                ms = [ms[0], rng.choice(ms[1:])]
            for m in ms:
                cases.append({"kind": "result", "recv": recv, "shape": s, "mask": m, "src": "%s.%s(%d)" % (recv, rname(s), m)})
    pshapes = param_shapes()
    for k in range(n_param_calls):
        base, var = pshapes[k % len(pshapes)] if k < 2 * len(pshapes) else rng.choice(pshapes)
        recv = "z"
        if len(base) <= 1 and rng.chance(1, 3):
            recv = rng.choice(["zv", "zp"])
        elif rng.chance(1, 6):
            recv = "ze"
        args, echo, exact = [], [], True
        mode = rng.below(12)           # 0: one argument of a wrong kind, 1: an argument missing, 2: one too many
        wrong_at = rng.below(max(1, len(base))) if mode == 0 else -1
        for i, c in enumerate(base):
            if c == "C":
                echo.append("ctx")
                continue
            if i == wrong_at and WRONG.get(c):
                args.append(rng.choice(WRONG[c]))
                exact = False
                echo.append(None)
                continue
            a, e = rng.choice(ARGS[c])
            args.append(a)
            echo.append(e)
        tail = None
        if var:
            tail_mode = rng.below(5)     # 0: none, 1: one, 2: three, 3: a list in the place of the tail, 4: two
            if tail_mode == 3:
                tail = "list"
                args.append({"I": "[1, 2]", "S": '["a", "b"]', "A": '[1, "a"]'}[var])
                echo.append(None)
                exact = False
            else:
                cnt = {0: 0, 1: 1, 2: 3, 4: 2}[tail_mode]
                picks = [rng.choice([x for x in ARGS[var] if x[0] != "pt" and not x[0].startswith("[")]) for _ in range(cnt)]
                args += [p[0] for p in picks]
                echo.append("%s:[%s]" % (VSLICE[var], " ".join(p[1].split(":", 1)[1] for p in picks)))
                tail = cnt
        count = "exact"
        if mode == 1 and args and not var:
            args = args[:-1]
            count = "missing"
            exact = False
        elif mode == 2 and not var:
            args.append("1")
            count = "extra"
        cases.append({"kind": "param", "recv": recv, "base": base, "var": var, "tail": tail, "count": count, "exact": exact,
                      "echo": None if any(e is None for e in echo) else "|".join(echo),
                      "src": "%s.%s(%s)" % (recv, pname(base, var), ", ".join(args))})
    return cases


VARIADIC_CLASS = "variadic-tail"


def judge(case, obs):
    """obs: {"outcome": ok|err|panic|escaped, "raw": text, "obj": description} -> None | (why, class of a known finding or None)"""
    why = _judge(case, obs)
    if why is None:
        return None
    cls = None
    raw = obs.get("raw") or ""
    if case["kind"] == "param" and case.get("var") and case.get("tail") not in (None, 0):
        # decided on the input (the call supplies something for the variadic tail) AND on the symptom
        # (a list in the place of the tail used to panic inside reflect: repaired in /repo cfe0f4b - a recurrence is a violation)
        if case["tail"] != "list" and obs.get("outcome") == "err" and "expected a list" in raw:
            cls = VARIADIC_CLASS
        elif case["tail"] != "list" and obs.get("outcome") == "ok" and " nil" in " " + case["src"].split("(", 1)[1].replace(",", " ").replace(")", " "):
            cls = VARIADIC_CLASS      # a nil where the tail begins is handed over as ONE element holding a nil slice
    return why, cls


def _judge(case, obs):
    out = obs.get("outcome")
    raw = (obs.get("raw") or "")[:200]
    if out in ("panic", "escaped"):
        where = "in the caller of Eval" if out == "escaped" else "inside the VM (recovered)"
        return "the call `%s` of a proxied Go method panicked %s: %s" % (case["src"], where, raw)
    if case["kind"] == "result":
        kind, want = expect_result(case["shape"], case["mask"])
        sig = "(%s)" % ", ".join(GOT[c] for c in case["shape"])
        if kind == "err":
            if out != "err":
                return "`%s`: the Go method %s returned the error %s; the script got the value %s" % (case["src"], sig, want[0], obs.get("obj"))
            if not any(w in raw for w in want):
                return "`%s`: the Go method %s returned the error %s; the script error is %r" % (case["src"], sig, want[0], raw)
            return None
        if out != "ok":
            return "`%s`: the Go method %s returned %s without an error; the script got the error %r" % (case["src"], sig, want[0], raw)
        if obs.get("obj") not in want:
            return "`%s`: the Go method %s returned %s; the script got %s" % (case["src"], sig, want[0], obs.get("obj"))
        return None
    # parameters
    if out == "ok":
        if case["echo"] is not None and case["count"] != "extra" and obs.get("obj") != "s:" + case["echo"]:
            return "`%s`: the Go method received %s, the script passed %s" % (case["src"], obs.get("obj"), "s:" + case["echo"])
        if case["count"] == "extra" and case["echo"] is not None and obs.get("obj") != "s:" + case["echo"]:
            return "`%s`: the Go method received %s, the script passed %s (and one more)" % (case["src"], obs.get("obj"), "s:" + case["echo"])
        if case["count"] == "missing":
            return "`%s`: a call with an argument missing was accepted: the method received %s" % (case["src"], obs.get("obj"))
        return None
    # a script error: a clean rejection; required NOT to happen only when every argument is exactly representable
    if case["exact"] and case["count"] == "exact" and case["echo"] is not None:
        return "`%s`: every argument is representable in its parameter type, yet the call was rejected: %r" % (case["src"], raw)
    return None
