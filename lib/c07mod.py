"""C07: invocation histories over file modules served by risor's importers (harness mode "mod").

A history runs on one or two VMs that share ONE importer (LocalImporter over a directory or FSImporter over a gated
in-memory fs).  Module top-level code is a sequence of assignments, imports of other modules and fuse points
(`tick(module, point)` reached directly or d frames deep).  The host's fuse plan of an invocation ends it at one chosen
point: error value, Go panic, frame exhaustion, cancellation / expiry of the invocation's context - inside a module's
top-level code, or while the importer reads a module's file.  Later invocations (Run, Call, RunCode; same VM or the
other VM) import the same modules again.

The generator keeps its own account (which modules a VM has imported, which the importer has compiled) and predicts
every outcome; the harness adds the run on a new VM behind a new importer."""

NAMES = ["ma", "mb", "mc"]
TICK_ACTS = ["err", "panic", "overflow", "cancel", "expire"]
OPEN_ACTS = ["cancel", "expire", "fserr"]
ACT_CLASS = {"err": "E fuse", "panic": "E host", "overflow": "E overflow", "cancel": "E canceled", "expire": "E deadline",
             "fserr": "E notfound"}


class Mod:
    def __init__(self, name, rng, may_import):
        self.name = name
        self.a = 2 + rng.below(8)
        self.b = 1 + rng.below(90)
        self.d = 1 + rng.below(9)
        self.imports = None
        if may_import and rng.chance(2, 3):
            self.imports = rng.choice(may_import)
        # body: early values, then fuse points / the import / the final values in a random but fixed order
        steps = [("set", "a", self.a), ("set", "b", self.b), ("decl", "d", self.d)]
        if self.imports:
            steps.insert(rng.below(len(steps) + 1), ("imp", self.imports))
        body = [("decl", "a", 1), ("decl", "b", 0), ("decl", "c", 0)]
        self.points = []
        pt = 0
        for st in steps:
            if rng.chance(2, 3):
                body.append(("tick", pt, rng.choice([0, 0, 1, 2, 5])))
                self.points.append(pt)
                pt += 1
            body.append(st)
        if rng.chance(1, 2):
            body.append(("tick", pt, rng.choice([0, 1, 3])))
            self.points.append(pt)
        self.body = body

    def value(self, mods):
        c = mods[self.imports].value(mods) % 7 if self.imports else 0
        return self.a * 1000 + self.b * 10 + c + self.d * 100000

    def source(self):
        n = self.name
        out = ["func rec(n) { return rec(n + 1) }",
               "func chk(p, d) { if d > 0 { return chk(p, d - 1) }; if tick(\"%s\", p) == 1 { rec(0) }; return 0 }" % n]
        for st in self.body:
            if st[0] == "decl":
                out.append("%s := %d" % (st[1], st[2]))
            elif st[0] == "set":
                out.append("%s = %d" % (st[1], st[2]))
            elif st[0] == "imp":
                out.append("import %s" % st[1])
                out.append("c = %s.get() %% 7" % st[1])
            elif st[0] == "tick":
                if st[2] == 0:
                    out.append("if tick(\"%s\", %d) == 1 { rec(0) }" % (n, st[1]))
                else:
                    out.append("chk(%d, %d)" % (st[1], st[2]))
        out.append("func get() { return a * 1000 + b * 10 + c + d * 100000 }")
        return "\n".join(out) + "\n"


class Account:
    """what the host knows: per VM the modules imported to the end, per importer the modules compiled"""

    def __init__(self, mods, imp):
        self.mods, self.imp = mods, imp
        self.done = {}
        self.compiled = set()

    def sites(self, v, targets):
        """fuse sites an invocation importing `targets` on VM v passes, in order (no fuse blown)"""
        done = set(self.done.get(v, ()))
        compiled = set(self.compiled)
        out = []

        def imp(m):
            if m in done:
                return
            if m not in compiled:
                if self.imp == "fs":
                    out.append(("open", m, 0))
                compiled.add(m)
            for st in self.mods[m].body:
                if st[0] == "tick":
                    out.append(("tick", m, st[1]))
                elif st[0] == "imp":
                    imp(st[1])
            done.add(m)
        for t in targets:
            imp(t)
        return out

    def run(self, v, api, targets, fuse):
        """-> expected outcome class; updates the account"""
        if api == "RC":
            self.done[v] = set()
        done = self.done.setdefault(v, set())

        def imp(m):
            if m in done:
                return None
            if m not in self.compiled:
                if fuse and fuse["site"] == "open" and fuse["mod"] == m:
                    return ACT_CLASS[fuse["act"]]
                self.compiled.add(m)
            for st in self.mods[m].body:
                if st[0] == "tick" and fuse and fuse["site"] == "tick" and fuse["mod"] == m and fuse["pt"] == st[1]:
                    return ACT_CLASS[fuse["act"]]
                if st[0] == "imp":
                    r = imp(st[1])
                    if r:
                        return r
            done.add(m)
            return None
        for t in targets:
            r = imp(t)
            if r:
                return r
        return "V %d" % sum(self.mods[t].value(self.mods) for t in targets)


def use_src(rng, targets, form):
    if form == "top":
        return "\n".join("import %s" % t for t in targets) + "\n" + " + ".join("%s.get()" % t for t in targets)
    if form == "attr":
        return "\n".join("import %s" % t for t in targets) + "\n" + " + ".join(
            "(%s.a * 1000 + %s.b * 10 + %s.c + %s.d * 100000)" % (t, t, t, t) for t in targets)
    if form == "alias":
        return "\n".join("import %s as q_%s" % (t, t) for t in targets) + "\n" + " + ".join("q_%s.get()" % t for t in targets)
    return "(func() { %s; return %s })()" % ("; ".join("import %s" % t for t in targets), " + ".join("%s.get()" % t for t in targets))


def lib_src():
    out = []
    combos = [[a] for a in NAMES] + [[a, b] for a in NAMES for b in NAMES if a != b] + [["big"], ["ma", "big"]]
    for c in combos:
        out.append("func c_%s() { %s; return %s }" % ("_".join(c), "; ".join("import %s" % t for t in c),
                                                    " + ".join("%s.get()" % t for t in c)))
    return "\n".join(out) + "\n"


def make_mods(rng):
    mods = {}
    mods["ma"] = Mod("ma", rng, [])
    mods["mb"] = Mod("mb", rng, ["ma"])
    mods["mc"] = Mod("mc", rng, ["ma", "mb"] if rng.chance(1, 2) else [])
    return mods


def gen_history(hid, rng):
    """-> (history json, expected outcome per invocation (None = not predicted), tags)"""
    mods = make_mods(rng)
    imp = rng.choice(["local", "fs"])
    nvm = 2 if rng.chance(1, 3) else 1
    acc = Account(mods, imp)
    started = set()
    items, expect, tags = [], [], set()
    length = 2 + rng.below(4)
    aborted = False
    for k in range(length):
        v = rng.below(nvm)
        if v not in started:
            api = rng.choice(["RN", "RN", "RC"])
        else:
            api = rng.choice(["RN", "RN", "CL", "CL", "CL", "RC"])
        started.add(v)
        targets = [rng.choice(NAMES)]
        if rng.chance(1, 3):
            t2 = rng.choice(NAMES)
            if t2 != targets[0]:
                targets.append(t2)
        fuse = None
        sites = acc.sites(v, targets)
        if sites and ((k < length - 1 and rng.chance(3, 5)) or rng.chance(1, 6)):
            site, m, pt = rng.choice(sites)
            act = rng.choice(TICK_ACTS if site == "tick" else OPEN_ACTS)
            fuse = {"site": site, "mod": m, "pt": pt, "act": act}
        if fuse and fuse["act"] in ("cancel", "expire"):
            ctx = fuse["act"]
        else:
            ctx = rng.choice(["bg", "cancel", "expire"])
        it = {"vm": v, "api": api, "ctx": ctx, "fuse": [fuse] if fuse else []}
        if api == "CL":
            it["fn"] = "c_" + "_".join(targets)
        else:
            it["src"] = use_src(rng, targets, rng.choice(["top", "attr", "alias", "fn"]))
        e = acc.run(v, api, targets, fuse)
        if aborted and not fuse:
            tags.add("import-after-abort:%s" % api)
        if fuse:
            aborted = True
            tags.add("abort:%s:%s:%s" % (fuse["site"], fuse["act"], api))
        items.append(it)
        expect.append(e)
    h = {"mode": "mod", "id": hid, "imp": imp, "mods": {n: m.source() for n, m in mods.items()}, "lib": lib_src(), "items": items}
    return h, expect, sorted(tags)


BIG = 12000


def gen_timed(hid, rng):
    """an invocation whose context expires (real deadline) somewhere inside the load of a large module, then invocations
    with contexts of their own that import it; the timed invocation is not judged"""
    mods = make_mods(rng)
    imp = rng.choice(["local", "fs"])
    nvm = 2 if rng.chance(1, 3) else 1
    bigval = (BIG - 1) + (BIG - 1) % 7 + BIG
    items, expect = [], []
    acc = Account(mods, imp)
    for v in range(nvm):
        api = rng.choice(["RN", "RC"])
        items.append({"vm": v, "api": api, "ctx": "bg", "fuse": [], "src": use_src(rng, ["ma"], "top")})
        expect.append(acc.run(v, api, ["ma"], None))
    api = rng.choice(["RN", "CL", "RC"])
    it = {"vm": 0, "api": api, "ctx": "timeout", "frac": (5 + rng.below(90)) / 100.0, "fuse": []}
    if api == "CL":
        it["fn"] = "c_big"
    else:
        it["src"] = use_src(rng, ["big"], rng.choice(["top", "fn"]))
    items.append(it)
    expect.append(None)
    for _ in range(1 + rng.below(2)):
        v = rng.below(nvm)
        api = rng.choice(["RN", "CL", "CL"])
        it = {"vm": v, "api": api, "ctx": rng.choice(["bg", "cancel"]), "fuse": []}
        if api == "CL":
            it["fn"] = "c_big"
        else:
            it["src"] = use_src(rng, ["big"], rng.choice(["top", "fn"]))
        items.append(it)
        expect.append("V %d" % bigval)
    srcs = {n: m.source() for n, m in mods.items()}
    srcs["big"] = "@big:%d" % BIG
    h = {"mode": "mod", "id": hid, "imp": imp, "mods": srcs, "lib": lib_src(), "items": items}
    return h, expect, ["timed-load:%s" % imp]


def judge(h, expect, line):
    """-> (violation or None, invocations judged)"""
    parts = [p.split("|") for p in line.split(";")] if line else []
    if len(parts) != len(h["items"]) or any(len(p) != 2 for p in parts):
        return {"why": "the harness gave no (complete) answer for this history: %r" % line[:200]}, 0
    judged = 0
    for k, ((shared, fresh), e) in enumerate(zip(parts, expect)):
        it = h["items"][k]
        if "SETTLE-TIMEOUT" in shared or "SETTLE-TIMEOUT" in fresh or "HARNESS" in shared or "HARNESS" in fresh:
            return None, judged          # a wall-clock bound: not an observation
        if e is None or shared.startswith("T "):
            continue
        judged += 1
        what = "%s on VM %d (%s)" % ({"RN": "Run", "RC": "RunCode", "CL": "Call"}[it["api"]], it["vm"],
                                     it.get("fn") or it.get("src", "").replace("\n", "; "))
        why = None
        if shared != fresh:
            why = "invocation %d: %s gave %s on the reused VM / shared importer; a new VM behind a new importer gives %s" % (k, what, shared, fresh)
        elif shared != e:
            why = "invocation %d: %s gave %s; its own code, fuse plan %s and the module sources make it %s" % (k, what, shared, it["fuse"], e)
        if why:
            return {"k": k, "shared": shared, "fresh": fresh, "expected": e, "why": why}, judged
    return None, judged
