"""C09 - evaluations with DIFFERENT configurations: each sees exactly its own.

A trial is 2..16 evaluations, each on its own VM, each with its own option list: dotted denylist entries
(WithoutGlobal / WithoutGlobals "module.attr") and dotted overrides (WithGlobalOverride "module.attr" -> a constant or a host
builtin that returns a marker) on the default modules, top-level denies, extra globals, through three API routes.  Every
script probes ALL the attributes in play (not only those its own configuration names).  The expectation of a probe is
computed from the evaluation's own option list and the table of defaults below - it does not depend on the other evaluations,
on their order, or on whether they run at the same time; the trial is run concurrently (-race) and as a sequence in a new process.
"""

# attribute -> (probe expression, canonical default value as harness/cmd/c09obs prints it)
PROBES = {
    "strings.to_lower": ('strings.to_lower("AB")', "s:ab"),
    "strings.to_upper": ('strings.to_upper("ab")', "s:AB"),
    "strings.trim_space": ('strings.trim_space("  a ")', "s:a"),
    "strings.contains": ('strings.contains("abc", "b")', True),
    "strings.repeat": ('strings.repeat("ab", 2)', "s:abab"),
    "math.abs": ("math.abs(-2)", 2),
    "math.max": ("math.max(1, 2)", "float:2"),
    "math.min": ("math.min(1, 2)", "float:1"),
    "math.floor": ("math.floor(2.5)", "float:2"),
    "math.PI": ("math.PI", "float:3.141592653589793"),
    "math.E": ("math.E", "float:2.718281828459045"),
    "strconv.atoi": ('strconv.atoi("42")', 42),
    "regexp.match": ('regexp.match("a+", "caab")', True),
    "filepath.base": ('filepath.base("/a/b.txt")', "s:b.txt"),
    "filepath.join": ('filepath.join("a", "b")', "s:a/b"),
    "base64.encode": ('base64.encode("hi")', "s:aGk="),
    "json.marshal": ("json.marshal([1, 2])", "s:[1,2]"),
    "json.unmarshal": ('json.unmarshal("[1,2]")', ["float:1", "float:2"]),
    "errors.new": ('errors.new("x")', "err:x"),
    "bytes.contains": ('bytes.contains(byte_slice("abc"), byte_slice("b"))', True),
    "fmt.sprintf": ('fmt.sprintf("%d", 3)', "s:3"),
}
CONSTANTS = ("math.PI", "math.E")
TOP_DENY = ["http", "exec", "net", "os", "rand", "time", "cat", "ls"]     # names no probe uses
ROUTES = ["eval", "eval", "hostmap", "newconfig"]


def gen_trial(rng):
    """-> list of jobs for c09obs"""
    n = rng.choice([2, 3, 4, 8, 16])
    names = sorted(PROBES)
    # the attributes in play: a small pool, so that one evaluation's deny / override meets the other evaluations' uses
    pool = []
    for _ in range(2 + rng.below(5)):
        a = rng.choice(names)
        if a not in pool:
            pool.append(a)
    extra = [a for a in names if a not in pool]
    shown = pool + [rng.choice(extra) for _ in range(2)]
    src = "[" + ", ".join('try(func() { return %s }, func(e) { return "DENIED" })' % PROBES[a][0] for a in shown) + "]"
    jobs = []
    marker = 0
    for i in range(n):
        cfg, denied, over = [], set(), {}
        style = rng.below(4)          # 0: plain (default configuration), others: sandboxed in some way
        if style != 0:
            for a in pool:
                r = rng.below(4)
                if r == 0:
                    denied.add(a)
                elif r == 1:
                    if a in CONSTANTS:         # a constant becomes another constant, a function another function
                        v = rng.below(1000)
                        over[a] = v
                    else:
                        marker += 1
                        over[a] = "OV%d" % marker
            dl = sorted(denied)
            if dl and rng.chance(1, 2):
                tops = [rng.choice(TOP_DENY)] if rng.chance(1, 2) else []
                cfg.append({"k": "denies", "names": dl + tops})
            else:
                cfg += [{"k": "deny", "name": a} for a in dl]
                if rng.chance(1, 3):
                    cfg.append({"k": "deny", "name": rng.choice(TOP_DENY)})
            for a, v in sorted(over.items()):
                if isinstance(v, int):
                    cfg.append({"k": "override", "name": a, "int": v})
                else:
                    cfg.append({"k": "override", "name": a, "marker": v})
            if rng.chance(1, 3):
                cfg.append({"k": "global", "name": "extra%d" % i, "int": i})
            # the options commute: hand them over in a seeded order
            for k in range(len(cfg) - 1, 0, -1):
                j = rng.below(k + 1)
                cfg[k], cfg[j] = cfg[j], cfg[k]
        want = []
        for a in shown:
            if a in denied:
                want.append("s:DENIED")
            elif a in over:
                want.append(over[a] if isinstance(over[a], int) else "s:" + over[a])
            else:
                want.append(PROBES[a][1])
        jobs.append({"prog": "config", "tag": i, "route": rng.choice(ROUTES), "src": src, "config": cfg,
                     "_shown": shown, "_want": want})
    return jobs


def wire(jobs):
    return [{k: v for k, v in j.items() if not k.startswith("_")} for j in jobs]


def describe(cfg):
    out = []
    for o in cfg:
        if o["k"] == "deny":
            out.append('WithoutGlobal("%s")' % o["name"])
        elif o["k"] == "denies":
            out.append("WithoutGlobals(%s)" % ", ".join('"%s"' % x for x in o["names"]))
        elif o["k"] == "override":
            out.append('WithGlobalOverride("%s", %s)' % (o["name"], o["int"] if "int" in o else "builtin returning \"%s\"" % o["marker"]))
        else:
            out.append('WithGlobal("%s", %s)' % (o["name"], o.get("int")))
    return ", ".join(out) or "no options (default configuration)"


def judge(jobs, results, how):
    """-> why or None"""
    for k, j in enumerate(jobs):
        r = results[k] if results and k < len(results) and isinstance(results[k], dict) else {}
        got = r.get("value")
        if r.get("error") is not None or not isinstance(got, list) or len(got) != len(j["_want"]):
            return ("evaluation %d (route %s, %s) run %s failed: %r (value %r); alone with its own configuration it returns %r"
                    % (k, j["route"], describe(j["config"]), how, r.get("error"), got, j["_want"]))
        for a, g, w in zip(j["_shown"], got, j["_want"]):
            if g != w:
                others = [describe(x["config"]) for i, x in enumerate(jobs) if i != k and any(
                    o.get("name") == a or a in (o.get("names") or []) for o in x["config"])]
                return ("evaluation %d (route %s, configured with: %s) run %s sees %s = %r; its own configuration makes it %r. "
                        "Other evaluations of the trial that configure %s: %s" % (
                            k, j["route"], describe(j["config"]), how, PROBES[a][0], g, w, a, "; ".join(others[:4]) or "none"))
    return None
