"""C03 - scripts whose threads (spawn / go / f.spawn, nested) exercise, in parallel, state that the VM and its clones set up
lazily: code of function literals loaded at their first call, modules imported at their first import, module functions,
callbacks run by builtins, error paths, plus the script's own globals and (separately labelled) shared containers.

Every script is self-contained, ends by waiting for all its threads and is meant to be evaluated several times: whether
two threads collide on a first call depends on the schedule.  The judge only asks that the evaluation returns.
"""

BUILTIN_MODULES = ["math", "strings", "json", "rand", "time", "regexp", "bytes", "base64", "fmt", "errors", "strconv"]
MODULE_USE = {
    "math": "math.abs(-3) + math.max(1, 2)",
    "strings": "len(strings.repeat(\"ab\", 3)) + len(strings.split(\"a,b\", \",\"))",
    "json": "len(json.marshal({\"a\": [1, 2]}))",
    "rand": "rand.intn(5) * 0",
    "time": "len(string(time.now())) * 0",
    "regexp": "len(regexp.compile(\"a+\").find_all(\"aa b aaa\"))",
    "bytes": "len(bytes.repeat(byte_slice(\"a\"), 3))",
    "base64": "len(base64.encode(\"abc\"))",
    "fmt": "len(fmt.sprintf(\"%d-%s\", 1, \"a\"))",
    "errors": "len(string(errors.new(\"x\")))",
    "strconv": "strconv.atoi(\"12\")",
}


class ThreadGen:
    def __init__(self, rng):
        self.rng = rng
        self.uid = 0
        self.modules = {}        # local module name -> source
        self.tags = []

    def fresh(self, p):
        self.uid += 1
        return "%s%d" % (p, self.uid)

    # ---------------------------------------------------------------- activities: statements inside `func work(n) { total := 0 ... }`
    def act_literals(self, k):
        """k distinct function literals, each defined and called once"""
        out = []
        for _ in range(k):
            f = self.fresh("f")
            out.append("%s := func(x) { return x + %d }\n  total += %s(n)" % (f, self.rng.below(100), f))
        self.tags.append("literals")
        return out

    def act_nested(self, k):
        """literals inside literals, each called where it is written"""
        out = []
        for _ in range(k):
            d = 2 + self.rng.below(3)
            body = " + ".join("a%d" % i for i in range(d)) + " + %d" % self.rng.below(100)
            for i in range(d - 1, -1, -1):
                body = "func(a%d) { return %s }(%s)" % (i, body, "n" if i == 0 else "a%d + 1" % (i - 1))
            out.append("total += " + body)
        self.tags.append("nested-literals")
        return out

    def act_factories(self, k, tops):
        """top-level closure factories: their inner literals are first called on the threads"""
        out = []
        for _ in range(k):
            m = self.fresh("mk")
            d = 1 + self.rng.below(3)
            inner = "func(y) { return a + y }"
            for _ in range(d - 1):
                inner = "func(y) { return %s }" % inner
            tops.append("func %s(a) { return %s }" % (m, inner))
            out.append("total += %s(n)%s(2)" % (m, "(1)" * (d - 1)))
        self.tags.append("factories")
        return out

    def act_callbacks(self, k):
        out = []
        for _ in range(k):
            c = self.rng.below(6)
            v = self.rng.below(50)
            if c == 0:
                out.append("total += [1, 2, 3].map(func(x) { return x + %d })[0]" % v)
            elif c == 1:
                out.append("total += len([1, 2, 3, 4].filter(func(x) { return x > %d }))" % (v % 4))
            elif c == 2:
                out.append("[1, 2].each(func(x) { %s := x + %d })" % (self.fresh("q"), v))
            elif c == 3:
                out.append("total += sorted([3, 1, 2], func(a, b) { return a + %d < b + %d })[0]" % (v, v))
            elif c == 4:
                out.append("total += try(func() { return [1][n + %d] }, func(e) { return %d })" % (5 + v, v))
            else:
                out.append("total += func() { defer func() { %s := %d }(); return %d }()" % (self.fresh("q"), v, v))
        self.tags.append("callbacks")
        return out

    def act_imports(self, k):
        out = []
        for _ in range(k):
            m = self.rng.choice(BUILTIN_MODULES)
            out.append("import %s\n  total += %s" % (m, MODULE_USE[m]))
        self.tags.append("builtin-imports")
        return out

    def act_local_imports(self, k):
        """modules of the script's own: imported for the first time on the threads; their functions hold nested literals"""
        out = []
        for _ in range(k):
            if self.modules and self.rng.chance(1, 4):
                m = self.rng.choice(sorted(self.modules))
            else:
                m = "tm%d" % len(self.modules)
                fs = []
                for j in range(1 + self.rng.below(4)):
                    fs.append("func f%d(x) { g := func(y) { return func(z) { return y + z + %d } }; return g(x)(1) }" % (j, self.rng.below(9)))
                dep = ""
                if self.modules and self.rng.chance(1, 3):
                    o = self.rng.choice(sorted(self.modules))
                    dep = "import %s\n" % o
                    fs.append("func viadep(x) { return %s.f0(x) }" % o)
                self.modules[m] = dep + "base := %d\n" % self.rng.below(9) + "\n".join(fs) + "\n"
            out.append("import %s\n  total += %s.f0(n) + %s.base" % (m, m, m))
        self.tags.append("local-imports")
        return out

    def act_globals(self, k, tops):
        """top-level functions holding literals, and globals read (and, unlabelled as racy at the script level, rebound) by the threads"""
        out = []
        for _ in range(k):
            g = self.fresh("gv")
            h = self.fresh("h")
            tops.append("%s := %d" % (g, self.rng.below(9)))
            tops.append("func %s(x) { w := func(y) { return y + %s }; return w(x) }" % (h, g))
            out.append("total += %s(n) + %s" % (h, g))
            if self.rng.chance(1, 3):
                out.append("%s = n" % g)
        self.tags.append("globals")
        return out

    def act_errors(self, k):
        out = []
        for _ in range(k):
            c = self.rng.choice([0, 1, 3])
            if c == 0:
                out.append("total += try(func() { return func(x) { return x.nope }(n) }, 1)")
            elif c == 1:
                out.append("total += try(func() { error(\"e%d\") }, func(e) { return len(string(e)) })" % self.rng.below(9))
            elif c == 2:
                out.append("total += try(func() { return func(d) { return d(d) }(func(d) { return d(d) }) }, 2)")
            else:
                out.append("total += try(func() { return [1, 2, {}[\"k%d\"]] }, 3)" % self.rng.below(9))
        self.tags.append("errors")
        return out

    def act_subthreads(self, k):
        out = []
        for _ in range(k):
            c = self.rng.below(3)
            v = self.rng.below(50)
            if c == 0:
                out.append("total += spawn(func(x) { return func(y) { return y + %d }(x) }, n).wait()" % v)
            elif c == 1:
                ch = self.fresh("ch")
                out.append("%s := chan(1)\n  go func(x) { r := func(y) { return y + %d }(x); %s <- r }(n)\n  total += <-%s" % (ch, v, ch, ch))
            else:
                out.append("total += func(x) { return x + %d }.spawn(n).wait()" % v)
        self.tags.append("sub-threads")
        return out

    def act_strings(self, k):
        out = []
        for _ in range(k):
            f = self.fresh("tf")
            out.append("%s := func(x) { return x + %d }\n  total += len('{n}-{%s(n)}')" % (f, self.rng.below(50), f))
        self.tags.append("templates")
        return out

    # ---------------------------------------------------------------- whole scripts
    def worker(self, name, tops, size):
        rng = self.rng
        acts = []
        n = 2 + rng.below(4)
        for _ in range(n):
            c = rng.below(11)
            if c <= 1:
                acts += self.act_literals(size)
            elif c == 2:
                acts += self.act_nested(max(1, size // 3))
            elif c == 3:
                acts += self.act_factories(max(1, size // 4), tops)
            elif c == 4:
                acts += self.act_callbacks(max(1, size // 2))
            elif c == 5:
                acts += self.act_imports(1 + rng.below(4))
            elif c == 6:
                # a few, or a burst of first imports of modules nobody has imported yet
                acts += self.act_local_imports(1 + rng.below(3) if rng.chance(1, 2) else 6 + rng.below(10))
            elif c == 7:
                acts += self.act_globals(max(1, size // 4), tops)
            elif c == 8:
                acts += self.act_errors(max(1, size // 4))
            elif c == 9:
                acts += self.act_subthreads(1 + rng.below(3))
            else:
                acts += self.act_strings(max(1, size // 4))
        return "func %s(n) {\n  total := 0\n  %s\n  return total\n}" % (name, "\n  ".join(acts))

    def script(self):
        """returns (source, modules, tags)"""
        rng = self.rng
        tops = []
        nthreads = 3 + rng.below(10)
        size = rng.choice([6, 20, 60, 150, 300])
        same = rng.chance(2, 3)            # all threads run the same function / each its own
        workers = []
        nw = 1 if same else min(nthreads, 4)
        for i in range(nw):
            workers.append(self.worker("work%d" % i, tops, size if same else max(4, size // nw)))
        launch = []
        collect = []
        how = rng.below(5)
        launch.append("ts := []")
        launch.append("c := chan(%d)" % (nthreads + 1))
        ngo = 0
        for i in range(nthreads):
            w = "work%d" % (i % nw)
            h = how if how < 4 else rng.below(4)
            if h == 0:
                launch.append("ts.append(spawn(%s, %d))" % (w, i))
            elif h == 1:
                launch.append("ts.append(%s.spawn(%d))" % (w, i))
            elif h == 2:
                launch.append("go func(k) { v := try(func() { return %s(k) }, -1); c <- v }(%d)" % (w, i))
                ngo += 1
            else:
                launch.append("ts.append(spawn(func(k) { return spawn(%s, k).wait() }, %d))" % (w, i))
        self.tags.append("launch-%d" % how)
        # the main thread works too, before it waits
        if rng.chance(3, 4):
            collect.append("mine := work%d(100)" % rng.below(nw))
            self.tags.append("main-works")
        collect.append("rs := ts.map(func(t) { return try(func() { return t.wait() }, -2) })")
        collect.append("for i := range %d { v := <-c; rs.append(v) }" % ngo)
        collect.append("len(rs)")
        src = "\n".join(tops + workers + launch + collect) + "\n"
        return src, dict(self.modules), list(self.tags)


def shared_container_scripts():
    """script-level containers written by several threads at once (the script's own race, still not allowed to end the process)"""
    out = []
    for label, decl, op in (("map-index", "m := {}", "m[string(j)] = k"), ("set-add", "m := {1}", "m.add(j)"), ("map-update", "m := {}", "m.update({\"a\": k, \"b\": j})"),
                            ("map-pop", "m := {\"a\": 1}", "m[string(j)] = k; m.pop(string(j), 0)")):
        out.append((label, decl + "\nts := []\nfor i := range 8 { ts.append(spawn(func(k) { for j := range 3000 { " + op + " }; return k }, i)) }\n"
                    "ts.map(func(t) { return t.wait() })\nlen(m) >= 0\n"))
    return out


def gen_scripts(rng, n):
    out = []
    for _ in range(n):
        g = ThreadGen(rng)
        out.append(g.script())
    return out
