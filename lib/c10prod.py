"""C10 - stage H: where the values that are sent / handed to threads come from.

A producer walks 300 .. 2600 values with one of the loop forms of the language (C-style counter, range over an int - key,
value, `in` -, over a list - value, key, `in` -, over a string, a map, a set, an explicit iterator driven with next() /
entry(), the callback of each / map / filter) and, IN the loop body, does one thing with the loop variable itself: sends it
(operator or method form), starts a thread with it (spawn / go / fn.spawn; the threads wait behind a gate until the loop is
over), or stores it.  The receiving side HOLDS what it got (lists), and everything is recorded only after the producer has
finished: a value that is still in the channel buffer, held by a receiver, or the argument of a waiting thread must still be
the value of its own loop step.  The expectation is computed from the scenario alone.
"""

STYLES = ["cstyle", "range_int_k", "range_int_v", "range_int_kv", "in_int", "list_v", "list_k", "list_in", "list_kv", "str_k", "str_v",
          "map_v", "set_k", "iter_int_next", "iter_list_next", "iter_int_entry_k", "iter_int_entry_v", "iter_list_entry_k",
          "each", "mapcb", "filter"]
TRANSPORTS = ["send_op", "send_op", "send_method", "spawn", "go", "fnspawn", "store"]
SIZES = [300, 600, 1100, 1500, 2600]
CHARS = "abcdefghij"


def gen(rng, k=None):
    """k: position in the stream - the first len(STYLES) scenarios walk through every style once"""
    style = STYLES[k % len(STYLES)] if k is not None and k < 2 * len(STYLES) else rng.choice(STYLES)
    tr = rng.choice(TRANSPORTS)
    n = rng.choice(SIZES)
    if style == "map_v":
        n = min(n, 1500)
    return {"style": style, "transport": tr, "n": n, "cap": rng.choice([0, 1, 8, 64, 300]), "nrecv": 1 + rng.below(2),
            "rform": rng.choice(["range", "op"]), "own_thread": rng.chance(1, 2), "stride": (n + 119) // 120,
            "procs": rng.choice([1, 2, 16])}


def expected(sc):
    """the values the loop variable takes, in order"""
    n, st = sc["n"], sc["style"]
    if st == "str_v":
        return ["s:" + CHARS[i % 10] for i in range(n)]
    if st == "map_v":
        return [int(k) for k in sorted(str(i) for i in range(n))]
    return list(range(n))


def loop(sc, body):
    """the producer's loop around `body` (a statement over the variable v)"""
    st = sc["style"]
    if st == "cstyle":
        return "for v := 0; v < n; v++ { %s }" % body
    if st == "range_int_k":
        return "for v := range n { %s }" % body
    if st == "range_int_v":
        return "for _, v := range n { %s }" % body
    if st == "range_int_kv":
        return "for v, w := range n { %s }" % body
    if st == "in_int":
        return "for v in n { %s }" % body
    if st == "list_v":
        return "for _, v := range xs { %s }" % body
    if st == "list_k":
        return "for v := range xs { %s }" % body
    if st == "list_in":
        return "for v in xs { %s }" % body
    if st == "list_kv":
        return "for v, w := range xs { %s }" % body
    if st == "str_k":
        return "for v := range str { %s }" % body
    if st == "str_v":
        return "for _, v := range str { %s }" % body
    if st == "map_v":
        return "for _, v := range mp { %s }" % body
    if st == "set_k":
        return "for v := range st { %s }" % body
    if st == "iter_int_next":
        return "it := iter(n); for { v := it.next(); if v == nil { break }; %s }" % body
    if st == "iter_list_next":
        return "it := iter(xs); for { v := it.next(); if v == nil { break }; %s }" % body
    if st == "iter_int_entry_k":
        return "it := iter(n); for it.next() != nil { v := it.entry().key; %s }" % body
    if st == "iter_int_entry_v":
        return "it := iter(n); for it.next() != nil { v := it.entry().value; %s }" % body
    if st == "iter_list_entry_k":
        return "it := iter(xs); for it.next() != nil { v := it.entry().key; %s }" % body
    if st == "each":
        return "xs.each(func(v) { %s })" % body
    if st == "mapcb":
        return "xs.map(func(v) { %s; return v })" % body
    if st == "filter":
        return "xs.filter(func(v) { %s; return true })" % body
    raise ValueError(st)


def script(sc):
    n, tr = sc["n"], sc["transport"]
    L = ["import strings", "n := %d" % n, "xs := []", "for k := 0; k < n; k++ { xs.append(k) }"]
    st = sc["style"]
    if st in ("str_k", "str_v"):
        L.append('str := strings.repeat("%s", %d)' % (CHARS, n // 10))
    if st == "map_v":
        L.append("mp := {}")
        L.append("for k := 0; k < n; k++ { mp[string(k)] = k }")
    if st == "set_k":
        L.append("st := set(xs)")
    if tr in ("send_op", "send_method"):
        L.append("ch := chan(%d)" % sc["cap"] if sc["cap"] else "ch := chan()")
        if sc["rform"] == "range":
            L.append("func recv(j) { got := []; for _, x := range ch { got.append(x) }; return got }")
        else:
            L.append("func recv(j) { got := []; for { x := <-ch; if x == nil { break }; got.append(x) }; return got }")
        L.append("rs := []")
        for j in range(sc["nrecv"]):
            L.append("rs.append(spawn(recv, %d))" % j)
        body = "ch <- v" if tr == "send_op" else "ch.send(v)"
        L.append("func produce() { %s; return 0 }" % loop(sc, body))
        L.append("spawn(produce).wait()" if sc["own_thread"] else "produce()")
        L.append("close(ch)")
        # the receivers hand their lists back only now, after the producer has finished
        L.append("for j, t := range rs { rec(j, t.wait()) }")
    elif tr in ("spawn", "go", "fnspawn"):
        stride = sc["stride"]
        cnt = len([i for i in range(n) if i % stride == 0])
        L.append("gate := chan()")
        L.append("out := chan(%d)" % (cnt + 1))
        L.append("func worker(a) { <-gate; out <- a; return a }")
        L.append("ts := []")
        L.append("pos := 0")
        start = {"spawn": "ts.append(spawn(worker, v))", "go": "go worker(v)", "fnspawn": "ts.append(worker.spawn(v))"}[tr]
        # only every stride-th step starts a thread (a thread costs a VM): positions are counted apart from the loop variable
        body = "if pos %% %d == 0 { %s }; pos++" % (stride, start)
        L.append("func produce() { %s; return 0 }" % loop(sc, body))
        L.append("produce()")
        L.append("for k := 0; k < %d; k++ { gate <- 1 }" % cnt)
        L.append("got := []")
        L.append("for k := 0; k < %d; k++ { got.append(<-out) }" % cnt)
        L.append('rec("out", got)')
        if tr != "go":
            L.append('rec("waits", ts.map(func(t) { return t.wait() }))')
    else:
        L.append("held := []")
        L.append("func produce() { %s; return 0 }" % loop(sc, "held.append(v)"))
        L.append("spawn(produce).wait()" if sc["own_thread"] else "produce()")
        L.append('rec("held", held)')
    L.append('"done"')
    return "\n".join(L)


def _key(v):
    return (0, v) if isinstance(v, int) else (1, str(v))


def _short(xs):
    return xs[:6]


def oracle(sc, resp):
    """-> (why or None, definite).  An evaluation that ran into its deadline is not an observation (definite False)."""
    if resp.get("error") or resp.get("result") != "s:done":
        if resp.get("ctx_done") or "deadline" in (resp.get("error") or "") or "HANG" in (resp.get("error") or ""):
            return "the evaluation did not finish before its deadline (%s)" % resp.get("error"), False
        return "evaluation failed: %s (result %r)" % (resp.get("error"), resp.get("result")), True
    exp = expected(sc)
    logs = resp.get("logs", {})
    tr = sc["transport"]
    what = "producer `%s`, %d values" % (loop(sc, "..."), sc["n"])
    if tr in ("send_op", "send_method"):
        lists = []
        for j in range(sc["nrecv"]):
            lg = logs.get(str(j), [])
            if len(lg) != 1 or not isinstance(lg[0], list):
                return "receiver %d did not hand back its list: %r" % (j, lg[:2]), True
            lists.append(lg[0])
        count = {}
        for lg in lists:
            for v in lg:
                if isinstance(v, (dict, list)):
                    return "a receiver holds a non-value %r" % (v,), True
                count[_key(v)] = count.get(_key(v), 0) + 1
        want = {}
        for v in exp:
            want[_key(v)] = want.get(_key(v), 0) + 1
        if count != want:
            more = sorted(k for k in count if count[k] > want.get(k, 0))
            less = sorted(k for k in want if want[k] > count.get(k, 0))
            return ("%s: the receivers hold too many of %s and too few of %s (sent %d, held %d): every value sent is received exactly once "
                    "and stays the value that was sent" % (what, _short([k[1] for k in more]), _short([k[1] for k in less]),
                                                         len(exp), sum(len(x) for x in lists))), True
        if sc["style"] != "str_v":
            pos = {v: i for i, v in enumerate(exp)}
            for j, lg in enumerate(lists):
                for a, b in zip(lg, lg[1:]):
                    if pos[a] >= pos[b]:
                        return "%s: receiver %d holds %r before %r; the sender sent them in the other order" % (what, j, a, b), True
        elif sc["nrecv"] == 1 and lists[0] != exp:
            return "%s: the receiver holds a different sequence than the one sent (first 6: %r)" % (what, _short(lists[0])), True
        return None, True
    if tr in ("spawn", "go", "fnspawn"):
        sub = [v for i, v in enumerate(exp) if i % sc["stride"] == 0]
        got = (logs.get("out") or [[]])[0]
        if sorted(got, key=_key) != sorted(sub, key=_key):
            miss = [v for v in sub if v not in got]
            return ("%s: the threads started in the loop (every %d-th step, `%s`) were given %d arguments and sent back values that are not "
                    "those: missing %r, got instead %r" % (what, sc["stride"], tr, len(sub), _short(miss),
                                                           _short([v for v in got if v not in sub] or got))), True
        if tr != "go":
            waits = (logs.get("waits") or [[]])[0]
            if waits != sub:
                return "%s: wait() of the threads gave %r ...; each thread returns its own argument: %r ..." % (what, _short(waits), _short(sub)), True
        return None, True
    held = (logs.get("held") or [[]])[0]
    if held != exp:
        bad = [i for i, (a, b) in enumerate(zip(held, exp)) if a != b]
        return ("%s: the values stored in the loop are not the values of the loop steps: %d stored, %d expected, first difference at step %s "
                "(stored %r, step value %r)" % (what, len(held), len(exp), bad[0] if bad else "-", held[bad[0]] if bad else None,
                                              exp[bad[0]] if bad else None)), True
    return None, True
