"""Generator of embedding-API CONFIGURATIONS for C03: option lists a host can legally pass to risor.NewConfig / Eval / EvalCode /
Call (deny lists, overrides, host globals, switches, OS / importer / VM), described as JSON for `c03obs` (options.go).

Nothing here depends on what the implementation does with a name: the name shapes are derived from the globals the running
packages provide (`?globals` of c03obs) and from the host values of the same option list."""
import json
import re

IDENT_PATH = re.compile(r"^[A-Za-z_]\w*(\.[A-Za-z_]\w*)*$")

# Go values of kinds the converters accept (description understood by goValue in options.go)
SUPPORTED = [
    {"k": "nil"}, {"k": "int", "v": 7}, {"k": "int64", "v": -3}, {"k": "i8", "v": -8}, {"k": "u8", "v": 200}, {"k": "u32", "v": 9},
    {"k": "f32", "v": 1.5}, {"k": "float", "v": 2.25}, {"k": "str", "v": "s"}, {"k": "str", "v": ""}, {"k": "bool", "v": True},
    {"k": "bytes", "v": "ab"}, {"k": "ints"}, {"k": "strs"}, {"k": "anys", "v": [{"k": "int", "v": 1}, {"k": "nil"}, {"k": "str", "v": "x"}]},
    {"k": "anys", "v": []}, {"k": "map", "v": {"a": {"k": "int", "v": 1}, "": {"k": "nil"}, "n": {"k": "map", "v": {}}}},
    {"k": "mapint"}, {"k": "nilmap"}, {"k": "nilslice"}, {"k": "nilbytes"}, {"k": "nilptr"}, {"k": "nilintptr"}, {"k": "intptr"},
    {"k": "struct"}, {"k": "structval"}, {"k": "time"}, {"k": "error", "v": "e"}, {"k": "array"}, {"k": "emptystruct"},
    {"k": "obj:int", "v": 5}, {"k": "obj:str", "v": "o"}, {"k": "obj:nil"}, {"k": "obj:list"}, {"k": "obj:map"},
    {"k": "obj:builtin", "v": "hb"}, {"k": "obj:module", "v": "hm"}, {"k": "obj:emptymodule", "v": "em"}, {"k": "obj:error"},
]
# kinds the converters reject: the rejection is part of option handling too
UNSUPPORTED = [{"k": "chan"}, {"k": "func"}, {"k": "complex"}, {"k": "uintptr"}, {"k": "mapintkey"}, {"k": "duration"}]
UNSUPPORTED_KINDS = set(d["k"] for d in UNSUPPORTED)


def parse_globals(text):
    """`?globals` output -> {name: ("m", [attrs]) | ("b", []) | ("o", [])}"""
    g = {}
    for line in text.split("\n"):
        if not line.startswith("G "):
            continue
        name, _, rest = line[2:].partition("=")
        kind, _, attrs = rest.partition(":")
        g[name] = (kind, [a for a in attrs.split(",") if a])
    return g


class OptGen:
    def __init__(self, rng, globs):
        self.rng = rng
        self.g = globs
        self.modules = sorted(n for n, (k, _) in globs.items() if k == "m")
        self.builtins = sorted(n for n, (k, _) in globs.items() if k == "b")
        # names of modules a build with more tags would provide, misspellings, other people's modules
        self.unknown = ["k8s", "nosuch", "Math", "aws", "vault", "x1", "_", "é", "modül"]

    # ---------------------------------------------------------------- names
    def mod(self):
        return self.rng.choice(self.modules) if self.modules else "math"

    def attr_of(self, m):
        a = self.g.get(m, ("m", []))[1]
        return self.rng.choice(a) if a else "abs"

    def name_shapes(self, host_mod=None, host_val=None):
        """(label, name) for every shape of name a deny list or an override may carry"""
        r = self.rng
        m, m2 = self.mod(), self.mod()
        b = r.choice(self.builtins) if self.builtins else "len"
        u = r.choice(self.unknown)
        a = self.attr_of(m)
        out = [
            ("module", m), ("builtin", b), ("unknown", u),
            ("module.attr", m + "." + a), ("module.unknown", m + ".nosuch"),
            ("module.attr.x", m + "." + a + ".x"), ("module.attr.x.y", m + "." + a + ".x.y"),
            ("module.unknown.x", m + ".nosuch.x"),
            ("unknown.attr", u + ".apply"), ("unknown.sub.attr", u + ".sub.attr"), ("unknown.a.b.c", u + ".a.b.c"),
            ("builtin.attr", b + ".foo"), ("builtin.attr.x", b + ".foo.bar"),
            ("module.module", m + "." + m2), ("module.__name__", m + ".__name__"), ("__name__", "__name__"),
            ("empty", ""), ("dot", "."), ("dots", ".."), ("module.", m + "."), (".module", "." + m), ("module..attr", m + ".." + a),
            ("module.attr.", m + "." + a + "."), ("blank", " "), ("module .attr", m + " ." + a), ("module.attr upper", (m + "." + a).upper()),
            ("long", "a" * 3000), ("many-dots", ".".join(["a"] * 400)), ("module.many", m + "." + ".".join([a] * 50)),
            ("unicode.attr", "modül.é"), ("newline", m + "\n." + a), ("nul", m + "\x00." + a),
        ]
        if host_mod:
            h = host_mod
            out += [("host.attr", h + ".baz"), ("host", h), ("host.sub", h + ".bar"), ("host.sub.attr", h + ".bar.baz"),
                    ("host.sub.sub.attr", h + ".bar.deep.x"), ("host.sub.sub", h + ".bar.deep"), ("host.sub.unknown", h + ".bar.nosuch"),
                    ("host.unknown.attr", h + ".nosuch.baz"), ("host.value.x", h + ".k.x"), ("host.sub.value.x", h + ".bar.n.x"),
                    ("host.sub.sub.attr.x", h + ".bar.deep.x.y"), ("host.attr.sub", h + ".baz.bar")]
        if host_val:
            out += [("hostvalue", host_val), ("hostvalue.attr", host_val + ".y"), ("hostvalue.a.b", host_val + ".a.b")]
        return out

    def some_name(self, host_mod=None, host_val=None):
        return self.rng.choice(self.name_shapes(host_mod, host_val))[1]

    def value(self, odd=False):
        if odd:
            return self.rng.choice(UNSUPPORTED)
        return self.rng.choice(SUPPORTED)

    # ---------------------------------------------------------------- sources
    def sources_for(self, names, local=False):
        src = ["1 + 1", "import math\n[math.abs(-1), len(\"abc\"), string(1.5)]", "func f(a=1) { return a }\nf()"]
        ok = [n for n in names if IDENT_PATH.match(n) and len(n) < 80]
        for n in ok[:3]:
            src.append("try(func() { return type(%s) }, func(e) { return \"E\" })" % n)
            src.append(n)
        if local:
            src.append("import lm\nlm.two()")
        return src

    # ---------------------------------------------------------------- cases
    def case(self, opts, family, local=False):
        names = []
        for o in opts:
            if o[0] in ("without1", "override", "global"):
                names.append(o[1])
            elif o[0] == "without":
                names += o[1:]
            elif o[0] == "globals" and len(o) > 1:
                names += list(o[1].keys())
        seen = []
        for n in names:
            if n not in seen:
                seen.append(n)
        return {"family": family, "opts": opts, "sources": self.sources_for(seen, local), "call": ["f", "no_such_name"]}

    def systematic(self):
        """every name shape alone in a deny list, next to a companion, as an override (several values), with and without a
        host-assembled nested module among the globals"""
        r = self.rng
        out = []
        for with_host in (False, True):
            pre = [["global", "foo", {"k": "obj:module", "v": "foo"}], ["global", "hv", {"k": "int", "v": 3}]] if with_host else []
            shapes = self.name_shapes("foo" if with_host else None, "hv" if with_host else None)
            for label, n in shapes:
                fam = "deny:" + label
                out.append(self.case(pre + [["without1", n]], fam))
                out.append(self.case([["without", n, self.some_name()]] + pre, fam))
                out.append(self.case(pre + [["override", n, r.choice(SUPPORTED)]], "override:" + label))
                out.append(self.case([["override", n, {"k": "obj:builtin", "v": "ov"}]] + pre, "override:" + label))
                # the head of a dotted name removed / replaced by the same option list
                head = n.split(".")[0]
                if "." in n and head:
                    out.append(self.case(pre + [["without", head, n]], "deny-head-and-path:" + label))
                    out.append(self.case(pre + [["without", n, head, n]], "deny-head-and-path:" + label))
                    out.append(self.case(pre + [["without1", head], ["override", n, {"k": "int", "v": 1}]], "deny-head-override-path:" + label))
                    out.append(self.case(pre + [["override", head, {"k": "int", "v": 1}], ["without1", n]], "override-head-deny-path:" + label))
                    out.append(self.case(pre + [["override", head, r.choice(SUPPORTED)], ["override", n, r.choice(SUPPORTED)]], "override-head-and-path:" + label))
                    out.append(self.case(pre + [["nodefaults"], ["without1", n], ["override", n, {"k": "int", "v": 1}]], "nodefaults:" + label))
        # every supported value kind as a host global (alone, in WithGlobals, as an override of a builtin and of a module attribute)
        for d in SUPPORTED:
            out.append(self.case([["global", "hv", d]], "value:" + d["k"]))
            out.append(self.case([["globals", {"hv": d, "": d, "len": d}]], "value:" + d["k"]))
            out.append(self.case([["override", "len", d]], "override-value:" + d["k"]))
            out.append(self.case([["override", self.mod() + "." + "x", d], ["override", "math.abs", d]], "override-value:" + d["k"]))
            out.append(self.case([["nodefaults"], ["global", "hv", d], ["without1", "hv.x"], ["override", "hv.y", d]], "value:" + d["k"]))
        for d in UNSUPPORTED:
            out.append(self.case([["global", "hv", d]], "unsupported-value:" + d["k"]))
            out.append(self.case([["override", "math.abs", d]], "unsupported-value:" + d["k"]))
            out.append(self.case([["override", "len", d]], "unsupported-value:" + d["k"]))
        return out

    def random_option(self, host_mod, host_val, odd):
        r = self.rng
        k = r.below(20)
        if k < 4:
            return ["without1", self.some_name(host_mod, host_val)]
        if k < 8:
            names = [self.some_name(host_mod, host_val) for _ in range(r.below(6))]
            if names and r.chance(1, 2):
                names.append(r.choice(names))                        # the same name twice
            if names and r.chance(1, 2):
                names.append(r.choice(names).split(".")[0])          # the head of one of them as well
            return ["without"] + names
        if k < 11:
            return ["override", self.some_name(host_mod, host_val), self.value(odd and r.chance(1, 3))]
        if k < 13:
            return ["global", r.choice(["hv", "foo", "len", self.mod(), "", "a.b", "hv"]), self.value(odd and r.chance(1, 3))]
        if k == 13:
            return ["globals", dict((r.choice(["hv", "g1", "g2", "len", self.mod(), ""]), self.value(False)) for _ in range(r.below(4)))]
        return r.choice([["globals-nil"], ["nodefaults"], ["concurrency"], ["listeners"], ["filename", r.choice(["", "a.risor", "é/ü.risor", "x" * 300])],
                         ["os", "virtual"], ["os", "nil"], ["importer", "nil"], ["importer", "nop"], ["localimporter", "DIR"],
                         ["localimporter", ""], ["localimporter", "/no/such/dir"], ["vm", "new"], ["vm", "nil"]])

    def random_case(self):
        r = self.rng
        odd = r.chance(1, 8)
        opts = []
        host_mod = host_val = None
        if r.chance(1, 2):
            host_mod = "foo"
            opts.append(["global", "foo", {"k": "obj:module", "v": "foo"}])
        if r.chance(1, 3):
            host_val = "hv"
            opts.append(["global", "hv", self.value(False)])
        for _ in range(1 + r.below(6)):
            opts.append(self.random_option(host_mod, host_val, odd))
        if r.chance(1, 3):
            opts.append(r.choice(opts))                              # the same option twice
        # any order
        for i in range(len(opts) - 1, 0, -1):
            j = r.below(i + 1)
            opts[i], opts[j] = opts[j], opts[i]
        local = any(o[:2] == ["localimporter", "DIR"] for o in opts)
        return self.case(opts, "random" + ("+unsupported" if has_unsupported(opts) else ""), local)


def has_unsupported(x):
    """does the option description hold a Go value of a kind the converters reject (decided on the input alone)"""
    if isinstance(x, dict):
        if x.get("k") in UNSUPPORTED_KINDS:
            return True
        return any(has_unsupported(v) for v in x.values())
    if isinstance(x, list):
        return any(has_unsupported(v) for v in x)
    return False


def line_of(case, reps):
    js = json.dumps({"opts": case["opts"], "sources": case["sources"], "call": case["call"]}, ensure_ascii=False)
    return "%% %d %s" % (reps, js.encode("utf-8", "surrogateescape").hex())
