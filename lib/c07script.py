"""C07 - script-global histories: code objects of every kind, loaded by an earlier invocation on a reused VM, must see the
CURRENT values of the script-level globals in every later Run / Call.

A history is a list of invocations (REPL-protocol Run of a piece, or Call of a global function).  Pieces define code objects
over int globals g0.., call them, assign the globals from the main code, declare further globals (the globals table grows),
or fail half way.  The generator keeps its own account of the globals (a reference semantics of these few statement forms),
so every invocation has a predicted result; the harness additionally repeats every invocation on a VM made for it.
"""


def fmt(v):
    if isinstance(v, list):
        return "[" + ", ".join(fmt(x) for x in v) + "]"
    return str(v)


class Obj:
    """one code object: how it is defined, how it is called, what a call does"""

    def __init__(self, name, kind, g, c, rng):
        self.name, self.kind, self.g, self.c = name, kind, g, c
        self.n = 0              # private cell of counter closures
        self.depth = 1 + rng.below(3)
        self.cl = None          # (global name, args) when the host can Call it
        G = "g%d" % g
        read = "return %s + %d" % (G, c)
        write = "%s = %s + %d; return %s" % (G, G, c, G)
        n = name
        k = kind
        if k == "top_r":
            self.defs = "func %s() { %s }" % (n, read)
            self.callx = "%s()" % n
            self.cl = (n, [])
        elif k == "top_w":
            self.defs = "func %s() { %s }" % (n, write)
            self.callx = "%s()" % n
            self.cl = (n, [])
        elif k in ("fac_r", "fac_w"):
            body = read if k == "fac_r" else write
            lit = "func() { %s }" % body
            for _ in range(self.depth - 1):
                lit = "func() { return %s }" % lit
            self.defs = "func mk_%s() { return %s }\n%s := mk_%s()%s" % (n, lit, n, n, "()" * (self.depth - 1))
            self.callx = "%s()" % n
            self.cl = (n, [])
        elif k == "fresh_r":
            # the product is made and called in the same invocation; its code was loaded by an earlier one
            self.defs = "func mk_%s() { return func() { %s } }" % (n, read)
            self.callx = "mk_%s()()" % n
        elif k == "cap_r":
            self.defs = "func mk_%s(k) { return func() { return %s + k } }\n%s := mk_%s(%d)" % (n, G, n, n, c)
            self.callx = "%s()" % n
            self.cl = (n, [])
        elif k == "cnt_w":
            self.defs = ("func mk_%s() { n := 0; return func() { n = n + 1; %s = %s + n; return %s } }\n%s := mk_%s()" % (n, G, G, G, n, n))
            self.callx = "%s()" % n
            self.cl = (n, [])
        elif k == "cb_r":
            self.defs = "func %s() { return [1, 2].map(func(v) { return v + %s })[1] }" % (n, G)
            self.callx = "%s()" % n
            self.cl = (n, [])
        elif k == "each_w":
            self.defs = "func %s() { [1, 2].each(func(v) { %s = %s + v }); return %s }" % (n, G, G, G)
            self.callx = "%s()" % n
            self.cl = (n, [])
        elif k == "defer_w":
            self.defs = "func %s() { defer func() { %s = %s + %d }(); return %s }" % (n, G, G, c, G)
            self.callx = "%s()" % n
            self.cl = (n, [])
        elif k == "map_r":
            self.defs = "%s := {\"rd\": func() { %s }}" % (n, read)
            self.callx = "%s[\"rd\"]()" % n
        elif k == "mapf_w":
            self.defs = "func mk_%s() { return {\"put\": func() { %s }} }\n%s := mk_%s()" % (n, write, n, n)
            self.callx = "%s[\"put\"]()" % n
        elif k == "list_r":
            self.defs = "func mk_%s() { return [func() { %s }] }\n%s := mk_%s()" % (n, read, n, n)
            self.callx = "%s[0]()" % n
        elif k == "inner_r":
            self.defs = "func %s() { func inner() { %s }; return inner() }" % (n, read)
            self.callx = "%s()" % n
            self.cl = (n, [])
        elif k == "rec_r":
            self.defs = "func %s(d) { if d == 0 { %s }; return func() { return %s(d - 1) }() }" % (n, read, n)
            self.callx = "%s(2)" % n
            self.cl = (n, [2])
        elif k == "try_w":
            self.defs = "func %s() { return try(func() { %s = %s + %d; return [1][5] }, func(e) { return %s }) }" % (n, G, G, c, G)
            self.callx = "%s()" % n
            self.cl = (n, [])
        else:
            raise ValueError(k)

    def call(self, gl):
        """effect on the globals, returns the value"""
        g, c, k = self.g, self.c, self.kind
        if k in ("top_r", "fac_r", "fresh_r", "cap_r", "map_r", "list_r", "inner_r", "rec_r"):
            return gl[g] + c
        if k in ("top_w", "fac_w", "mapf_w", "try_w"):
            gl[g] += c
            return gl[g]
        if k == "cnt_w":
            self.n += 1
            gl[g] += self.n
            return gl[g]
        if k == "cb_r":
            return gl[g] + 2
        if k == "each_w":
            gl[g] += 3
            return gl[g]
        if k == "defer_w":
            old = gl[g]
            gl[g] += c
            return old
        raise ValueError(k)


KINDS = ["top_r", "top_w", "fac_r", "fac_w", "fresh_r", "cap_r", "cnt_w", "cb_r", "each_w", "defer_w", "map_r", "mapf_w", "list_r",
         "inner_r", "rec_r", "try_w"]
LIB = "func rec_forever(n) { return rec_forever(n + 1) }"


def gen_history(hid, rng):
    """returns (history for the harness, expected outcome per invocation, tags)"""
    ng = 1 + rng.below(3)
    gl = {i: rng.below(9) for i in range(ng)}
    items = []
    expect = []
    tags = []
    objs = []
    called_before = set()     # objects called by an earlier invocation (their code is loaded)

    def wrap(o):
        """a call of o as it appears in a piece"""
        w = rng.below(10)
        if o.cl and w == 0:
            return "spawn(%s).wait()" % o.cl[0] if not o.cl[1] else o.callx
        if o.cl and w == 1 and not o.cl[1]:
            return "try(%s, -1)" % o.cl[0]
        if w == 2:
            return "func() { return %s }()" % o.callx
        return o.callx

    def calls(k, now_called):
        """k calls of defined objects as one list expression + its predicted value"""
        xs, vs = [], []
        for _ in range(k):
            o = rng.choice(objs)
            xs.append(wrap(o))
            vs.append(o.call(gl))
            now_called.add(o)
            if o in called_before:
                tags.append("reuse:" + o.kind)
        return "[" + ", ".join(xs) + "]", vs

    def snapshot():
        return ",".join("g%d=%d" % (i, gl[i]) for i in sorted(gl))

    first = ["%s" % LIB] + ["g%d := %d" % (i, gl[i]) for i in range(ng)]
    n = 2 + rng.below(6)
    nobj = 0
    for step in range(n):
        now_called = set()
        lines = []
        if step == 0:
            lines += first
        c = rng.below(10) if step > 0 else 0
        if c < 3 or not objs:
            # definitions (called at once or not: a literal nested in a function is loaded by its first call)
            for _ in range(1 + rng.below(3)):
                o = Obj("o%d" % nobj, rng.choice(KINDS), rng.below(len(gl)), 1 + rng.below(7), rng)
                nobj += 1
                objs.append(o)
                lines.append(o.defs)
            tags.append("def")
        if c in (3, 4):
            i = rng.below(len(gl))
            v = rng.below(50)
            if rng.chance(1, 2):
                lines.append("g%d = %d" % (i, v))
                gl[i] = v
            else:
                lines.append("g%d += %d" % (i, v))
                gl[i] += v
            tags.append("set")
        if c == 5:
            i = len(gl)
            gl[i] = rng.below(9)
            lines.append("g%d := %d" % (i, gl[i]))
            tags.append("decl")
        if c == 6 and objs and any(o.cl for o in objs):
            # the host calls a function by name
            o = rng.choice([o for o in objs if o.cl])
            v = o.call(gl)
            if o in called_before:
                tags.append("reuse-call:" + o.kind)
            items.append({"api": "CL", "fn": o.cl[0], "args": o.cl[1], "eff": "%s(%s)" % (o.cl[0], ", ".join(str(a) for a in o.cl[1]))})
            expect.append(("V " + fmt(v), snapshot()))
            called_before.add(o)
            tags.append("call")
            continue
        if c == 7 and objs:
            # a piece that fails half way: what it did before the failure stays
            i = rng.below(len(gl))
            v = rng.below(50)
            o = rng.choice(objs)
            o.call(gl)
            gl[i] = v
            how = rng.choice(["[1][5]", "rec_forever(0)", "nil()", "[1, 2, {}[\"k\"]]", "error(\"boom\")"])
            eff = "\n".join(lines + ["%s" % o.callx, "g%d = %d" % (i, v)])
            lines += ["%s" % o.callx, "g%d = %d" % (i, v), how, "g%d = 77" % i]
            now_called.add(o)
            if o in called_before:
                tags.append("reuse:" + o.kind)
            items.append({"api": "RN", "src": "\n".join(lines), "eff": eff})
            expect.append(("E", snapshot()))
            called_before |= now_called
            tags.append("fail")
            continue
        x, vs = calls(1 + rng.below(4), now_called)
        lines.append(x)
        src = "\n".join(lines)
        items.append({"api": "RN", "src": src, "eff": src})
        expect.append(("V " + fmt(vs), snapshot()))
        called_before |= now_called
    watch = ["g%d" % i for i in sorted(gl)]
    return {"id": hid, "mode": "script", "watch": watch, "items": items}, expect, tags
