"""C07 - script-global histories: code objects of every kind, loaded by an earlier invocation on a reused VM, must see the
CURRENT values of the script-level globals in every later Run / Call.

A history is a list of invocations (REPL-protocol Run of a piece, or Call of a global function).  Pieces define code objects
over int globals g0.., call them, assign the globals from the main code, declare further globals (the globals table grows),
or fail half way.  The generator keeps its own account of the globals (a reference semantics of these few statement forms),
so every invocation has a predicted result; the harness additionally repeats every invocation on a VM made for it.
"""


def fmt(v):
    if isinstance(v, list):
        return "[" + ", ".join(fmt(x) for x in v) + "]"
    if v is None:
        return "nil"
    if isinstance(v, str):
        return '"%s"' % v
    return str(v)


def pads(k, c):
    """k extra locals p0.. (p0 == c) at the head of a function body: more than 8 locals move the frame's locals to the heap"""
    return "".join("p%d := %d; " % (i, c + i) for i in range(k))


WIDE = [9, 10, 12, 17]


class Obj:
    """one code object: how it is defined, how it is called, what a call does"""

    def __init__(self, name, kind, g, c, rng, gl=None):
        self.name, self.kind, self.g, self.c = name, kind, g, c
        self.n = 0              # private cell of counter closures
        self.depth = 1 + rng.below(3)
        self.cl = None          # (global name, args) when the host can Call it
        self.rng = rng
        self.pad = rng.choice([0, 0, 0, 1, 3, 7, 8, 9, 12])     # extra locals of the outermost function
        G = "g%d" % g
        P = pads(self.pad, c)
        h = "h_" + name         # the global that holds a handle made by an earlier invocation
        self.h = h
        read = "return %s + %d" % (G, c)
        write = "%s = %s + %d; return %s" % (G, G, c, G)
        n = name
        k = kind
        if k == "top_r":
            self.defs = "func %s() { %s%s }" % (n, P, read)
            self.callx = "%s()" % n
            self.cl = (n, [])
        elif k == "top_w":
            self.defs = "func %s() { %s%s }" % (n, P, write)
            self.callx = "%s()" % n
            self.cl = (n, [])
        elif k in ("fac_r", "fac_w"):
            body = read if k == "fac_r" else write
            lit = "func() { %s }" % body
            for _ in range(self.depth - 1):
                lit = "func() { return %s }" % lit
            self.defs = "func mk_%s() { return %s }\n%s := mk_%s()%s" % (n, lit, n, n, "()" * (self.depth - 1))
            self.callx = "%s()" % n
            self.cl = (n, [])
        elif k == "fresh_r":
            # the product is made and called in the same invocation; its code was loaded by an earlier one
            self.defs = "func mk_%s() { %sreturn func() { %s } }" % (n, P, read)
            self.callx = "mk_%s()()" % n
        elif k == "cap_r":
            self.defs = "func mk_%s(k) { return func() { return %s + k } }\n%s := mk_%s(%d)" % (n, G, n, n, c)
            self.callx = "%s()" % n
            self.cl = (n, [])
        elif k == "cnt_w":
            self.defs = ("func mk_%s() { %sn := 0; return func() { n = n + 1; %s = %s + n; return %s } }\n%s := mk_%s()" % (n, P, G, G, G, n, n))
            self.callx = "%s()" % n
            self.cl = (n, [])
        elif k == "cb_r":
            self.defs = "func %s() { return [1, 2].map(func(v) { return v + %s })[1] }" % (n, G)
            self.callx = "%s()" % n
            self.cl = (n, [])
        elif k == "each_w":
            self.defs = "func %s() { [1, 2].each(func(v) { %s = %s + v }); return %s }" % (n, G, G, G)
            self.callx = "%s()" % n
            self.cl = (n, [])
        elif k == "defer_w":
            self.defs = "func %s() { defer func() { %s = %s + %d }(); return %s }" % (n, G, G, c, G)
            self.callx = "%s()" % n
            self.cl = (n, [])
        elif k == "map_r":
            self.defs = "%s := {\"rd\": func() { %s }}" % (n, read)
            self.callx = "%s[\"rd\"]()" % n
        elif k == "mapf_w":
            self.defs = "func mk_%s() { return {\"put\": func() { %s }} }\n%s := mk_%s()" % (n, write, n, n)
            self.callx = "%s[\"put\"]()" % n
        elif k == "list_r":
            self.defs = "func mk_%s() { return [func() { %s }] }\n%s := mk_%s()" % (n, read, n, n)
            self.callx = "%s[0]()" % n
        elif k == "inner_r":
            self.defs = "func %s() { func inner() { %s }; return inner() }" % (n, read)
            self.callx = "%s()" % n
            self.cl = (n, [])
        elif k == "rec_r":
            self.defs = "func %s(d) { if d == 0 { %s }; return func() { return %s(d - 1) }() }" % (n, read, n)
            self.callx = "%s(2)" % n
            self.cl = (n, [2])
        elif k == "try_w":
            self.defs = "func %s() { return try(func() { %s = %s + %d; return [1][5] }, func(e) { return %s }) }" % (n, G, G, c, G)
            self.callx = "%s()" % n
            self.cl = (n, [])
        # ---- frames of different sizes in the same slot: wide functions, closure factories called at use time
        elif k == "wide_r":
            self.pad = rng.choice(WIDE)
            self.defs = "func %s() { %sreturn %s + p0 }" % (n, pads(self.pad, c), G)
            self.callx = "%s()" % n
            self.cl = (n, [])
        elif k == "wide_cl":
            self.pad = rng.choice(WIDE)
            self.defs = "func %s() { %sn := p0; f := func() { n = n + 1; return n }; f(); return n + %s }" % (n, pads(self.pad, c), G)
            self.callx = "%s()" % n
            self.cl = (n, [])
        elif k == "wide_e":
            self.pad = rng.choice(WIDE)
            self.defs = ("func x_%s() { %s%s = %s + p0; return [1][p1] }\nfunc %s() { return try(func() { return x_%s() }, func(e) { return 0 - %d }) }"
                         % (n, pads(self.pad, c), G, G, n, n, c))
            self.callx = "%s()" % n
            self.cl = (n, [])
        elif k == "freshcnt":
            # a factory with few (or many) locals, called when it is used: its cells are made in a frame slot that other functions used
            self.defs = "func mk_%s(k) { %sn := k; return func() { n = n + 1; return n + %s } }" % (n, P, G)
            self.callx = "mk_%s(%d)()" % (n, c)
            self.hold = ("mk_%s" % n, [c])      # the host may Call the factory and keep the product
        # ---- handles made by an earlier invocation (under that invocation's context) and used by later ones
        elif k in ("thr_r", "thr_w"):
            if k == "thr_w":
                gl[g] += c
                self.v = gl[g]
                body = "%s = %s + %d; return %s" % (G, G, c, G)
                form = rng.below(2)
            else:
                self.v = gl[g] + c
                body = read
                form = rng.below(3)
            if form == 0:
                mk = "%s := spawn(func() { %s%s })" % (h, P, body)
            elif form == 1:
                mk = "func tf_%s() { %s%s }\n%s := tf_%s.spawn()" % (n, P, body, h, n)
            else:
                mk = "%s := spawn(func(a) { %sreturn %s + a }, %d)" % (h, P, G, c)
            self.defs = "%s\n%s.wait()\nfunc w_%s() { return %s.wait() }" % (mk, h, n, h)
            self.callx = "%s.wait()" % h
            self.cl = ("w_%s" % n, [])
        elif k == "thr_e":
            how = rng.choice(["[1][%d]" % (c + 1), "error(\"boom\")", "nil()"])
            self.defs = ("%s := spawn(func() { %sreturn %s })\ntry(func() { %s.wait() }, 0)\n"
                         "func w_%s() { return try(func() { return %s.wait() }, func(e) { return 0 - %d }) }" % (h, P, how, h, n, h, c))
            self.callx = "try(func() { return %s.wait() }, func(e) { return 0 - %d })" % (h, c)
            self.cl = ("w_%s" % n, [])
        elif k == "thr_fn":
            # a closure made on a thread (a clone of the VM) and handed back through wait()
            self.n = c
            self.defs = "%s := spawn(func() { %sn := %d; return func() { n = n + 1; return n + %s } }).wait()" % (h, P, c, G)
            self.callx = "%s()" % h
            self.cl = (h, [])
        elif k in ("chan_q", "chan_t"):
            self.cap = 3 + rng.below(3)
            self.q = [c, c + 1]
            self.nextv = 100 * (c + 1)
            if k == "chan_q":
                fill = "%s <- %d\n%s <- %d" % (h, c, h, c + 1)
            else:
                fill = "spawn(func() { %s <- %d; %s <- %d }).wait()" % (h, c, h, c + 1)
            self.defs = "%s := chan(%d)\n%s\nfunc w_%s(v) { %s <- v; return <-%s }" % (h, self.cap, fill, n, h, h)
        elif k in ("iter_l", "iter_i", "iter_s", "iter_m"):
            cnt = 2 + rng.below(5)
            if k == "iter_l":
                self.seq = [c * 10 + i for i in range(cnt)]
                lit = "[" + ", ".join(str(x) for x in self.seq) + "]"
            elif k == "iter_i":
                self.seq = list(range(cnt))
                lit = str(cnt)
            elif k == "iter_s":
                self.seq = list("abcdefg"[:cnt])
                lit = '"%s"' % "abcdefg"[:cnt]
            else:
                self.seq = ["k%d" % i for i in range(cnt)]
                lit = "{" + ", ".join('"k%d": %d' % (i, i) for i in reversed(range(cnt))) + "}"
            self.pos = 0
            self.defs = "%s := iter(%s)" % (h, lit)
            if rng.chance(1, 2):
                self.defs += "\n%s.next()" % h
                self.pos = 1
            self.defs += "\nfunc w_%s() { return %s.next() }" % (n, h)
            self.callx = "%s.next()" % h
            self.cl = ("w_%s" % n, [])
        elif k == "bound":
            self.n = 1
            self.defs = "l_%s := [%d]\n%s := l_%s.append\nfunc w_%s() { %s(7); return len(l_%s) }" % (n, c, h, n, n, h, n)
            self.callx = "func() { %s(7); return len(l_%s) }()" % (h, n)
            self.cl = ("w_%s" % n, [])
        else:
            raise ValueError(k)

    def use(self, gl):
        """one use from script code: (expression, predicted value); updates the account"""
        if self.kind in ("chan_q", "chan_t"):
            v = self.nextv
            self.nextv += 1
            return "func() { %s <- %d; return <-%s }()" % (self.h, v, self.h), self._chan(v)
        return self.callx, self.call(gl)

    def host_use(self, gl):
        """one use by the host's Call: (function name, arguments, predicted value)"""
        if self.kind in ("chan_q", "chan_t"):
            v = self.nextv
            self.nextv += 1
            return "w_" + self.name, [v], self._chan(v)
        return self.cl[0], self.cl[1], self.call(gl)

    def hostable(self):
        return self.cl is not None or self.kind in ("chan_q", "chan_t")

    def _chan(self, v):
        self.q.append(v)
        return self.q.pop(0)

    def call(self, gl):
        """effect on the globals, returns the value"""
        g, c, k = self.g, self.c, self.kind
        if k in ("top_r", "fac_r", "fresh_r", "cap_r", "map_r", "list_r", "inner_r", "rec_r", "wide_r"):
            return gl[g] + c
        if k in ("wide_cl", "freshcnt"):
            return gl[g] + c + 1
        if k == "wide_e":
            gl[g] += c
            return -c
        if k in ("thr_r", "thr_w"):
            return self.v
        if k == "thr_e":
            return -c
        if k == "thr_fn":
            self.n += 1
            return self.n + gl[g]
        if k in ("iter_l", "iter_i", "iter_s", "iter_m"):
            self.pos += 1
            return self.seq[self.pos - 1] if self.pos <= len(self.seq) else None
        if k == "bound":
            self.n += 1
            return self.n
        if k in ("top_w", "fac_w", "mapf_w", "try_w"):
            gl[g] += c
            return gl[g]
        if k == "cnt_w":
            self.n += 1
            gl[g] += self.n
            return gl[g]
        if k == "cb_r":
            return gl[g] + 2
        if k == "each_w":
            gl[g] += 3
            return gl[g]
        if k == "defer_w":
            old = gl[g]
            gl[g] += c
            return old
        raise ValueError(k)


KINDS = ["top_r", "top_w", "fac_r", "fac_w", "fresh_r", "cap_r", "cnt_w", "cb_r", "each_w", "defer_w", "map_r", "mapf_w", "list_r",
         "inner_r", "rec_r", "try_w",
         "wide_r", "wide_cl", "wide_e", "freshcnt",
         "thr_r", "thr_w", "thr_e", "thr_fn", "chan_q", "chan_t", "iter_l", "iter_i", "iter_s", "iter_m", "bound"]
HANDLES = ("thr_r", "thr_w", "thr_e", "thr_fn", "chan_q", "chan_t", "iter_l", "iter_i", "iter_s", "iter_m", "bound")
LIB = "func rec_forever(n) { return rec_forever(n + 1) }"


def gen_history(hid, rng):
    """returns (history for the harness, expected outcome per invocation, tags)

    Every invocation has a context of its own.  The host cancels it right after the invocation returned (`cancel: "after"`),
    when the whole history is over ("end"), or a LATER invocation cancels it from script code through the host builtin
    `cancel_ctx(i)` just before it uses what invocation i left behind ("script"; cancelled at the end if no piece does)."""
    ng = 1 + rng.below(3)
    gl = {i: rng.below(9) for i in range(ng)}
    items = []
    expect = []
    tags = []
    objs = []
    called_before = set()     # objects called / made by an earlier invocation (their code is loaded, their handles exist)
    live = []                 # indices of invocations whose context a later piece may cancel
    held = []                 # [register, object, its private counter]: factory products the host keeps

    def wrap(o, x):
        """a use x of o as it appears in a piece"""
        w = rng.below(10)
        if o.cl and w == 0:
            return "spawn(%s).wait()" % o.cl[0] if not o.cl[1] else x
        if o.cl and w == 1 and not o.cl[1]:
            return "try(%s, -1)" % o.cl[0]
        if w == 2:
            return "func() { return %s }()" % x
        if w == 3:
            # one frame deeper, in a frame whose locals do not fit the frame's own storage
            return "func() { %sreturn %s }()" % (pads(rng.choice(WIDE), 1), x)
        return x

    def use_tags(o):
        if o in called_before:
            tags.append("reuse:" + o.kind)

    def calls(k, now_called):
        """k uses of defined objects as one list expression + its predicted value"""
        xs, vs = [], []
        for _ in range(k):
            o = rng.choice(objs)
            x, v = o.use(gl)
            xs.append(wrap(o, x))
            vs.append(v)
            now_called.add(o)
            use_tags(o)
        return "[" + ", ".join(xs) + "]", vs

    def snapshot():
        return ",".join("g%d=%d" % (i, gl[i]) for i in sorted(gl))

    def push(item, exp):
        mode = rng.choice(["after", "after", "after", "end", "script"])
        item["cancel"] = mode
        if mode == "script":
            live.append(len(items))
        items.append(item)
        expect.append(exp)

    def stale_cancels(lines):
        """script code cancels the contexts of earlier invocations before it goes on"""
        if live and rng.chance(2, 3):
            for i in list(live):
                lines.append("cancel_ctx(%d)" % i)
                live.remove(i)
            tags.append("cancel-by-script")

    first = ["%s" % LIB] + ["g%d := %d" % (i, gl[i]) for i in range(ng)]
    n = 2 + rng.below(7)
    nobj = 0
    for step in range(n):
        now_called = set()
        lines = []
        if step == 0:
            lines += first
        else:
            stale_cancels(lines)
        c = rng.below(12) if step > 0 else 0
        if c < 3 or not objs:
            # definitions (called at once or not: a literal nested in a function is loaded by its first call)
            for _ in range(1 + rng.below(3)):
                o = Obj("o%d" % nobj, rng.choice(KINDS), rng.below(len(gl)), 1 + rng.below(7), rng, gl)
                nobj += 1
                objs.append(o)
                lines.append(o.defs)
                if o.kind in HANDLES:
                    now_called.add(o)
            tags.append("def")
        if c in (3, 4):
            i = rng.below(len(gl))
            v = rng.below(50)
            if rng.chance(1, 2):
                lines.append("g%d = %d" % (i, v))
                gl[i] = v
            else:
                lines.append("g%d += %d" % (i, v))
                gl[i] += v
            tags.append("set")
        if c == 5:
            i = len(gl)
            gl[i] = rng.below(9)
            lines.append("g%d := %d" % (i, gl[i]))
            tags.append("decl")
        if c == 6 and objs and any(o.hostable() for o in objs):
            # the host calls a function by name
            o = rng.choice([o for o in objs if o.hostable()])
            fn, args, v = o.host_use(gl)
            if o in called_before:
                tags.append("reuse-call:" + o.kind)
            push({"api": "CL", "fn": fn, "args": args, "eff": "%s(%s)" % (fn, ", ".join(str(a) for a in args))},
                 ("V " + fmt(v), snapshot()))
            called_before.add(o)
            tags.append("call")
            continue
        if c >= 10 and (held or any(hasattr(o, "hold") for o in objs)):
            # the host Calls a closure factory and keeps the product, or Calls a product it kept
            facs = [o for o in objs if hasattr(o, "hold")]
            if held and (not facs or rng.chance(2, 3)):
                hh = rng.choice(held)
                hh[2] += 1
                push({"api": "CH", "reg": hh[0], "eff": "%s()" % hh[0]}, ("V " + fmt(hh[2] + gl[hh[1].g]), snapshot()))
                tags.append("host-held-call")
            else:
                o = rng.choice(facs)
                reg = "r%d" % len(held)
                held.append([reg, o, o.hold[1][0]])
                push({"api": "CL", "fn": o.hold[0], "args": o.hold[1], "hold": reg,
                      "eff": "%s := %s(%s)" % (reg, o.hold[0], ", ".join(str(a) for a in o.hold[1]))}, (None, snapshot()))
                tags.append("host-held-make")
            continue
        if c == 7 and objs:
            # a piece that fails half way: what it did before the failure stays
            i = rng.below(len(gl))
            v = rng.below(50)
            o = rng.choice(objs)
            x, _ = o.use(gl)
            gl[i] = v
            how = rng.choice(["[1][5]", "rec_forever(0)", "nil()", "[1, 2, {}[\"k\"]]", "error(\"boom\")"])
            eff = "\n".join(lines + ["%s" % x, "g%d = %d" % (i, v)])
            lines += ["%s" % x, "g%d = %d" % (i, v), how, "g%d = 77" % i]
            now_called.add(o)
            use_tags(o)
            push({"api": "RN", "src": "\n".join(lines), "eff": eff}, ("E", snapshot()))
            called_before |= now_called
            tags.append("fail")
            continue
        x, vs = calls(1 + rng.below(4), now_called)
        lines.append(x)
        src = "\n".join(lines)
        push({"api": "RN", "src": src, "eff": src}, ("V " + fmt(vs), snapshot()))
        called_before |= now_called
    watch = ["g%d" % i for i in sorted(gl)]
    return {"id": hid, "mode": "script", "watch": watch, "items": items}, expect, tags
