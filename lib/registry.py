"""What each property's check needs built (used by --setup and by the checks themselves)."""

# property -> dict(go=[cmd names], extract=[(name, extract_v, driver_ml)])
REGISTRY = {
    "C13": dict(go=["c13obs"], extract=[("c13", "ExtractC13.v", "c13_driver.ml")]),
}
