"""What each property's check needs built (used by --setup and by the checks themselves)."""

# property -> dict(go=[cmd names], extract=[(name, extract_v, driver_ml)])
REGISTRY = {
    "C13": dict(go=["c13obs"], extract=[("c13", "ExtractC13.v", "c13_driver.ml")]),
    "C04": dict(go=["astobs", "evalobs", "translate"], overlay_go=["c04obs"], translate=[("ops", "GenOps.v")],
                extract=[("verify", "ExtractVerify.v", "verify_driver.ml")]),
    "C01": dict(go=["translate"], translate=[("precedence", "GenPrecedence.v")]),
    "C20": dict(go=["c20obs"]),
    "C05": dict(go=["c05obs"]),
    # C11 / C12 build their own overlay tools and generators inside the checks; setup pre-generates their Coq inputs
    "C11": dict(extract=[("globals", "ExtractGlobals.v", "globals_driver.ml")]),
    "C12": dict(extract=[("osprop", "ExtractOsProp.v", "osprop_driver.ml")]),
    "C18": dict(go=["c18obs"]),
    "C17": dict(go=["c17obs"], extract=[("marshal", "ExtractMarshal.v", "marshal_driver.ml")]),
    # pregen: (tool, args after the repo path, generated file under coq/gen) - run before the Coq build
    "C19": dict(go=["c19obs", "c19gen"], pregen=[("c19gen", ["coq"], "GenWrappers.v")], extract=[("c19", "ExtractC19.v", "c19_driver.ml")]),
    "C03": dict(go=["c03obs", "lexobs"]),
    "C02": dict(go=["c02obs"], extract=[("clos", "ExtractClos.v", "clos_driver.ml")]),
    "core": dict(go=["lexobs", "astobs", "evalobs"],
                 extract=[("lexer", "ExtractLexer.v", "lexer_driver.ml"), ("parser", "ExtractParser.v", "parser_driver.ml"),
                          ("compiler", "ExtractCompiler.v", "compiler_driver.ml"), ("vm", "ExtractVM.v", "vm_driver.ml"),
                          ("sem", "ExtractSem.v", "sem_driver.ml")]),
}
