// c18obs: incremental (REPL-style) evaluation on ONE compiler and ONE VM, exactly as
// cmd/risor/repl getEvaluator does, next to whole-program evaluation.
//
//	c18obs < lines "[name:hexmodule;name:hexmodule@]hexpiece,hexpiece,..."  ->
//	  INC <r1>|<r2>|... GLOBALS name=val;...  \t WHOLE <result> GLOBALS name=val;...
//	piece result: OK <val> | REJECT parse | REJECT compile left=<opcodes emitted before the rejection> syms=<n> codes=<n> | ERR <class>
//
// The evaluators run with concurrency enabled and the builtins chan / spawn, so that pieces may start threads that
// outlive them.
package main

import (
	"bufio"
	"context"
	"encoding/hex"
	"fmt"
	"os"
	"sort"
	"strings"
	"time"

	"github.com/risor-io/risor"
	"github.com/risor-io/risor/builtins"
	"github.com/risor-io/risor/compiler"
	"github.com/risor-io/risor/object"
	"github.com/risor-io/risor/op"
	"github.com/risor-io/risor/parser"
	"github.com/risor-io/risor/vm"
)

func val(o object.Object, depth int) string {
	if depth > 20 {
		return "(deep)"
	}
	switch o := o.(type) {
	case nil:
		return "(gonil)"
	case *object.NilType:
		return "(nil)"
	case *object.Bool:
		if o.Value() {
			return "(b 1)"
		}
		return "(b 0)"
	case *object.Int:
		return fmt.Sprintf("(i %d)", o.Value())
	case *object.String:
		return "(s " + hex.EncodeToString([]byte(o.Value())) + ")"
	case *object.List:
		var parts []string
		for _, it := range o.Value() {
			parts = append(parts, val(it, depth+1))
		}
		return "(l " + strings.Join(parts, " ") + ")"
	case *object.Map:
		m := o.Value()
		var keys []string
		for k := range m {
			keys = append(keys, k)
		}
		sort.Strings(keys)
		var parts []string
		for _, k := range keys {
			parts = append(parts, "("+hex.EncodeToString([]byte(k))+" "+val(m[k], depth+1)+")")
		}
		return "(m " + strings.Join(parts, " ") + ")"
	case *object.Function:
		return "(f)"
	case *object.Builtin:
		return "(bi)"
	}
	return "(other " + string(o.Type()) + ")"
}

func errClass(m string) string {
	switch {
	case strings.HasPrefix(m, "panic:"):
		return "XPanic"
	case strings.Contains(m, "context deadline"):
		return "TIMEOUT"
	}
	i := strings.Index(m, ":")
	if i > 0 && i < 24 {
		return "X" + strings.ReplaceAll(m[:i], " ", "_")
	}
	return "XOther"
}

func globalsOf(machine *vm.VirtualMachine, code *compiler.Code) string {
	if machine == nil || code == nil {
		return ""
	}
	names := code.GlobalNames()
	sort.Strings(names)
	var parts []string
	for _, n := range names {
		if hostNames[n] {
			continue
		}
		o, err := machine.Get(n)
		if err != nil {
			parts = append(parts, n+"=?")
			continue
		}
		parts = append(parts, n+"="+val(o, 0))
	}
	return strings.Join(parts, ";")
}

// what a rejected piece left in the compiler's main code: the instructions it had emitted before the rejection
// (names of the opcodes), the global symbols it had declared, the code objects (functions) it had created, how many of the
// functions it opened directly in the main code were never closed (open: a function of the main code is closed when the
// load of its function object has been emitted there; a rejection inside a function body leaves the compiler inside it),
// and the size of the main code's constant table (a full table rejects whatever follows)
func leftBehind(main *compiler.Code, n0, g0, f0 int) string {
	var ops []string
	loads := 0
	for i := n0; i < main.InstructionCount(); {
		info := op.GetInfo(main.Instruction(i))
		name := info.Name
		if name == "" {
			name = fmt.Sprintf("OP%d", main.Instruction(i))
		}
		if (main.Instruction(i) == op.LoadConst || main.Instruction(i) == op.LoadClosure) && i+1 < main.InstructionCount() {
			if k := int(main.Instruction(i + 1)); k < main.ConstantsCount() {
				if _, isFn := main.Constant(k).(*compiler.Function); isFn {
					loads++
				}
			}
		}
		ops = append(ops, name)
		i += 1 + info.OperandCount
	}
	left := "-"
	if len(ops) > 0 {
		left = strings.Join(ops, ",")
	}
	all := main.Flatten()
	direct := 0
	for _, c := range all[f0:] {
		if c.Parent() == main {
			direct++
		}
	}
	if len(left) > 400 {
		left = left[:400] + "..."
	}
	return fmt.Sprintf(" left=%s syms=%d codes=%d open=%d consts=%d", left, main.GlobalsCount()-g0, len(all)-f0, direct-loads, main.ConstantsCount())
}

func main() {
	w := bufio.NewWriterSize(os.Stdout, 1<<20)
	defer w.Flush()
	sc := bufio.NewScanner(os.Stdin)
	sc.Buffer(make([]byte, 1<<20), 1<<24)
	for sc.Scan() {
		mods, pieces := splitCase(sc.Text())
		func() {
			defer func() {
				if r := recover(); r != nil {
					fmt.Fprintf(w, "GOPANIC %v\n", strings.ReplaceAll(fmt.Sprint(r), "\n", " "))
				}
			}()
			ctx, cancel := context.WithTimeout(context.Background(), 3*time.Second)
			defer cancel()
			var trace []string
			printFn := object.NewBuiltin("print", func(ctx context.Context, args ...object.Object) object.Object {
				var parts []string
				for _, a := range args {
					parts = append(parts, val(a, 0))
				}
				trace = append(trace, "("+strings.Join(parts, " ")+")")
				return object.Nil
			})
			hostFn := object.NewBuiltin("hostfn", func(ctx context.Context, args ...object.Object) object.Object {
				return object.NewInt(int64(len(args)))
			})
			mkcfg := func() *risor.Config {
				// host-provided globals: two builtins, a number and a list (fresh objects for each evaluator)
				globals := map[string]any{"len": builtins.Builtins()["len"], "print": printFn, "hostfn": hostFn,
					"limit": int64(10), "hostlist": []any{int64(1), int64(2)},
					"chan": builtins.Builtins()["chan"], "spawn": builtins.Builtins()["spawn"]}
				globals["setfuse"], globals["fuse"] = fuseBuiltins()
				if mods != nil {
					return risor.NewConfig(risor.WithoutDefaultGlobals(), risor.WithGlobals(globals), risor.WithConcurrency(),
						risor.WithImporter(newImporter(mods, globals)))
				}
				return risor.NewConfig(risor.WithoutDefaultGlobals(), risor.WithGlobals(globals), risor.WithConcurrency())
			}
			cfg := mkcfg()
			// ---- incremental, as the REPL's evaluator
			var c *compiler.Compiler
			var v *vm.VirtualMachine
			var lastCode *compiler.Code
			var results []string
			for _, src := range pieces {
				if c == nil {
					var err error
					c, err = compiler.New(cfg.CompilerOpts()...)
					if err != nil {
						results = append(results, "ERR newcompiler")
						continue
					}
				}
				ast, err := parser.Parse(ctx, src)
				if err != nil {
					results = append(results, "REJECT parse")
					continue
				}
				n0, g0, f0 := c.Code().InstructionCount(), c.Code().GlobalsCount(), len(c.Code().Flatten())
				code, err := c.Compile(ast)
				if err != nil {
					results = append(results, "REJECT compile"+leftBehind(c.Code(), n0, g0, f0))
					continue
				}
				lastCode = code
				if v == nil {
					v = vm.New(code, cfg.VMOpts()...)
				}
				if err := v.Run(ctx); err != nil {
					v.SetIP(code.InstructionCount())
					results = append(results, "ERR "+errClass(err.Error()))
					continue
				}
				res, ok := v.TOS()
				if !ok || res == nil {
					results = append(results, "OK (nil)")
				} else {
					results = append(results, "OK "+val(res, 0))
				}
			}
			incTrace := strings.Join(trace, "")
			inc := "INC " + strings.Join(results, "|") + " GLOBALS " + globalsOf(v, lastCode) + " TRACE " + incTrace
			// ---- whole program on fresh compiler and VM
			cfg = mkcfg()
			trace = nil
			whole := "WHOLE "
			src := strings.Join(pieces, "\n")
			ast, err := parser.Parse(ctx, src)
			if err != nil {
				whole += "REJECT parse"
			} else if code, err := compiler.Compile(ast, cfg.CompilerOpts()...); err != nil {
				whole += "REJECT compile"
			} else {
				v2 := vm.New(code, cfg.VMOpts()...)
				if err := v2.Run(ctx); err != nil {
					whole += "ERR " + errClass(err.Error()) + " GLOBALS " + globalsOf(v2, code)
				} else {
					res, ok := v2.TOS()
					r := "(nil)"
					if ok && res != nil {
						r = val(res, 0)
					}
					whole += "OK " + r + " GLOBALS " + globalsOf(v2, code)
				}
			}
			whole += " TRACE " + strings.Join(trace, "")
			fmt.Fprintf(w, "%s\t%s\n", inc, whole)
		}()
	}
}
