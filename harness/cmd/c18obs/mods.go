package main

import (
	"context"
	"encoding/hex"
	"fmt"
	"sort"
	"strings"

	"github.com/risor-io/risor/compiler"
	"github.com/risor-io/risor/object"
	"github.com/risor-io/risor/parser"
)

// A case line may begin with the local modules of the case: `name:hexsource;name:hexsource@hexpiece,hexpiece,...`.
// They are served by an importer that compiles the module on every Import call (the VM caches the module it evaluated
// successfully); the modules see the host-provided globals, among them the fuse: `setfuse(n)` stores a number on the host
// side, `fuse()` reads it - the way the top-level code of a module can be made to fail in one piece and succeed in a later one.
func splitCase(line string) (mods map[string]string, pieces []string) {
	if i := strings.Index(line, "@"); i >= 0 {
		mods = map[string]string{}
		for _, m := range strings.Split(line[:i], ";") {
			if j := strings.Index(m, ":"); j > 0 {
				b, _ := hex.DecodeString(m[j+1:])
				mods[m[:j]] = string(b)
			}
		}
		line = line[i+1:]
	}
	for _, h := range strings.Split(line, ",") {
		b, _ := hex.DecodeString(h)
		pieces = append(pieces, string(b))
	}
	return mods, pieces
}

type memImporter struct {
	mods  map[string]string
	names []string
}

func (m *memImporter) Import(ctx context.Context, name string) (*object.Module, error) {
	src, ok := m.mods[name]
	if !ok {
		return nil, fmt.Errorf("import error: module %q not found", name)
	}
	ast, err := parser.Parse(ctx, src)
	if err != nil {
		return nil, err
	}
	code, err := compiler.Compile(ast, compiler.WithGlobalNames(m.names))
	if err != nil {
		return nil, err
	}
	return object.NewModule(name, code), nil
}

func newImporter(mods map[string]string, globals map[string]any) *memImporter {
	var names []string
	for n := range globals {
		names = append(names, n)
	}
	sort.Strings(names)
	return &memImporter{mods: mods, names: names}
}

// the fuse of one evaluator
func fuseBuiltins() (set, get *object.Builtin) {
	var n int64
	set = object.NewBuiltin("setfuse", func(ctx context.Context, args ...object.Object) object.Object {
		if len(args) == 1 {
			if i, ok := args[0].(*object.Int); ok {
				n = i.Value()
			}
		}
		return object.Nil
	})
	get = object.NewBuiltin("fuse", func(ctx context.Context, args ...object.Object) object.Object {
		return object.NewInt(n)
	})
	return set, get
}

var hostNames = map[string]bool{"len": true, "print": true, "hostfn": true, "chan": true, "spawn": true, "setfuse": true, "fuse": true}
