// c03obs: crash-isolation child for C03.  Reads hex sources from stdin, one per line, and for each
// prints "BEGIN <n>" (flushed) before touching it and one result line after:
//
//	R <n> <stage outcomes...>
//
// stages: parse (incl. rendering the error), compile, eval under a 2 s context with the default
// globals minus the modules that reach the real machine (os, exec, http, net, ...) and a virtual OS.
// A Go panic that escapes an API call is caught HERE and reported as GOPANIC:<api>:<text> - that is
// a violation; if this process dies (fatal error, stack overflow, OOM kill) the parent sees a BEGIN
// without its R line.
//
// A line may also have the form
//
//	@ <reps> <hex source> [<module name>=<hex source>]...
//
// the evaluation is then made <reps> times (whether threads of a script collide depends on the schedule), each under its
// own 2 s context, and the named modules are written to a fresh directory that the evaluations import from (local
// importer).  The result line reports the first evaluation's outcome, "reps:<n>" and any GOPANIC of a later one.
package main

import (
	"bufio"
	"context"
	"encoding/hex"
	"fmt"
	"os"
	"path/filepath"
	"strconv"
	"strings"
	"syscall"
	"time"

	"github.com/risor-io/risor"
	"github.com/risor-io/risor/compiler"
	"github.com/risor-io/risor/errz"
	"github.com/risor-io/risor/object"
	ros "github.com/risor-io/risor/os"
	"github.com/risor-io/risor/parser"
)

func short(s string) string {
	s = strings.ReplaceAll(s, "\n", " ")
	s = strings.ReplaceAll(s, "\t", " ")
	if len(s) > 120 {
		s = s[:120]
	}
	return strings.ReplaceAll(s, " ", "_")
}

func guard(api string, out *[]string, f func()) (panicked bool) {
	defer func() {
		if r := recover(); r != nil {
			*out = append(*out, "GOPANIC:"+api+":"+short(fmt.Sprint(r)))
			panicked = true
		}
	}()
	f()
	return false
}

func errClass(m string) string {
	switch {
	case strings.HasPrefix(m, "panic:"):
		return "recovered-panic"
	case strings.Contains(m, "context deadline") || strings.Contains(m, "context canceled"):
		return "timeout"
	}
	i := strings.Index(m, ":")
	if i > 0 && i < 24 {
		return strings.ReplaceAll(m[:i], " ", "_")
	}
	return "other"
}

var denied = []string{"os", "exec", "http", "net", "ssh", "sql", "pgx", "aws", "redis", "kubernetes", "vault", "slack", "github",
	"playwright", "cat", "cd", "cp", "ls", "open", "setenv", "unsetenv", "getenv", "fetch", "nslookup", "exit", "spawn_process",
	"filepath", "tablewriter", "gha", "image", "sched", "echarts", "cli", "isatty", "goquery", "template", "dns", "smtp"}

func main() {
	// private copies of the two descriptors of the line protocol: a script that runs under the real OS and touches
	// os.stdout / os.stdin makes risor close these files of the PROCESS when its context ends
	stdin, stdout := os.Stdin, os.Stdout
	if fd, err := syscall.Dup(0); err == nil {
		stdin = os.NewFile(uintptr(fd), "protocol-in")
	}
	if fd, err := syscall.Dup(1); err == nil {
		stdout = os.NewFile(uintptr(fd), "protocol-out")
	}
	w := bufio.NewWriterSize(stdout, 1<<16)
	defer w.Flush()
	sc := bufio.NewScanner(stdin)
	sc.Buffer(make([]byte, 1<<22), 1<<26)
	n := 0
	for sc.Scan() {
		text := sc.Text()
		if text == "?globals" {
			for _, l := range describeGlobals() {
				fmt.Fprintln(w, l)
			}
			w.Flush()
			continue
		}
		if strings.HasPrefix(text, "% ") {
			// option route (options.go): the API driven by option values
			f := strings.Fields(text)
			fmt.Fprintf(w, "BEGIN %d\n", n)
			w.Flush()
			res := []string{"BADLINE"}
			if len(f) == 3 {
				k, _ := strconv.Atoi(f[1])
				js, _ := hex.DecodeString(f[2])
				if k < 1 {
					k = 1
				}
				res = runOptionCase(k, js)
			}
			fmt.Fprintf(w, "R %d %s\n", n, strings.Join(res, " "))
			w.Flush()
			n++
			continue
		}
		reps := 1
		moddir := ""
		if strings.HasPrefix(text, "@ ") {
			f := strings.Fields(text)
			if len(f) >= 3 {
				reps, _ = strconv.Atoi(f[1])
				text = f[2]
				if len(f) > 3 {
					moddir, _ = os.MkdirTemp("", "c03mods-")
					for _, m := range f[3:] {
						if i := strings.Index(m, "="); i > 0 {
							mb, _ := hex.DecodeString(m[i+1:])
							_ = os.WriteFile(filepath.Join(moddir, filepath.Base(m[:i])+".risor"), mb, 0o644)
						}
					}
				}
			}
		}
		if reps < 1 {
			reps = 1
		}
		b, _ := hex.DecodeString(text)
		src := string(b)
		fmt.Fprintf(w, "BEGIN %d\n", n)
		w.Flush()
		var out []string
		evalOpts := func(vos ros.OS) []risor.Option {
			o := []risor.Option{risor.WithOS(vos), risor.WithConcurrency(), risor.WithoutGlobals(denied...)}
			if moddir != "" {
				o = append(o, risor.WithLocalImporter(moddir))
			}
			return o
		}
		ctx, cancel := context.WithTimeout(context.Background(), 2*time.Second)
		var perr error
		parsedOK := false
		var compiled *compiler.Code
		guard("parser.Parse", &out, func() {
			prog, err := parser.Parse(ctx, src)
			perr = err
			if err != nil {
				out = append(out, "parse:ERR")
				return
			}
			parsedOK = true
			out = append(out, "parse:OK")
			guard("Program.String", &out, func() { _ = prog.String() })
			guard("compiler.Compile", &out, func() {
				// for the host-call route: the code as the embedding API compiles it (the default globals are known names)
				if code, err := compiler.Compile(prog, risor.NewConfig(evalOpts(ros.NewVirtualOS(ctx))...).CompilerOpts()...); err == nil {
					compiled = code
				}
				if _, err := compiler.Compile(prog); err != nil {
					out = append(out, "compile:ERR")
					guard("compile error.Error", &out, func() { _ = err.Error() })
				} else {
					out = append(out, "compile:OK")
				}
			})
		})
		if perr != nil {
			guard("error.Error", &out, func() { _ = perr.Error() })
			if fe, ok := perr.(errz.FriendlyError); ok {
				guard("FriendlyErrorMessage", &out, func() { _ = fe.FriendlyErrorMessage() })
			}
		}
		if parsedOK {
			guard("risor.Eval", &out, func() {
				vos := ros.NewVirtualOS(ctx)
				res, err := risor.Eval(ctx, src, evalOpts(vos)...)
				if err != nil {
					out = append(out, "eval:ERR:"+errClass(err.Error()))
					guard("eval error.Error", &out, func() { _ = err.Error() })
					if fe, ok := err.(errz.FriendlyError); ok {
						guard("eval FriendlyErrorMessage", &out, func() { _ = fe.FriendlyErrorMessage() })
					}
				} else {
					out = append(out, "eval:OK")
					// the host inspects the result
					guard("result.Inspect", &out, func() {
						if res != nil {
							_ = res.Inspect()
						}
					})
					guard("result.Interface", &out, func() {
						if res != nil {
							_ = res.Interface()
						}
					})
					guard("result.Equals", &out, func() {
						if res != nil {
							_ = res.Equals(res)
						}
					})
					if h, ok := res.(object.Hashable); ok {
						guard("result.HashKey", &out, func() { _ = h.HashKey() })
					}
				}
			})
		}
		if parsedOK && reps > 1 {
			// the same evaluation again and again: only that it returns is looked at
			for r := 1; r < reps; r++ {
				rctx, rcancel := context.WithTimeout(context.Background(), 2*time.Second)
				bad := guard("risor.Eval", &out, func() {
					_, _ = risor.Eval(rctx, src, evalOpts(ros.NewVirtualOS(rctx))...)
				})
				rcancel()
				if bad {
					break
				}
			}
			out = append(out, fmt.Sprintf("reps:%d", reps))
		}
		if compiled != nil {
			// the host calls into the compiled code by name: every global the program declares (whether or not it ever
			// got a value, whether or not it is a function) and a name it does not have
			names := append([]string{}, compiled.GlobalNames()...)
			if len(names) > 4 {
				names = names[len(names)-4:]
			}
			names = append(names, "no_such_name")
			for _, name := range names {
				cctx, ccancel := context.WithTimeout(context.Background(), 2*time.Second)
				guard("risor.Call", &out, func() {
					vos := ros.NewVirtualOS(cctx)
					_, err := risor.Call(cctx, compiled, name, nil, evalOpts(vos)...)
					if err != nil {
						guard("call error.Error", &out, func() { _ = err.Error() })
					}
				})
				ccancel()
			}
			out = append(out, fmt.Sprintf("call:%d", len(names)))
		}
		cancel()
		if moddir != "" {
			_ = os.RemoveAll(moddir)
		}
		fmt.Fprintf(w, "R %d %s\n", n, strings.Join(out, " "))
		w.Flush()
		n++
	}
}
