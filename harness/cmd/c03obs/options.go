// Option route of c03obs: the embedding API driven by OPTION values, not by source text.
//
// Input line
//
//	% <reps> <hex JSON>
//
// with JSON {"opts": [[op, arg...], ...], "sources": [src, ...], "call": [name, ...]}.  The option list is built from the
// description (see buildOptions) and handed to every entry point an embedder has: NewConfig and the accessors of the Config,
// Eval (every source), compiler.Compile with the Config's compiler options followed by EvalCode, and Call (every name).
// Everything is repeated <reps> times with option values built anew (deny lists and overrides are Go maps: which entry is
// applied first differs from run to run) and, within one repetition, the same option VALUES serve all calls (an embedder
// may keep them).  A Go panic escaping any call is reported as GOPANIC:<api>:<text>.
//
// The line "?globals" prints the default globals: "G <name>=<kind>[:attr,attr...]" (kind m = module, b = builtin, o = other).
package main

import (
	"context"
	"encoding/json"
	"fmt"
	"os"
	"reflect"
	"sort"
	"strings"
	"time"

	"github.com/risor-io/risor"
	"github.com/risor-io/risor/compiler"
	"github.com/risor-io/risor/errz"
	"github.com/risor-io/risor/object"
	ros "github.com/risor-io/risor/os"
	"github.com/risor-io/risor/parser"
	"github.com/risor-io/risor/vm"
)

type optSpec struct {
	Opts    [][]any  `json:"opts"`
	Sources []string `json:"sources"`
	Call    []string `json:"call"`
}

type hostStruct struct {
	A int
	B string
	C []int
	P *hostStruct
}

func (h *hostStruct) Get() int { return h.A }

func hostBuiltin(name string) *object.Builtin {
	return object.NewBuiltin(name, func(ctx context.Context, args ...object.Object) object.Object {
		return object.NewInt(int64(len(args)))
	})
}

// hostModule builds module foo { baz: builtin, k: 7, bar: module { baz: builtin, deep: module { x: builtin } } }
func hostModule(name string) *object.Module {
	deep := object.NewBuiltinsModule("deep", map[string]object.Object{"x": hostBuiltin("x")})
	bar := object.NewBuiltinsModule("bar", map[string]object.Object{"baz": hostBuiltin("baz"), "deep": deep, "n": object.NewInt(3)})
	return object.NewBuiltinsModule(name, map[string]object.Object{"baz": hostBuiltin("baz"), "bar": bar, "k": object.NewInt(7)})
}

// goValue turns a value description into a Go value: {"k": kind, "v": payload}
func goValue(d any) any {
	m, ok := d.(map[string]any)
	if !ok {
		return d // plain JSON scalar: string, float64, bool, nil
	}
	kind, _ := m["k"].(string)
	v := m["v"]
	num := func() float64 { f, _ := v.(float64); return f }
	str := func() string { s, _ := v.(string); return s }
	switch kind {
	case "nil":
		return nil
	case "int":
		return int(num())
	case "int64":
		return int64(num())
	case "i8":
		return int8(num())
	case "u8":
		return uint8(num())
	case "u32":
		return uint32(num())
	case "f32":
		return float32(num())
	case "float":
		return num()
	case "str":
		return str()
	case "bool":
		b, _ := v.(bool)
		return b
	case "bytes":
		return []byte(str())
	case "ints":
		return []int{1, 2, 3}
	case "strs":
		return []string{"a", "", "b"}
	case "anys":
		var out []any
		if l, ok := v.([]any); ok {
			for _, e := range l {
				out = append(out, goValue(e))
			}
		}
		return out
	case "map":
		out := map[string]any{}
		if mm, ok := v.(map[string]any); ok {
			for k, e := range mm {
				out[k] = goValue(e)
			}
		}
		return out
	case "mapint":
		return map[string]int{"a": 1, "": 2}
	case "nilmap":
		return map[string]any(nil)
	case "nilslice":
		return []int(nil)
	case "nilbytes":
		return []byte(nil)
	case "nilptr":
		return (*hostStruct)(nil)
	case "nilintptr":
		return (*int)(nil)
	case "intptr":
		x := 5
		return &x
	case "struct":
		return &hostStruct{A: 1, B: "b", C: []int{1}, P: &hostStruct{A: 2}}
	case "structval":
		return hostStruct{A: 1, B: "b"}
	case "time":
		return time.Unix(1700000000, 0).UTC()
	case "error":
		return fmt.Errorf("host error %s", str())
	case "array":
		return [3]int{1, 2, 3}
	case "emptystruct":
		return struct{}{}
	case "obj:int":
		return object.NewInt(int64(num()))
	case "obj:str":
		return object.NewString(str())
	case "obj:nil":
		return object.Nil
	case "obj:list":
		return object.NewList([]object.Object{object.NewInt(1), object.Nil})
	case "obj:map":
		return object.NewMap(map[string]object.Object{"a": object.NewInt(1)})
	case "obj:builtin":
		return hostBuiltin(str())
	case "obj:module":
		return hostModule(str())
	case "obj:emptymodule":
		return object.NewBuiltinsModule(str(), nil)
	case "obj:error":
		return object.Errorf("host error object")
	case "obj:typednil-module":
		return (*object.Module)(nil)
	case "obj:typednil-int":
		return (*object.Int)(nil)
	// kinds the converters reject (the rejection path is part of option handling)
	case "chan":
		return make(chan int)
	case "func":
		return func(a int) int { return a + 1 }
	case "complex":
		return complex(1, 2)
	case "uintptr":
		return uintptr(7)
	case "mapintkey":
		return map[int]string{1: "a"}
	case "duration":
		return 3 * time.Second
	}
	return nil
}

type nopImporter struct{}

func (nopImporter) Import(ctx context.Context, name string) (*object.Module, error) {
	return nil, fmt.Errorf("no module %q", name)
}

// buildOptions: one risor.Option per entry of the description.
func buildOptions(ctx context.Context, spec [][]any, dir string) []risor.Option {
	var opts []risor.Option
	sarg := func(e []any, i int) string {
		if i < len(e) {
			s, _ := e[i].(string)
			return s
		}
		return ""
	}
	for _, e := range spec {
		if len(e) == 0 {
			continue
		}
		op, _ := e[0].(string)
		switch op {
		case "without":
			var names []string
			for i := 1; i < len(e); i++ {
				names = append(names, sarg(e, i))
			}
			opts = append(opts, risor.WithoutGlobals(names...))
		case "without1":
			opts = append(opts, risor.WithoutGlobal(sarg(e, 1)))
		case "override":
			var v any
			if len(e) > 2 {
				v = goValue(e[2])
			}
			opts = append(opts, risor.WithGlobalOverride(sarg(e, 1), v))
		case "global":
			var v any
			if len(e) > 2 {
				v = goValue(e[2])
			}
			opts = append(opts, risor.WithGlobal(sarg(e, 1), v))
		case "globals":
			g := map[string]any{}
			if len(e) > 1 {
				if mm, ok := e[1].(map[string]any); ok {
					for k, d := range mm {
						g[k] = goValue(d)
					}
				}
			}
			opts = append(opts, risor.WithGlobals(g))
		case "globals-nil":
			opts = append(opts, risor.WithGlobals(nil))
		case "nodefaults":
			opts = append(opts, risor.WithoutDefaultGlobals())
		case "concurrency":
			opts = append(opts, risor.WithConcurrency())
		case "listeners":
			opts = append(opts, risor.WithListenersAllowed())
		case "filename":
			opts = append(opts, risor.WithFilename(sarg(e, 1)))
		case "os":
			switch sarg(e, 1) {
			case "nil":
				opts = append(opts, risor.WithOS(nil))
			default:
				opts = append(opts, risor.WithOS(ros.NewVirtualOS(ctx)))
			}
		case "importer":
			switch sarg(e, 1) {
			case "nil":
				opts = append(opts, risor.WithImporter(nil))
			default:
				opts = append(opts, risor.WithImporter(nopImporter{}))
			}
		case "localimporter":
			p := sarg(e, 1)
			if p == "DIR" {
				p = dir
			}
			opts = append(opts, risor.WithLocalImporter(p))
		case "vm":
			switch sarg(e, 1) {
			case "nil":
				opts = append(opts, risor.WithVM(nil))
			default:
				if m, err := vm.NewEmpty(); err == nil {
					opts = append(opts, risor.WithVM(m))
				}
			}
		}
	}
	return opts
}

func fmtErr(api string, out *[]string, err error) {
	if err == nil {
		return
	}
	guard(api+" error.Error", out, func() { _ = err.Error() })
	if fe, ok := err.(errz.FriendlyError); ok {
		guard(api+" FriendlyErrorMessage", out, func() { _ = fe.FriendlyErrorMessage() })
	}
}

// runOptionCase drives the API with the described configuration; returns the outcome words.
func runOptionCase(reps int, js []byte) []string {
	var spec optSpec
	var out []string
	if err := json.Unmarshal(js, &spec); err != nil {
		return []string{"BADSPEC"}
	}
	if len(spec.Sources) == 0 {
		spec.Sources = []string{"1 + 1"}
	}
	dir, _ := os.MkdirTemp("", "c03opt-")
	defer os.RemoveAll(dir)
	_ = os.WriteFile(dir+"/lm.risor", []byte("func two() { return 2 }\n"), 0o644)
	nOK, nErr := 0, 0
	count := func(err error) {
		if err != nil {
			nErr++
		} else {
			nOK++
		}
	}
	for r := 0; r < reps; r++ {
		before := len(out)
		ctx, cancel := context.WithTimeout(context.Background(), 2*time.Second)
		opts := buildOptions(ctx, spec.Opts, dir)
		var cfg *risor.Config
		guard("risor.NewConfig", &out, func() { cfg = risor.NewConfig(opts...) })
		if cfg != nil {
			guard("Config.Globals", &out, func() { _ = cfg.Globals() })
			guard("Config.CombinedGlobals", &out, func() { _ = cfg.CombinedGlobals() })
			guard("Config.GlobalNames", &out, func() { _ = cfg.GlobalNames() })
			guard("Config.CompilerOpts", &out, func() { _ = cfg.CompilerOpts() })
			guard("Config.VMOpts", &out, func() { _ = cfg.VMOpts() })
		}
		for _, src := range spec.Sources {
			guard("risor.Eval", &out, func() {
				res, err := risor.Eval(ctx, src, opts...)
				count(err)
				fmtErr("eval", &out, err)
				if err == nil && res != nil {
					guard("result.Inspect", &out, func() { _ = res.Inspect() })
				}
			})
			// the pre-compiled route: the Config's compiler options, then EvalCode and Call with the same options
			var code *compiler.Code
			guard("compile with Config.CompilerOpts", &out, func() {
				prog, err := parser.Parse(ctx, src)
				if err != nil {
					return
				}
				var copts []compiler.Option
				if cfg != nil {
					copts = cfg.CompilerOpts()
				} else {
					copts = risor.NewConfig(opts...).CompilerOpts()
				}
				c, err := compiler.Compile(prog, copts...)
				fmtErr("compile", &out, err)
				if err == nil {
					code = c
				}
			})
			if code == nil {
				continue
			}
			guard("risor.EvalCode", &out, func() {
				res, err := risor.EvalCode(ctx, code, opts...)
				count(err)
				fmtErr("evalcode", &out, err)
				if err == nil && res != nil {
					guard("result.Inspect", &out, func() { _ = res.Inspect() })
				}
			})
			for _, name := range spec.Call {
				guard("risor.Call", &out, func() {
					_, err := risor.Call(ctx, code, name, []object.Object{object.NewInt(1)}, opts...)
					count(err)
					fmtErr("call", &out, err)
				})
			}
		}
		cancel()
		if len(out) > before {
			out = append(out, fmt.Sprintf("at-rep:%d", r))
			break
		}
	}
	out = append(out, fmt.Sprintf("opt-ok:%d opt-err:%d reps:%d", nOK, nErr, reps))
	return out
}

// describeGlobals prints what the default configuration provides: names, their kind and the attributes of modules.
func describeGlobals() []string {
	var lines []string
	g := risor.NewConfig().Globals()
	if len(g) == 0 {
		g = risor.DefaultGlobals()
	}
	names := make([]string, 0, len(g))
	for n := range g {
		names = append(names, n)
	}
	sort.Strings(names)
	for _, n := range names {
		switch v := g[n].(type) {
		case *object.Module:
			var attrs []string
			// the keys of the module's attribute table (read-only reflection; no attribute list is exported)
			if f := reflect.ValueOf(v).Elem().FieldByName("builtins"); f.IsValid() && f.Kind() == reflect.Map {
				for _, k := range f.MapKeys() {
					attrs = append(attrs, k.String())
				}
			}
			sort.Strings(attrs)
			lines = append(lines, "G "+n+"=m:"+strings.Join(attrs, ","))
		case *object.Builtin:
			lines = append(lines, "G "+n+"=b")
		default:
			lines = append(lines, "G "+n+"=o")
		}
	}
	return lines
}
