// c08hist: histories over ONE proxied Go struct for property C08 ("a struct field read is a value whose contents equal
// the Go original", "a field written from a script reads back as the value written, from the script and from Go").
//
// The host gives the script a *Srv.  A history interleaves script-side reads and writes through nested fields
// (pointer-to-struct, interface holding a pointer, struct value) with Go-side changes made by methods the script
// calls (a pointer replaced by a new struct, a struct value overwritten).  Every read must show the CURRENT Go state:
// a proxy that remembers what a field held earlier shows up as a stale read or as a write the host never sees.
//
// stdin: one history per line: space separated ops
//
//	rq ri ra          out.append(srv.Quota.Max / srv.Inner.Max / srv.Any.Max)
//	wq:N wi:N wa:N    srv.Quota.Max = N / srv.Inner.Max = N / srv.Any.Max = N
//	reload            srv.Reload()      (Go: Quota = &Quota{Max: old*100+1})
//	seti:N seta:N     srv.SetInner(N) / srv.SetAny(N)   (Go: Inner = Quota{Max: N} / Any = &Quota{Max: N})
//	swap              srv.Swap()        (Go: Quota, Spare = Spare, Quota)
//	gq gi ga          out.append(srv.GetQ() / GetI() / GetA())     (Go-side reads)
//	hold rh wh:N      q := srv.Quota / out.append(q.Max) / q.Max = N      (a reference kept by the script)
//	sq:N              srv.Quota = {"Max": N}   (the script replaces the pointer: a map converts to a new struct)
//
// stdout: per history one line: OK <comma separated ints> | GO <q> <i> <a> <spare>   or   ERR <message>
package main

import (
	"bufio"
	"context"
	"fmt"
	"os"
	"strings"
	"time"

	"github.com/risor-io/risor"
	"github.com/risor-io/risor/object"
)

type Quota struct {
	Max  int
	Name string
}

type Srv struct {
	Quota *Quota
	Spare *Quota
	Inner Quota
	Any   any
}

func (s *Srv) Reload()        { s.Quota = &Quota{Max: s.Quota.Max*100 + 1, Name: "re"} }
func (s *Srv) SetInner(n int) { s.Inner = Quota{Max: n} }
func (s *Srv) SetAny(n int)   { s.Any = &Quota{Max: n} }
func (s *Srv) Swap()          { s.Quota, s.Spare = s.Spare, s.Quota }
func (s *Srv) GetQ() int      { return s.Quota.Max }
func (s *Srv) GetI() int      { return s.Inner.Max }
func (s *Srv) GetA() int      { return s.Any.(*Quota).Max }

func render(ops []string) string {
	var b strings.Builder
	b.WriteString("out := []\n")
	for _, op := range ops {
		arg := ""
		if i := strings.IndexByte(op, ':'); i >= 0 {
			op, arg = op[:i], op[i+1:]
		}
		switch op {
		case "rq":
			b.WriteString("out.append(srv.Quota.Max)\n")
		case "ri":
			b.WriteString("out.append(srv.Inner.Max)\n")
		case "ra":
			b.WriteString("out.append(srv.Any.Max)\n")
		case "wq":
			b.WriteString("srv.Quota.Max = " + arg + "\n")
		case "wi":
			b.WriteString("srv.Inner.Max = " + arg + "\n")
		case "wa":
			b.WriteString("srv.Any.Max = " + arg + "\n")
		case "reload":
			b.WriteString("srv.Reload()\n")
		case "swap":
			b.WriteString("srv.Swap()\n")
		case "seti":
			b.WriteString("srv.SetInner(" + arg + ")\n")
		case "seta":
			b.WriteString("srv.SetAny(" + arg + ")\n")
		case "gq":
			b.WriteString("out.append(srv.GetQ())\n")
		case "gi":
			b.WriteString("out.append(srv.GetI())\n")
		case "ga":
			b.WriteString("out.append(srv.GetA())\n")
		case "hold":
			b.WriteString("q = srv.Quota\n")
		case "rh":
			b.WriteString("out.append(q.Max)\n")
		case "wh":
			b.WriteString("q.Max = " + arg + "\n")
		case "sq":
			b.WriteString("srv.Quota = {\"Max\": " + arg + "}\n")
		}
	}
	b.WriteString("out\n")
	return b.String()
}

func main() {
	w := bufio.NewWriterSize(os.Stdout, 1<<20)
	defer w.Flush()
	sc := bufio.NewScanner(os.Stdin)
	sc.Buffer(make([]byte, 1<<20), 1<<24)
	for sc.Scan() {
		ops := strings.Fields(sc.Text())
		if len(ops) > 0 && ops[0] == "SRC" {
			fmt.Fprintln(w, strings.ReplaceAll(render(ops[1:]), "\n", "\\n"))
			continue
		}
		func() {
			defer func() {
				if r := recover(); r != nil {
					fmt.Fprintf(w, "ERR escaped panic: %v\n", strings.ReplaceAll(fmt.Sprint(r), "\n", " "))
				}
			}()
			srv := &Srv{Quota: &Quota{Max: 1, Name: "q"}, Spare: &Quota{Max: 7, Name: "s"}, Inner: Quota{Max: 2}, Any: &Quota{Max: 3}}
			ctx, cancel := context.WithTimeout(context.Background(), 20*time.Second)
			defer cancel()
			src := "q := nil\n" + render(ops)
			res, err := risor.Eval(ctx, src, risor.WithGlobal("srv", srv))
			if err != nil {
				fmt.Fprintf(w, "ERR %s\n", strings.ReplaceAll(err.Error(), "\n", " "))
				return
			}
			var parts []string
			if l, ok := res.(*object.List); ok {
				for _, it := range l.Value() {
					parts = append(parts, it.Inspect())
				}
			} else {
				parts = append(parts, "?"+res.Inspect())
			}
			a := -1
			if q, ok := srv.Any.(*Quota); ok {
				a = q.Max
			}
			fmt.Fprintf(w, "OK %s | GO %d %d %d %d\n", strings.Join(parts, ","), srv.Quota.Max, srv.Inner.Max, a, srv.Spare.Max)
		}()
	}
}
