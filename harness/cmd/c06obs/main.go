// c06obs: implementation-side observations for C06 (cancelling the context stops the evaluation and everything
// it started).
//
// stdin: one case per line, JSON {"id","src","instant":"pre"|"burst"|"mark","delay_us":N}
//   pre   : the context is cancelled before risor.Eval is called
//   burst : cancelled right after the evaluation's goroutine was started (first instruction burst)
//   mark  : cancelled delay_us after the program called the host builtin mark()
// The program may call the host builtin tick(), which counts script activity.
//
// stdout: id \t returned latency_us errclass value ticks_at_return ticks_settled ticks_later g_before g_after settled stuck
//   errclass: nil | ctx (errors.Is(err, ctx.Err())) | ctxtext (same text, identity lost) | waiterr | other(...)
//   stuck: "-" or, when the call did not return / the goroutines did not settle, the goroutines that run risor code and are
//          PARKED in an operation no context can interrupt (a bare channel send / receive, a plain sleep, a lock), seen in
//          the same state in two goroutine dumps taken apart: "<goroutine id>:<state>:<innermost risor frame>;..." - a fact
//          about the state of the process, not about elapsed time (a goroutine that merely has not been scheduled yet is
//          "runnable", one that waits for the context is in "select").
//
// {"reps": N} repeats the evaluation up to N times (statistical families: whether contenders collide depends on the schedule);
// the first repetition that is not clean is reported with "rep=<k>" appended to the error class.
package main

import (
	"bufio"
	"context"
	"encoding/json"
	"errors"
	"fmt"
	"os"
	"regexp"
	"runtime"
	"sort"
	"strings"
	"sync/atomic"
	"time"

	"github.com/risor-io/risor"
	"github.com/risor-io/risor/compiler"
	"github.com/risor-io/risor/object"
	"github.com/risor-io/risor/parser"
	"github.com/risor-io/risor/vm"
)

type tcase struct {
	ID      string `json:"id"`
	Src     string `json:"src"`
	Instant string `json:"instant"`
	Mode    string `json:"mode"` // "" / "cancel": explicit cancel; "deadline": the context ends with DeadlineExceeded
	DelayUs int    `json:"delay_us"`
	Reps    int    `json:"reps"`
	// Warm: a history of small evaluations made in this process right before the case's own evaluation (after the GC, none
	// in between).  Each runs to its end (its threads call wdone(); the harness waits for Done calls); its context is then
	// left alive until the case is over ("alive"), cancelled ("cancelled") or ended like a deadline ("expired").
	Warm []warmup `json:"warm"`
	// NeedTicks: the scenario implies that script code calls tick(): the cancellation is issued only after that many calls
	// were seen; if they never come (5 s) the case is reported with NOPROGRESS.
	NeedTicks int `json:"need_ticks"`
	// Route "vmreuse": the program is run on a VM of its own (vm.Run under the case's context; it returns and leaves threads
	// behind that wait in wait_gate()), then the host makes the invocations Calls (vm.Call of the named global functions) on
	// the SAME VM under another context (Ctx2: "background", or "cancelled" = cancelled after each call returned), then the
	// gate is opened; the case's context is cancelled at the instant as usual.  What the first invocation's threads start
	// afterwards must stop with the first context.
	Route string   `json:"route"`
	Calls []string `json:"calls"`
	Ctx2  string   `json:"ctx2"`
}

type warmup struct {
	Src  string `json:"src"`
	End  string `json:"end"`
	Done int    `json:"done"`
}

// goroutines already reported as parked by an earlier case of this process (they stay parked)
var reported = map[string]bool{}

var goHeader = regexp.MustCompile(`^goroutine (\d+) \[([^\],]+)`)

// parked lists the goroutines that have a risor frame on their stack and are blocked in a bare channel operation or a plain
// sleep: goroutine id -> "state:innermost risor frame"
func parked() map[string]string {
	buf := make([]byte, 1<<20)
	for {
		n := runtime.Stack(buf, true)
		if n < len(buf) {
			buf = buf[:n]
			break
		}
		buf = make([]byte, 2*len(buf))
	}
	out := map[string]string{}
	for _, g := range strings.Split(string(buf), "\n\n") {
		lines := strings.Split(g, "\n")
		m := goHeader.FindStringSubmatch(lines[0])
		if m == nil {
			continue
		}
		state := m[2]
		// only waits that nothing but another goroutine's action can end and that hold no lock hand-over: a bare channel
		// operation or a plain sleep.  (runnable / running / syscall = waiting for the CPU; select = can see the context;
		// lock waits are transient on a loaded machine and are left to the wall-clock path, which re-runs the case.)
		switch {
		case strings.HasPrefix(state, "chan send"), strings.HasPrefix(state, "chan receive"), state == "sleep", state == "select (no cases)":
		default:
			continue
		}
		frame := ""
		for _, l := range lines[1:] {
			if strings.HasPrefix(l, "github.com/risor-io/risor/") && !strings.HasPrefix(l, "\t") {
				frame = strings.TrimPrefix(l, "github.com/risor-io/risor/")
				if i := strings.LastIndex(frame, "("); i > 0 {
					frame = frame[:i]
				}
				break
			}
		}
		if frame == "" {
			continue
		}
		out[m[1]] = state + ":" + frame
	}
	return out
}

// stuckEvidence: goroutines parked in the same uninterruptible state in two dumps taken 250 ms apart
func stuckEvidence() string {
	a := parked()
	if len(a) == 0 {
		return ""
	}
	time.Sleep(250 * time.Millisecond)
	b := parked()
	var ev []string
	for id, st := range a {
		if b[id] == st && !reported[id] {
			ev = append(ev, id+":"+strings.ReplaceAll(st, " ", "_"))
		}
	}
	for _, e := range ev {
		reported[strings.SplitN(e, ":", 2)[0]] = true
	}
	sort.Strings(ev)
	return strings.Join(ev, ";")
}

var hangs int

// histories of this process in which an evaluation's threads did not run (each costs a bounded wait)
var warmfails int

// evaluations of this process that left running script code behind
var leaks int

func errClass(err error, ctx context.Context) string {
	if err == nil {
		return "nil"
	}
	ce := ctx.Err()
	m := err.Error()
	switch {
	case ce != nil && errors.Is(err, ce):
		return "ctx"
	case ce != nil && m == ce.Error():
		return "ctxtext"
	case ce != nil && m == "wait error: "+ce.Error():
		return "waiterr"
	}
	if len(m) > 70 {
		m = m[:70]
	}
	return "other(" + strings.ReplaceAll(strings.ReplaceAll(m, "\n", " "), "\t", " ") + ")"
}

// deadlineCtx ends like a context whose deadline has passed - context.DeadlineExceeded - at the instant the harness
// chooses (a real deadline cannot be placed relative to a point of the script's execution).
type deadlineCtx struct{ context.Context }

func (d deadlineCtx) Err() error {
	if d.Context.Err() != nil {
		return context.DeadlineExceeded
	}
	return nil
}

func runCase(c *tcase, out *bufio.Writer) {
	reps := c.Reps
	if reps < 1 {
		reps = 1
	}
	for k := 0; k < reps; k++ {
		line, clean := runOnce(c)
		if !clean || k == reps-1 {
			if reps > 1 {
				f := strings.Split(line, "\t")
				if len(f) < 4 {
					fmt.Fprintln(out, line)
					return
				}
				f[3] += fmt.Sprintf(" rep=%d/%d", k, reps)
				line = strings.Join(f, "\t")
			}
			fmt.Fprintln(out, line)
			return
		}
	}
}

// runOnce makes one evaluation; clean = it came back with the context's error, everything settled, nothing ticked afterwards
func runOnce(c *tcase) (string, bool) {
	runtime.GC()
	var ticks int64
	marked := make(chan struct{}, 1)
	var over int32
	tick := object.NewBuiltin("tick", func(ctx context.Context, args ...object.Object) object.Object {
		if atomic.LoadInt32(&over) == 1 {
			// the case has been judged: script code that is still running must not eat the processors of the next cases
			return object.Errorf("the case is over")
		}
		atomic.AddInt64(&ticks, 1)
		return object.Nil
	})
	mark := object.NewBuiltin("mark", func(ctx context.Context, args ...object.Object) object.Object {
		select {
		case marked <- struct{}{}:
		default:
		}
		return object.Nil
	})
	gate := make(chan struct{})
	waitGate := object.NewBuiltin("wait_gate", func(ctx context.Context, args ...object.Object) object.Object {
		select {
		case <-gate:
			return object.Nil
		case <-ctx.Done():
			return object.NewError(ctx.Err())
		}
	})
	gStart := runtime.NumGoroutine()
	var alive []context.CancelFunc
	for i := range c.Warm {
		if cf, ok := runWarm(&c.Warm[i]); !ok {
			for _, f := range alive {
				f()
			}
			// Eval returned without an error but the threads it started never reached their last statement
			warmfails++
			return fmt.Sprintf("%s\tWARMFAIL-%d", c.ID, i), false
		} else if cf != nil {
			alive = append(alive, cf)
		}
	}
	defer func() {
		// the history's contexts end with the case; their watchers are gone before the next case counts goroutines
		for _, f := range alive {
			f()
		}
		if len(alive) > 0 {
			dl := time.Now().Add(time.Second)
			for runtime.NumGoroutine() > gStart && time.Now().Before(dl) {
				time.Sleep(100 * time.Microsecond)
			}
		}
	}()
	g0 := runtime.NumGoroutine()
	var ctx context.Context
	cctx, cancel := context.WithCancel(context.Background())
	defer cancel()
	ctx = cctx
	if c.Mode == "deadline" {
		ctx = deadlineCtx{cctx}
	}
	if c.Instant == "pre" {
		cancel()
	}
	type result struct {
		v   object.Object
		err error
	}
	done := make(chan result, 1)
	globals := map[string]any{"tick": tick, "mark": mark, "wait_gate": waitGate, "wdone": mark}
	reuse := c.Route == "vmreuse"
	go func() {
		if reuse {
			done <- result{nil, runReuse(ctx, c, globals, gate)}
			return
		}
		close(gate)
		v, err := risor.Eval(ctx, c.Src, risor.WithConcurrency(), risor.WithGlobals(globals))
		done <- result{v, err}
	}()
	note := ""
	if reuse {
		// the host's own sequence (Run, the Calls, opening the gate) comes to its end first
		select {
		case r := <-done:
			done <- r
		case <-time.After(10 * time.Second):
			hangs++
			return fmt.Sprintf("%s\tSKIPPED-REUSE-SEQUENCE", c.ID), true
		}
	}
	switch c.Instant {
	case "burst":
		cancel()
	case "mark":
		select {
		case <-marked:
		case r := <-func() chan result {
			if reuse {
				return nil
			}
			return done
		}():
			// the program ended before it reached mark(): report it as it is
			done <- r
			note = "NOMARK"
		case <-time.After(3 * time.Second):
			note = "NOMARK"
		}
		if c.DelayUs > 0 {
			time.Sleep(time.Duration(c.DelayUs) * time.Microsecond)
		}
		if note == "" && c.NeedTicks > 0 {
			dl := time.Now().Add(5 * time.Second)
			for atomic.LoadInt64(&ticks) < int64(c.NeedTicks) {
				if time.Now().After(dl) {
					note = "NOPROGRESS"
					break
				}
				time.Sleep(50 * time.Microsecond)
			}
		}
	}
	if reuse && note == "NOMARK" {
		// Run has returned long ago; its threads did not get to mark() after the gate was opened
		note = "NOPROGRESS"
	}
	if note == "" || note == "NOPROGRESS" {
		select {
		case r := <-done:
			// the evaluation had already returned when the cancellation was due: its result is not one of a cancelled run
			done <- r
			if note != "" {
				note += " "
			}
			note += "EARLYDONE"
		default:
		}
	}
	t0 := time.Now()
	cancel()
	var r result
	returned := true
	stuck := ""
	select {
	case r = <-done:
	case <-time.After(3 * time.Second):
		// not back yet: is something parked where the context cannot reach it (then waiting longer is pointless), or is the
		// machine just slow (then the bound says nothing)?
		stuck = stuckEvidence()
		if stuck == "" {
			select {
			case r = <-done:
			case <-time.After(7 * time.Second):
				returned = false
				stuck = stuckEvidence()
				hangs++
			}
		} else {
			select {
			case r = <-done:
				stuck = "" // it did come back: what was seen was a transient
			default:
				returned = false
				hangs++
			}
		}
	}
	lat := time.Since(t0)
	tRet := atomic.LoadInt64(&ticks)
	// everything the evaluation started must come to rest
	settled := false
	deadline := time.Now().Add(2 * time.Second)
	for time.Now().Before(deadline) {
		if runtime.NumGoroutine() <= g0 {
			settled = true
			break
		}
		time.Sleep(50 * time.Microsecond)
	}
	if !settled && returned {
		stuck = stuckEvidence()
		if runtime.NumGoroutine() <= g0 {
			settled, stuck = true, ""
		}
	}
	tB := atomic.LoadInt64(&ticks)
	time.Sleep(15 * time.Millisecond)
	tC := atomic.LoadInt64(&ticks)
	atomic.StoreInt32(&over, 1)
	if tB != tC {
		leaks++
	}
	gA := runtime.NumGoroutine()
	val := "-"
	ec := "-"
	if returned {
		ec = errClass(r.err, ctx)
		if r.err == nil && r.v != nil {
			val = strings.ReplaceAll(r.v.Inspect(), "\t", " ")
			if len(val) > 30 {
				val = val[:30]
			}
		}
	}
	if note != "" {
		ec += " " + note
	}
	if stuck == "" {
		stuck = "-"
	}
	clean := returned && settled && tB == tC && !strings.Contains(ec, "NOPROGRESS") && (ec == "ctx" || strings.Contains(ec, "EARLYDONE") || strings.Contains(ec, "NOMARK"))
	return fmt.Sprintf("%s\t%v\t%d\t%s\t%s\t%d\t%d\t%d\t%d\t%d\t%v\t%s", c.ID, returned, lat.Microseconds(), ec, val, tRet, tB, tC, g0, gA, settled, stuck), clean
}

// runWarm makes one evaluation of the history: it runs to its end, the threads it started have finished (each calls wdone()
// as its last action; a short pause lets the goroutine itself end), then its context ends in the way asked for.  The
// returned cancel function is non-nil when the context stays alive.
func runWarm(w *warmup) (context.CancelFunc, bool) {
	var n int64
	noop := object.NewBuiltin("noop", func(ctx context.Context, args ...object.Object) object.Object { return object.Nil })
	wdone := object.NewBuiltin("wdone", func(ctx context.Context, args ...object.Object) object.Object {
		atomic.AddInt64(&n, 1)
		return object.Nil
	})
	cctx, cancel := context.WithCancel(context.Background())
	var ctx context.Context = cctx
	if w.End == "expired" {
		ctx = deadlineCtx{cctx}
	}
	errc := make(chan error, 1)
	go func() {
		_, err := risor.Eval(ctx, w.Src, risor.WithConcurrency(),
			risor.WithGlobals(map[string]any{"tick": noop, "mark": noop, "wait_gate": noop, "wdone": wdone}))
		errc <- err
	}()
	select {
	case err := <-errc:
		if err != nil {
			cancel()
			return nil, false
		}
	case <-time.After(10 * time.Second):
		cancel()
		return nil, false
	}
	dl := time.Now().Add(4 * time.Second)
	for atomic.LoadInt64(&n) < int64(w.Done) {
		if time.Now().After(dl) {
			cancel()
			return nil, false
		}
		time.Sleep(50 * time.Microsecond)
	}
	time.Sleep(2 * time.Millisecond)
	if w.End == "alive" {
		return cancel, true
	}
	cancel()
	time.Sleep(time.Millisecond) // the watcher of the ended context has done its work
	return nil, true
}

// runReuse: the embedding that runs a program once on a VM and afterwards serves calls on the same VM
func runReuse(ctx context.Context, c *tcase, globals map[string]any, gate chan struct{}) error {
	cfg := risor.NewConfig(risor.WithConcurrency(), risor.WithGlobals(globals))
	ast, err := parser.Parse(ctx, c.Src)
	if err != nil {
		return err
	}
	code, err := compiler.Compile(ast, cfg.CompilerOpts()...)
	if err != nil {
		return err
	}
	machine := vm.New(code, cfg.VMOpts()...)
	if err := machine.Run(ctx); err != nil {
		return err
	}
	for _, name := range c.Calls {
		obj, err := machine.Get(name)
		if err != nil {
			return err
		}
		fn, ok := obj.(*object.Function)
		if !ok {
			return fmt.Errorf("reuse: %s is not a function", name)
		}
		ctx2, cancel2 := context.WithCancel(context.Background())
		var use context.Context = ctx2
		if c.Ctx2 == "background" {
			use = context.Background()
		}
		_, err = machine.Call(use, fn, nil)
		cancel2()
		if err != nil {
			return fmt.Errorf("reuse: call %s: %v", name, err)
		}
	}
	time.Sleep(time.Millisecond)
	close(gate)
	return nil
}

func main() {
	out := bufio.NewWriterSize(os.Stdout, 1<<20)
	defer out.Flush()
	sc := bufio.NewScanner(os.Stdin)
	sc.Buffer(make([]byte, 1<<20), 1<<26)
	for sc.Scan() {
		line := strings.TrimSpace(sc.Text())
		if line == "" {
			continue
		}
		var c tcase
		if err := json.Unmarshal([]byte(line), &c); err != nil {
			fmt.Fprintf(out, "?\tBADJSON %v\n", err)
			continue
		}
		if hangs >= 2 || leaks >= 8 {
			fmt.Fprintf(out, "%s\tSKIPPED-AFTER-HANG\n", c.ID)
			continue
		}
		if warmfails >= 2 && len(c.Warm) > 0 {
			fmt.Fprintf(out, "%s\tSKIPPED-AFTER-WARMFAIL\n", c.ID)
			continue
		}
		runCase(&c, out)
		out.Flush()
	}
}
