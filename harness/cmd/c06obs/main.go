// c06obs: implementation-side observations for C06 (cancelling the context stops the evaluation and everything
// it started).
//
// stdin: one case per line, JSON {"id","src","instant":"pre"|"burst"|"mark","delay_us":N}
//   pre   : the context is cancelled before risor.Eval is called
//   burst : cancelled right after the evaluation's goroutine was started (first instruction burst)
//   mark  : cancelled delay_us after the program called the host builtin mark()
// The program may call the host builtin tick(), which counts script activity.
//
// stdout: id \t returned latency_us errclass value ticks_at_return ticks_settled ticks_later g_before g_after settled
//   errclass: nil | ctx (errors.Is(err, ctx.Err())) | ctxtext (same text, identity lost) | waiterr | other(...)
package main

import (
	"bufio"
	"context"
	"encoding/json"
	"errors"
	"fmt"
	"os"
	"runtime"
	"strings"
	"sync/atomic"
	"time"

	"github.com/risor-io/risor"
	"github.com/risor-io/risor/object"
)

type tcase struct {
	ID      string `json:"id"`
	Src     string `json:"src"`
	Instant string `json:"instant"`
	Mode    string `json:"mode"` // "" / "cancel": explicit cancel; "deadline": the context ends with DeadlineExceeded
	DelayUs int    `json:"delay_us"`
}

var hangs int

func errClass(err error, ctx context.Context) string {
	if err == nil {
		return "nil"
	}
	ce := ctx.Err()
	m := err.Error()
	switch {
	case ce != nil && errors.Is(err, ce):
		return "ctx"
	case ce != nil && m == ce.Error():
		return "ctxtext"
	case ce != nil && m == "wait error: "+ce.Error():
		return "waiterr"
	}
	if len(m) > 70 {
		m = m[:70]
	}
	return "other(" + strings.ReplaceAll(strings.ReplaceAll(m, "\n", " "), "\t", " ") + ")"
}

// deadlineCtx ends like a context whose deadline has passed - context.DeadlineExceeded - at the instant the harness
// chooses (a real deadline cannot be placed relative to a point of the script's execution).
type deadlineCtx struct{ context.Context }

func (d deadlineCtx) Err() error {
	if d.Context.Err() != nil {
		return context.DeadlineExceeded
	}
	return nil
}

func runCase(c *tcase, out *bufio.Writer) {
	runtime.GC()
	var ticks int64
	marked := make(chan struct{}, 1)
	tick := object.NewBuiltin("tick", func(ctx context.Context, args ...object.Object) object.Object {
		atomic.AddInt64(&ticks, 1)
		return object.Nil
	})
	mark := object.NewBuiltin("mark", func(ctx context.Context, args ...object.Object) object.Object {
		select {
		case marked <- struct{}{}:
		default:
		}
		return object.Nil
	})
	g0 := runtime.NumGoroutine()
	var ctx context.Context
	cctx, cancel := context.WithCancel(context.Background())
	defer cancel()
	ctx = cctx
	if c.Mode == "deadline" {
		ctx = deadlineCtx{cctx}
	}
	if c.Instant == "pre" {
		cancel()
	}
	type result struct {
		v   object.Object
		err error
	}
	done := make(chan result, 1)
	go func() {
		v, err := risor.Eval(ctx, c.Src, risor.WithConcurrency(),
			risor.WithGlobals(map[string]any{"tick": tick, "mark": mark}))
		done <- result{v, err}
	}()
	note := ""
	switch c.Instant {
	case "burst":
		cancel()
	case "mark":
		select {
		case <-marked:
		case r := <-done:
			// the program ended before it reached mark(): report it as it is
			done <- r
			note = "NOMARK"
		case <-time.After(3 * time.Second):
			note = "NOMARK"
		}
		if c.DelayUs > 0 {
			time.Sleep(time.Duration(c.DelayUs) * time.Microsecond)
		}
	}
	if note == "" {
		select {
		case r := <-done:
			// the evaluation had already returned when the cancellation was due: its result is not one of a cancelled run
			done <- r
			note = "EARLYDONE"
		default:
		}
	}
	t0 := time.Now()
	cancel()
	var r result
	returned := true
	select {
	case r = <-done:
	case <-time.After(3 * time.Second):
		returned = false
		hangs++
	}
	lat := time.Since(t0)
	tRet := atomic.LoadInt64(&ticks)
	// everything the evaluation started must come to rest
	settled := false
	deadline := time.Now().Add(2 * time.Second)
	for time.Now().Before(deadline) {
		if runtime.NumGoroutine() <= g0 {
			settled = true
			break
		}
		time.Sleep(50 * time.Microsecond)
	}
	tB := atomic.LoadInt64(&ticks)
	time.Sleep(15 * time.Millisecond)
	tC := atomic.LoadInt64(&ticks)
	gA := runtime.NumGoroutine()
	val := "-"
	ec := "-"
	if returned {
		ec = errClass(r.err, ctx)
		if r.err == nil && r.v != nil {
			val = strings.ReplaceAll(r.v.Inspect(), "\t", " ")
			if len(val) > 30 {
				val = val[:30]
			}
		}
	}
	if note != "" {
		ec += " " + note
	}
	fmt.Fprintf(out, "%s\t%v\t%d\t%s\t%s\t%d\t%d\t%d\t%d\t%d\t%v\n", c.ID, returned, lat.Microseconds(), ec, val, tRet, tB, tC, g0, gA, settled)
}

func main() {
	out := bufio.NewWriterSize(os.Stdout, 1<<20)
	defer out.Flush()
	sc := bufio.NewScanner(os.Stdin)
	sc.Buffer(make([]byte, 1<<20), 1<<26)
	for sc.Scan() {
		line := strings.TrimSpace(sc.Text())
		if line == "" {
			continue
		}
		var c tcase
		if err := json.Unmarshal([]byte(line), &c); err != nil {
			fmt.Fprintf(out, "?\tBADJSON %v\n", err)
			continue
		}
		if hangs >= 2 {
			fmt.Fprintf(out, "%s\tSKIPPED-AFTER-HANG\n", c.ID)
			continue
		}
		runCase(&c, out)
		out.Flush()
	}
}
