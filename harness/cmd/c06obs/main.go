// c06obs: implementation-side observations for C06 (cancelling the context stops the evaluation and everything
// it started).
//
// stdin: one case per line, JSON {"id","src","instant":"pre"|"burst"|"mark","delay_us":N}
//   pre   : the context is cancelled before risor.Eval is called
//   burst : cancelled right after the evaluation's goroutine was started (first instruction burst)
//   mark  : cancelled delay_us after the program called the host builtin mark()
// The program may call the host builtin tick(), which counts script activity.
//
// stdout: id \t returned latency_us errclass value ticks_at_return ticks_settled ticks_later g_before g_after settled stuck
//   errclass: nil | ctx (errors.Is(err, ctx.Err())) | ctxtext (same text, identity lost) | waiterr | other(...)
//   stuck: "-" or, when the call did not return / the goroutines did not settle, the goroutines that run risor code and are
//          PARKED in an operation no context can interrupt (a bare channel send / receive, a plain sleep, a lock), seen in
//          the same state in two goroutine dumps taken apart: "<goroutine id>:<state>:<innermost risor frame>;..." - a fact
//          about the state of the process, not about elapsed time (a goroutine that merely has not been scheduled yet is
//          "runnable", one that waits for the context is in "select").
//
// {"reps": N} repeats the evaluation up to N times (statistical families: whether contenders collide depends on the schedule);
// the first repetition that is not clean is reported with "rep=<k>" appended to the error class.
package main

import (
	"bufio"
	"context"
	"encoding/json"
	"errors"
	"fmt"
	"os"
	"regexp"
	"runtime"
	"sort"
	"strings"
	"sync/atomic"
	"time"

	"github.com/risor-io/risor"
	"github.com/risor-io/risor/object"
)

type tcase struct {
	ID      string `json:"id"`
	Src     string `json:"src"`
	Instant string `json:"instant"`
	Mode    string `json:"mode"` // "" / "cancel": explicit cancel; "deadline": the context ends with DeadlineExceeded
	DelayUs int    `json:"delay_us"`
	Reps    int    `json:"reps"`
}

// goroutines already reported as parked by an earlier case of this process (they stay parked)
var reported = map[string]bool{}

var goHeader = regexp.MustCompile(`^goroutine (\d+) \[([^\],]+)`)

// parked lists the goroutines that have a risor frame on their stack and are blocked in a bare channel operation or a plain
// sleep: goroutine id -> "state:innermost risor frame"
func parked() map[string]string {
	buf := make([]byte, 1<<20)
	for {
		n := runtime.Stack(buf, true)
		if n < len(buf) {
			buf = buf[:n]
			break
		}
		buf = make([]byte, 2*len(buf))
	}
	out := map[string]string{}
	for _, g := range strings.Split(string(buf), "\n\n") {
		lines := strings.Split(g, "\n")
		m := goHeader.FindStringSubmatch(lines[0])
		if m == nil {
			continue
		}
		state := m[2]
		// only waits that nothing but another goroutine's action can end and that hold no lock hand-over: a bare channel
		// operation or a plain sleep.  (runnable / running / syscall = waiting for the CPU; select = can see the context;
		// lock waits are transient on a loaded machine and are left to the wall-clock path, which re-runs the case.)
		switch {
		case strings.HasPrefix(state, "chan send"), strings.HasPrefix(state, "chan receive"), state == "sleep", state == "select (no cases)":
		default:
			continue
		}
		frame := ""
		for _, l := range lines[1:] {
			if strings.HasPrefix(l, "github.com/risor-io/risor/") && !strings.HasPrefix(l, "\t") {
				frame = strings.TrimPrefix(l, "github.com/risor-io/risor/")
				if i := strings.LastIndex(frame, "("); i > 0 {
					frame = frame[:i]
				}
				break
			}
		}
		if frame == "" {
			continue
		}
		out[m[1]] = state + ":" + frame
	}
	return out
}

// stuckEvidence: goroutines parked in the same uninterruptible state in two dumps taken 250 ms apart
func stuckEvidence() string {
	a := parked()
	if len(a) == 0 {
		return ""
	}
	time.Sleep(250 * time.Millisecond)
	b := parked()
	var ev []string
	for id, st := range a {
		if b[id] == st && !reported[id] {
			ev = append(ev, id+":"+strings.ReplaceAll(st, " ", "_"))
		}
	}
	for _, e := range ev {
		reported[strings.SplitN(e, ":", 2)[0]] = true
	}
	sort.Strings(ev)
	return strings.Join(ev, ";")
}

var hangs int

func errClass(err error, ctx context.Context) string {
	if err == nil {
		return "nil"
	}
	ce := ctx.Err()
	m := err.Error()
	switch {
	case ce != nil && errors.Is(err, ce):
		return "ctx"
	case ce != nil && m == ce.Error():
		return "ctxtext"
	case ce != nil && m == "wait error: "+ce.Error():
		return "waiterr"
	}
	if len(m) > 70 {
		m = m[:70]
	}
	return "other(" + strings.ReplaceAll(strings.ReplaceAll(m, "\n", " "), "\t", " ") + ")"
}

// deadlineCtx ends like a context whose deadline has passed - context.DeadlineExceeded - at the instant the harness
// chooses (a real deadline cannot be placed relative to a point of the script's execution).
type deadlineCtx struct{ context.Context }

func (d deadlineCtx) Err() error {
	if d.Context.Err() != nil {
		return context.DeadlineExceeded
	}
	return nil
}

func runCase(c *tcase, out *bufio.Writer) {
	reps := c.Reps
	if reps < 1 {
		reps = 1
	}
	for k := 0; k < reps; k++ {
		line, clean := runOnce(c)
		if !clean || k == reps-1 {
			if reps > 1 {
				f := strings.Split(line, "\t")
				f[3] += fmt.Sprintf(" rep=%d/%d", k, reps)
				line = strings.Join(f, "\t")
			}
			fmt.Fprintln(out, line)
			return
		}
	}
}

// runOnce makes one evaluation; clean = it came back with the context's error, everything settled, nothing ticked afterwards
func runOnce(c *tcase) (string, bool) {
	runtime.GC()
	var ticks int64
	marked := make(chan struct{}, 1)
	tick := object.NewBuiltin("tick", func(ctx context.Context, args ...object.Object) object.Object {
		atomic.AddInt64(&ticks, 1)
		return object.Nil
	})
	mark := object.NewBuiltin("mark", func(ctx context.Context, args ...object.Object) object.Object {
		select {
		case marked <- struct{}{}:
		default:
		}
		return object.Nil
	})
	g0 := runtime.NumGoroutine()
	var ctx context.Context
	cctx, cancel := context.WithCancel(context.Background())
	defer cancel()
	ctx = cctx
	if c.Mode == "deadline" {
		ctx = deadlineCtx{cctx}
	}
	if c.Instant == "pre" {
		cancel()
	}
	type result struct {
		v   object.Object
		err error
	}
	done := make(chan result, 1)
	go func() {
		v, err := risor.Eval(ctx, c.Src, risor.WithConcurrency(),
			risor.WithGlobals(map[string]any{"tick": tick, "mark": mark}))
		done <- result{v, err}
	}()
	note := ""
	switch c.Instant {
	case "burst":
		cancel()
	case "mark":
		select {
		case <-marked:
		case r := <-done:
			// the program ended before it reached mark(): report it as it is
			done <- r
			note = "NOMARK"
		case <-time.After(3 * time.Second):
			note = "NOMARK"
		}
		if c.DelayUs > 0 {
			time.Sleep(time.Duration(c.DelayUs) * time.Microsecond)
		}
	}
	if note == "" {
		select {
		case r := <-done:
			// the evaluation had already returned when the cancellation was due: its result is not one of a cancelled run
			done <- r
			note = "EARLYDONE"
		default:
		}
	}
	t0 := time.Now()
	cancel()
	var r result
	returned := true
	stuck := ""
	select {
	case r = <-done:
	case <-time.After(3 * time.Second):
		// not back yet: is something parked where the context cannot reach it (then waiting longer is pointless), or is the
		// machine just slow (then the bound says nothing)?
		stuck = stuckEvidence()
		if stuck == "" {
			select {
			case r = <-done:
			case <-time.After(7 * time.Second):
				returned = false
				stuck = stuckEvidence()
				hangs++
			}
		} else {
			select {
			case r = <-done:
				stuck = "" // it did come back: what was seen was a transient
			default:
				returned = false
				hangs++
			}
		}
	}
	lat := time.Since(t0)
	tRet := atomic.LoadInt64(&ticks)
	// everything the evaluation started must come to rest
	settled := false
	deadline := time.Now().Add(2 * time.Second)
	for time.Now().Before(deadline) {
		if runtime.NumGoroutine() <= g0 {
			settled = true
			break
		}
		time.Sleep(50 * time.Microsecond)
	}
	if !settled && returned {
		stuck = stuckEvidence()
		if runtime.NumGoroutine() <= g0 {
			settled, stuck = true, ""
		}
	}
	tB := atomic.LoadInt64(&ticks)
	time.Sleep(15 * time.Millisecond)
	tC := atomic.LoadInt64(&ticks)
	gA := runtime.NumGoroutine()
	val := "-"
	ec := "-"
	if returned {
		ec = errClass(r.err, ctx)
		if r.err == nil && r.v != nil {
			val = strings.ReplaceAll(r.v.Inspect(), "\t", " ")
			if len(val) > 30 {
				val = val[:30]
			}
		}
	}
	if note != "" {
		ec += " " + note
	}
	if stuck == "" {
		stuck = "-"
	}
	clean := returned && settled && tB == tC && (ec == "ctx" || strings.Contains(ec, "EARLYDONE") || strings.Contains(ec, "NOMARK"))
	return fmt.Sprintf("%s\t%v\t%d\t%s\t%s\t%d\t%d\t%d\t%d\t%d\t%v\t%s", c.ID, returned, lat.Microseconds(), ec, val, tRet, tB, tC, g0, gA, settled, stuck), clean
}

func main() {
	out := bufio.NewWriterSize(os.Stdout, 1<<20)
	defer out.Flush()
	sc := bufio.NewScanner(os.Stdin)
	sc.Buffer(make([]byte, 1<<20), 1<<26)
	for sc.Scan() {
		line := strings.TrimSpace(sc.Text())
		if line == "" {
			continue
		}
		var c tcase
		if err := json.Unmarshal([]byte(line), &c); err != nil {
			fmt.Fprintf(out, "?\tBADJSON %v\n", err)
			continue
		}
		if hangs >= 2 {
			fmt.Fprintf(out, "%s\tSKIPPED-AFTER-HANG\n", c.ID)
			continue
		}
		runCase(&c, out)
		out.Flush()
	}
}
