package main

import (
	"bufio"
	"context"
	"encoding/hex"
	"fmt"
	"os"
	"sort"
	"strconv"
	"strings"
	"time"

	"github.com/risor-io/risor"
	"github.com/risor-io/risor/builtins"
	"github.com/risor-io/risor/compiler"
	"github.com/risor-io/risor/object"
	"github.com/risor-io/risor/parser"
)

func val(o object.Object, depth int) string {
	if depth > 20 {
		return "(deep)"
	}
	switch o := o.(type) {
	case nil:
		return "(gonil)"
	case *object.NilType:
		return "(nil)"
	case *object.Bool:
		if o.Value() {
			return "(b 1)"
		}
		return "(b 0)"
	case *object.Int:
		return fmt.Sprintf("(i %d)", o.Value())
	case *object.String:
		return "(s " + hex.EncodeToString([]byte(o.Value())) + ")"
	case *object.List:
		var parts []string
		for _, it := range o.Value() {
			parts = append(parts, val(it, depth+1))
		}
		return "(l" + pre(parts) + ")"
	case *object.Map:
		m := o.Value()
		var keys []string
		for k := range m {
			keys = append(keys, k)
		}
		sort.Strings(keys)
		var parts []string
		for _, k := range keys {
			parts = append(parts, "("+hex.EncodeToString([]byte(k))+" "+val(m[k], depth+1)+")")
		}
		return "(m" + pre(parts) + ")"
	case *object.Function:
		return "(f)"
	case *object.Builtin:
		return "(bi)"
	}
	return "(other " + string(o.Type()) + ")"
}

func pre(parts []string) string {
	if len(parts) == 0 {
		return ""
	}
	return " " + strings.Join(parts, " ")
}

func errClass(m string) string {
	switch {
	case strings.Contains(m, "integer divide by zero"):
		return "XDiv0"
	case strings.HasPrefix(m, "panic:"):
		return "XPanic(" + m + ")"
	case strings.Contains(m, "object is not callable"):
		return "XNotCallable"
	case strings.Contains(m, "attribute"):
		return "XAttr"
	case strings.HasPrefix(m, "type error"):
		return "XType"
	case strings.HasPrefix(m, "index error"):
		return "XIndex"
	case strings.HasPrefix(m, "key error"):
		return "XKey"
	case strings.HasPrefix(m, "args error"):
		return "XArgs"
	case strings.HasPrefix(m, "slice error"):
		return "XSlice"
	case strings.HasPrefix(m, "unpack count mismatch"):
		return "XUnpack"
	case strings.Contains(m, "context deadline"):
		return "TIMEOUT"
	}
	return "XOther(" + strings.ReplaceAll(m, "\n", " ") + ")"
}

func main() {
	w := bufio.NewWriterSize(os.Stdout, 1<<20)
	defer w.Flush()
	sc := bufio.NewScanner(os.Stdin)
	sc.Buffer(make([]byte, 1<<20), 1<<24)
	for sc.Scan() {
		b, _ := hex.DecodeString(sc.Text())
		src := string(b)
		func() {
			defer func() {
				if r := recover(); r != nil {
					fmt.Fprintf(w, "GOPANIC %v\n", r)
				}
			}()
			budget := 500 * time.Millisecond
			if v := os.Getenv("EVALOBS_TIMEOUT_MS"); v != "" {
				if ms, err := strconv.Atoi(v); err == nil && ms > 0 {
					budget = time.Duration(ms) * time.Millisecond
				}
			}
			ctx, cancel := context.WithTimeout(context.Background(), budget)
			defer cancel()
			var trace []string
			printFn := object.NewBuiltin("print", func(ctx context.Context, args ...object.Object) object.Object {
				var parts []string
				for _, a := range args {
					parts = append(parts, val(a, 0))
				}
				trace = append(trace, "("+strings.Join(parts, " ")+")")
				return object.Nil
			})
			globals := map[string]any{"len": builtins.Builtins()["len"], "print": printFn}
			prog, err := parser.Parse(ctx, src)
			if err != nil {
				fmt.Fprintln(w, "SKIP parse")
				return
			}
			if _, err := compiler.Compile(prog, compiler.WithGlobalNames([]string{"len", "print"})); err != nil {
				fmt.Fprintln(w, "SKIP compile")
				return
			}
			res, err := risor.Eval(ctx, src, risor.WithoutDefaultGlobals(), risor.WithGlobals(globals))
			if err != nil {
				fmt.Fprintln(w, "ERR "+errClass(err.Error())+" TRACE "+strings.Join(trace, ""))
				return
			}
			fmt.Fprintln(w, "OK "+val(res, 0)+" TRACE "+strings.Join(trace, ""))
		}()
	}
}
