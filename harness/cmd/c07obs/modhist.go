// Module histories (mode "mod"): invocation histories over FILE MODULES served by risor's own importers.
//
// One importer (importer.NewLocalImporter over a directory, or importer.NewFSImporter over an in-memory fs.FS whose
// Open is a host hook) is shared by every invocation of the history and by every VM of the history (1 or 2 VMs), as
// in a host that serves many requests.  Module top-level code calls the host builtin tick(module, point) at chosen
// points (directly or some frames deep); the host's FUSE PLAN of an invocation makes one of these calls - or the
// importer's read of a module's file - end the invocation: error value, Go panic, frame exhaustion, cancellation or
// expiry of the invocation's context (followed by waiting until the run's watcher has seen it).  Later invocations
// (Run with the REPL protocol, Call, RunCode; on the same VM or on the other VM behind the same importer) import the
// same modules again.
//
// Every invocation is also run on a VM created for it behind an importer created for it (reference), and the check
// holds both against the generator's own account of what the invocation must give.
//
// A context kind "timeout" is a real context.WithTimeout over a fraction of the measured load time of a large module:
// where the deadline falls is up to the machine, so that invocation itself is never judged - only the invocations
// after it, which run under contexts of their own.
//
// stdout: id \t shared_0|fresh_0 ; shared_1|fresh_1 ; ...
package main

import (
	"bufio"
	"context"
	"errors"
	"fmt"
	"io/fs"
	"os"
	"path/filepath"
	"runtime"
	"strings"
	"sync"
	"testing/fstest"
	"time"

	"github.com/risor-io/risor/compiler"
	"github.com/risor-io/risor/importer"
	"github.com/risor-io/risor/object"
	"github.com/risor-io/risor/parser"
	"github.com/risor-io/risor/vm"
)

type modFuse struct {
	Site string `json:"site"` // "tick": the call tick(mod, pt) | "open": the importer opens the file of mod
	Mod  string `json:"mod"`
	Pt   int    `json:"pt"`
	Act  string `json:"act"` // err | panic | overflow | cancel | expire | fserr
}

type modItem struct {
	VM   int       `json:"vm"`
	Api  string    `json:"api"` // RC | RN | CL
	Src  string    `json:"src"`
	Fn   string    `json:"fn"`
	Ctx  string    `json:"ctx"` // bg | cancel | expire | timeout
	Frac float64   `json:"frac"`
	Fuse []modFuse `json:"fuse"`
}

type modHistory struct {
	ID    string            `json:"id"`
	Imp   string            `json:"imp"` // local | fs
	Mods  map[string]string `json:"mods"`
	Lib   string            `json:"lib"`
	Items []modItem         `json:"items"`
}

var modGlobalNames = []string{"tick"}

// a context the host ends by hand, with the error it chooses
type manualCtx struct {
	done chan struct{}
	mu   sync.Mutex
	err  error
}

func newManualCtx() *manualCtx                              { return &manualCtx{done: make(chan struct{})} }
func (c *manualCtx) Deadline() (time.Time, bool)            { return time.Time{}, false }
func (c *manualCtx) Done() <-chan struct{}                  { return c.done }
func (c *manualCtx) Value(key any) any                      { return nil }
func (c *manualCtx) Err() error                             { c.mu.Lock(); defer c.mu.Unlock(); return c.err }
func (c *manualCtx) end(err error) {
	c.mu.Lock()
	defer c.mu.Unlock()
	if c.err == nil {
		c.err = err
		close(c.done)
	}
}

// an fs.FS whose Open of an existing file first tells the host
type gatedFS struct {
	files fstest.MapFS
	hook  func(mod string) error
}

func (g *gatedFS) Open(name string) (fs.File, error) {
	if _, ok := g.files[name]; ok && g.hook != nil {
		mod := strings.TrimSuffix(name, filepath.Ext(name))
		if err := g.hook(mod); err != nil {
			return nil, err
		}
	}
	return g.files.Open(name)
}

type modVM struct {
	machine *vm.VirtualMachine
	repl    *compiler.Compiler
}

type modWorld struct {
	h        *modHistory
	dir      string
	imp      importer.Importer
	vms      map[int]*modVM
	fuse     []modFuse
	blown    []bool
	endCtx   func(error)
	base     int
	settleTO bool
}

func expandMod(src string) string {
	if strings.HasPrefix(src, "@big:") {
		var n int
		fmt.Sscanf(src, "@big:%d", &n)
		var b strings.Builder
		for i := 0; i < n; i++ {
			fmt.Fprintf(&b, "b%d := %d + %d\n", i, i, i%7)
		}
		fmt.Fprintf(&b, "func get() { return b%d + %d }\n", n-1, n)
		return b.String()
	}
	return src
}

func newModWorld(h *modHistory, dir string) *modWorld {
	w := &modWorld{h: h, dir: dir, vms: map[int]*modVM{}}
	switch h.Imp {
	case "fs":
		files := fstest.MapFS{}
		for name, src := range h.Mods {
			files[name+".risor"] = &fstest.MapFile{Data: []byte(expandMod(src))}
		}
		w.imp = importer.NewFSImporter(importer.FSImporterOptions{GlobalNames: modGlobalNames,
			SourceFS: &gatedFS{files: files, hook: w.opened}})
	default:
		w.imp = importer.NewLocalImporter(importer.LocalImporterOptions{GlobalNames: modGlobalNames, SourceDir: dir})
	}
	return w
}

func (w *modWorld) settle() {
	deadline := time.Now().Add(3 * time.Second)
	for runtime.NumGoroutine() > w.base {
		if time.Now().After(deadline) {
			w.settleTO = true
			return
		}
		runtime.Gosched()
		time.Sleep(20 * time.Microsecond)
	}
}

func (w *modWorld) lookup(site, mod string, pt int) string {
	for i, f := range w.fuse {
		if !w.blown[i] && f.Site == site && f.Mod == mod && (site == "open" || f.Pt == pt) {
			w.blown[i] = true
			return f.Act
		}
	}
	return ""
}

func (w *modWorld) endAndSettle(err error) {
	if w.endCtx != nil {
		w.endCtx(err)
		w.settle() // the run's watcher has seen it: the VM stops at its next instruction
	}
}

func (w *modWorld) opened(mod string) error {
	switch w.lookup("open", mod, 0) {
	case "cancel":
		w.endAndSettle(context.Canceled)
	case "expire":
		w.endAndSettle(context.DeadlineExceeded)
	case "fserr":
		return fmt.Errorf("open %s: input/output error", mod)
	}
	return nil
}

func (w *modWorld) globals() map[string]any {
	return map[string]any{
		"tick": object.NewBuiltin("tick", func(ctx context.Context, args ...object.Object) object.Object {
			if len(args) != 2 {
				return object.Errorf("tick: want (module, point)")
			}
			mod, _ := args[0].(*object.String)
			pt, _ := args[1].(*object.Int)
			if mod == nil || pt == nil {
				return object.Errorf("tick: want (string, int)")
			}
			switch w.lookup("tick", mod.Value(), int(pt.Value())) {
			case "err":
				return object.Errorf("fuse blown")
			case "panic":
				panic("boom")
			case "overflow":
				return object.NewInt(1)
			case "cancel":
				w.endAndSettle(context.Canceled)
			case "expire":
				w.endAndSettle(context.DeadlineExceeded)
			}
			return object.NewInt(0)
		}),
	}
}

func modCompile(src string) (*compiler.Code, error) {
	ast, err := parser.Parse(context.Background(), src)
	if err != nil {
		return nil, err
	}
	return compiler.Compile(ast, compiler.WithGlobalNames(modGlobalNames))
}

func modClass(v object.Object, err error) string {
	if err != nil {
		m := err.Error()
		switch {
		case errors.Is(err, context.Canceled) || m == "context canceled":
			return "E canceled"
		case errors.Is(err, context.DeadlineExceeded) || m == "context deadline exceeded":
			return "E deadline"
		case strings.HasPrefix(m, "panic: boom"):
			return "E host"
		case strings.Contains(m, "fuse blown"):
			return "E fuse"
		case strings.Contains(m, "input/output error") || strings.Contains(m, "not found"):
			return "E notfound"
		case strings.Contains(m, "frame overflow") || strings.Contains(m, "stack overflow") || strings.Contains(m, "index out of range [1024]"):
			return "E overflow"
		}
		if len(m) > 90 {
			m = m[:90]
		}
		return "E other(" + strings.NewReplacer("\n", " ", "|", "/", ";", ",", "\t", " ").Replace(m) + ")"
	}
	switch o := v.(type) {
	case nil:
		return "VNIL"
	case *object.NilType:
		return "VNIL"
	case *object.Int:
		return fmt.Sprintf("V %d", o.Value())
	}
	return "V other(" + string(v.Type()) + ")"
}

// loadTime: how long this machine takes to parse and compile the largest module of the history
func (w *modWorld) loadTime() time.Duration {
	big := ""
	for _, src := range w.h.Mods {
		if s := expandMod(src); len(s) > len(big) {
			big = s
		}
	}
	best := time.Duration(0)
	for i := 0; i < 3; i++ {
		t0 := time.Now()
		ast, err := parser.Parse(context.Background(), big)
		if err == nil {
			compiler.Compile(ast, compiler.WithGlobalNames(modGlobalNames))
		}
		if d := time.Since(t0); best == 0 || d < best {
			best = d
		}
	}
	return best
}

// the VM an invocation runs on; prepare: what a host does before its first invocation of that kind
func (w *modWorld) machineFor(it *modItem, needLib bool) (*modVM, error) {
	m := w.vms[it.VM]
	if m != nil {
		return m, nil
	}
	m = &modVM{}
	w.vms[it.VM] = m
	// a VM on which Run is going to be used is created with main code (the REPL's protocol); when its first
	// invocation is not a Run the main code is the library
	usesRun := false
	for _, x := range w.h.Items {
		if x.VM == it.VM && x.Api == "RN" {
			usesRun = true
		}
	}
	if needLib || (usesRun && it.Api != "RN") {
		c, err := compiler.New(compiler.WithGlobalNames(modGlobalNames))
		if err != nil {
			return nil, err
		}
		ast, err := parser.Parse(context.Background(), w.h.Lib)
		if err != nil {
			return nil, err
		}
		code, err := c.Compile(ast)
		if err != nil {
			return nil, err
		}
		m.repl = c
		m.machine = vm.New(code, vm.WithGlobals(w.globals()), vm.WithImporter(w.imp))
		if needLib {
			if err := m.machine.Run(context.Background()); err != nil {
				return nil, err
			}
		}
	}
	return m, nil
}

func (w *modWorld) invoke(it *modItem, reference bool) (out string) {
	var ctx context.Context
	var finish func()
	w.endCtx = nil
	switch it.Ctx {
	case "cancel":
		c, cancel := context.WithCancel(context.Background())
		ctx, finish = c, cancel
		w.endCtx = func(error) { cancel() }
	case "expire":
		c := newManualCtx()
		ctx = c
		w.endCtx = c.end
		finish = func() { c.end(context.Canceled) }
	case "timeout":
		d := time.Duration(float64(w.loadTime()) * it.Frac)
		c, cancel := context.WithTimeout(context.Background(), d)
		ctx, finish = c, cancel
	default:
		ctx = context.Background()
	}
	w.fuse = it.Fuse
	w.blown = make([]bool, len(it.Fuse))
	m, err := w.machineFor(it, reference && it.Api == "CL")
	if err != nil {
		return "HARNESS " + err.Error()
	}
	runtime.GC()
	w.base = runtime.NumGoroutine()
	var v object.Object
	func() {
		defer func() {
			if r := recover(); r != nil {
				err = fmt.Errorf("GOPANIC %v", r)
			}
		}()
		switch it.Api {
		case "RC":
			var code *compiler.Code
			code, err = modCompile(w.h.Lib + "\n" + it.Src)
			if err != nil {
				err = fmt.Errorf("COMPILE %v", err)
				return
			}
			if m.machine == nil {
				m.machine, err = vm.NewEmpty()
				if err != nil {
					return
				}
			}
			v, err = vm.RunCodeOnVM(ctx, m.machine, code, vm.WithGlobals(w.globals()), vm.WithImporter(w.imp))
		case "RN":
			src := it.Src
			if m.repl == nil {
				m.repl, err = compiler.New(compiler.WithGlobalNames(modGlobalNames))
				if err != nil {
					return
				}
				src = w.h.Lib + "\n" + src
			}
			ast, perr := parser.Parse(context.Background(), src)
			if perr != nil {
				err = fmt.Errorf("COMPILE %v", perr)
				return
			}
			code, cerr := m.repl.Compile(ast)
			if cerr != nil {
				err = fmt.Errorf("COMPILE %v", cerr)
				return
			}
			if m.machine == nil {
				m.machine = vm.New(code, vm.WithGlobals(w.globals()), vm.WithImporter(w.imp))
			}
			err = m.machine.Run(ctx)
			if err != nil {
				m.machine.SetIP(code.InstructionCount())
				return
			}
			if tos, ok := m.machine.TOS(); ok {
				v = tos
			} else {
				v = object.Nil
			}
		case "CL":
			if m.machine == nil {
				err = fmt.Errorf("HARNESS call on a VM that never ran")
				return
			}
			fo, gerr := m.machine.Get(it.Fn)
			if gerr != nil {
				err = fmt.Errorf("HARNESS get %s: %v", it.Fn, gerr)
				return
			}
			fn, isFn := fo.(*object.Function)
			if !isFn {
				err = fmt.Errorf("HARNESS %s is not a function in the VM's active code", it.Fn)
				return
			}
			v, err = m.machine.Call(ctx, fn, nil)
		}
	}()
	out = modClass(v, err)
	// the host is done with this invocation: it releases the context (an event that concerns this invocation only)
	if finish != nil {
		finish()
		w.settle()
	}
	if w.settleTO {
		out += " SETTLE-TIMEOUT"
	}
	if it.Ctx == "timeout" {
		out = "T " + out
	}
	return out
}

func runModHistory(h *modHistory, out *bufio.Writer) {
	dir, err := os.MkdirTemp("", "c07mod-")
	if err != nil {
		fmt.Fprintf(out, "%s\tHARNESS %v\n", h.ID, err)
		return
	}
	defer os.RemoveAll(dir)
	if h.Imp != "fs" {
		for name, src := range h.Mods {
			if err := os.WriteFile(filepath.Join(dir, name+".risor"), []byte(expandMod(src)), 0o644); err != nil {
				fmt.Fprintf(out, "%s\tHARNESS %v\n", h.ID, err)
				return
			}
		}
	}
	w := newModWorld(h, dir)
	var parts []string
	for i := range h.Items {
		it := &h.Items[i]
		shared := w.invoke(it, false)
		fresh := "-"
		if it.Ctx != "timeout" {
			f := newModWorld(h, dir)
			fit := *it
			fit.VM = 0
			fresh = f.invoke(&fit, true)
		}
		parts = append(parts, shared+"|"+fresh)
	}
	fmt.Fprintf(out, "%s\t%s\n", h.ID, strings.Join(parts, ";"))
}
