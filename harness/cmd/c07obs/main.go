// c07obs: implementation-side observations for C07 (runs on a reused VM are independent of earlier runs).
//
// stdin: one history per line, JSON:
//
//	{"id": "h12", "g0": 0, "lib": "<risor source of the function library>",
//	 "items": [ {"k":"env","ev":["c",0]},
//	            {"k":"inv","api":"RC"|"RN"|"CL","ctx":1,"src":"<risor source>","fn":"c3",
//	             "gates":[[["c",0],["f",0]], ...]} ]}
//
// Every history runs on ONE shared VM through the public API (vm.New / vm.NewEmpty, RunCode, Run with the
// REPL's protocol, Call).  After each invocation the SAME invocation is run on a VM created for it, given the
// value the host global had before the invocation, a context in the state the invocation's context was in,
// and only the environment events that concern its own context (the oracle's reference run).
//
// Environment events are realised deterministically inside the host builtins gate() / spin(): cancel(ctx_c)
// is followed by waiting until the watcher goroutines of ctx_c have run (goroutine count settles), so a
// "stale watcher fires while a later run is in progress" schedule is reproduced exactly.
//
// stdout: id \t shared_1|g_1|fresh_1|fg_1 ; shared_2|... (one line per history)
package main

import (
	"bufio"
	"context"
	"encoding/json"
	"errors"
	"fmt"
	"os"
	"runtime"
	"strings"
	"sync/atomic"
	"time"

	"github.com/risor-io/risor/compiler"
	modMath "github.com/risor-io/risor/modules/math"
	"github.com/risor-io/risor/object"
	"github.com/risor-io/risor/parser"
	"github.com/risor-io/risor/vm"
)

type item struct {
	K     string            `json:"k"`
	Ev    []any             `json:"ev"`
	Api   string            `json:"api"`
	Ctx   int               `json:"ctx"`
	Src   string            `json:"src"`
	Fn    string            `json:"fn"`
	Gates [][][]any         `json:"gates"`
}

type history struct {
	ID    string `json:"id"`
	G0    int64  `json:"g0"`
	Lib   string `json:"lib"`
	Items []item `json:"items"`
	Plain []int  `json:"plain"` // contexts that are context.Background(): never cancelled, Done() == nil, no watcher
}

// runs that did not stop after their context was cancelled: each leaves a goroutine spinning
var hangs int

var globalNames = []string{"getg", "addg", "boom", "gate", "spin", "math"}

// modules whose top-level code fails with a Go panic while the host global is large: pm through a panicking host
// builtin, po through frame exhaustion.  Importing them again once the global is small must work as on a new VM.
var modSources = map[string]string{
	"pm": "if getg() > 100 { boom() }\nval := 7\n",
	"po": "func r(n) { return r(n + 1) }\nif getg() > 100 { r(0) }\nval := 8\n",
}

type modImporter struct{}

func (modImporter) Import(ctx context.Context, name string) (*object.Module, error) {
	src, ok := modSources[name]
	if !ok {
		return nil, fmt.Errorf("import error: module %q not found", name)
	}
	ast, err := parser.Parse(ctx, src)
	if err != nil {
		return nil, err
	}
	code, err := compiler.Compile(ast, compiler.WithGlobalNames(globalNames))
	if err != nil {
		return nil, err
	}
	return object.NewModule(name, code), nil
}

// one world = one VM with its host global, its contexts and the bookkeeping of armed watchers
type world struct {
	g        int64
	ctxs     map[int]context.Context
	cancels  map[int]context.CancelFunc
	isCancel map[int]bool
	plain    map[int]bool
	armed    map[int]int // ctx id -> watchers armed and not yet known to have fired
	base     int         // goroutines that are not watchers (measured when no watcher is armed)
	gates    [][][]any   // events of the current invocation
	gi       int         // next gate index
	own      int         // fresh mode: the only context whose events are applied (-1: all)
	ticks    int64
	settleTO bool
	reentered bool
	machine  *vm.VirtualMachine
	repl     *compiler.Compiler
	replCode *compiler.Code
	lib      string
}

func newWorld(g int64, lib string, plain []int) *world {
	w := &world{g: g, ctxs: map[int]context.Context{}, cancels: map[int]context.CancelFunc{},
		isCancel: map[int]bool{}, plain: map[int]bool{}, armed: map[int]int{}, own: -1, lib: lib}
	for _, id := range plain {
		w.plain[id] = true
	}
	return w
}

func (w *world) ctx(id int) context.Context {
	if c, ok := w.ctxs[id]; ok {
		return c
	}
	if w.plain[id] {
		w.ctxs[id] = context.Background()
		return w.ctxs[id]
	}
	c, cancel := context.WithCancel(context.Background())
	w.ctxs[id] = c
	w.cancels[id] = cancel
	return c
}

// a context without a Done channel gets no watcher goroutine
func (w *world) arm(id int) {
	if !w.plain[id] {
		w.armed[id]++
	}
}

func (w *world) totalArmed() int {
	n := 0
	for _, k := range w.armed {
		n += k
	}
	return n
}

// wait until the watcher goroutines of cancelled contexts have run
func (w *world) settle(extra int) {
	want := w.base + extra
	for id, k := range w.armed {
		if !w.isCancel[id] {
			want += k
		}
	}
	deadline := time.Now().Add(3 * time.Second)
	for runtime.NumGoroutine() > want {
		if time.Now().After(deadline) {
			w.settleTO = true
			break
		}
		runtime.Gosched()
		time.Sleep(20 * time.Microsecond)
	}
	for id := range w.armed {
		if w.isCancel[id] {
			w.armed[id] = 0
		}
	}
}

func (w *world) apply(ev []any, extra int) {
	kind, _ := ev[0].(string)
	n := int(ev[1].(float64))
	switch kind {
	case "c":
		if w.own >= 0 && n != w.own {
			return
		}
		w.ctx(n)
		w.isCancel[n] = true
		w.cancels[n]()
		w.settle(extra)
	case "f":
		// a watcher runs as soon as its context is cancelled; waiting is all that can be done
		w.settle(extra)
	case "r":
		// malformed use: another invocation while the VM is running must be refused and change nothing
		if w.machine != nil {
			code, err := compile("1")
			if err == nil {
				err = w.machine.RunCode(context.Background(), code)
			}
			if err == nil || !strings.Contains(err.Error(), "already running") {
				w.reentered = true
			}
			if _, err := w.machine.Call(context.Background(), nil, nil); err == nil || !strings.Contains(err.Error(), "already running") {
				w.reentered = true
			}
			if err := w.machine.Run(context.Background()); err == nil || !(strings.Contains(err.Error(), "already running") || strings.Contains(err.Error(), "no main code")) {
				w.reentered = true
			}
		}
	}
}

func (w *world) globals() map[string]any {
	gate := func(ctx context.Context, args ...object.Object) object.Object {
		if w.gi < len(w.gates) {
			evs := w.gates[w.gi]
			w.gi++
			for _, ev := range evs {
				w.apply(ev, 1)
			}
		} else {
			w.gi++
		}
		return object.NewInt(0)
	}
	return map[string]any{
		"math": modMath.Module(), // a module given as a global: `import math` must find it in every invocation
		"getg": object.NewBuiltin("getg", func(ctx context.Context, args ...object.Object) object.Object {
			return object.NewInt(w.g)
		}),
		"addg": object.NewBuiltin("addg", func(ctx context.Context, args ...object.Object) object.Object {
			z := args[0].(*object.Int).Value()
			w.g += z
			return object.NewInt(z)
		}),
		"boom": object.NewBuiltin("boom", func(ctx context.Context, args ...object.Object) object.Object {
			panic("boom")
		}),
		"gate": object.NewBuiltin("gate", gate),
		"spin": object.NewBuiltin("spin", func(ctx context.Context, args ...object.Object) object.Object {
			atomic.AddInt64(&w.ticks, 1)
			if w.gi >= len(w.gates) {
				// nothing more will happen: let the controller see that the loop diverges
				time.Sleep(200 * time.Microsecond)
				return object.Nil
			}
			return gate(ctx, args...)
		}),
	}
}

func compile(src string) (*compiler.Code, error) {
	ast, err := parser.Parse(context.Background(), src)
	if err != nil {
		return nil, err
	}
	return compiler.Compile(ast, compiler.WithGlobalNames(globalNames))
}

func classify(v object.Object, err error, ctx context.Context) string {
	if err != nil {
		m := err.Error()
		switch {
		case ctx.Err() != nil && errors.Is(err, ctx.Err()):
			return "E ctx"
		case strings.HasPrefix(m, "panic: boom"):
			return "E host"
		case strings.HasPrefix(m, "panic: runtime error: index out of range"):
			return "E bounds"
		case strings.HasPrefix(m, "index error"):
			return "E runtime"
		case strings.Contains(m, "imports are disabled"):
			return "E import"
		case strings.Contains(m, "already running"):
			return "BUSY"
		}
		if len(m) > 80 {
			m = m[:80]
		}
		return "E other(" + strings.ReplaceAll(strings.ReplaceAll(m, "\n", " "), "|", "/") + ")"
	}
	switch o := v.(type) {
	case nil:
		return "VNIL"
	case *object.NilType:
		return "VNIL"
	case *object.Int:
		return fmt.Sprintf("V %d", o.Value())
	}
	return "V other(" + string(v.Type()) + ")"
}

// run one invocation on the world's VM; returns the outcome class and whether the call returned
func (w *world) invoke(it *item, ctxID int) (string, bool) {
	ctx := w.ctx(ctxID)
	w.gates = it.Gates
	w.gi = 0
	type result struct {
		v   object.Object
		err error
	}
	done := make(chan result, 1)
	go func() {
		var v object.Object
		var err error
		defer func() {
			if r := recover(); r != nil {
				err = fmt.Errorf("GOPANIC %v", r)
			}
			done <- result{v, err}
		}()
		switch it.Api {
		case "RC":
			var code *compiler.Code
			code, err = compile(w.lib + "\n" + it.Src)
			if err != nil {
				err = fmt.Errorf("COMPILE %v", err)
				return
			}
			if w.machine == nil {
				w.machine, err = vm.NewEmpty()
				if err != nil {
					return
				}
			}
			w.arm(ctxID) // start() arms a watcher (it runs at once when the context is already cancelled)
			v, err = vm.RunCodeOnVM(ctx, w.machine, code, vm.WithGlobals(w.globals()), vm.WithImporter(modImporter{}))
		case "RN":
			// the REPL's protocol (cmd/risor/repl): one compiler, code appended, Run, SetIP after an error
			src := it.Src
			if w.repl == nil {
				w.repl, err = compiler.New(compiler.WithGlobalNames(globalNames))
				if err != nil {
					return
				}
				src = w.lib + "\n" + src
			}
			ast, perr := parser.Parse(context.Background(), src)
			if perr != nil {
				err = fmt.Errorf("COMPILE %v", perr)
				return
			}
			code, cerr := w.repl.Compile(ast)
			if cerr != nil {
				err = fmt.Errorf("COMPILE %v", cerr)
				return
			}
			w.replCode = code
			if w.machine == nil {
				w.machine = vm.New(code, vm.WithGlobals(w.globals()), vm.WithImporter(modImporter{}))
			}
			w.arm(ctxID)
			err = w.machine.Run(ctx)
			if err != nil {
				w.machine.SetIP(code.InstructionCount())
				return
			}
			if tos, ok := w.machine.TOS(); ok {
				v = tos
			} else {
				v = object.Nil
			}
		case "CL":
			if w.machine == nil {
				err = fmt.Errorf("HARNESS call on a VM that never ran")
				return
			}
			fo, gerr := w.machine.Get(it.Fn)
			if gerr != nil {
				err = fmt.Errorf("HARNESS get %s: %v", it.Fn, gerr)
				return
			}
			fn, isFn := fo.(*object.Function)
			if !isFn {
				err = fmt.Errorf("HARNESS %s is not a function in the VM's active code", it.Fn)
				return
			}
			w.arm(ctxID)
			v, err = w.machine.Call(ctx, fn, nil)
		}
	}()
	t0 := atomic.LoadInt64(&w.ticks)
	timeout := time.After(4 * time.Second)
	poll := time.NewTicker(5 * time.Millisecond)
	defer poll.Stop()
	idle := 0
	for {
		select {
		case r := <-done:
			// the run is over; its own watcher stays armed unless its context is cancelled
			if w.isCancel[ctxID] {
				w.settle(0)
			}
			return classify(r.v, r.err, ctx), true
		case <-poll.C:
			// a loop that has used up its events and keeps ticking diverges
			if w.gi >= len(w.gates) && atomic.LoadInt64(&w.ticks) > t0+20 {
				idle++
				if idle > 10 {
					w.isCancel[ctxID] = true
					w.cancels[ctxID]()
					select {
					case <-done:
					case <-time.After(2 * time.Second):
						hangs++
						return "HANG", false
					}
					w.settle(0)
					return "DIVERGE", false
				}
			}
		case <-timeout:
			w.isCancel[ctxID] = true
			w.cancels[ctxID]()
			select {
			case <-done:
			case <-time.After(2 * time.Second):
				hangs++
				return "HANG", false
			}
			w.settle(0)
			return "TIMEOUT", false
		}
	}
}

func runHistory(h *history, out *bufio.Writer) {
	runtime.GC()
	w := newWorld(h.G0, h.Lib, h.Plain)
	w.base = runtime.NumGoroutine()
	hasRun := false
	for _, it := range h.Items {
		if it.K == "inv" && it.Api == "RN" {
			hasRun = true
		}
	}
	if hasRun {
		// a VM that Run() can be used on is one created with main code; the REPL creates it at the first input
		// (done lazily in invoke) - but a RunCode that comes first must find the same kind of VM
		first := true
		for _, it := range h.Items {
			if it.K == "inv" {
				first = it.Api == "RN"
				break
			}
		}
		if !first {
			c, _ := compiler.New(compiler.WithGlobalNames(globalNames))
			ast, _ := parser.Parse(context.Background(), w.lib)
			code, err := c.Compile(ast)
			if err == nil {
				w.repl = c
				w.replCode = code
				w.machine = vm.New(code, vm.WithGlobals(w.globals()), vm.WithImporter(modImporter{}))
			}
		}
	}
	var parts []string
	for i := range h.Items {
		it := &h.Items[i]
		if it.K == "env" {
			w.apply(it.Ev, 0)
			continue
		}
		gBefore := w.g
		wasCancelled := w.isCancel[it.Ctx]
		w.ctx(it.Ctx)
		shared, returned := w.invoke(it, it.Ctx)
		gAfter := w.g

		// the reference run: a VM created for this invocation
		var fplain []int
		if w.plain[it.Ctx] {
			fplain = []int{0} // the reference run gets the same kind of context
		}
		f := newWorld(gBefore, h.Lib, fplain)
		f.own = 0
		f.base = runtime.NumGoroutine()
		f.ctx(0)
		if wasCancelled {
			f.isCancel[0] = true
			f.cancels[0]()
		}
		fit := *it
		// events on the invocation's own context keep their place; all others are dropped
		fit.Gates = nil
		for _, evs := range it.Gates {
			var keep [][]any
			for _, ev := range evs {
				kind, _ := ev[0].(string)
				n := int(ev[1].(float64))
				if kind == "c" && n == it.Ctx {
					keep = append(keep, []any{"c", float64(0)})
				} else if kind == "f" {
					keep = append(keep, []any{"f", float64(0)})
				} else if kind == "r" {
					keep = append(keep, []any{"r", float64(0)})
				}
			}
			fit.Gates = append(fit.Gates, keep)
		}
		if fit.Api == "CL" {
			// the function has to exist in the new VM: load the library first (definitions only)
			code, err := compile(h.Lib)
			if err == nil {
				f.machine, _ = vm.NewEmpty()
				_, err = vm.RunCodeOnVM(context.Background(), f.machine, code, vm.WithGlobals(f.globals()), vm.WithImporter(modImporter{}))
			}
			if err != nil {
				parts = append(parts, shared+"|"+fmt.Sprint(gAfter)+"|HARNESS "+err.Error()+"|0")
				continue
			}
		}
		fresh, _ := f.invoke(&fit, 0)
		if f.settleTO {
			fresh += " SETTLE-TIMEOUT"
		}
		if !f.isCancel[0] && f.cancels[0] != nil {
			f.cancels[0]() // do not leave the reference run's watcher behind
			f.isCancel[0] = true
			f.settle(0)
		}
		if w.settleTO {
			shared += " SETTLE-TIMEOUT"
		}
		if w.reentered {
			shared += " REENTER-ACCEPTED"
		}
		if f.reentered {
			fresh += " REENTER-ACCEPTED"
		}
		parts = append(parts, fmt.Sprintf("%s|%d|%s|%d", shared, gAfter, fresh, f.g))
		if !returned {
			break
		}
	}
	// leave no goroutine behind for the next history
	for id, c := range w.cancels {
		if !w.isCancel[id] {
			c()
			w.isCancel[id] = true
		}
	}
	w.settle(0)
	fmt.Fprintf(out, "%s\t%s\n", h.ID, strings.Join(parts, ";"))
}

func main() {
	out := bufio.NewWriterSize(os.Stdout, 1<<20)
	defer out.Flush()
	sc := bufio.NewScanner(os.Stdin)
	sc.Buffer(make([]byte, 1<<20), 1<<26)
	for sc.Scan() {
		line := strings.TrimSpace(sc.Text())
		if line == "" {
			continue
		}
		if strings.Contains(line, `"mode": "script"`) || strings.Contains(line, `"mode":"script"`) {
			var sh scriptHistory
			if err := json.Unmarshal([]byte(line), &sh); err != nil {
				fmt.Fprintf(out, "?\tBADJSON %v\n", err)
				continue
			}
			runScriptHistory(&sh, out)
			continue
		}
		if strings.Contains(line, `"mode": "mod"`) || strings.Contains(line, `"mode":"mod"`) {
			var mh modHistory
			if err := json.Unmarshal([]byte(line), &mh); err != nil {
				fmt.Fprintf(out, "?\tBADJSON %v\n", err)
				continue
			}
			runModHistory(&mh, out)
			continue
		}
		var h history
		if err := json.Unmarshal([]byte(line), &h); err != nil {
			fmt.Fprintf(out, "?\tBADJSON %v\n", err)
			continue
		}
		if hangs >= 2 {
			fmt.Fprintf(out, "%s\tSKIPPED-AFTER-HANG\n", h.ID)
			continue
		}
		runHistory(&h, out)
	}
}
