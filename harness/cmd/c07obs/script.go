// Script-global histories ("mode":"script"): the REPL protocol (one compiler, main code appended, Run, SetIP after an
// error) and Call on ONE VM, with code objects of every kind (top-level functions, literals nested in functions, closure
// factory products, callbacks, deferred functions, functions held in maps / lists, functions run on threads) that were
// loaded by an earlier invocation and read or write script-level globals that later invocations change.
//
//	{"id": "g7", "mode": "script", "watch": ["g0", "g1"],
//	 "items": [ {"api": "RN", "src": "<piece>", "eff": "<source with the same effect on the globals>"},
//	            {"api": "CL", "fn": "rd1", "args": [3], "eff": "rd1(3)"} ]}
//
// After each invocation the SAME invocation is made on a VM created for it: that VM first runs, as ONE program in ONE
// Run, the `eff` texts of all earlier items (this gives it the current values of the globals and the definitions), and
// - for RN - the piece itself as the end of that same program; a Call is made after that single Run.  The reference
// never resumes a VM with Run, so it cannot depend on what a resumed Run does to code loaded earlier.
//
// stdout: id \t shared_1|globals_1|fresh_1|fglobals_1 ; ...     (same shape as the other histories)
package main

import (
	"bufio"
	"context"
	"fmt"
	"runtime"
	"strings"
	"time"

	"github.com/risor-io/risor"
	"github.com/risor-io/risor/compiler"
	"github.com/risor-io/risor/object"
	"github.com/risor-io/risor/parser"
	"github.com/risor-io/risor/vm"
)

type scriptItem struct {
	Api    string  `json:"api"` // RN: Run of a piece; CL: Call of a global function; CH: Call of a function the host kept
	Src    string  `json:"src"`
	Eff    string  `json:"eff"`
	Fn     string  `json:"fn"`
	Args   []int64 `json:"args"`
	Hold   string  `json:"hold"`   // CL: the host keeps the result under this name (the reference declares a global of that name)
	Reg    string  `json:"reg"`    // CH: which kept function to call
	Cancel string  `json:"cancel"` // when the host cancels this invocation's context: "after" it returned (default), at the "end"
	// of the history, or when a later piece calls cancel_ctx(i) ("script"; at the end if none does)
}

type scriptHistory struct {
	ID    string       `json:"id"`
	Mode  string       `json:"mode"`
	Watch []string     `json:"watch"`
	Items []scriptItem `json:"items"`
}

type scriptWorld struct {
	cfg     *risor.Config
	repl    *compiler.Compiler
	machine *vm.VirtualMachine
	cancels map[int]context.CancelFunc // shared VM only: contexts of earlier invocations that are still live
	held    map[string]*object.Function
}

// the configuration of a world: cancel_ctx(i) cancels the context of invocation i of the shared VM's history; on a
// reference VM (everything earlier ran under its one context) it does nothing
func (w *scriptWorld) config() *risor.Config {
	return risor.NewConfig(risor.WithConcurrency(), risor.WithGlobal("cancel_ctx",
		object.NewBuiltin("cancel_ctx", func(ctx context.Context, args ...object.Object) object.Object {
			if len(args) == 1 {
				if i, ok := args[0].(*object.Int); ok {
					if c, found := w.cancels[int(i.Value())]; found {
						c()
						delete(w.cancels, int(i.Value()))
						// let the goroutines that watch that context run
						for k := 0; k < 20; k++ {
							runtime.Gosched()
						}
						time.Sleep(200 * time.Microsecond)
					}
				}
			}
			return object.Nil
		})))
}

func newScriptWorld() *scriptWorld {
	w := &scriptWorld{cancels: map[int]context.CancelFunc{}, held: map[string]*object.Function{}}
	w.cfg = w.config()
	return w
}

func clean(s string) string {
	return strings.NewReplacer("|", "/", ";", ",", "\n", " ", "\t", " ").Replace(s)
}

func scriptClass(v object.Object, err error) string {
	if err != nil {
		m := err.Error()
		switch {
		case strings.Contains(m, "context deadline"):
			// the harness's own wall-clock bound; "context canceled" on the other hand can only come from the context of
			// an EARLIER invocation (the harness cancels a context only after its invocation returned): an observation
			return "TIMEOUT"
		case strings.Contains(m, "context canceled"):
			return "E stale-context-canceled(" + clean(m) + ")"
		case strings.HasPrefix(m, "panic: runtime error: index out of range"):
			return "E bounds"
		case strings.HasPrefix(m, "panic:"):
			return "E panic"
		}
		if i := strings.Index(m, ":"); i > 0 && i < 24 {
			return "E " + clean(m[:i])
		}
		if len(m) > 60 {
			m = m[:60]
		}
		return "E other(" + clean(m) + ")"
	}
	if v == nil {
		return "V nil"
	}
	s := v.Inspect()
	if len(s) > 300 {
		s = s[:300]
	}
	return "V " + clean(s)
}

func (w *scriptWorld) run(ctx context.Context, src string) (v object.Object, err error) {
	defer func() {
		if r := recover(); r != nil {
			err = fmt.Errorf("GOPANIC %v", r)
		}
	}()
	if w.repl == nil {
		w.repl, err = compiler.New(w.cfg.CompilerOpts()...)
		if err != nil {
			return nil, err
		}
	}
	ast, perr := parser.Parse(ctx, src)
	if perr != nil {
		return nil, fmt.Errorf("COMPILE: %v", perr)
	}
	code, cerr := w.repl.Compile(ast)
	if cerr != nil {
		return nil, fmt.Errorf("COMPILE: %v", cerr)
	}
	if w.machine == nil {
		w.machine = vm.New(code, w.cfg.VMOpts()...)
	}
	if err = w.machine.Run(ctx); err != nil {
		w.machine.SetIP(code.InstructionCount())
		return nil, err
	}
	if tos, ok := w.machine.TOS(); ok {
		return tos, nil
	}
	return object.Nil, nil
}

func (w *scriptWorld) call(ctx context.Context, name string, ints []int64, heldFn *object.Function) (v object.Object, err error) {
	defer func() {
		if r := recover(); r != nil {
			err = fmt.Errorf("GOPANIC %v", r)
		}
	}()
	if w.machine == nil {
		return nil, fmt.Errorf("HARNESS: call on a VM that never ran")
	}
	fn := heldFn
	if fn == nil {
		fo, gerr := w.machine.Get(name)
		if gerr != nil {
			return nil, fmt.Errorf("HARNESS: get %s: %v", name, gerr)
		}
		var ok bool
		fn, ok = fo.(*object.Function)
		if !ok {
			return nil, fmt.Errorf("HARNESS: %s is not a function", name)
		}
	}
	args := make([]object.Object, len(ints))
	for i, a := range ints {
		args[i] = object.NewInt(a)
	}
	return w.machine.Call(ctx, fn, args)
}

func (w *scriptWorld) dump(watch []string) string {
	if w.machine == nil {
		return "-"
	}
	var parts []string
	for _, name := range watch {
		o, err := w.machine.Get(name)
		switch {
		case err != nil:
			parts = append(parts, name+"=?")
		case o == nil:
			parts = append(parts, name+"=unset")
		default:
			s := o.Inspect()
			if len(s) > 60 {
				s = s[:60]
			}
			parts = append(parts, name+"="+clean(s))
		}
	}
	return strings.Join(parts, ",")
}

func runScriptHistory(h *scriptHistory, out *bufio.Writer) {
	shared := newScriptWorld()
	var parts []string
	var effs []string
	var atEnd []context.CancelFunc
	for k, it := range h.Items {
		ctx, cancel := context.WithTimeout(context.Background(), 5*time.Second)
		var sv object.Object
		var serr error
		switch it.Api {
		case "RN":
			sv, serr = shared.run(ctx, it.Src)
		case "CL":
			sv, serr = shared.call(ctx, it.Fn, it.Args, nil)
			if it.Hold != "" {
				if fn, ok := sv.(*object.Function); ok && serr == nil {
					shared.held[it.Hold] = fn
				}
			}
		case "CH":
			if fn := shared.held[it.Reg]; fn != nil {
				sv, serr = shared.call(ctx, "", nil, fn)
			} else {
				serr = fmt.Errorf("HARNESS: nothing kept as %s", it.Reg)
			}
		}
		so, sg := scriptClass(sv, serr), shared.dump(h.Watch)
		switch it.Cancel {
		case "end":
			atEnd = append(atEnd, cancel)
		case "script":
			shared.cancels[k] = cancel
		default:
			cancel()
		}

		ctx2, cancel2 := context.WithTimeout(context.Background(), 5*time.Second)
		fresh := newScriptWorld()
		prefix := strings.Join(effs, "\n")
		var fv object.Object
		var ferr error
		if it.Api == "RN" {
			src := it.Src
			if prefix != "" {
				src = prefix + "\n" + src
			}
			fv, ferr = fresh.run(ctx2, src)
		} else {
			if _, perr := fresh.run(ctx2, prefix+"\nnil"); perr != nil {
				ferr = fmt.Errorf("HARNESS: the reference VM could not run the earlier items: %v", perr)
			} else if it.Api == "CH" {
				// in the reference program the kept function is a global of that name
				fv, ferr = fresh.call(ctx2, it.Reg, nil, nil)
			} else {
				fv, ferr = fresh.call(ctx2, it.Fn, it.Args, nil)
			}
		}
		fo, fg := scriptClass(fv, ferr), fresh.dump(h.Watch)
		cancel2()
		parts = append(parts, so+"|"+sg+"|"+fo+"|"+fg)
		if it.Eff != "" {
			effs = append(effs, it.Eff)
		}
	}
	for _, c := range atEnd {
		c()
	}
	for _, c := range shared.cancels {
		c()
	}
	fmt.Fprintf(out, "%s\t%s\n", h.ID, strings.Join(parts, ";"))
}
