// Script-global histories ("mode":"script"): the REPL protocol (one compiler, main code appended, Run, SetIP after an
// error) and Call on ONE VM, with code objects of every kind (top-level functions, literals nested in functions, closure
// factory products, callbacks, deferred functions, functions held in maps / lists, functions run on threads) that were
// loaded by an earlier invocation and read or write script-level globals that later invocations change.
//
//	{"id": "g7", "mode": "script", "watch": ["g0", "g1"],
//	 "items": [ {"api": "RN", "src": "<piece>", "eff": "<source with the same effect on the globals>"},
//	            {"api": "CL", "fn": "rd1", "args": [3], "eff": "rd1(3)"} ]}
//
// After each invocation the SAME invocation is made on a VM created for it: that VM first runs, as ONE program in ONE
// Run, the `eff` texts of all earlier items (this gives it the current values of the globals and the definitions), and
// - for RN - the piece itself as the end of that same program; a Call is made after that single Run.  The reference
// never resumes a VM with Run, so it cannot depend on what a resumed Run does to code loaded earlier.
//
// stdout: id \t shared_1|globals_1|fresh_1|fglobals_1 ; ...     (same shape as the other histories)
package main

import (
	"bufio"
	"context"
	"fmt"
	"strings"
	"time"

	"github.com/risor-io/risor"
	"github.com/risor-io/risor/compiler"
	"github.com/risor-io/risor/object"
	"github.com/risor-io/risor/parser"
	"github.com/risor-io/risor/vm"
)

type scriptItem struct {
	Api  string  `json:"api"`
	Src  string  `json:"src"`
	Eff  string  `json:"eff"`
	Fn   string  `json:"fn"`
	Args []int64 `json:"args"`
}

type scriptHistory struct {
	ID    string       `json:"id"`
	Mode  string       `json:"mode"`
	Watch []string     `json:"watch"`
	Items []scriptItem `json:"items"`
}

type scriptWorld struct {
	cfg     *risor.Config
	repl    *compiler.Compiler
	machine *vm.VirtualMachine
}

func clean(s string) string {
	return strings.NewReplacer("|", "/", ";", ",", "\n", " ", "\t", " ").Replace(s)
}

func scriptClass(v object.Object, err error) string {
	if err != nil {
		m := err.Error()
		switch {
		case strings.Contains(m, "context deadline") || strings.Contains(m, "context canceled"):
			return "TIMEOUT"
		case strings.HasPrefix(m, "panic: runtime error: index out of range"):
			return "E bounds"
		case strings.HasPrefix(m, "panic:"):
			return "E panic"
		}
		if i := strings.Index(m, ":"); i > 0 && i < 24 {
			return "E " + clean(m[:i])
		}
		if len(m) > 60 {
			m = m[:60]
		}
		return "E other(" + clean(m) + ")"
	}
	if v == nil {
		return "V nil"
	}
	s := v.Inspect()
	if len(s) > 300 {
		s = s[:300]
	}
	return "V " + clean(s)
}

func (w *scriptWorld) run(ctx context.Context, src string) (v object.Object, err error) {
	defer func() {
		if r := recover(); r != nil {
			err = fmt.Errorf("GOPANIC %v", r)
		}
	}()
	if w.repl == nil {
		w.repl, err = compiler.New(w.cfg.CompilerOpts()...)
		if err != nil {
			return nil, err
		}
	}
	ast, perr := parser.Parse(ctx, src)
	if perr != nil {
		return nil, fmt.Errorf("COMPILE: %v", perr)
	}
	code, cerr := w.repl.Compile(ast)
	if cerr != nil {
		return nil, fmt.Errorf("COMPILE: %v", cerr)
	}
	if w.machine == nil {
		w.machine = vm.New(code, w.cfg.VMOpts()...)
	}
	if err = w.machine.Run(ctx); err != nil {
		w.machine.SetIP(code.InstructionCount())
		return nil, err
	}
	if tos, ok := w.machine.TOS(); ok {
		return tos, nil
	}
	return object.Nil, nil
}

func (w *scriptWorld) call(ctx context.Context, name string, ints []int64) (v object.Object, err error) {
	defer func() {
		if r := recover(); r != nil {
			err = fmt.Errorf("GOPANIC %v", r)
		}
	}()
	if w.machine == nil {
		return nil, fmt.Errorf("HARNESS: call on a VM that never ran")
	}
	fo, gerr := w.machine.Get(name)
	if gerr != nil {
		return nil, fmt.Errorf("HARNESS: get %s: %v", name, gerr)
	}
	fn, ok := fo.(*object.Function)
	if !ok {
		return nil, fmt.Errorf("HARNESS: %s is not a function", name)
	}
	args := make([]object.Object, len(ints))
	for i, a := range ints {
		args[i] = object.NewInt(a)
	}
	return w.machine.Call(ctx, fn, args)
}

func (w *scriptWorld) dump(watch []string) string {
	if w.machine == nil {
		return "-"
	}
	var parts []string
	for _, name := range watch {
		o, err := w.machine.Get(name)
		switch {
		case err != nil:
			parts = append(parts, name+"=?")
		case o == nil:
			parts = append(parts, name+"=unset")
		default:
			s := o.Inspect()
			if len(s) > 60 {
				s = s[:60]
			}
			parts = append(parts, name+"="+clean(s))
		}
	}
	return strings.Join(parts, ",")
}

func runScriptHistory(h *scriptHistory, out *bufio.Writer) {
	cfg := risor.NewConfig(risor.WithConcurrency())
	shared := &scriptWorld{cfg: cfg}
	var parts []string
	var effs []string
	for _, it := range h.Items {
		ctx, cancel := context.WithTimeout(context.Background(), 5*time.Second)
		var sv object.Object
		var serr error
		if it.Api == "RN" {
			sv, serr = shared.run(ctx, it.Src)
		} else {
			sv, serr = shared.call(ctx, it.Fn, it.Args)
		}
		so, sg := scriptClass(sv, serr), shared.dump(h.Watch)
		cancel()

		ctx2, cancel2 := context.WithTimeout(context.Background(), 5*time.Second)
		fresh := &scriptWorld{cfg: cfg}
		prefix := strings.Join(effs, "\n")
		var fv object.Object
		var ferr error
		if it.Api == "RN" {
			src := it.Src
			if prefix != "" {
				src = prefix + "\n" + src
			}
			fv, ferr = fresh.run(ctx2, src)
		} else {
			if _, perr := fresh.run(ctx2, prefix+"\nnil"); perr != nil {
				ferr = fmt.Errorf("HARNESS: the reference VM could not run the earlier items: %v", perr)
			} else {
				fv, ferr = fresh.call(ctx2, it.Fn, it.Args)
			}
		}
		fo, fg := scriptClass(fv, ferr), fresh.dump(h.Watch)
		cancel2()
		parts = append(parts, so+"|"+sg+"|"+fo+"|"+fg)
		if it.Eff != "" {
			effs = append(effs, it.Eff)
		}
	}
	fmt.Fprintf(out, "%s\t%s\n", h.ID, strings.Join(parts, ";"))
}
