package main

import (
	"bufio"
	"context"
	"encoding/hex"
	"fmt"
	"math"
	"os"
	"path/filepath"
	"reflect"
	"sort"
	"strings"

	"github.com/risor-io/risor"
	"github.com/risor-io/risor/ast"
	"github.com/risor-io/risor/compiler"
	"github.com/risor-io/risor/parser"
)

var parserMode bool

func h(s string) string { return "h:" + hex.EncodeToString([]byte(s)) }

func isNil(n any) bool {
	if n == nil {
		return true
	}
	v := reflect.ValueOf(n)
	return v.Kind() == reflect.Ptr && v.IsNil()
}

type dumper struct {
	sb  strings.Builder
	bad bool
}

func (d *dumper) w(s string) { d.sb.WriteString(s) }

func (d *dumper) opt(n ast.Node) {
	if isNil(n) {
		d.w(" _")
	} else {
		d.w(" ")
		d.node(n)
	}
}

func (d *dumper) blk(b *ast.Block) {
	d.w("(blk")
	for _, s := range b.Statements() {
		d.w(" ")
		d.node(s)
	}
	d.w(")")
}

func (d *dumper) optblk(b *ast.Block) {
	if b == nil {
		d.w(" _")
	} else {
		d.w(" ")
		d.blk(b)
	}
}

func (d *dumper) node(n ast.Node) {
	if isNil(n) {
		if !parserMode {
			d.bad = true
		}
		d.w("(typednil)")
		return
	}
	switch n := n.(type) {
	case *ast.Nil:
		d.w("(nil)")
	case *ast.Int:
		d.w(fmt.Sprintf("(int i:%d)", n.Value()))
	case *ast.Float:
		if parserMode {
			d.w("(floatlit " + h(n.Literal()) + ")")
		} else {
			d.w(fmt.Sprintf("(float i:%d)", math.Float64bits(n.Value())))
		}
	case *ast.Bool:
		if n.Value() {
			d.w("(bool #t)")
		} else {
			d.w("(bool #f)")
		}
	case *ast.String:
		d.w("(str " + h(n.Value()))
		if t := n.Template(); t == nil {
			d.w(" _)")
		} else {
			d.w(" (frags")
			exprs := n.TemplateExpressions()
			idx := 0
			for _, f := range t.Fragments() {
				if f.IsVariable() {
					e := exprs[idx]
					idx++
					d.w(" (var")
					d.opt(e)
					d.w(")")
				} else {
					d.w(" (text " + h(f.Value()) + ")")
				}
			}
			d.w("))")
		}
	case *ast.Ident:
		d.w("(ident " + h(n.String()) + ")")
	case *ast.Prefix:
		d.w("(prefix " + h(n.Operator()) + " ")
		d.node(n.Right())
		d.w(")")
	case *ast.Infix:
		d.w("(infix " + h(n.Operator()) + " ")
		d.node(n.Left())
		d.w(" ")
		d.node(n.Right())
		d.w(")")
	case *ast.If:
		d.w("(if ")
		d.node(n.Condition())
		d.w(" ")
		d.blk(n.Consequence())
		d.optblk(n.Alternative())
		d.w(")")
	case *ast.Ternary:
		d.w("(tern ")
		d.node(n.Condition())
		d.w(" ")
		d.node(n.IfTrue())
		d.w(" ")
		d.node(n.IfFalse())
		d.w(")")
	case *ast.Call:
		d.w("(call ")
		d.node(n.Function())
		d.w(" (args")
		for _, a := range n.Arguments() {
			d.w(" ")
			d.node(a)
		}
		d.w("))")
	case *ast.GetAttr:
		d.w("(getattr ")
		d.node(n.Object())
		d.w(" " + h(n.Name()) + ")")
	case *ast.Pipe:
		d.w("(pipe")
		for _, e := range n.Expressions() {
			d.w(" ")
			d.node(e)
		}
		d.w(")")
	case *ast.ObjectCall:
		call, ok := n.Call().(*ast.Call)
		if !ok {
			d.bad = true
			d.w("(bad)")
			return
		}
		d.w("(ocall ")
		d.node(n.Object())
		d.w(" " + h(call.Function().String()) + " (args")
		for _, a := range call.Arguments() {
			d.w(" ")
			d.node(a)
		}
		d.w("))")
	case *ast.Index:
		d.w("(index ")
		d.node(n.Left())
		d.w(" ")
		d.node(n.Index())
		d.w(")")
	case *ast.Slice:
		d.w("(slice ")
		d.node(n.Left())
		d.opt(n.FromIndex())
		d.opt(n.ToIndex())
		d.w(")")
	case *ast.Switch:
		d.w("(switch ")
		d.node(n.Value())
		for _, c := range n.Choices() {
			if c.IsDefault() {
				d.w(" (case #t (exprs)")
			} else {
				d.w(" (case #f (exprs")
				for _, e := range c.Expressions() {
					d.w(" ")
					d.node(e)
				}
				d.w(")")
			}
			d.optblk(c.Block())
			d.w(")")
		}
		d.w(")")
	case *ast.In:
		d.w("(in ")
		d.node(n.Left())
		d.w(" ")
		d.node(n.Right())
		d.w(")")
	case *ast.NotIn:
		d.w("(notin ")
		d.node(n.Left())
		d.w(" ")
		d.node(n.Right())
		d.w(")")
	case *ast.Range:
		d.w("(range ")
		d.node(n.Container())
		d.w(")")
	case *ast.Receive:
		d.w("(recv ")
		d.node(n.Channel())
		d.w(")")
	case *ast.Func:
		d.w("(func")
		if n.Name() == nil {
			d.w(" _")
		} else {
			d.w(" " + h(n.Name().Literal()))
		}
		d.w(" (params")
		for _, p := range n.ParameterNames() {
			d.w(" " + h(p))
		}
		d.w(") (defaults")
		var names []string
		for k := range n.Defaults() {
			names = append(names, k)
		}
		sort.Strings(names)
		for _, k := range names {
			d.w(" (" + h(k) + " ")
			d.node(n.Defaults()[k])
			d.w(")")
		}
		d.w(") ")
		d.blk(n.Body())
		d.w(")")
	case *ast.List:
		d.w("(list")
		for _, e := range n.Items() {
			d.w(" ")
			d.node(e)
		}
		d.w(")")
	case *ast.Set:
		d.w("(set")
		for _, e := range n.Items() {
			d.w(" ")
			d.node(e)
		}
		d.w(")")
	case *ast.Map:
		d.w("(map")
		// entries in source order (ast.Map.OrderedKeys)
		items := n.Items()
		for _, k := range n.OrderedKeys() {
			d.w(" (")
			d.node(k)
			d.w(" ")
			d.node(items[k])
			d.w(")")
		}
		d.w(")")
	case *ast.Var:
		name, v := n.Value()
		d.w("(var " + h(name) + " ")
		d.node(v)
		d.w(")")
	case *ast.MultiVar:
		names, v := n.Value()
		d.w("(mvar (names")
		for _, nm := range names {
			d.w(" " + h(nm))
		}
		d.w(") ")
		d.node(v)
		if n.IsWalrus() {
			d.w(" #t)")
		} else {
			d.w(" #f)")
		}
	case *ast.Const:
		name, v := n.Value()
		d.w("(const " + h(name) + " ")
		d.node(v)
		d.w(")")
	case *ast.Control:
		if n.Literal() == "break" {
			d.w("(break)")
		} else {
			d.w("(continue)")
		}
	case *ast.Return:
		d.w("(return")
		d.opt(n.Value())
		d.w(")")
	case *ast.For:
		d.w("(for")
		d.opt(n.Condition())
		d.opt(n.Init())
		d.opt(n.Post())
		d.w(" ")
		d.blk(n.Consequence())
		d.w(")")
	case *ast.ForIn:
		d.w("(forin " + h(n.Variable().Literal()) + " ")
		d.node(n.Iterable())
		d.w(" ")
		d.blk(n.Consequence())
		d.w(")")
	case *ast.Assign:
		if n.Index() != nil {
			d.w("(assignidx ")
			d.node(n.Index().Left())
			d.w(" ")
			d.node(n.Index().Index())
			d.w(" " + h(n.Operator()) + " ")
			d.node(n.Value())
			d.w(")")
		} else {
			d.w("(assign " + h(n.Name()) + " " + h(n.Operator()) + " ")
			d.node(n.Value())
			d.w(")")
		}
	case *ast.Import:
		d.w("(import " + h(n.Path().Value()))
		if n.Alias() == nil {
			d.w(" _)")
		} else {
			d.w(" " + h(n.Alias().String()) + ")")
		}
	case *ast.FromImport:
		d.w("(fromimport (parents")
		for _, p := range n.Parents() {
			d.w(" " + h(p.String()))
		}
		d.w(") (imports")
		for _, im := range n.Imports() {
			d.w(" (" + h(im.Path().Value()))
			if im.Alias() == nil {
				d.w(" _)")
			} else {
				d.w(" " + h(im.Alias().String()) + ")")
			}
		}
		d.w("))")
	case *ast.Postfix:
		d.w("(postfix " + h(n.Literal()) + " " + h(n.Operator()) + ")")
	case *ast.SetAttr:
		d.w("(setattr ")
		d.node(n.Object())
		d.w(" " + h(n.Name()) + " " + h(n.Token().Literal) + " ")
		d.node(n.Value())
		d.w(")")
	case *ast.Go:
		d.w("(go ")
		d.node(n.Call())
		d.w(")")
	case *ast.Defer:
		d.w("(defer ")
		d.node(n.Call())
		d.w(")")
	case *ast.Send:
		d.w("(send ")
		d.node(n.Channel())
		d.w(" ")
		d.node(n.Value())
		d.w(")")
	default:
		d.bad = true
		d.w(fmt.Sprintf("(unknown %T)", n))
	}
}

func konst(c any) string {
	switch c := c.(type) {
	case nil:
		return "n"
	case int64:
		return fmt.Sprintf("i%d", c)
	case int:
		return fmt.Sprintf("i%d", c)
	case float64:
		return fmt.Sprintf("f%d", math.Float64bits(c))
	case string:
		return "s" + hex.EncodeToString([]byte(c))
	case bool:
		if c {
			return "b1"
		}
		return "b0"
	case *compiler.Function:
		var ps, ds []string
		for i := 0; i < c.ParametersCount(); i++ {
			ps = append(ps, hex.EncodeToString([]byte(c.Parameter(i))))
		}
		for i := 0; i < c.DefaultsCount(); i++ {
			ds = append(ds, konst(c.Default(i)))
		}
		return fmt.Sprintf("fn(%s,%s,%s,%s,%s)", hex.EncodeToString([]byte(c.ID())), hex.EncodeToString([]byte(c.Name())),
			strings.Join(ps, "/"), strings.Join(ds, "/"), hex.EncodeToString([]byte(c.Code().ID())))
	}
	return fmt.Sprintf("?%T", c)
}

func dumpCode(code *compiler.Code) string {
	var parts []string
	for _, c := range code.Flatten() {
		var ins, ks, ns, ls []string
		for i := 0; i < c.InstructionCount(); i++ {
			ins = append(ins, fmt.Sprint(uint16(c.Instruction(i))))
		}
		for i := 0; i < c.ConstantsCount(); i++ {
			ks = append(ks, konst(c.Constant(i)))
		}
		for i := 0; i < c.NameCount(); i++ {
			ns = append(ns, hex.EncodeToString([]byte(c.Name(i))))
		}
		for i := 0; i < c.LocalsCount(); i++ {
			ls = append(ls, hex.EncodeToString([]byte(c.Local(i).Name())))
		}
		named := 0
		if c.IsNamed() {
			named = 1
		}
		parts = append(parts, fmt.Sprintf("code %s %s named=%d fid=%s ins=%s consts=%s names=%s locals=%s",
			hex.EncodeToString([]byte(c.ID())), hex.EncodeToString([]byte(c.CodeName())), named,
			hex.EncodeToString([]byte(c.FunctionID())),
			strings.Join(ins, ","), strings.Join(ks, ";"), strings.Join(ns, ","), strings.Join(ls, ",")))
	}
	return strings.Join(parts, " || ")
}

func perrClass(e error) string {
	m := e.Error()
	pos := ""
	if pe, ok := e.(parser.ParserError); ok {
		pos = fmt.Sprintf(" %d %d", pe.StartPosition().Line, pe.StartPosition().Column)
	}
	cls := "OTHER(" + strings.ReplaceAll(m, "\n", " ") + ")"
	table := []struct{ pat, cls string }{
		{"syntax error: unexpected character", "S_UnexpectedChar"},
		{"syntax error: unterminated string literal", "S_UnterminatedString"},
		{"syntax error: invalid escape sequence", "S_InvalidEscape"},
		{"syntax error: unterminated escape sequence", "S_UnterminatedEscape"},
		{"syntax error: illegal character", "S_IllegalEscapeChar"},
		{"syntax error: escape sequence is not a valid number", "S_EscapeNotNumber"},
		{"syntax error: invalid decimal literal", "S_InvalidDecimal"},
		{"syntax error: invalid identifier", "S_InvalidIdentifier"},
		{"parse error: invalid syntax (unexpected", "PK_NoPrefix"},
		{"invalid return statement", "PK_InvalidReturn"},
		{"invalid case expression", "PK_InvalidCase"},
		{"invalid else if expression", "PK_InvalidElseIf"},
		{"following statement", "PK_FollowingStatement"},
		{"assignment is missing a value", "PK_MissingValue"},
		{"parse error: expected expression", "PK_ExpectedExpr"},
		{"parse error: illegal token", "PK_IllegalToken"},
		{"parse error: invalid identifier", "PK_InvalidIdent"},
		{"parse error: invalid integer", "PK_InvalidInt"},
		{"parse error: invalid float", "PK_InvalidFloat"},
		{"unterminated switch statement", "PK_UntermSwitch"},
		{"expected 'case' or 'default'", "PK_ExpectedCase"},
		{"multiple default blocks", "PK_MultiDefault"},
		{"invalid import path", "PK_ImportPath"},
		{"invalid module path", "PK_ModulePath"},
		{"from-import is missing import statement", "PK_FromMissingImport"},
		{"invalid prefix expression", "PK_InvalidPrefix"},
		{"nested ternary expression", "PK_NestedTernary"},
		{"invalid ternary expression", "PK_InvalidTernary"},
		{"ternary if true", "PK_TernTrue"},
		{"ternary if false", "PK_TernFalse"},
		{"invalid iterable in for-in", "PK_ForInIterable"},
		{"invalid for loop expression", "PK_ForExpr"},
		{"expected semicolon after for loop", "PK_ForSemicolon"},
		{"invalid for loop condition", "PK_ForCond"},
		{"invalid for loop post", "PK_ForPost"},
		{"unterminated block statement", "PK_UntermBlock"},
		{"unterminated function parameters", "PK_UntermParams"},
		{"expected an identifier (got", "PK_ExpectedIdentGot"},
		{"invalid go statement", "PK_InvalidGo"},
		{"invalid defer statement", "PK_InvalidDefer"},
		{"template contains more than one", "PK_TemplateMulti"},
		{"template contains an unexpected", "PK_TemplateStmt"},
		{"invalid syntax in list expression", "PK_ListSyntax"},
		{"invalid index expression", "PK_InvalidIndex"},
		{"unexpected token for assignment", "PK_AssignTarget"},
		{"unsupported operator for assignment", "PK_AssignOp"},
		{"invalid assignment statement value", "PK_AssignValue"},
		{"invalid call expression", "PK_InvalidCall"},
		{"invalid pipe expression", "PK_InvalidPipe"},
		{"invalid not in expression", "PK_InvalidNotIn"},
		{"expected 'in' after 'not'", "PK_ExpectedIn"},
		{"invalid in expression", "PK_InvalidIn"},
		{"invalid range expression (unexpected", "PK_RangeBrace"},
		{"invalid range expression", "PK_InvalidRange"},
		{"invalid syntax in set expression", "PK_SetSyntax"},
		{"invalid syntax in map expression", "PK_MapSyntax"},
		{"invalid attribute expression", "PK_InvalidAttr"},
		{"expected an identifier after", "PK_ExpectedIdentAfter"},
		{"invalid send statement channel", "PK_SendChannel"},
		{"invalid send statement value", "PK_SendValue"},
		{"invalid receive statement", "PK_InvalidReceive"},
		{"parse error: invalid expression", "PK_InvalidExpr"},
		{"while parsing", "PK_Peek"},
		{"parse error: invalid syntax", "PK_InvalidSyntax"},
		{"in template", "PK_Template"},
	}
	for _, t := range table {
		if strings.Contains(m, t.pat) {
			cls = t.cls
			break
		}
	}
	if cls[:5] == "OTHER" && strings.HasPrefix(m, "parse error:") {
		cls = "PK_Template" // nested parse error text of a template fragment
	}
	if strings.HasPrefix(m, "parse error: parse error:") || strings.HasPrefix(m, "parse error: syntax error:") {
		// the error of a template fragment's own parse, reported by the enclosing parser at the string token: one
		// class whatever the inner message says (the table above matches on substrings of the inner text)
		cls = "PK_Template"
	}
	return cls + pos
}

func errClass(e error) string {
	m := e.Error()
	switch {
	case strings.Contains(m, "undefined variable"):
		return "EUndefined"
	case strings.Contains(m, "cannot assign to constant"):
		return "EConstAssign"
	case strings.Contains(m, "already exists"):
		return "EExists"
	case strings.Contains(m, "redefined"):
		return "ERedefined"
	case strings.Contains(m, "invalid break"):
		return "EBreakOutside"
	case strings.Contains(m, "invalid continue"):
		return "EContinueOutside"
	case strings.Contains(m, "invalid return"):
		return "EReturnOutside"
	case strings.Contains(m, "defer statement outside"):
		return "EDeferOutside"
	case strings.Contains(m, "invalid argument defaults"):
		return "EBadDefaults"
	case strings.Contains(m, "unsupported default value"):
		return "EUnsupportedDefault"
	case strings.Contains(m, "invalid for loop"):
		return "EInvalidFor"
	case strings.Contains(m, "unknown operator"), strings.Contains(m, "unknown postfix"):
		return "EUnknownOperator"
	case strings.Contains(m, "invalid nested pipe"):
		return "ENestedPipe"
	case strings.Contains(m, "requires at least two"):
		return "EPipeArity"
	case strings.Contains(m, "max args"):
		return "EMaxArgs"
	case strings.Contains(m, "invalid map key"):
		return "EMapKey"
	case strings.Contains(m, "unsupported compound"):
		return "ECompoundOp"
	}
	return "OTHER(" + strings.ReplaceAll(m, "\n", " ") + ")"
}

var globals = risor.NewConfig().GlobalNames()

func main() {
	mode := os.Args[1]
	w := bufio.NewWriterSize(os.Stdout, 1<<20)
	defer w.Flush()
	var srcs []string
	switch mode {
	case "files":
		filepath.Walk("/repo", func(p string, info os.FileInfo, err error) error {
			if err == nil && !info.IsDir() && (strings.HasSuffix(p, ".risor") || strings.HasSuffix(p, ".rsr")) {
				b, _ := os.ReadFile(p)
				srcs = append(srcs, string(b))
			}
			return nil
		})
	case "lines":
		sc := bufio.NewScanner(os.Stdin)
		sc.Buffer(make([]byte, 1<<20), 1<<24)
		for sc.Scan() {
			b, _ := hex.DecodeString(sc.Text())
			srcs = append(srcs, string(b))
		}
	}
	sort.Strings(globals)
	out := os.Args[2] // "ast" or "code" or "globals" or "past" or "runes"
	parserMode = out == "past"
	if out == "runes" {
		for _, s := range srcs {
			rs := []rune(s)
			for i, c := range rs {
				if i > 0 {
					w.WriteByte(' ')
				}
				fmt.Fprint(w, int(c))
			}
			w.WriteByte('\n')
		}
		return
	}
	if out == "globals" {
		fmt.Fprintln(w, strings.Join(globals, ","))
		return
	}
	ctx := context.Background()
	for _, s := range srcs {
		func() {
			defer func() {
				if r := recover(); r != nil {
					fmt.Fprintf(w, "PANIC %v\n", r)
				}
			}()
			prog, err := parser.Parse(ctx, s)
			if err != nil {
				if parserMode {
					fmt.Fprintln(w, "ERR "+perrClass(err))
				} else {
					fmt.Fprintln(w, "PARSEERR")
				}
				return
			}
			d := &dumper{}
			d.w("(prog")
			for _, st := range prog.Statements() {
				d.w(" ")
				d.node(st)
			}
			d.w(")")
			if d.bad {
				fmt.Fprintln(w, "SKIP")
				return
			}
			if out == "ast" || out == "past" {
				fmt.Fprintln(w, d.sb.String())
				return
			}
			code, err := compiler.Compile(prog, compiler.WithGlobalNames(globals))
			if err != nil {
				fmt.Fprintln(w, "ERR "+errClass(err))
				return
			}
			fmt.Fprintln(w, dumpCode(code))
		}()
	}
}
