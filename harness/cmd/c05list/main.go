// c05list: the names a script can reach in the configuration c05obs evaluates under - every default global and every
// attribute of every default module (through the add-only hook object.(*Module).VerifAttrNames, injected with
// `go build -overlay`; see hooks/module_verif.go.txt).  One line per name:
//
//	<kind> <name>          kind = builtin | module | value ; name = "len", "math.sum", "math.PI", ...
//
// The check generates its container-consumer programs and its option histories from this list, so a function that is
// added to a module is exercised without anybody editing a table.
package main

import (
	"fmt"
	"sort"

	"github.com/risor-io/risor"
	"github.com/risor-io/risor/object"
)

func kind(o any) string {
	switch o.(type) {
	case *object.Builtin:
		return "builtin"
	case *object.Module:
		return "module"
	}
	return "value"
}

func main() {
	cfg := risor.NewConfig()
	g := cfg.Globals()
	var names []string
	for k := range g {
		names = append(names, k)
	}
	sort.Strings(names)
	for _, k := range names {
		fmt.Println(kind(g[k]), k)
		if m, ok := g[k].(*object.Module); ok {
			for _, a := range m.VerifAttrNames() {
				if v, found := m.GetAttr(a); found {
					fmt.Println(kind(v), k+"."+a)
				}
			}
		}
	}
}
