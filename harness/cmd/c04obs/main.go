// c04obs: runs programs on the real VM with the verif trace hook (overlay build) and reports,
// per program, the distinct (code object, ip, relative stack height) triples observed before
// every executed instruction, plus the outcome class.
//
//	c04obs trace [moddir] < hex sources   ->  OUTCOME \t steps=N;sp=K \t conflict=.. \t codeidhex:ip:h,...
//	c04obs outcome [moddir] < hex sources ->  OUTCOME \t sp=K        (no tracing: for scaled loops)
//	c04obs session [moddir] < JSON sessions -> id \t api:OUTCOME:entry:max:sp ; ...   (one VM per session, see session.go)
//
// sp is the operand stack pointer after a successful run (0 = exactly the result).  The globals are len,
// print, try and error; modules are imported from moddir when given.
package main

import (
	"bufio"
	"context"
	"encoding/hex"
	"fmt"
	"os"
	"sort"
	"strings"
	"sync"
	"time"

	"github.com/risor-io/risor"
	"github.com/risor-io/risor/builtins"
	"github.com/risor-io/risor/compiler"
	"github.com/risor-io/risor/parser"
	"github.com/risor-io/risor/object"
	"github.com/risor-io/risor/vm"
)

func errClass(m string) string {
	switch {
	case strings.HasPrefix(m, "panic:"):
		return "XPanic(" + strings.ReplaceAll(m, "\n", " ") + ")"
	case strings.Contains(m, "context deadline"):
		return "TIMEOUT"
	case strings.HasPrefix(m, "parse error"), strings.HasPrefix(m, "syntax error"):
		return "PARSE"
	case strings.HasPrefix(m, "compile error"):
		return "COMPILE"
	}
	i := strings.Index(m, ":")
	if i > 0 && i < 20 {
		return "X" + strings.ReplaceAll(m[:i], " ", "_")
	}
	return "XOther"
}

func main() {
	w := bufio.NewWriterSize(os.Stdout, 1<<20)
	defer w.Flush()
	mode, moddir := "trace", ""
	if len(os.Args) > 1 {
		mode = os.Args[1]
	}
	if len(os.Args) > 2 {
		moddir = os.Args[2]
	}
	if mode == "session" {
		runSessions(w, moddir)
		return
	}
	sc := bufio.NewScanner(os.Stdin)
	sc.Buffer(make([]byte, 1<<20), 1<<24)
	for sc.Scan() {
		b, _ := hex.DecodeString(sc.Text())
		src := string(b)
		seen := map[string]bool{}
		multi := map[string]int{} // code:ip -> first height; detects pc-dependent-only violation directly
		conflict := ""
		steps := 0
		// threads a program starts (go / spawn) run on VM clones and call the hook concurrently
		var traceMu sync.Mutex
		traceFn := func(codeID string, ip int, h int) {
			traceMu.Lock()
			defer traceMu.Unlock()
			steps++
			k := fmt.Sprintf("%s:%d", hex.EncodeToString([]byte(codeID)), ip)
			if h0, ok := multi[k]; ok {
				if h0 != h && conflict == "" {
					conflict = fmt.Sprintf("%s:%d!=%d", k, h0, h)
				}
			} else {
				multi[k] = h
				if len(seen) < 20000 {
					seen[fmt.Sprintf("%s:%d", k, h)] = true
				}
			}
		}
		if mode == "outcome" {
			vm.VerifTrace = nil
		} else {
			vm.VerifTrace = traceFn
		}
		outcome := ""
		finalSP := -2
		func() {
			defer func() {
				if r := recover(); r != nil {
					outcome = fmt.Sprintf("GOPANIC %v", r)
				}
			}()
			ctx, cancel := context.WithTimeout(context.Background(), 2*time.Second)
			defer cancel()
			printFn := object.NewBuiltin("print", func(ctx context.Context, args ...object.Object) object.Object {
				return object.Nil
			})
			// every builtin function of package builtins (pure: conversions, containers, try / error, chan, ...) - the
			// expression-form programs use them; print is silenced
			globals := map[string]any{}
			for name, b := range builtins.Builtins() {
				globals[name] = b
			}
			globals["print"] = printFn
			opts := []risor.Option{risor.WithoutDefaultGlobals(), risor.WithGlobals(globals), risor.WithConcurrency()}
			if moddir != "" {
				opts = append(opts, risor.WithLocalImporter(moddir))
			}
			cfg := risor.NewConfig(opts...)
			ast, err := parser.Parse(ctx, src)
			var code *compiler.Code
			if err == nil {
				code, err = compiler.Compile(ast, cfg.CompilerOpts()...)
			}
			if err == nil {
				machine := vm.New(code, cfg.VMOpts()...)
				err = machine.Run(ctx)
				finalSP = machine.VerifSP()
			}
			if err != nil {
				outcome = "ERR " + errClass(err.Error())
			} else {
				outcome = "OK"
			}
		}()
		vm.VerifTrace = nil
		// a thread the program left running may still be inside the callback
		traceMu.Lock()
		keys := make([]string, 0, len(seen))
		for k := range seen {
			keys = append(keys, k)
		}
		nsteps, conflictNow := steps, conflict
		traceMu.Unlock()
		sort.Strings(keys)
		if mode == "outcome" {
			fmt.Fprintf(w, "%s\tsp=%d\n", outcome, finalSP)
			continue
		}
		fmt.Fprintf(w, "%s\tsteps=%d;sp=%d\tconflict=%s\t%s\n", outcome, nsteps, finalSP, conflictNow, strings.Join(keys, ","))
	}
}
