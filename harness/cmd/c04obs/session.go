// Sessions: what an invocation leaves on the operand stack of a VM that is used again.
//
// stdin, one session per line:
//
//	{"id": "s3", "pre": [step...], "block": [step...], "reps": 1200}
//	step = {"api": "RN"|"RC"|"CL", "src": "<risor source>", "fn": "<global name>", "args": [1, 2]}
//
// One VM runs `pre` once and then `block` `reps` times (the text @@R@@ in a source is replaced by the number of the
// repetition).  RN is the REPL's protocol (cmd/risor/repl: one compiler, the piece appended to the main code, Run,
// SetIP past the code after an error), RC compiles the source on its own and gives it to RunCode, CL fetches the
// global `fn` and gives it to Call.  For every invocation the line reports
//
//	api:OUTCOME:entry:max:sp
//
// entry = operands on the stack before the first instruction the invocation executes (-1: it executed none),
// max = the largest number of operands during the invocation, sp = the stack pointer when it has returned
// (0 = exactly one value, -1 = nothing).  Invocations that executed no instruction at all are reported with entry -1.
package main

import (
	"bufio"
	"context"
	"encoding/json"
	"fmt"
	"os"
	"strconv"
	"strings"
	"time"

	"github.com/risor-io/risor"
	"github.com/risor-io/risor/builtins"
	"github.com/risor-io/risor/compiler"
	"github.com/risor-io/risor/object"
	"github.com/risor-io/risor/parser"
	"github.com/risor-io/risor/vm"
)

type sessStep struct {
	Api  string  `json:"api"`
	Src  string  `json:"src"`
	Fn   string  `json:"fn"`
	Args []int64 `json:"args"`
}

type session struct {
	ID    string     `json:"id"`
	Pre   []sessStep `json:"pre"`
	Block []sessStep `json:"block"`
	Reps  int        `json:"reps"`
}

type sessWorld struct {
	cfg     *risor.Config
	repl    *compiler.Compiler
	machine *vm.VirtualMachine
	entry   int
	max     int
}

func (w *sessWorld) hook(codeID string, ip int, h int) {
	if w.machine == nil {
		return
	}
	d := w.machine.VerifSP() + 1
	if w.entry < 0 {
		w.entry = d
	}
	if d > w.max {
		w.max = d
	}
}

func shortClass(err error) string {
	if err == nil {
		return "OK"
	}
	c := errClass(err.Error())
	if i := strings.Index(c, "("); i > 0 && strings.HasPrefix(c, "XPanic") {
		m := c[i+1:]
		if len(m) > 70 {
			m = m[:70]
		}
		c = "XPanic(" + m + ")"
	}
	c = strings.NewReplacer(":", "_", ";", "_", "\t", " ").Replace(c)
	return "ERR " + c
}

func (w *sessWorld) invoke(st sessStep, rep int) string {
	src := strings.ReplaceAll(st.Src, "@@R@@", strconv.Itoa(rep))
	w.entry, w.max = -1, 0
	outcome := ""
	func() {
		defer func() {
			if r := recover(); r != nil {
				outcome = strings.NewReplacer(":", "_", ";", "_", "\n", " ").Replace(fmt.Sprintf("GOPANIC %v", r))
			}
		}()
		ctx, cancel := context.WithTimeout(context.Background(), 5*time.Second)
		defer cancel()
		var err error
		switch st.Api {
		case "RN":
			if w.repl == nil {
				w.repl, err = compiler.New(w.cfg.CompilerOpts()...)
				if err != nil {
					outcome = "HARNESS compiler.New"
					return
				}
			}
			ast, perr := parser.Parse(ctx, src)
			if perr != nil {
				outcome = "ERR PARSE"
				return
			}
			code, cerr := w.repl.Compile(ast)
			if cerr != nil {
				outcome = "ERR COMPILE"
				return
			}
			if w.machine == nil {
				w.machine = vm.New(code, w.cfg.VMOpts()...)
			}
			err = w.machine.Run(ctx)
			if err != nil {
				w.machine.SetIP(code.InstructionCount())
			}
		case "RC":
			ast, perr := parser.Parse(ctx, src)
			if perr != nil {
				outcome = "ERR PARSE"
				return
			}
			code, cerr := compiler.Compile(ast, w.cfg.CompilerOpts()...)
			if cerr != nil {
				outcome = "ERR COMPILE"
				return
			}
			if w.machine == nil {
				w.machine, err = vm.NewEmpty()
				if err != nil {
					outcome = "HARNESS vm.NewEmpty"
					return
				}
				err = w.machine.RunCode(ctx, code, w.cfg.VMOpts()...)
			} else {
				err = w.machine.RunCode(ctx, code)
			}
		case "CL":
			if w.machine == nil {
				outcome = "HARNESS call before any code ran"
				return
			}
			fo, gerr := w.machine.Get(st.Fn)
			if gerr != nil {
				outcome = "HARNESS no global " + st.Fn
				return
			}
			fn, ok := fo.(*object.Function)
			if !ok {
				outcome = "HARNESS " + st.Fn + " is not a function"
				return
			}
			args := make([]object.Object, len(st.Args))
			for i, a := range st.Args {
				args[i] = object.NewInt(a)
			}
			_, err = w.machine.Call(ctx, fn, args)
		default:
			outcome = "HARNESS unknown api"
			return
		}
		outcome = shortClass(err)
	}()
	sp := -2
	if w.machine != nil {
		sp = w.machine.VerifSP()
	}
	return fmt.Sprintf("%s:%s:%d:%d:%d", st.Api, outcome, w.entry, w.max, sp)
}

func runSessions(out *bufio.Writer, moddir string) {
	sc := bufio.NewScanner(os.Stdin)
	sc.Buffer(make([]byte, 1<<20), 1<<26)
	for sc.Scan() {
		line := strings.TrimSpace(sc.Text())
		if line == "" {
			continue
		}
		var s session
		if err := json.Unmarshal([]byte(line), &s); err != nil {
			fmt.Fprintf(out, "?\tBADJSON %v\n", err)
			continue
		}
		printFn := object.NewBuiltin("print", func(ctx context.Context, args ...object.Object) object.Object {
			return object.Nil
		})
		globals := map[string]any{"len": builtins.Builtins()["len"], "print": printFn, "try": builtins.Builtins()["try"],
			"error": builtins.Builtins()["error"], "spawn": builtins.Builtins()["spawn"]}
		opts := []risor.Option{risor.WithoutDefaultGlobals(), risor.WithGlobals(globals), risor.WithConcurrency()}
		if moddir != "" {
			opts = append(opts, risor.WithLocalImporter(moddir))
		}
		w := &sessWorld{cfg: risor.NewConfig(opts...)}
		vm.VerifTrace = w.hook
		var parts []string
		for _, st := range s.Pre {
			parts = append(parts, w.invoke(st, 0))
		}
		for r := 0; r < s.Reps; r++ {
			for _, st := range s.Block {
				parts = append(parts, w.invoke(st, r))
			}
		}
		vm.VerifTrace = nil
		fmt.Fprintf(out, "%s\t%s\n", s.ID, strings.Join(parts, ";"))
		out.Flush()
	}
}
