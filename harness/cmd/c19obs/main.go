// c19obs: implementation-side observations for property C19 (standard-library wrappers and codecs).
//
//	c19obs run      reads cases on stdin, one per line; every case is executed in a worker child
//	                process (a fatal error of the Go runtime in one case does not lose the others)
//	c19obs worker   the child: same protocol, in-process, every call under recover()
//	c19obs names    lists the functions of the specification table
//
// Case lines (tab separated):
//
//	W <id> <function> <route> <values>       wrapped function through route api|script, and the
//	                                         direct call of the Go function it is specified to wrap
//	C <id> <codec> <route> <value>           encode, then decode the result
//	D <id> <codec> <route> <value>           decode only (malformed stream)
//	J <id> <route> <value>                   json.marshal vs encode(_, "json"); json.unmarshal vs decode
//	K <id> <route> <value>                   json.unmarshal vs decode(_, "json") on a text
//
// Values are space separated tokens in prefix notation:
//
//	n  T  F  i:<dec>  y:<dec>  f:<16 hex digits of the IEEE bits>  s:<hex>  b:<hex>  U:<hex> (buffer)
//	r:<hex> (compiled regexp)  l:<k> v1..vk  m:<k> k:<hex> v1 ..  o:<type>  e:<hex message>
//	P:<hex message> (panic, outcomes only)
//
// Go values of the direct call: S:<hex> Y:<hex> I:<dec> D:<bits> B:T|F L:<k>;<hex>,<hex>.. R:<hex> E:<hex> P:<hex>
package main

import (
	"bufio"
	"bytes"
	"compress/gzip"
	"context"
	"encoding/base32"
	"encoding/base64"
	"encoding/hex"
	"fmt"
	"io"
	"math"
	"net/url"
	"os"
	"os/exec"
	"path/filepath"
	"regexp"
	"sort"
	"strconv"
	"strings"
	"time"
	"unicode/utf8"

	"github.com/risor-io/risor"
	"github.com/risor-io/risor/builtins"
	mbase64 "github.com/risor-io/risor/modules/base64"
	mbytes "github.com/risor-io/risor/modules/bytes"
	mfilepath "github.com/risor-io/risor/modules/filepath"
	mjson "github.com/risor-io/risor/modules/json"
	mmath "github.com/risor-io/risor/modules/math"
	mregexp "github.com/risor-io/risor/modules/regexp"
	mstrconv "github.com/risor-io/risor/modules/strconv"
	mstrings "github.com/risor-io/risor/modules/strings"
	"github.com/risor-io/risor/object"
)

// ---------------------------------------------------------------------------- value tokens

func hx(s string) string { return hex.EncodeToString([]byte(s)) }

func unhx(s string) string {
	b, err := hex.DecodeString(s)
	if err != nil {
		panic("bad hex in case: " + s)
	}
	return string(b)
}

type parser struct {
	toks []string
	pos  int
}

func (p *parser) next() string {
	t := p.toks[p.pos]
	p.pos++
	return t
}

func (p *parser) value() object.Object {
	t := p.next()
	tag, rest := t, ""
	if i := strings.IndexByte(t, ':'); i >= 0 {
		tag, rest = t[:i], t[i+1:]
	}
	switch tag {
	case "n":
		return object.Nil
	case "T":
		return object.True
	case "F":
		return object.False
	case "i":
		v, err := strconv.ParseInt(rest, 10, 64)
		if err != nil {
			panic(err)
		}
		return object.NewInt(v)
	case "y":
		v, _ := strconv.Atoi(rest)
		return object.NewByte(byte(v))
	case "f":
		if rest == "nan" {
			return object.NewFloat(math.NaN())
		}
		v, err := strconv.ParseUint(rest, 16, 64)
		if err != nil {
			panic(err)
		}
		return object.NewFloat(math.Float64frombits(v))
	case "s":
		return object.NewString(unhx(rest))
	case "b":
		return object.NewByteSlice([]byte(unhx(rest)))
	case "U":
		return object.NewBuffer(bytes.NewBufferString(unhx(rest)))
	case "r":
		r := mregexp.Compile(context.Background(), object.NewString(unhx(rest)))
		return r
	case "l":
		k, _ := strconv.Atoi(rest)
		items := make([]object.Object, 0, k)
		for i := 0; i < k; i++ {
			items = append(items, p.value())
		}
		return object.NewList(items)
	case "m":
		k, _ := strconv.Atoi(rest)
		m := map[string]object.Object{}
		for i := 0; i < k; i++ {
			kt := p.next()
			m[unhx(strings.TrimPrefix(kt, "k:"))] = p.value()
		}
		return object.NewMap(m)
	case "o":
		switch rest {
		case "set":
			return object.NewSet([]object.Object{object.NewInt(1)})
		case "time":
			return object.NewTime(time.Unix(0, 0).UTC())
		case "builtin":
			return object.NewBuiltin("x", func(ctx context.Context, args ...object.Object) object.Object { return object.Nil })
		}
		return object.NewSet(nil)
	}
	panic("bad value token " + t)
}

func parseValues(s string) []object.Object {
	s = strings.TrimSpace(s)
	if s == "" {
		return nil
	}
	p := &parser{toks: strings.Fields(s)}
	var out []object.Object
	for p.pos < len(p.toks) {
		out = append(out, p.value())
	}
	return out
}

func floatTok(prefix string, f float64) string {
	if f != f {
		return prefix + "nan"
	}
	return fmt.Sprintf("%s%016x", prefix, math.Float64bits(f))
}

func show(o object.Object) string {
	switch v := o.(type) {
	case nil:
		return "o:go-nil"
	case *object.NilType:
		return "n"
	case *object.Bool:
		if v.Value() {
			return "T"
		}
		return "F"
	case *object.Int:
		return "i:" + strconv.FormatInt(v.Value(), 10)
	case *object.Byte:
		return "y:" + strconv.Itoa(int(v.Value()))
	case *object.Float:
		return floatTok("f:", v.Value())
	case *object.String:
		return "s:" + hx(v.Value())
	case *object.ByteSlice:
		return "b:" + hx(string(v.Value()))
	case *object.Buffer:
		return "U:" + hx(v.Value().String())
	case *mregexp.Regexp:
		return "r:" + hx(v.Interface().(*regexp.Regexp).String())
	case *object.List:
		items := v.Value()
		parts := []string{"l:" + strconv.Itoa(len(items))}
		for _, it := range items {
			parts = append(parts, show(it))
		}
		return strings.Join(parts, " ")
	case *object.Map:
		m := v.Value()
		keys := make([]string, 0, len(m))
		for k := range m {
			keys = append(keys, k)
		}
		sort.Strings(keys)
		parts := []string{"m:" + strconv.Itoa(len(keys))}
		for _, k := range keys {
			parts = append(parts, "k:"+hx(k), show(m[k]))
		}
		return strings.Join(parts, " ")
	case *object.Error:
		return "e:" + hx(v.Value().Error())
	}
	return "o:" + string(o.Type())
}

// ---------------------------------------------------------------------------- the specification table

type spec struct {
	name     string
	callee   string
	kinds    []string // per argument (receiver first); optional ones last
	min      int      // number of required arguments
	defaults []any    // for the optional arguments
	variadic bool     // any number of arguments of kinds[0]
	order    []int    // the order in which the Go function takes the arguments (nil: as given)
	extra    []any    // constant arguments the specification passes after them
	pass     func(a []any) []any // the arguments as the Go function receives them (nil: as converted)
	direct   func(a []any) any
}

type goErr struct{ msg string }

// nat converts a script object to the Go value the specification passes to the Go function;
// ok=false: the argument is outside the function's domain
func nat(o object.Object, kind string) (any, bool) {
	str := func() (string, bool) {
		switch v := o.(type) {
		case *object.String:
			return v.Value(), true
		case *object.ByteSlice:
			return string(v.Value()), true
		case *object.Buffer:
			return v.Value().String(), true
		}
		return "", false
	}
	switch kind {
	case "str":
		s, ok := str()
		return s, ok
	case "bytes":
		s, ok := str()
		return []byte(s), ok
	case "recv-str":
		if v, ok := o.(*object.String); ok {
			return v.Value(), true
		}
	case "recv-bs", "bsonly":
		if v, ok := o.(*object.ByteSlice); ok {
			return v.Value(), true
		}
	case "recv-re":
		if v, ok := o.(*mregexp.Regexp); ok {
			return v.Interface().(*regexp.Regexp), true
		}
	case "int":
		switch v := o.(type) {
		case *object.Int:
			return int(v.Value()), true
		case *object.Byte:
			return int(v.Value()), true
		}
	case "float":
		switch v := o.(type) {
		case *object.Int:
			return float64(v.Value()), true
		case *object.Byte:
			return float64(v.Value()), true
		case *object.Float:
			return v.Value(), true
		}
	case "num":
		switch v := o.(type) {
		case *object.Int:
			return float64(v.Value()), true
		case *object.Float:
			return v.Value(), true
		}
	case "fonly":
		if v, ok := o.(*object.Float); ok {
			return v.Value(), true
		}
	case "bool":
		if v, ok := o.(*object.Bool); ok {
			return v.Value(), true
		}
	case "strs":
		l, ok := o.(*object.List)
		if !ok {
			return nil, false
		}
		out := make([]string, 0, len(l.Value()))
		for _, it := range l.Value() {
			s, ok := nat(it, "str")
			if !ok {
				return nil, false
			}
			out = append(out, s.(string))
		}
		return out, true
	case "rune1": // a string holding exactly one character
		s, ok := str()
		if !ok || !utf8.ValidString(s) || utf8.RuneCountInString(s) != 1 {
			return nil, false
		}
		r, _ := utf8.DecodeRuneInString(s)
		return r, true
	case "byte1":
		s, ok := str()
		if !ok || len(s) != 1 {
			return nil, false
		}
		return s[0], true
	}
	return nil, false
}

func S(a any) string    { return a.(string) }
func Y(a any) []byte    { return a.([]byte) }
func I(a any) int       { return a.(int) }
func D(a any) float64   { return a.(float64) }
func RE(a any) *regexp.Regexp { return a.(*regexp.Regexp) }

func pair(v any, err error) any {
	if err != nil {
		return goErr{err.Error()}
	}
	return v
}

func ss(k ...string) []string { return k }

var specs []*spec

func add(name, callee string, kinds []string, direct func(a []any) any) *spec {
	s := &spec{name: name, callee: callee, kinds: kinds, min: len(kinds), direct: direct}
	specs = append(specs, s)
	return s
}

func (s *spec) opt(min int, defaults ...any) *spec { s.min = min; s.defaults = defaults; return s }

func init() {
	// the same Go function behind a module function and a method
	type f2 struct {
		name, callee string
		argKinds     []string // after the first argument / receiver
		fn           func(a []any) any
	}
	strFns := []f2{
		{"contains", "strings.Contains", ss("str"), func(a []any) any { return strings.Contains(S(a[0]), S(a[1])) }},
		{"has_prefix", "strings.HasPrefix", ss("str"), func(a []any) any { return strings.HasPrefix(S(a[0]), S(a[1])) }},
		{"has_suffix", "strings.HasSuffix", ss("str"), func(a []any) any { return strings.HasSuffix(S(a[0]), S(a[1])) }},
		{"count", "strings.Count", ss("str"), func(a []any) any { return strings.Count(S(a[0]), S(a[1])) }},
		{"split", "strings.Split", ss("str"), func(a []any) any { return strings.Split(S(a[0]), S(a[1])) }},
		{"fields", "strings.Fields", ss(), func(a []any) any { return strings.Fields(S(a[0])) }},
		{"index", "strings.Index", ss("str"), func(a []any) any { return strings.Index(S(a[0]), S(a[1])) }},
		{"last_index", "strings.LastIndex", ss("str"), func(a []any) any { return strings.LastIndex(S(a[0]), S(a[1])) }},
		{"replace_all", "strings.ReplaceAll", ss("str", "str"), func(a []any) any { return strings.ReplaceAll(S(a[0]), S(a[1]), S(a[2])) }},
		{"to_lower", "strings.ToLower", ss(), func(a []any) any { return strings.ToLower(S(a[0])) }},
		{"to_upper", "strings.ToUpper", ss(), func(a []any) any { return strings.ToUpper(S(a[0])) }},
		{"trim", "strings.Trim", ss("str"), func(a []any) any { return strings.Trim(S(a[0]), S(a[1])) }},
		{"trim_prefix", "strings.TrimPrefix", ss("str"), func(a []any) any { return strings.TrimPrefix(S(a[0]), S(a[1])) }},
		{"trim_suffix", "strings.TrimSuffix", ss("str"), func(a []any) any { return strings.TrimSuffix(S(a[0]), S(a[1])) }},
		{"trim_space", "strings.TrimSpace", ss(), func(a []any) any { return strings.TrimSpace(S(a[0])) }},
	}
	for _, f := range strFns {
		add("strings."+f.name, f.callee, append(ss("str"), f.argKinds...), f.fn)
		add("string."+f.name, f.callee, append(ss("recv-str"), f.argKinds...), f.fn)
	}
	add("strings.compare", "strings.Compare", ss("str", "str"), func(a []any) any { return strings.Compare(S(a[0]), S(a[1])) })
	add("strings.repeat", "strings.Repeat", ss("str", "int"), func(a []any) any { return strings.Repeat(S(a[0]), I(a[1])) })
	add("strings.join", "strings.Join", ss("strs", "str"), func(a []any) any { return strings.Join(a[0].([]string), S(a[1])) })
	add("string.join", "strings.Join", ss("recv-str", "strs"), func(a []any) any { return strings.Join(a[1].([]string), S(a[0])) }).order = []int{1, 0}

	add("strconv.atoi", "strconv.Atoi", ss("str"), func(a []any) any { return pair(strconv.Atoi(S(a[0]))) })
	add("strconv.parse_bool", "strconv.ParseBool", ss("str"), func(a []any) any { return pair(strconv.ParseBool(S(a[0]))) })
	add("strconv.parse_float", "strconv.ParseFloat", ss("str"), func(a []any) any { return pair(strconv.ParseFloat(S(a[0]), 64)) }).extra = []any{64}
	add("strconv.parse_int", "strconv.ParseInt", ss("str", "int", "int"), func(a []any) any {
		v, err := strconv.ParseInt(S(a[0]), I(a[1]), I(a[2]))
		if err != nil {
			return goErr{err.Error()}
		}
		return int(v)
	}).opt(1, 10, 64)

	m1 := func(name, callee, kind string, fn func(float64) float64) {
		add("math."+name, callee, ss(kind), func(a []any) any { return fn(D(a[0])) })
	}
	m2 := func(name, callee string, fn func(float64, float64) float64) {
		add("math."+name, callee, ss("float", "float"), func(a []any) any { return fn(D(a[0]), D(a[1])) })
	}
	m1("abs", "math.Abs", "fonly", math.Abs)
	m1("ceil", "math.Ceil", "fonly", math.Ceil)
	m1("floor", "math.Floor", "fonly", math.Floor)
	m1("sqrt", "math.Sqrt", "num", math.Sqrt)
	m1("sin", "math.Sin", "num", math.Sin)
	m1("cos", "math.Cos", "num", math.Cos)
	m1("tan", "math.Tan", "float", math.Tan)
	m1("log", "math.Log", "float", math.Log)
	m1("log10", "math.Log10", "float", math.Log10)
	m1("log2", "math.Log2", "float", math.Log2)
	m1("round", "math.Round", "float", math.Round)
	m2("atan2", "math.Atan2", math.Atan2)
	m2("max", "math.Max", math.Max)
	m2("min", "math.Min", math.Min)
	m2("mod", "math.Mod", math.Mod)
	m2("pow", "math.Pow", math.Pow)
	add("math.pow10", "math.Pow10", ss("float"), func(a []any) any { return math.Pow10(int(D(a[0]))) }).pass = func(a []any) []any { return []any{int(D(a[0]))} }
	add("math.is_inf", "math.IsInf", ss("float"), func(a []any) any { return math.IsInf(D(a[0]), 0) }).extra = []any{0}
	add("math.inf", "math.Inf", ss("int"), func(a []any) any { return math.Inf(I(a[0])) }).opt(0, 1)

	bsFns := []f2{
		{"contains", "bytes.Contains", ss("bytes"), func(a []any) any { return bytes.Contains(Y(a[0]), Y(a[1])) }},
		{"contains_any", "bytes.ContainsAny", ss("str"), func(a []any) any { return bytes.ContainsAny(Y(a[0]), S(a[1])) }},
		{"contains_rune", "bytes.ContainsRune", ss("rune1"), func(a []any) any { return bytes.ContainsRune(Y(a[0]), a[1].(rune)) }},
		{"count", "bytes.Count", ss("bytes"), func(a []any) any { return bytes.Count(Y(a[0]), Y(a[1])) }},
		{"has_prefix", "bytes.HasPrefix", ss("bytes"), func(a []any) any { return bytes.HasPrefix(Y(a[0]), Y(a[1])) }},
		{"has_suffix", "bytes.HasSuffix", ss("bytes"), func(a []any) any { return bytes.HasSuffix(Y(a[0]), Y(a[1])) }},
		{"index", "bytes.Index", ss("bytes"), func(a []any) any { return bytes.Index(Y(a[0]), Y(a[1])) }},
		{"index_any", "bytes.IndexAny", ss("str"), func(a []any) any { return bytes.IndexAny(Y(a[0]), S(a[1])) }},
		{"index_byte", "bytes.IndexByte", ss("byte1"), func(a []any) any { return bytes.IndexByte(Y(a[0]), a[1].(byte)) }},
		{"index_rune", "bytes.IndexRune", ss("rune1"), func(a []any) any { return bytes.IndexRune(Y(a[0]), a[1].(rune)) }},
		{"repeat", "bytes.Repeat", ss("int"), func(a []any) any { return bytes.Repeat(Y(a[0]), I(a[1])) }},
		{"replace", "bytes.Replace", ss("bytes", "bytes", "int"), func(a []any) any { return bytes.Replace(Y(a[0]), Y(a[1]), Y(a[2]), I(a[3])) }},
		{"replace_all", "bytes.ReplaceAll", ss("bytes", "bytes"), func(a []any) any { return bytes.ReplaceAll(Y(a[0]), Y(a[1]), Y(a[2])) }},
	}
	for _, f := range bsFns {
		add("bytes."+f.name, f.callee, append(ss("bsonly"), f.argKinds...), f.fn)
		add("byte_slice."+f.name, f.callee, append(ss("recv-bs"), f.argKinds...), f.fn)
	}

	b64 := func(name string, padded, raw *base64.Encoding, decode bool) {
		if decode {
			add("base64."+name, "base64.Encoding.DecodeString", ss("str", "bool"), func(a []any) any {
				enc := raw
				if a[1].(bool) {
					enc = padded
				}
				return pair(enc.DecodeString(S(a[0])))
			}).opt(1, true)
		} else {
			add("base64."+name, "base64.Encoding.EncodeToString", ss("bytes", "bool"), func(a []any) any {
				enc := raw
				if a[1].(bool) {
					enc = padded
				}
				return enc.EncodeToString(Y(a[0]))
			}).opt(1, true)
		}
	}
	b64("encode", base64.StdEncoding, base64.RawStdEncoding, false)
	b64("url_encode", base64.URLEncoding, base64.RawURLEncoding, false)
	b64("decode", base64.StdEncoding, base64.RawStdEncoding, true)
	b64("url_decode", base64.URLEncoding, base64.RawURLEncoding, true)

	p1 := func(name, callee string, fn func(string) string) {
		add("filepath."+name, callee, ss("str"), func(a []any) any { return fn(S(a[0])) })
	}
	p1("base", "filepath.Base", filepath.Base)
	p1("clean", "filepath.Clean", filepath.Clean)
	p1("dir", "filepath.Dir", filepath.Dir)
	p1("ext", "filepath.Ext", filepath.Ext)
	add("filepath.is_abs", "filepath.IsAbs", ss("str"), func(a []any) any { return filepath.IsAbs(S(a[0])) })
	add("filepath.match", "filepath.Match", ss("str", "str"), func(a []any) any { return pair(filepath.Match(S(a[0]), S(a[1]))) })
	add("filepath.rel", "filepath.Rel", ss("str", "str"), func(a []any) any { return pair(filepath.Rel(S(a[0]), S(a[1]))) })
	add("filepath.split_list", "filepath.SplitList", ss("str"), func(a []any) any {
		r := filepath.SplitList(S(a[0]))
		if r == nil {
			r = []string{}
		}
		return r
	})
	add("filepath.split", "filepath.Split", ss("str"), func(a []any) any {
		d, f := filepath.Split(S(a[0]))
		return []string{d, f}
	})
	j := add("filepath.join", "filepath.Join", ss("str"), func(a []any) any {
		parts := make([]string, len(a))
		for i := range a {
			parts[i] = S(a[i])
		}
		return filepath.Join(parts...)
	})
	j.variadic = true

	add("regexp.compile", "regexp.Compile", ss("str"), func(a []any) any { return pair(regexp.Compile(S(a[0]))) })
	add("regexp.match", "regexp.MatchString", ss("str", "str"), func(a []any) any { return pair(regexp.MatchString(S(a[0]), S(a[1]))) })
	add("regexp_object.match", "(*regexp.Regexp).MatchString", ss("recv-re", "str"), func(a []any) any { return RE(a[0]).MatchString(S(a[1])) })
	add("regexp_object.find", "(*regexp.Regexp).FindString", ss("recv-re", "str"), func(a []any) any { return RE(a[0]).FindString(S(a[1])) })
	add("regexp_object.find_all", "(*regexp.Regexp).FindAllString", ss("recv-re", "str", "int"), func(a []any) any { return RE(a[0]).FindAllString(S(a[1]), I(a[2])) }).opt(2, -1)
	add("regexp_object.find_submatch", "(*regexp.Regexp).FindStringSubmatch", ss("recv-re", "str"), func(a []any) any { return RE(a[0]).FindStringSubmatch(S(a[1])) })
	add("regexp_object.replace_all", "(*regexp.Regexp).ReplaceAllString", ss("recv-re", "str", "str"), func(a []any) any { return RE(a[0]).ReplaceAllString(S(a[1]), S(a[2])) })
	add("regexp_object.split", "(*regexp.Regexp).Split", ss("recv-re", "str", "int"), func(a []any) any { return RE(a[0]).Split(S(a[1]), I(a[2])) }).opt(2, -1)
}

func findSpec(name string) *spec {
	for _, s := range specs {
		if s.name == name {
			return s
		}
	}
	return nil
}

func showNative(v any) string {
	switch x := v.(type) {
	case string:
		return "S:" + hx(x)
	case []byte:
		return "Y:" + hx(string(x))
	case int:
		return "I:" + strconv.Itoa(x)
	case rune:
		return "I:" + strconv.Itoa(int(x))
	case byte:
		return "I:" + strconv.Itoa(int(x))
	case float64:
		return floatTok("D:", x)
	case bool:
		if x {
			return "B:T"
		}
		return "B:F"
	case []string:
		parts := make([]string, len(x))
		for i, s := range x {
			parts[i] = hx(s)
		}
		return "L:" + strconv.Itoa(len(x)) + ";" + strings.Join(parts, ",")
	case *regexp.Regexp:
		return "R:" + hx(x.String())
	case goErr:
		return "E:" + hx(x.msg)
	}
	return fmt.Sprintf("?:%T", v)
}

// ---------------------------------------------------------------------------- calling the implementation

var modules = map[string]*object.Module{
	"strings": mstrings.Module(), "strconv": mstrconv.Module(), "math": mmath.Module(), "bytes": mbytes.Module(),
	"base64": mbase64.Module(), "filepath": mfilepath.Module(), "regexp": mregexp.Module(), "json": mjson.Module(),
}

func guarded(f func() object.Object) (out string) {
	defer func() {
		if r := recover(); r != nil {
			out = "P:" + hx(fmt.Sprint(r))
		}
	}()
	return show(f())
}

func callAPI(fname string, args []object.Object) string {
	mod, fn, _ := strings.Cut(fname, ".")
	ctx := context.Background()
	return guarded(func() object.Object {
		var attr object.Object
		var ok bool
		callArgs := args
		if m, isMod := modules[mod]; isMod {
			attr, ok = m.GetAttr(fn)
		} else {
			if len(args) == 0 {
				return object.Errorf("harness: method without receiver")
			}
			attr, ok = args[0].GetAttr(fn)
			callArgs = args[1:]
		}
		if !ok {
			return object.Errorf("harness: no attribute %s", fname)
		}
		b, isB := attr.(*object.Builtin)
		if !isB {
			return object.Errorf("harness: %s is not a builtin", fname)
		}
		return b.Call(ctx, callArgs...)
	})
}

// through a script: globals a0..an hold the arguments; an error that try() can catch is reported as
// an error value, anything else Eval returns as an error is a failure the script cannot handle
func evalScript(expr string, args []object.Object) string {
	globals := map[string]any{}
	for i, a := range args {
		globals["a"+strconv.Itoa(i)] = a
	}
	src := "try(func() { return [0, " + expr + "] }, func(e) { return [1, e.message()] })"
	var out string
	func() {
		defer func() {
			if r := recover(); r != nil {
				out = "P:" + hx("go panic out of risor.Eval: "+fmt.Sprint(r))
			}
		}()
		v, err := risor.Eval(context.Background(), src, risor.WithGlobals(globals))
		if err != nil {
			msg := err.Error()
			if strings.HasPrefix(msg, "panic: ") {
				out = "P:" + hx(strings.TrimPrefix(msg, "panic: "))
			} else {
				// an error try() does not hand to its handler (arity errors are fatal evaluation
				// errors by design): still an error of the script, not a panic
				out = "e:" + hx(msg)
			}
			return
		}
		l, ok := v.(*object.List)
		if !ok || len(l.Value()) != 2 {
			out = "o:script-shape"
			return
		}
		if tag, _ := l.Value()[0].(*object.Int); tag != nil && tag.Value() == 1 {
			if s, ok := l.Value()[1].(*object.String); ok {
				out = "e:" + hx(s.Value())
				return
			}
		}
		out = show(l.Value()[1])
	}()
	return out
}

func argList(from, n int) string {
	parts := []string{}
	for i := from; i < n; i++ {
		parts = append(parts, "a"+strconv.Itoa(i))
	}
	return strings.Join(parts, ", ")
}

func callScript(fname string, args []object.Object) string {
	mod, fn, _ := strings.Cut(fname, ".")
	if _, isMod := modules[mod]; isMod {
		return evalScript(mod+"."+fn+"("+argList(0, len(args))+")", args)
	}
	if len(args) == 0 {
		return "e:" + hx("harness: method without receiver")
	}
	return evalScript("a0."+fn+"("+argList(1, len(args))+")", args)
}

func call(route, fname string, args []object.Object) string {
	if route == "script" {
		return callScript(fname, args)
	}
	return callAPI(fname, args)
}

// ---------------------------------------------------------------------------- cases

func caseW(f []string) string {
	fname, route := f[2], f[3]
	args := parseValues(f[4])
	impl := call(route, fname, args)
	sp := findSpec(fname)
	if sp == nil {
		return "impl=" + impl + "\tcallee=-\tdargs=-\tdirect=-"
	}
	// the specification: arity, kinds, direct call
	direct, dargs := "-", "-"
	okArity := sp.variadic || (len(args) >= sp.min && len(args) <= len(sp.kinds))
	if okArity {
		natives := []any{}
		inKind := true
		for i, a := range args {
			k := sp.kinds[0]
			if !sp.variadic {
				k = sp.kinds[i]
			}
			v, ok := nat(a, k)
			if !ok {
				inKind = false
				break
			}
			natives = append(natives, v)
		}
		if inKind {
			if !sp.variadic {
				for i := len(args); i < len(sp.kinds); i++ {
					natives = append(natives, sp.defaults[i-sp.min])
				}
			}
			parts := make([]string, 0, len(natives)+len(sp.extra))
			shown := natives
			if sp.pass != nil {
				shown = sp.pass(natives)
			}
			for i := range shown {
				j := i
				if sp.order != nil {
					j = sp.order[i]
				}
				parts = append(parts, showNative(shown[j]))
			}
			for _, x := range sp.extra {
				parts = append(parts, showNative(x))
			}
			dargs = strings.Join(parts, " ")
			if dargs == "" {
				dargs = "none"
			}
			func() {
				defer func() {
					if r := recover(); r != nil {
						direct = "P:" + hx(fmt.Sprint(r))
					}
				}()
				direct = showNative(sp.direct(natives))
			}()
		}
	}
	return "impl=" + impl + "\tcallee=" + sp.callee + "\tdargs=" + dargs + "\tdirect=" + direct
}

type directCodec struct {
	enc func([]byte) []byte
	dec func([]byte) ([]byte, error)
}

var directCodecs = map[string]directCodec{
	"base64": {func(b []byte) []byte { return []byte(base64.StdEncoding.EncodeToString(b)) },
		func(b []byte) ([]byte, error) { return base64.StdEncoding.DecodeString(string(b)) }},
	"base32": {func(b []byte) []byte { return []byte(base32.StdEncoding.EncodeToString(b)) },
		func(b []byte) ([]byte, error) { return base32.StdEncoding.DecodeString(string(b)) }},
	"hex": {func(b []byte) []byte { return []byte(hex.EncodeToString(b)) },
		func(b []byte) ([]byte, error) { return hex.DecodeString(string(b)) }},
	"urlquery": {func(b []byte) []byte { return []byte(url.QueryEscape(string(b))) },
		func(b []byte) ([]byte, error) { s, err := url.QueryUnescape(string(b)); return []byte(s), err }},
	"gzip": {func(b []byte) []byte {
		var buf bytes.Buffer
		w := gzip.NewWriter(&buf)
		w.Write(b)
		w.Close()
		return buf.Bytes()
	}, func(b []byte) ([]byte, error) {
		r, err := gzip.NewReader(bytes.NewReader(b))
		if err != nil {
			return nil, err
		}
		return io.ReadAll(r)
	}},
}

func codecCall(route, op, codec string, v object.Object) string {
	if route == "script" {
		return evalScript(op+"(a0, a1)", []object.Object{v, object.NewString(codec)})
	}
	ctx := context.Background()
	return guarded(func() object.Object {
		if op == "encode" {
			return builtins.Encode(ctx, v, object.NewString(codec))
		}
		return builtins.Decode(ctx, v, object.NewString(codec))
	})
}

func contentOf(o object.Object) ([]byte, bool) {
	switch v := o.(type) {
	case *object.String:
		return []byte(v.Value()), true
	case *object.ByteSlice:
		return v.Value(), true
	case *object.Buffer:
		return v.Value().Bytes(), true
	}
	return nil, false
}

func directDec(codec string, b []byte) string {
	dc, ok := directCodecs[codec]
	if !ok {
		return "-"
	}
	out, err := dc.dec(b)
	if err != nil {
		return "E:" + hx(err.Error())
	}
	return "Y:" + hx(string(out))
}

// C: encode then decode; also the direct Go encoder/decoder on the same content
func caseC(f []string) string {
	codec, route := f[2], f[3]
	vals := parseValues(f[4])
	v := vals[0]
	// the buffer's content is consumed by reads: take the content first
	content, isBytes := contentOf(v)
	content = append([]byte{}, content...)
	var encObj object.Object
	enc := ""
	if route == "script" {
		enc = codecCall(route, "encode", codec, v)
	} else {
		enc = guarded(func() object.Object {
			encObj = builtins.Encode(context.Background(), v, object.NewString(codec))
			return encObj
		})
	}
	dec := "-"
	if !strings.HasPrefix(enc, "e:") && !strings.HasPrefix(enc, "P:") {
		if encObj == nil {
			encObj = parseValues(enc)[0]
		}
		dec = codecCall(route, "decode", codec, encObj)
	}
	denc, ddec := "-", "-"
	if dc, ok := directCodecs[codec]; ok && isBytes {
		e := dc.enc(content)
		denc = "Y:" + hx(string(e))
		ddec = directDec(codec, e)
	}
	return "enc=" + enc + "\tdec=" + dec + "\tdenc=" + denc + "\tddec=" + ddec
}

// H: a history - every value is encoded first (the encoded objects are held), then every held object is
// checked against the bytes it had right after its own encode and decoded.  An encoder that hands out
// storage it reuses later shows up here and nowhere in single round trips.
func caseH(f []string) string {
	codec := f[2]
	ctx := context.Background()
	var held []object.Object
	var snaps []string
	var outs []string
	for _, vt := range strings.Split(f[4], "|") {
		v := parseValues(vt)[0]
		var obj object.Object
		s := guarded(func() object.Object {
			obj = builtins.Encode(ctx, v, object.NewString(codec))
			return obj
		})
		held = append(held, obj)
		snaps = append(snaps, s)
	}
	for i, obj := range held {
		now, dec := "-", "-"
		if obj != nil && !strings.HasPrefix(snaps[i], "e:") && !strings.HasPrefix(snaps[i], "P:") {
			now = show(obj)
			dec = codecCall(f[3], "decode", codec, obj)
		}
		outs = append(outs, fmt.Sprintf("enc%d=%s\tnow%d=%s\tdec%d=%s", i, snaps[i], i, now, i, dec))
	}
	return fmt.Sprintf("n=%d\t%s", len(held), strings.Join(outs, "\t"))
}

func caseD(f []string) string {
	codec, route := f[2], f[3]
	v := parseValues(f[4])[0]
	content, isBytes := contentOf(v)
	content = append([]byte{}, content...)
	dec := codecCall(route, "decode", codec, v)
	ddec := "-"
	if isBytes {
		ddec = directDec(codec, content)
	}
	return "dec=" + dec + "\tddec=" + ddec
}

func jsonCall(route, fn string, v object.Object) string {
	if route == "script" {
		return evalScript("json."+fn+"(a0)", []object.Object{v})
	}
	return callAPI("json."+fn, []object.Object{v})
}

// J: both encoders on a value, both decoders on what each produced
func caseJ(f []string) string {
	route := f[2]
	v := parseValues(f[3])[0]
	mar := jsonCall(route, "marshal", v)
	enc := codecCall(route, "encode", "json", v)
	un, dec := "-", "-"
	if strings.HasPrefix(mar, "s:") {
		un = jsonCall(route, "unmarshal", parseValues(mar)[0])
	}
	if strings.HasPrefix(enc, "s:") {
		dec = codecCall(route, "decode", "json", parseValues(enc)[0])
	}
	return "marshal=" + mar + "\tencode=" + enc + "\tunmarshal=" + un + "\tdecode=" + dec
}

func caseK(f []string) string {
	route := f[2]
	un := jsonCall(route, "unmarshal", parseValues(f[3])[0])
	dec := codecCall(route, "decode", "json", parseValues(f[3])[0])
	return "unmarshal=" + un + "\tdecode=" + dec
}

func handle(line string) string {
	f := strings.Split(line, "\t")
	if len(f) < 4 {
		return "?\tbad case line"
	}
	id := f[1]
	var out string
	func() {
		defer func() {
			if r := recover(); r != nil {
				out = "harness-panic=" + hx(fmt.Sprint(r))
			}
		}()
		switch f[0] {
		case "W":
			out = caseW(f)
		case "C":
			out = caseC(f)
		case "H":
			out = caseH(f)
		case "D":
			out = caseD(f)
		case "J":
			out = caseJ(f)
		case "K":
			out = caseK(f)
		default:
			out = "harness-panic=" + hx("unknown case kind")
		}
	}()
	return id + "\t" + out
}

// ---------------------------------------------------------------------------- process structure

func worker() {
	in := bufio.NewReaderSize(os.Stdin, 1<<20)
	out := bufio.NewWriter(os.Stdout)
	for {
		line, err := in.ReadString('\n')
		if len(line) > 0 {
			fmt.Fprintln(out, handle(strings.TrimRight(line, "\n")))
			out.Flush()
		}
		if err != nil {
			return
		}
	}
}

type child struct {
	cmd *exec.Cmd
	in  io.WriteCloser
	out *bufio.Reader
}

func spawn() *child {
	cmd := exec.Command(os.Args[0], "worker")
	in, _ := cmd.StdinPipe()
	outp, _ := cmd.StdoutPipe()
	cmd.Stderr = io.Discard
	if err := cmd.Start(); err != nil {
		fmt.Fprintln(os.Stderr, "c19obs: cannot start worker:", err)
		os.Exit(2)
	}
	return &child{cmd: cmd, in: in, out: bufio.NewReaderSize(outp, 1<<20)}
}

func run() {
	in := bufio.NewReaderSize(os.Stdin, 1<<20)
	out := bufio.NewWriter(os.Stdout)
	defer out.Flush()
	c := spawn()
	// cases are sent in batches; a batch that kills the worker is replayed one case at a time
	var batch []string
	flush := func() {
		if len(batch) == 0 {
			return
		}
		pending := batch
		batch = nil
		single := false
		for len(pending) > 0 {
			n := len(pending)
			if single {
				n = 1
			}
			go func(lines []string, w io.Writer) {
				for _, l := range lines {
					io.WriteString(w, l+"\n")
				}
			}(pending[:n], c.in)
			got := 0
			for got < n {
				resp, err := c.out.ReadString('\n')
				if err != nil {
					break
				}
				out.WriteString(resp)
				got++
			}
			pending = pending[got:]
			if got < n {
				// the worker died on pending[0]
				c.cmd.Process.Kill()
				c.cmd.Wait()
				if single {
					f := strings.Split(pending[0], "\t")
					id := "?"
					if len(f) > 1 {
						id = f[1]
					}
					fmt.Fprintf(out, "%s\tcrashed=%s\n", id, hx("worker process died"))
					pending = pending[1:]
				}
				single = true
				c = spawn()
			} else if single && len(pending) > 0 {
				// keep going one by one until the batch is done
			}
		}
	}
	for {
		line, err := in.ReadString('\n')
		line = strings.TrimRight(line, "\n")
		if line != "" {
			batch = append(batch, line)
			if len(batch) >= 256 {
				flush()
			}
		}
		if err != nil {
			break
		}
	}
	flush()
	c.in.Close()
	c.cmd.Wait()
}

func main() {
	if len(os.Args) < 2 {
		fmt.Fprintln(os.Stderr, "usage: c19obs run|worker|names")
		os.Exit(2)
	}
	switch os.Args[1] {
	case "worker":
		worker()
	case "run":
		run()
	case "names":
		for _, s := range specs {
			opt := len(s.kinds) - s.min
			// last column: the value the specification passes for each optional argument that is not given
			defs := make([]string, len(s.defaults))
			for i, d := range s.defaults {
				defs[i] = fmt.Sprint(d)
			}
			fmt.Printf("%s\t%s\t%s\t%d\t%v\t%s\n", s.name, s.callee, strings.Join(s.kinds, ","), opt, s.variadic, strings.Join(defs, ","))
		}
	default:
		os.Exit(2)
	}
}
