package main

import (
	"bufio"
	"encoding/hex"
	"fmt"
	"math/rand"
	"os"
	"path/filepath"
	"strconv"
	"strings"

	"github.com/risor-io/risor/lexer"
	"github.com/risor-io/risor/token"
)

func pos(p token.Position) string {
	return fmt.Sprintf("%d,%d,%d,%d,%d", p.Char, p.Line, p.LineStart, p.Column, p.Value)
}

func tok(t token.Token) string {
	return fmt.Sprintf("%s:%s:%s:%s", string(t.Type), hex.EncodeToString([]byte(t.Literal)), pos(t.StartPosition), pos(t.EndPosition))
}

func errClass(e error) string {
	m := e.Error()
	switch {
	case strings.HasPrefix(m, "unexpected character"):
		return "UnexpectedChar"
	case strings.HasPrefix(m, "unterminated string literal"):
		return "UnterminatedString"
	case strings.HasPrefix(m, "invalid escape sequence"):
		return "InvalidEscape"
	case strings.HasPrefix(m, "unterminated escape sequence"):
		return "UnterminatedEscape"
	case strings.HasPrefix(m, "illegal character"):
		return "IllegalEscapeChar"
	case strings.HasPrefix(m, "escape sequence is not a valid number"):
		return "EscapeNotNumber"
	case strings.HasPrefix(m, "invalid decimal literal"):
		return "InvalidDecimal"
	case strings.HasPrefix(m, "invalid identifier"):
		return "InvalidIdentifier"
	}
	return "OTHER(" + m + ")"
}

func lexLine(src string) string {
	l := lexer.New(src)
	var parts []string
	for i := 0; i < len(src)+5; i++ {
		t, err := l.Next()
		if err != nil {
			parts = append(parts, "ERR:"+errClass(err)+":"+tok(t))
			break
		}
		parts = append(parts, tok(t))
		if t.Type == token.EOF {
			break
		}
	}
	return strings.Join(parts, " ")
}

var pieces = []string{" ", " ", "\t", "\n", "\r\n", "\r", "a", "b1", "_x", "as", "if", "for", "func", "return", "in", "not", "nil", "true",
	"0", "1", "42", "007", "0x1F", "0x", "1.5", "1.", "08", "9z", ".", ",", ";", ":", ":=", "=", "==", "!", "!=", "<", "<=", "<<", "<-", ">", ">=", ">>",
	"+", "++", "+=", "-", "--", "-=", "*", "**", "*=", "/", "/=", "%", "&", "&&", "|", "||", "?", "~", "(", ")", "[", "]", "{", "}",
	"\"s\"", "\"a\\nb\"", "\"\\x41\"", "\"\\u00e9\"", "\"\\U0001F600\"", "\"\\377\"", "\"\\q\"", "\"\\x4\"", "\"unterminated", "'t{x}'", "'\\''", "`raw\nline`", "`open",
	"# c\n", "// c\n", "/* c */", "/* c", "/*/", "é", "→", "\"é→\"", "\x00", ".as", "x.as"}

func main() {
	mode := os.Args[1]
	w := bufio.NewWriterSize(os.Stdout, 1<<20)
	defer w.Flush()
	var srcs []string
	if mode == "files" || mode == "files-in" {
		filepath.Walk("/repo", func(p string, info os.FileInfo, err error) error {
			if err == nil && !info.IsDir() && (strings.HasSuffix(p, ".risor") || strings.HasSuffix(p, ".rsr")) {
				b, _ := os.ReadFile(p)
				srcs = append(srcs, string(b))
			}
			return nil
		})
	} else if mode == "lines" || mode == "lines-in" {
		sc := bufio.NewScanner(os.Stdin)
		sc.Buffer(make([]byte, 1<<20), 1<<24)
		for sc.Scan() {
			b, _ := hex.DecodeString(sc.Text())
			srcs = append(srcs, string(b))
		}
	} else {
		n, _ := strconv.Atoi(os.Args[2])
		seed, _ := strconv.Atoi(os.Args[3])
		r := rand.New(rand.NewSource(int64(seed)))
		for i := 0; i < n; i++ {
			var sb strings.Builder
			k := 1 + r.Intn(12)
			for j := 0; j < k; j++ {
				sb.WriteString(pieces[r.Intn(len(pieces))])
			}
			srcs = append(srcs, sb.String())
		}
	}
	for _, s := range srcs {
		if strings.HasSuffix(mode, "-in") {
			rs := []rune(s)
			for i, c := range rs {
				if i > 0 {
					w.WriteByte(' ')
				}
				w.WriteString(strconv.Itoa(int(c)))
			}
			w.WriteByte('\n')
		} else {
			fmt.Fprintln(w, lexLine(s))
		}
	}
}
