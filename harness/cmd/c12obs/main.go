//go:build verif

// c12obs: implementation-side observations for property C12 (a host-supplied OS mediates all OS access).
//
//	c12obs list <repo-dir>       names of the os / filepath / fmt module members, the OS-facing global builtins and the
//	                             file object methods of the running packages (JSON)
//	c12obs run <sentinel-dir>    one JSON case per stdin line -> one JSON observation per line.  A case is a main script,
//	                             in-memory modules, which recording OS (if any) is passed with risor.WithOS, and the host
//	                             steps: top (run main with a context), hostcall / hostclone (call the function `target`
//	                             on the VM / on a clone with a context).  Every recording OS logs every method call; after
//	                             each case the REAL process state is compared with the sentinels (file, directory, environment,
//	                             working directory, standard streams).
package main

import (
	"bufio"
	"bytes"
	"context"
	"encoding/json"
	"errors"
	"fmt"
	"io"
	"io/fs"
	"os"
	"path"
	"sort"
	"strings"
	"sync"
	"time"

	"github.com/risor-io/risor"
	"github.com/risor-io/risor/compiler"
	"github.com/risor-io/risor/object"
	ros "github.com/risor-io/risor/os"
	"github.com/risor-io/risor/parser"
	"github.com/risor-io/risor/vm"
	modFilepath "github.com/risor-io/risor/modules/filepath"
	modFmt "github.com/risor-io/risor/modules/fmt"
	modOs "github.com/risor-io/risor/modules/os"
	"verifharness/c11lib"
)

// ---------------------------------------------------------------- recording OS

type entry struct {
	OS   int      `json:"os"`
	Op   string   `json:"op"`
	Args []string `json:"args"`
}

type recorder struct {
	mu  sync.Mutex
	log []entry
}

func (r *recorder) add(id int, op string, args ...string) {
	r.mu.Lock()
	r.log = append(r.log, entry{id, op, args})
	r.mu.Unlock()
}

type recOS struct {
	id    int
	rec   *recorder
	mu    sync.Mutex
	files map[string][]byte
	dirs  map[string]bool
	env   map[string]string
	cwd   string
}

func newRecOS(id int, rec *recorder, sentDir string) *recOS {
	o := &recOS{id: id, rec: rec, files: map[string][]byte{}, dirs: map[string]bool{}, env: map[string]string{}, cwd: "/virtual/cwd"}
	// the virtual world mirrors the NAMES of the real sentinels with different contents
	o.dirs["/"] = true
	o.dirs[sentDir] = true
	o.dirs[sentDir+"/sub"] = true
	o.files[sentDir+"/sentinel.txt"] = []byte(fmt.Sprintf("virtual-content-%d\nline2\n", id))
	o.files[sentDir+"/sub/inner.txt"] = []byte("virtual-inner")
	// and the same names relative to the virtual working directory
	o.dirs["/virtual"] = true
	o.dirs["/virtual/cwd"] = true
	o.dirs["/virtual/cwd/sub"] = true
	o.files["/virtual/cwd/sentinel.txt"] = []byte(fmt.Sprintf("virtual-content-%d\nline2\n", id))
	o.files["/virtual/cwd/sub/inner.txt"] = []byte("virtual-inner")
	o.env["C12_SENTINEL"] = fmt.Sprintf("virtual-%d", id)
	o.env["WHO"] = fmt.Sprintf("os%d", id)
	return o
}

type memInfo struct {
	name string
	size int64
	dir  bool
}

func (i memInfo) Name() string { return i.name }
func (i memInfo) Size() int64  { return i.size }
func (i memInfo) Mode() fs.FileMode {
	if i.dir {
		return fs.ModeDir | 0o755
	}
	return 0o644
}
func (i memInfo) ModTime() time.Time         { return time.Unix(1000000, 0) }
func (i memInfo) IsDir() bool                { return i.dir }
func (i memInfo) Sys() any                   { return nil }
func (i memInfo) Type() fs.FileMode          { return i.Mode().Type() }
func (i memInfo) Info() (fs.FileInfo, error) { return i, nil }
func (i memInfo) HasInfo() bool              { return true }

type memFile struct {
	o    *recOS
	name string
	buf  []byte
	pos  int64
	std  bool
}

func (f *memFile) Stat() (fs.FileInfo, error) {
	f.o.rec.add(f.o.id, "File.Stat", f.name)
	return memInfo{path.Base(f.name), int64(len(f.buf)), false}, nil
}
func (f *memFile) Read(p []byte) (int, error) {
	f.o.rec.add(f.o.id, "File.Read", f.name)
	if f.pos >= int64(len(f.buf)) {
		return 0, io.EOF
	}
	n := copy(p, f.buf[f.pos:])
	f.pos += int64(n)
	return n, nil
}
func (f *memFile) Write(p []byte) (int, error) {
	f.o.rec.add(f.o.id, "File.Write", f.name, string(p))
	f.buf = append(f.buf[:min64(f.pos, int64(len(f.buf)))], p...)
	f.pos = int64(len(f.buf))
	if !f.std {
		f.o.mu.Lock()
		f.o.files[f.name] = append([]byte{}, f.buf...)
		f.o.mu.Unlock()
	}
	return len(p), nil
}
func (f *memFile) Seek(offset int64, whence int) (int64, error) {
	f.o.rec.add(f.o.id, "File.Seek", f.name)
	switch whence {
	case io.SeekStart:
		f.pos = offset
	case io.SeekCurrent:
		f.pos += offset
	case io.SeekEnd:
		f.pos = int64(len(f.buf)) + offset
	}
	if f.pos < 0 {
		f.pos = 0
	}
	return f.pos, nil
}
func (f *memFile) Close() error { f.o.rec.add(f.o.id, "File.Close", f.name); return nil }

func min64(a, b int64) int64 {
	if a < b {
		return a
	}
	return b
}

type memUser struct{ n string }

func (u memUser) Uid() string      { return "4242" }
func (u memUser) Gid() string      { return "4243" }
func (u memUser) Username() string { return u.n }
func (u memUser) Name() string     { return "Virtual " + u.n }
func (u memUser) HomeDir() string  { return "/virtual/home" }

type memGroup struct{ n string }

func (g memGroup) Gid() string  { return "4243" }
func (g memGroup) Name() string { return g.n }

func (o *recOS) abs(p string) string {
	if !strings.HasPrefix(p, "/") {
		p = o.cwd + "/" + p
	}
	return path.Clean(p)
}
func (o *recOS) open(name string, create bool) (ros.File, error) {
	o.mu.Lock()
	defer o.mu.Unlock()
	p := o.abs(name)
	b, ok := o.files[p]
	if !ok {
		if !create {
			return nil, fs.ErrNotExist
		}
		o.files[p] = []byte{}
	}
	if create {
		b = nil
	}
	return &memFile{o: o, name: p, buf: append([]byte{}, b...)}, nil
}

func (o *recOS) Create(name string) (ros.File, error) { o.rec.add(o.id, "Create", name); return o.open(name, true) }
func (o *recOS) Mkdir(name string, perm ros.FileMode) error {
	o.rec.add(o.id, "Mkdir", name)
	o.mu.Lock()
	o.dirs[o.abs(name)] = true
	o.mu.Unlock()
	return nil
}
func (o *recOS) MkdirAll(p string, perm ros.FileMode) error {
	o.rec.add(o.id, "MkdirAll", p)
	o.mu.Lock()
	o.dirs[o.abs(p)] = true
	o.mu.Unlock()
	return nil
}
func (o *recOS) Open(name string) (ros.File, error) { o.rec.add(o.id, "Open", name); return o.open(name, false) }
func (o *recOS) OpenFile(name string, flag int, perm ros.FileMode) (ros.File, error) {
	o.rec.add(o.id, "OpenFile", name)
	return o.open(name, flag&ros.O_CREATE != 0)
}
func (o *recOS) ReadFile(name string) ([]byte, error) {
	o.rec.add(o.id, "ReadFile", name)
	o.mu.Lock()
	defer o.mu.Unlock()
	b, ok := o.files[o.abs(name)]
	if !ok {
		return nil, fs.ErrNotExist
	}
	return append([]byte{}, b...), nil
}
func (o *recOS) Remove(name string) error {
	o.rec.add(o.id, "Remove", name)
	o.mu.Lock()
	delete(o.files, o.abs(name))
	delete(o.dirs, o.abs(name))
	o.mu.Unlock()
	return nil
}
func (o *recOS) RemoveAll(p string) error {
	o.rec.add(o.id, "RemoveAll", p)
	o.mu.Lock()
	pre := o.abs(p)
	for k := range o.files {
		if k == pre || strings.HasPrefix(k, pre+"/") {
			delete(o.files, k)
		}
	}
	for k := range o.dirs {
		if k == pre || strings.HasPrefix(k, pre+"/") {
			delete(o.dirs, k)
		}
	}
	o.mu.Unlock()
	return nil
}
func (o *recOS) Rename(a, b string) error {
	o.rec.add(o.id, "Rename", a, b)
	o.mu.Lock()
	defer o.mu.Unlock()
	if v, ok := o.files[o.abs(a)]; ok {
		o.files[o.abs(b)] = v
		delete(o.files, o.abs(a))
		return nil
	}
	return fs.ErrNotExist
}
func (o *recOS) Stat(name string) (ros.FileInfo, error) {
	o.rec.add(o.id, "Stat", name)
	o.mu.Lock()
	defer o.mu.Unlock()
	p := o.abs(name)
	if b, ok := o.files[p]; ok {
		return memInfo{path.Base(p), int64(len(b)), false}, nil
	}
	if o.dirs[p] {
		return memInfo{path.Base(p), 0, true}, nil
	}
	return nil, fs.ErrNotExist
}
func (o *recOS) Symlink(a, b string) error { o.rec.add(o.id, "Symlink", a, b); return nil }
func (o *recOS) WriteFile(name string, data []byte, perm ros.FileMode) error {
	o.rec.add(o.id, "WriteFile", name, string(data))
	o.mu.Lock()
	o.files[o.abs(name)] = append([]byte{}, data...)
	o.mu.Unlock()
	return nil
}
func (o *recOS) children(dir string) []memInfo {
	o.mu.Lock()
	defer o.mu.Unlock()
	p := o.abs(dir)
	seen := map[string]memInfo{}
	for k, b := range o.files {
		if path.Dir(k) == p {
			seen[k] = memInfo{path.Base(k), int64(len(b)), false}
		}
	}
	for k := range o.dirs {
		if path.Dir(k) == p && k != p {
			seen[k] = memInfo{path.Base(k), 0, true}
		}
	}
	var keys []string
	for k := range seen {
		keys = append(keys, k)
	}
	sort.Strings(keys)
	var out []memInfo
	for _, k := range keys {
		out = append(out, seen[k])
	}
	return out
}
func (o *recOS) ReadDir(name string) ([]ros.DirEntry, error) {
	o.rec.add(o.id, "ReadDir", name)
	var out []ros.DirEntry
	for _, c := range o.children(name) {
		out = append(out, c)
	}
	return out, nil
}
func (o *recOS) WalkDir(root string, fn ros.WalkDirFunc) error {
	o.rec.add(o.id, "WalkDir", root)
	var walk func(p string, info memInfo) error
	walk = func(p string, info memInfo) error {
		if err := fn(p, info, nil); err != nil {
			if errors.Is(err, fs.SkipDir) || errors.Is(err, fs.SkipAll) {
				return nil
			}
			return err
		}
		if info.dir {
			for _, c := range o.children(p) {
				if err := walk(p+"/"+c.name, c); err != nil {
					return err
				}
			}
		}
		return nil
	}
	return walk(o.abs(root), memInfo{path.Base(root), 0, true})
}
func (o *recOS) Args() []string { o.rec.add(o.id, "Args"); return []string{"virtual-arg0", "virtual-arg1"} }
func (o *recOS) Chdir(dir string) error {
	o.rec.add(o.id, "Chdir", dir)
	o.cwd = o.abs(dir)
	return nil
}
func (o *recOS) Environ() []string {
	o.rec.add(o.id, "Environ")
	var out []string
	for k, v := range o.env {
		out = append(out, k+"="+v)
	}
	sort.Strings(out)
	return out
}
func (o *recOS) Exit(code int)            { o.rec.add(o.id, "Exit", fmt.Sprint(code)) }
func (o *recOS) Getenv(key string) string { o.rec.add(o.id, "Getenv", key); return o.env[key] }
func (o *recOS) Getpid() int              { o.rec.add(o.id, "Getpid"); return 424200 + o.id }
func (o *recOS) Getuid() int              { o.rec.add(o.id, "Getuid"); return 424300 + o.id }
func (o *recOS) Getwd() (string, error)   { o.rec.add(o.id, "Getwd"); return o.cwd, nil }
func (o *recOS) Hostname() (string, error) {
	o.rec.add(o.id, "Hostname")
	return fmt.Sprintf("virtual-host-%d", o.id), nil
}
func (o *recOS) LookupEnv(key string) (string, bool) {
	o.rec.add(o.id, "LookupEnv", key)
	v, ok := o.env[key]
	return v, ok
}
func (o *recOS) MkdirTemp(dir, pattern string) (string, error) {
	o.rec.add(o.id, "MkdirTemp", dir, pattern)
	return "/virtual/tmp/" + pattern + "0001", nil
}
func (o *recOS) Setenv(key, value string) error {
	o.rec.add(o.id, "Setenv", key, value)
	o.env[key] = value
	return nil
}
func (o *recOS) TempDir() string { o.rec.add(o.id, "TempDir"); return "/virtual/tmp" }
func (o *recOS) Unsetenv(key string) error {
	o.rec.add(o.id, "Unsetenv", key)
	delete(o.env, key)
	return nil
}
func (o *recOS) UserCacheDir() (string, error)  { o.rec.add(o.id, "UserCacheDir"); return "/virtual/cache", nil }
func (o *recOS) UserConfigDir() (string, error) { o.rec.add(o.id, "UserConfigDir"); return "/virtual/config", nil }
func (o *recOS) UserHomeDir() (string, error)   { o.rec.add(o.id, "UserHomeDir"); return "/virtual/home", nil }
func (o *recOS) Stdin() ros.File {
	o.rec.add(o.id, "Stdin")
	return &memFile{o: o, name: "<stdin>", buf: []byte("virtual-stdin\n"), std: true}
}
func (o *recOS) Stdout() ros.File { o.rec.add(o.id, "Stdout"); return &memFile{o: o, name: "<stdout>", std: true} }
func (o *recOS) Stderr() ros.File { o.rec.add(o.id, "Stderr"); return &memFile{o: o, name: "<stderr>", std: true} }
func (o *recOS) PathSeparator() rune     { o.rec.add(o.id, "PathSeparator"); return '/' }
func (o *recOS) PathListSeparator() rune { o.rec.add(o.id, "PathListSeparator"); return ':' }
func (o *recOS) CurrentUser() (ros.User, error) {
	o.rec.add(o.id, "CurrentUser")
	return memUser{"vuser"}, nil
}
func (o *recOS) LookupUser(name string) (ros.User, error) {
	o.rec.add(o.id, "LookupUser", name)
	return memUser{name}, nil
}
func (o *recOS) LookupUid(uid string) (ros.User, error) {
	o.rec.add(o.id, "LookupUid", uid)
	return memUser{"uid" + uid}, nil
}
func (o *recOS) LookupGroup(name string) (ros.Group, error) {
	o.rec.add(o.id, "LookupGroup", name)
	return memGroup{name}, nil
}
func (o *recOS) LookupGid(gid string) (ros.Group, error) {
	o.rec.add(o.id, "LookupGid", gid)
	return memGroup{"gid" + gid}, nil
}

var _ ros.OS = (*recOS)(nil)

// ---------------------------------------------------------------- in-memory importer

type memImporter struct {
	sources map[string]string
	globals []string
}

func (m *memImporter) Import(ctx context.Context, name string) (*object.Module, error) {
	src, ok := m.sources[name]
	if !ok {
		return nil, fmt.Errorf("import error: module %q not found", name)
	}
	ast, err := parser.Parse(ctx, src)
	if err != nil {
		return nil, err
	}
	code, err := compiler.Compile(ast, compiler.WithGlobalNames(m.globals))
	if err != nil {
		return nil, err
	}
	return object.NewModule(name, code), nil
}

// ---------------------------------------------------------------- cases

type step struct {
	Kind string `json:"kind"` // top | hostcall | hostclone
	// 0: bare context, k: recording OS k placed in the context; several decimal digits = a LAYERED context, the first
	// digit placed first: 12 = ros.WithOS(ros.WithOS(context.Background(), os1), os2)
	Ctx int `json:"ctx"`
}

type caseSpec struct {
	ID      string            `json:"id"`
	Main    string            `json:"main"`
	Modules map[string]string `json:"modules"`
	WithOS  int               `json:"withos"` // 0: none, k: risor.WithOS(recording OS k)
	Steps   []step            `json:"steps"`
	Fn      string            `json:"fn"`
}

type caseObs struct {
	ID     string   `json:"id"`
	Result string   `json:"result"`
	Err    string   `json:"err"`
	Log    []entry  `json:"log"`
	Real   []string `json:"real"` // changes of the REAL process state (must be empty)
}

type sentinels struct {
	dir     string
	cwd     string
	outFile *os.File
	errFile *os.File
	outSize int64
	errSize int64
}

func listDir(d string) string {
	var names []string
	fs.WalkDir(os.DirFS(d), ".", func(p string, e fs.DirEntry, err error) error {
		if err == nil {
			names = append(names, p)
		}
		return nil
	})
	sort.Strings(names)
	return strings.Join(names, ",")
}

func (s *sentinels) check() []string {
	var bad []string
	b, err := os.ReadFile(s.dir + "/sentinel.txt")
	if err != nil || string(b) != "real-content\n" {
		bad = append(bad, fmt.Sprintf("real file sentinel.txt changed: %q %v", string(b), err))
		os.WriteFile(s.dir+"/sentinel.txt", []byte("real-content\n"), 0o644)
	}
	if l := listDir(s.dir); l != ".,sentinel.txt,sub,sub/inner.txt" {
		bad = append(bad, "real sentinel directory changed: "+l)
	}
	if v := os.Getenv("C12_SENTINEL"); v != "real" {
		bad = append(bad, "real environment variable C12_SENTINEL changed: "+v)
		os.Setenv("C12_SENTINEL", "real")
	}
	if v, ok := os.LookupEnv("C12_NEW"); ok {
		bad = append(bad, "real environment variable C12_NEW was set: "+v)
		os.Unsetenv("C12_NEW")
	}
	if wd, _ := os.Getwd(); wd != s.cwd {
		bad = append(bad, "real working directory changed: "+wd)
		os.Chdir(s.cwd)
	}
	if st, err := s.outFile.Stat(); err == nil && st.Size() != s.outSize {
		bad = append(bad, fmt.Sprintf("%d bytes written to the real standard output", st.Size()-s.outSize))
		s.outSize = st.Size()
	}
	if st, err := s.errFile.Stat(); err == nil && st.Size() != s.errSize {
		bad = append(bad, fmt.Sprintf("%d bytes written to the real standard error", st.Size()-s.errSize))
		s.errSize = st.Size()
	}
	return bad
}

func inspect(o object.Object) string {
	if o == nil {
		return "<nil>"
	}
	s := o.Inspect()
	if len(s) > 300 {
		s = s[:300]
	}
	return s
}

func runCase(c caseSpec, sent *sentinels) (obs caseObs) {
	obs.ID = c.ID
	rec := &recorder{}
	oses := map[int]*recOS{}
	for k := 1; k <= 3; k++ {
		oses[k] = newRecOS(k, rec, sent.dir)
	}
	mkctx := func(k int) context.Context {
		ctx := context.Background()
		for _, d := range fmt.Sprint(k) {
			if d != '0' {
				ctx = ros.WithOS(ctx, oses[int(d-'0')])
			}
		}
		return ctx
	}
	defer func() {
		if r := recover(); r != nil {
			obs.Err = fmt.Sprintf("panic: %v", r)
		}
		time.Sleep(0)
		rec.mu.Lock()
		obs.Log = append([]entry{}, rec.log...)
		rec.mu.Unlock()
		obs.Real = sent.check()
	}()
	opts := []risor.Option{risor.WithConcurrency()}
	// c12nest(src, layer, withos): a HOST builtin that starts a nested evaluation the way an embedding application does -
	// on the context it was called with (cancellation etc. are inherited), layered with an OS of its own when layer != 0
	// (ros.WithOS(ctx, os<layer>)), and with the option risor.WithOS(os<withos>) when withos != 0.  The nested script has
	// the same importer and the same host builtin (nesting to any depth).
	var nestOpts []risor.Option
	var nest *object.Builtin
	nest = object.NewBuiltin("c12nest", func(ctx context.Context, args ...object.Object) object.Object {
		if len(args) != 3 {
			return object.NewError(errors.New("c12nest(src, layer, withos)"))
		}
		src, e1 := object.AsString(args[0])
		layer, e2 := object.AsInt(args[1])
		wo, e3 := object.AsInt(args[2])
		if e1 != nil || e2 != nil || e3 != nil {
			return object.NewError(errors.New("c12nest: bad arguments"))
		}
		nctx := ctx
		if layer != 0 {
			nctx = ros.WithOS(ctx, oses[int(layer)])
		}
		o := append([]risor.Option{}, nestOpts...)
		if wo != 0 {
			o = append(o, risor.WithOS(oses[int(wo)]))
		}
		res, err := risor.Eval(nctx, src, o...)
		if err != nil {
			return object.NewError(err)
		}
		return res
	})
	opts = append(opts, risor.WithGlobal("c12nest", nest))
	if c.WithOS == 9 {
		// risor's own VirtualOS with nothing mounted and no user configured: whatever it answers must come from this
		// configuration, never from the real host
		vout := &memFile{o: oses[1], name: "/vstdout"}
		opts = append(opts, risor.WithOS(ros.NewVirtualOS(context.Background(), ros.WithHostname("vhost"), ros.WithPid(424242),
			ros.WithUid(0), ros.WithEnvironment(map[string]string{"VKEY": "vval"}), ros.WithCwd("/vcwd"), ros.WithTmp("/vtmp"),
			ros.WithUserHomeDir("/vhome"), ros.WithUserCacheDir("/vcache"), ros.WithUserConfigDir("/vconfig"),
			ros.WithArgs([]string{"varg0"}), ros.WithStdout(vout), ros.WithStderr(vout))))
	} else if c.WithOS != 0 {
		opts = append(opts, risor.WithOS(oses[c.WithOS]))
	}
	cfg0 := risor.NewConfig(opts...)
	imp := &memImporter{sources: c.Modules, globals: cfg0.GlobalNames()}
	opts = append(opts, risor.WithImporter(imp))
	nestOpts = []risor.Option{risor.WithConcurrency(), risor.WithGlobal("c12nest", nest), risor.WithImporter(imp)}
	cfg := risor.NewConfig(opts...)
	if len(c.Steps) == 0 {
		obs.Err = "no steps"
		return
	}
	ctx0 := mkctx(c.Steps[0].Ctx)
	ast, err := parser.Parse(ctx0, c.Main)
	if err != nil {
		obs.Err = "parse: " + err.Error()
		return
	}
	code, err := compiler.Compile(ast, cfg.CompilerOpts()...)
	if err != nil {
		obs.Err = "compile: " + err.Error()
		return
	}
	if len(c.Steps) == 2 && c.Steps[1].Kind == "apicall" {
		// the embedding API's own route: risor.Call runs the code and then calls the function, under the same options
		res, err := risor.Call(mkctx(c.Steps[1].Ctx), code, c.Fn, nil, opts...)
		if err != nil {
			obs.Err = "call: " + err.Error()
			return
		}
		obs.Result = inspect(res)
		return
	}
	if len(c.Steps) == 2 && c.Steps[1].Kind == "withvm" {
		// a VM the host keeps: code evaluated on it through the API (options incl. the OS), then a function called on it
		machine, err := vm.NewEmpty()
		if err != nil {
			obs.Err = "newempty: " + err.Error()
			return
		}
		if _, err := risor.EvalCode(ctx0, code, append(append([]risor.Option{}, opts...), risor.WithVM(machine))...); err != nil {
			obs.Err = "run: " + err.Error()
			return
		}
		fnObj, err := machine.Get(c.Fn)
		if err != nil {
			obs.Err = "get: " + err.Error()
			return
		}
		fn, ok := fnObj.(*object.Function)
		if !ok {
			obs.Err = "target is not a function"
			return
		}
		res, err := machine.Call(mkctx(c.Steps[1].Ctx), fn, nil)
		if err != nil {
			obs.Err = "call: " + err.Error()
			return
		}
		obs.Result = inspect(res)
		return
	}
	machine := vm.New(code, cfg.VMOpts()...)
	if err := machine.Run(ctx0); err != nil {
		obs.Err = "run: " + err.Error()
		return
	}
	if len(c.Steps) == 1 {
		if tos, ok := machine.TOS(); ok {
			obs.Result = inspect(tos)
		}
		return
	}
	fnObj, err := machine.Get(c.Fn)
	if err != nil {
		obs.Err = "get: " + err.Error()
		return
	}
	fn, ok := fnObj.(*object.Function)
	if !ok {
		obs.Err = "target is not a function"
		return
	}
	for _, st := range c.Steps[1:] {
		if st.Kind == "hostclone" {
			clone, err := machine.Clone()
			if err != nil {
				obs.Err = "clone: " + err.Error()
				return
			}
			machine = clone
		}
		res, err := machine.Call(mkctx(st.Ctx), fn, nil)
		if err != nil {
			obs.Err = "call: " + err.Error()
			return
		}
		obs.Result = inspect(res)
	}
	return
}

func main() {
	if len(os.Args) < 3 {
		fmt.Fprintln(os.Stderr, "usage: c12obs list <repo-dir> | run <sentinel-dir>")
		os.Exit(2)
	}
	switch os.Args[1] {
	case "list":
		out := map[string][]string{}
		mods := map[string]*object.Module{"os": modOs.Module(), "filepath": modFilepath.Module(), "fmt": modFmt.Module()}
		for name, m := range mods {
			ns := m.VerifAttrNames()
			sort.Strings(ns)
			out[name] = ns
		}
		var g []string
		for k := range modOs.Builtins() {
			g = append(g, k)
		}
		for k := range modFmt.Builtins() {
			g = append(g, k)
		}
		sort.Strings(g)
		out["globals"] = g
		f := object.NewFile(context.Background(), &memFile{o: newRecOS(1, &recorder{}, "/x"), name: "/x/f"}, "/x/f")
		for _, n := range c11lib.Dictionary(os.Args[2]) {
			if _, ok := f.GetAttr(n); ok {
				out["file"] = append(out["file"], n)
			}
		}
		j, _ := json.Marshal(out)
		fmt.Println(string(j))
	case "run":
		dir := os.Args[2]
		real := os.Stdout
		outF, err1 := os.CreateTemp("", "c12-stdout-")
		errF, err2 := os.CreateTemp("", "c12-stderr-")
		if err1 != nil || err2 != nil {
			fmt.Fprintln(os.Stderr, "cannot create capture files")
			os.Exit(1)
		}
		defer os.Remove(outF.Name())
		defer os.Remove(errF.Name())
		os.Stdout = outF
		realErr := os.Stderr
		os.Stderr = errF
		cwd, _ := os.Getwd()
		sent := &sentinels{dir: dir, cwd: cwd, outFile: outF, errFile: errF}
		if bad := sent.check(); len(bad) > 0 {
			fmt.Fprintln(realErr, "sentinels are not in place:", bad)
			os.Exit(1)
		}
		sc := bufio.NewScanner(os.Stdin)
		sc.Buffer(make([]byte, 1<<20), 1<<26)
		w := bufio.NewWriter(real)
		for sc.Scan() {
			var c caseSpec
			if err := json.Unmarshal(sc.Bytes(), &c); err != nil {
				fmt.Fprintln(realErr, "bad case line:", err)
				os.Exit(2)
			}
			obs := runCase(c, sent)
			var buf bytes.Buffer
			enc := json.NewEncoder(&buf)
			enc.SetEscapeHTML(false)
			enc.Encode(obs)
			w.Write(buf.Bytes())
			w.Flush() // a later case may kill the process: what was observed so far must not be lost
		}
	default:
		fmt.Fprintln(os.Stderr, "unknown subcommand")
		os.Exit(2)
	}
}
