// Histories on ONE container object (C15: membership, iteration, sorted(), len and truthiness must agree with each
// other at every point of a container's life, whatever entry point changed it).
//
//	H c u op...   -> history through the Go object API (methods of *object.Set / *object.Map / *object.List, the
//	                 Container interface, builtins.Sorted / List / Keys called directly)
//	h c u op...   -> the same history through scripts (one evaluation per step, the container is the global `c`)
//
// c is the container (S.. / M.. / L..), u a list value (the universe: arguments of the operations and the candidates
// of the membership tests).  An operation is one token `name:a:b:observers`; a, b are indices into u (or literal list
// indices, depending on the operation), observers is a string of observer letters, applied in that order after the
// operation (name `obs` changes nothing).  After every step each selected observer is applied to the container AND to
// a fresh container built from the raw contents (Value()) of the container at that moment: a container with a
// history must be indistinguishable from a new one with the same contents.
//
// Output: one JSON object per case: {"steps":[{"op":..,"st":"ok|err|panic","o":{letter:text},"f":{letter:text}}]};
// the texts are values in the notation of parseValue (lists of answers).
package main

import (
	"context"
	"encoding/json"
	"fmt"
	"sort"
	"strconv"
	"strings"

	"github.com/risor-io/risor/builtins"
	"github.com/risor-io/risor/object"
)

type histOp struct {
	name string
	a, b int
	obs  string
}

func parseOps(toks []string) ([]histOp, error) {
	var ops []histOp
	for _, t := range toks {
		f := strings.Split(t, ":")
		if len(f) != 4 {
			return nil, fmt.Errorf("bad operation %q", t)
		}
		a, err1 := strconv.Atoi(f[1])
		b, err2 := strconv.Atoi(f[2])
		if err1 != nil || err2 != nil {
			return nil, fmt.Errorf("bad operation %q", t)
		}
		ops = append(ops, histOp{f[0], a, b, f[3]})
	}
	return ops, nil
}

func kindOf(c object.Object) string {
	switch c.(type) {
	case *object.Set:
		return "S"
	case *object.Map:
		return "M"
	case *object.List:
		return "L"
	}
	return ""
}

// fresh container with the raw contents of c
func freshOf(c object.Object) object.Object {
	switch c := c.(type) {
	case *object.Set:
		raw := c.Value()
		type kv struct {
			k string
			v object.Object
		}
		var items []kv
		for _, v := range raw {
			items = append(items, kv{show(v, 0), v})
		}
		sort.Slice(items, func(i, j int) bool { return items[i].k < items[j].k })
		vs := make([]object.Object, len(items))
		for i := range items {
			vs[i] = items[i].v
		}
		return object.NewSet(vs)
	case *object.Map:
		m := map[string]object.Object{}
		for k, v := range c.Value() {
			m[k] = v
		}
		return object.NewMap(m)
	case *object.List:
		return object.NewList(append([]object.Object{}, c.Value()...))
	}
	return c
}

func at(u []object.Object, i int) object.Object {
	if i < 0 || i >= len(u) {
		return object.Nil
	}
	return u[i]
}

// ---------------------------------------------------------------- API route

func apiMutate(c object.Object, u []object.Object, o histOp) (st string) {
	defer func() {
		if r := recover(); r != nil {
			st = "panic"
		}
	}()
	res := func(r object.Object) string {
		if object.IsError(r) {
			return "err"
		}
		return "ok"
	}
	rese := func(e *object.Error) string {
		if e != nil {
			return "err"
		}
		return "ok"
	}
	x, y := at(u, o.a), at(u, o.b)
	if o.name == "obs" {
		return "ok"
	}
	switch c := c.(type) {
	case *object.Set:
		switch o.name {
		case "add":
			return res(c.Add(x))
		case "add2":
			return res(c.Add(x, y))
		case "remove":
			return res(c.Remove(x))
		case "delete":
			return rese(c.DelItem(x))
		case "clear":
			c.Clear()
			return "ok"
		case "setitem":
			return rese(c.SetItem(x, y))
		}
	case *object.Map:
		ks, isStr := x.(*object.String)
		switch o.name {
		case "set":
			return rese(c.SetItem(x, y))
		case "mset":
			if isStr {
				c.Set(ks.Value(), y)
				return "ok"
			}
			return rese(c.SetItem(x, y))
		case "delete":
			return rese(c.DelItem(x))
		case "mdelete":
			if isStr {
				return res(c.Delete(ks.Value()))
			}
			return rese(c.DelItem(x))
		case "pop":
			if isStr {
				c.Pop(ks.Value(), nil)
				return "ok"
			}
			return "err"
		case "clear":
			c.Clear()
			return "ok"
		case "setdefault":
			if isStr {
				c.SetDefault(ks.Value(), y)
				return "ok"
			}
			return "err"
		case "update":
			if isStr {
				c.Update(object.NewMap(map[string]object.Object{ks.Value(): y}))
				return "ok"
			}
			return "err"
		}
	case *object.List:
		switch o.name {
		case "append":
			c.Append(x)
			return "ok"
		case "extend":
			c.Extend(object.NewList([]object.Object{x, y}))
			return "ok"
		case "insert":
			c.Insert(int64(o.a), y)
			return "ok"
		case "pop":
			return res(c.Pop(int64(o.a)))
		case "remove":
			c.Remove(x)
			return "ok"
		case "clear":
			c.Clear()
			return "ok"
		case "reverse":
			c.Reverse()
			return "ok"
		case "sort":
			m, _ := c.GetAttr("sort")
			return res(m.(*object.Builtin).Call(context.Background()))
		case "setidx":
			return rese(c.SetItem(object.NewInt(int64(o.a)), y))
		case "delete":
			return rese(c.DelItem(object.NewInt(int64(o.a))))
		}
	}
	return "badop"
}

func boolList(bs []bool) object.Object {
	out := make([]object.Object, len(bs))
	for i, b := range bs {
		out[i] = object.NewBool(b)
	}
	return object.NewList(out)
}

var xObj = object.NewString("X")

func apiObserve(letter byte, c, fr object.Object, u []object.Object) (res object.Object) {
	defer func() {
		if r := recover(); r != nil {
			res = object.NewString("PANIC")
		}
	}()
	ctx := context.Background()
	cont := c.(object.Container)
	switch letter {
	case 'n':
		return cont.Len()
	case 't':
		return object.NewBool(c.IsTruthy())
	case 'm':
		out := make([]object.Object, len(u))
		for i, x := range u {
			out[i] = cont.Contains(x)
		}
		return object.NewList(out)
	case 'i':
		it := iterate(c)
		q := make([]object.Object, len(u))
		for i, x := range u {
			row := make([]object.Object, len(it))
			for j, e := range it {
				row[j] = e.Equals(x)
			}
			q[i] = object.NewList(row)
		}
		return object.NewList([]object.Object{object.NewList(it), object.NewList(q)})
	case 'e':
		iter := c.(object.Iterable).Iter()
		var out []object.Object
		for {
			e, ok := object.IterNextEntry(ctx, iter)
			if !ok {
				break
			}
			out = append(out, object.NewList([]object.Object{e.Key(), e.Value()}))
		}
		return object.NewList(out)
	case 's':
		return builtins.Sorted(ctx, c)
	case 'l':
		return builtins.List(ctx, c)
	case 'k':
		return builtins.Keys(ctx, c)
	case 'p':
		return object.NewString(c.Inspect())
	case 'j':
		b, err := c.(json.Marshaler).MarshalJSON()
		if err != nil {
			return xObj
		}
		return object.NewString(string(b))
	case 'g':
		out := make([]object.Object, len(u))
		for i, x := range u {
			v, err := cont.GetItem(x)
			if err != nil {
				out[i] = xObj
			} else {
				out[i] = v
			}
		}
		return object.NewList(out)
	case 'z':
		return object.NewList([]object.Object{c.Equals(fr), fr.Equals(c)})
	case 'x':
		switch c := c.(type) {
		case *object.Set:
			return object.NewList([]object.Object{c.Union(c), c.Intersection(c), c.Difference(object.NewSet(nil).(*object.Set)), c.List()})
		case *object.Map:
			return object.NewList([]object.Object{c.Keys(), c.Values(), c.ListItems(), c.Copy()})
		case *object.List:
			cnt := make([]object.Object, len(u))
			for i, x := range u {
				cnt[i] = object.NewInt(c.Count(x))
			}
			return object.NewList([]object.Object{c.Copy(), c.Reversed(), object.NewList(cnt)})
		}
	}
	return object.NewString("?observer")
}

// ---------------------------------------------------------------- script route

func scriptMutation(kind string, o histOp) string {
	A, B := strconv.Itoa(o.a), strconv.Itoa(o.b)
	ua, ub := "u["+A+"]", "u["+B+"]"
	switch kind + o.name {
	case "Sadd":
		return "c.add(" + ua + ")"
	case "Sadd2":
		return "c.add(" + ua + ")\nc.add(" + ub + ")"
	case "Sremove":
		return "c.remove(" + ua + ")"
	case "Sdelete", "Mdelete", "Mmdelete":
		return "delete(c, " + ua + ")"
	case "Sclear", "Mclear", "Lclear":
		return "c.clear()"
	case "Ssetitem", "Mset", "Mmset":
		return "c[" + ua + "] = " + ub
	case "Mpop":
		return "c.pop(" + ua + ")"
	case "Msetdefault":
		return "c.setdefault(" + ua + ", " + ub + ")"
	case "Mupdate":
		return "m2 := {}\nm2[" + ua + "] = " + ub + "\nc.update(m2)"
	case "Lappend":
		return "c.append(" + ua + ")"
	case "Lextend":
		return "c.extend([" + ua + ", " + ub + "])"
	case "Linsert":
		return "c.insert(" + A + ", " + ub + ")"
	case "Lpop":
		return "c.pop(" + A + ")"
	case "Lremove":
		return "c.remove(" + ua + ")"
	case "Lreverse":
		return "c.reverse()"
	case "Lsort":
		return "c.sort()"
	case "Lsetidx":
		return "c[" + A + "] = " + ub
	case "Ldelete":
		return "delete(c, " + A + ")"
	}
	return ""
}

func scriptObserver(kind string, letter byte) string {
	loop := map[string]string{"S": "for e, _ := range c { it.append(e) }", "M": "for k, _ := range c { it.append(k) }",
		"L": "for _, e := range c { it.append(e) }"}[kind]
	switch letter {
	case 'n':
		return "return len(c)"
	case 't':
		return "return bool(c)"
	case 'm':
		return "r := []\nfor _, x := range u { r.append(try(func() { return x in c }, \"X\")) }\nreturn r"
	case 'i':
		return "it := []\n" + loop + "\nq := []\nfor _, x := range u { row := []\nfor _, e := range it { row.append(e == x) }\nq.append(row) }\nreturn [it, q]"
	case 'e':
		return "r := []\nfor k, v := range c { r.append([k, v]) }\nreturn r"
	case 's':
		return "return sorted(c)"
	case 'l':
		return "return list(c)"
	case 'k':
		return "return keys(c)"
	case 'p':
		return "return string(c)"
	case 'j':
		return "return string(json.marshal(c))"
	case 'g':
		return "r := []\nfor _, x := range u { r.append(try(func() { return c[x] }, \"X\")) }\nreturn r"
	case 'z':
		return "return [c == fr, fr == c]"
	case 'x':
		switch kind {
		case "S":
			return "return [c.union(c), c.intersection(c), c.union(set()), set(c)]"
		case "M":
			return "return [c.keys(), c.values(), c.items(), c.copy()]"
		case "L":
			return "cnt := []\nfor _, x := range u { cnt.append(c.count(x)) }\nreturn [c.copy(), reversed(c), cnt, c[:]]"
		}
	}
	return "return \"?observer\""
}

func scriptObserveAll(kind, letters string, c, fr object.Object, u []object.Object) map[string]string {
	var sb strings.Builder
	sb.WriteString("func w(f) { return try(f, \"X\") }\n[\n")
	for i := 0; i < len(letters); i++ {
		sb.WriteString("w(func() {\n" + scriptObserver(kind, letters[i]) + "\n}),\n")
	}
	sb.WriteString("]\n")
	out := map[string]string{}
	v, e := evalScript(sb.String(), map[string]any{"c": c, "fr": fr, "u": object.NewList(u)})
	if e != "" && len(letters) > 1 {
		// an observer ended the whole evaluation (a Go panic recovered by the VM is not caught by try): evaluate
		// them one at a time, the answer of the failing one is the class of its error
		for i := 0; i < len(letters); i++ {
			for k, t := range scriptObserveAll(kind, letters[i:i+1], c, fr, u) {
				out[k] = t
			}
		}
		return out
	}
	if e != "" {
		out[letters] = "FAILED " + errClass(e)
		return out
	}
	l, ok := v.(*object.List)
	if !ok || len(l.Value()) != len(letters) {
		out["!"] = "SCRIPTERR shape"
		return out
	}
	for i := 0; i < len(letters); i++ {
		out[string(letters[i])] = show(l.Value()[i], 0)
	}
	return out
}

// ---------------------------------------------------------------- driver

type histStep struct {
	Op string            `json:"op"`
	St string            `json:"st"`
	O  map[string]string `json:"o"`
	F  map[string]string `json:"f"`
}

func historyObs(route string, c, uv object.Object, opToks []string) string {
	kind := kindOf(c)
	ul, ok := uv.(*object.List)
	if kind == "" || !ok {
		return "BADCASE history needs a set, map or list and a universe list"
	}
	u := ul.Value()
	ops, err := parseOps(opToks)
	if err != nil {
		return "BADCASE " + err.Error()
	}
	var steps []histStep
	for _, o := range ops {
		st := histStep{Op: o.name, O: map[string]string{}, F: map[string]string{}}
		if route == "H" {
			st.St = apiMutate(c, u, o)
		} else if o.name == "obs" {
			st.St = "ok"
		} else {
			src := scriptMutation(kind, o)
			if src == "" {
				st.St = "badop"
			} else if _, e := evalScript(src, map[string]any{"c": c, "u": object.NewList(u)}); e != "" {
				st.St = "err"
				if errClass(e) == "panic" {
					st.St = "panic"
				}
			} else {
				st.St = "ok"
			}
		}
		if st.St == "badop" {
			return "BADCASE unknown operation " + o.name
		}
		// a fresh container for every observer, taken before any observer of this step has looked at c
		fresh := func() object.Object { return freshOf(c) }
		if route == "H" {
			frs := make([]object.Object, len(o.obs))
			for i := range frs {
				frs[i] = fresh()
			}
			for i := 0; i < len(o.obs); i++ {
				st.O[string(o.obs[i])] = show(apiObserve(o.obs[i], c, frs[i], u), 0)
				st.F[string(o.obs[i])] = show(apiObserve(o.obs[i], frs[i], fresh(), u), 0)
			}
		} else {
			fr := fresh()
			st.F = scriptObserveAll(kind, o.obs, fr, fresh(), u)
			st.O = scriptObserveAll(kind, o.obs, c, fr, u)
		}
		steps = append(steps, st)
	}
	b, _ := json.Marshal(map[string]any{"kind": kind, "steps": steps})
	return string(b)
}
