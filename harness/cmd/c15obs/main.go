// c15obs: implementation-side observations for C15 (equality, ordering, hashing laws).
//
// Line protocol (stdin -> stdout, one case per line, values in prefix notation, see parseValue):
//
//	P a b   -> pair observations through the object API
//	p a b   -> the same observations through a script (risor.Eval with a, b as globals)
//	C c x   -> `in`: container.Contains(x), and Equals(elem, x) for every element the container's iterator yields
//	c c x   -> x in c, evaluated by a script; elementwise == by a script loop
//	S l     -> sorted(l) through builtins.Sorted: permutation (by object identity), second application, compare matrix
//	s l     -> sorted(l), sorted(sorted(l)) by a script
//	U l     -> set built from the items of l: members, len, truthiness, membership of every item
//	Y v     -> IsTruthy and Len
//	H c u op... / h c u op...  -> a history on one container object, see history.go
package main

import (
	"bufio"
	"context"
	"encoding/hex"
	"errors"
	"fmt"
	"math"
	"os"
	"sort"
	"strconv"
	"strings"
	"time"

	"github.com/risor-io/risor"
	"github.com/risor-io/risor/builtins"
	"github.com/risor-io/risor/object"
	"github.com/risor-io/risor/op"
)

type parser struct {
	toks []string
	pos  int
	errs map[string]error // Go errors of this case, by identity: the values of one case share them
	objs map[string]object.Object
}

// opaque builds the value of a token O=<kind>/<id>/<variant>: a value of one of the kinds that have no literal spelling
// (time, builtin, function, module, iterators, buffer, channel, float_slice, partial).  Within one case the same token is the
// SAME object; another id with the same variant is another object with the same content.
func (p *parser) opaque(spec string) (object.Object, error) {
	if o, ok := p.objs[spec]; ok {
		return o, nil
	}
	parts := strings.Split(spec, "/")
	if len(parts) != 3 {
		return nil, fmt.Errorf("bad opaque value %q", spec)
	}
	n, err := strconv.Atoi(parts[2])
	if err != nil {
		return nil, err
	}
	noop := func(ctx context.Context, args ...object.Object) object.Object { return object.Nil }
	var o object.Object
	switch parts[0] {
	case "time":
		// variants 0, 1: two instants in UTC; 2, 3: the same two instants in another zone
		t := time.Unix(1700000000+int64(n%2)*3600, 0).UTC()
		if n >= 2 {
			t = t.In(time.FixedZone("plus1", 3600))
		}
		o = object.NewTime(t)
	case "builtin":
		o = object.NewBuiltin("b"+parts[2], noop)
	case "function":
		v, e := evalScript("func(x) { return x + "+parts[2]+" }", map[string]any{})
		if e != "" {
			return nil, errors.New(e)
		}
		o = v
	case "module":
		o = object.NewBuiltinsModule("m"+parts[2], map[string]object.Object{"f": object.NewBuiltin("f", noop)})
	case "listiter":
		o = object.NewListIter(object.NewList([]object.Object{object.NewInt(int64(n))}))
	case "intiter":
		o = object.NewIntIter(object.NewInt(int64(n)))
	case "buffer":
		o = object.NewBufferFromBytes([]byte(strings.Repeat("x", n)))
	case "chan":
		o = object.NewChan(n)
	case "floatslice":
		o = object.NewFloatSlice([]float64{float64(n)})
	case "partial":
		o = object.NewPartial(object.NewBuiltin("pb", noop), []object.Object{object.NewInt(int64(n))})
	default:
		return nil, fmt.Errorf("unknown opaque kind %q", parts[0])
	}
	if p.objs == nil {
		p.objs = map[string]object.Object{}
	}
	p.objs[spec] = o
	return o, nil
}

// chainError builds the Go error of a token E<r>=<id>/<hex base message>[/<hex prefix>]*: a base error created with
// errors.New, wrapped once per prefix with fmt.Errorf("<prefix>: %w", inner).  Within one case, the same id and base message
// give the SAME base error object (as a sentinel does), and the same prefixes over it the same wrapper objects; another id
// gives other objects that may carry the same message.
func (p *parser) chainError(spec string) (error, error) {
	parts := strings.Split(spec, "/")
	if len(parts) < 2 {
		return nil, fmt.Errorf("bad error chain %q", spec)
	}
	if p.errs == nil {
		p.errs = map[string]error{}
	}
	key := parts[0] + "/" + parts[1]
	cur, ok := p.errs[key]
	if !ok {
		b, err := unhex(parts[1])
		if err != nil {
			return nil, err
		}
		cur = errors.New(string(b))
		p.errs[key] = cur
	}
	for _, px := range parts[2:] {
		key += "/" + px
		w, ok := p.errs[key]
		if !ok {
			b, err := unhex(px)
			if err != nil {
				return nil, err
			}
			w = fmt.Errorf("%s: %w", string(b), cur)
			p.errs[key] = w
		}
		cur = w
	}
	return cur, nil
}

func (p *parser) next() (string, error) {
	if p.pos >= len(p.toks) {
		return "", errors.New("unexpected end of case")
	}
	t := p.toks[p.pos]
	p.pos++
	return t, nil
}

func unhex(s string) ([]byte, error) { return hex.DecodeString(s) }

// parseValue reads one value:
//
//	n | t | f | i<dec> | d<16 hex digits of the IEEE bits> | y<dec> | s=<hex> | b=<hex> | e0=<hex> | e1=<hex>
//	E<r>=<id>/<hex base>[/<hex prefix>]* (an error with a chain of wrapped errors, see chainError)
//	O=<kind>/<id>/<variant> (a time, builtin, function, module, iterator, buffer, channel, float_slice, partial; see opaque)
//	L<k> v1..vk | M<k> (k=<hex> v)* | S<k> v1..vk
func (p *parser) parseValue() (object.Object, error) {
	t, err := p.next()
	if err != nil {
		return nil, err
	}
	switch {
	case t == "n":
		return object.Nil, nil
	case t == "t":
		return object.True, nil
	case t == "f":
		return object.False, nil
	case t[0] == 'i':
		v, err := strconv.ParseInt(t[1:], 10, 64)
		if err != nil {
			return nil, err
		}
		return object.NewInt(v), nil
	case t[0] == 'd':
		v, err := strconv.ParseUint(t[1:], 16, 64)
		if err != nil {
			return nil, err
		}
		return object.NewFloat(math.Float64frombits(v)), nil
	case t[0] == 'y':
		v, err := strconv.ParseUint(t[1:], 10, 8)
		if err != nil {
			return nil, err
		}
		return object.NewByte(byte(v)), nil
	case strings.HasPrefix(t, "s="):
		b, err := unhex(t[2:])
		if err != nil {
			return nil, err
		}
		return object.NewString(string(b)), nil
	case strings.HasPrefix(t, "b="):
		b, err := unhex(t[2:])
		if err != nil {
			return nil, err
		}
		return object.NewByteSlice(b), nil
	case strings.HasPrefix(t, "e0=") || strings.HasPrefix(t, "e1="):
		b, err := unhex(t[3:])
		if err != nil {
			return nil, err
		}
		return object.NewError(errors.New(string(b))).WithRaised(t[1] == '1'), nil
	case strings.HasPrefix(t, "O="):
		return p.opaque(t[2:])
	case strings.HasPrefix(t, "E0=") || strings.HasPrefix(t, "E1="):
		e, err := p.chainError(t[3:])
		if err != nil {
			return nil, err
		}
		return object.NewError(e).WithRaised(t[1] == '1'), nil
	case t[0] == 'L' || t[0] == 'S':
		k, err := strconv.Atoi(t[1:])
		if err != nil {
			return nil, err
		}
		items := make([]object.Object, 0, k)
		for i := 0; i < k; i++ {
			v, err := p.parseValue()
			if err != nil {
				return nil, err
			}
			items = append(items, v)
		}
		if t[0] == 'L' {
			return object.NewList(items), nil
		}
		s := object.NewSet(items)
		if object.IsError(s) {
			return nil, errors.New("unhashable set member in case")
		}
		return s, nil
	case t[0] == 'M':
		k, err := strconv.Atoi(t[1:])
		if err != nil {
			return nil, err
		}
		m := map[string]object.Object{}
		for i := 0; i < k; i++ {
			kt, err := p.next()
			if err != nil {
				return nil, err
			}
			if !strings.HasPrefix(kt, "k=") {
				return nil, errors.New("map key expected")
			}
			kb, err := unhex(kt[2:])
			if err != nil {
				return nil, err
			}
			v, err := p.parseValue()
			if err != nil {
				return nil, err
			}
			m[string(kb)] = v
		}
		return object.NewMap(m), nil
	}
	return nil, fmt.Errorf("bad token %q", t)
}

// canonical text of a value in the same notation (maps by key, sets by member text)
func show(o object.Object, depth int) string {
	if depth > 40 {
		return "?deep"
	}
	switch o := o.(type) {
	case nil:
		return "?gonil"
	case *object.NilType:
		return "n"
	case *object.Bool:
		if o.Value() {
			return "t"
		}
		return "f"
	case *object.Int:
		return "i" + strconv.FormatInt(o.Value(), 10)
	case *object.Float:
		return fmt.Sprintf("d%016x", math.Float64bits(o.Value()))
	case *object.Byte:
		return "y" + strconv.Itoa(int(o.Value()))
	case *object.String:
		return "s=" + hex.EncodeToString([]byte(o.Value()))
	case *object.ByteSlice:
		return "b=" + hex.EncodeToString(o.Value())
	case *object.Error:
		r := "0"
		if o.IsRaised() {
			r = "1"
		}
		return "e" + r + "=" + hex.EncodeToString([]byte(o.Value().Error()))
	case *object.List:
		parts := []string{"L" + strconv.Itoa(len(o.Value()))}
		for _, it := range o.Value() {
			parts = append(parts, show(it, depth+1))
		}
		return strings.Join(parts, " ")
	case *object.Map:
		m := o.Value()
		keys := make([]string, 0, len(m))
		for k := range m {
			keys = append(keys, k)
		}
		sort.Strings(keys)
		parts := []string{"M" + strconv.Itoa(len(m))}
		for _, k := range keys {
			parts = append(parts, "k="+hex.EncodeToString([]byte(k)), show(m[k], depth+1))
		}
		return strings.Join(parts, " ")
	case *object.Set:
		var ms []string
		for _, it := range o.Value() {
			ms = append(ms, show(it, depth+1))
		}
		sort.Strings(ms)
		return strings.Join(append([]string{"S" + strconv.Itoa(len(ms))}, ms...), " ")
	}
	return "?" + string(o.Type())
}

func b01(b bool) string {
	if b {
		return "1"
	}
	return "0"
}

func truth(o object.Object) string {
	if b, ok := o.(*object.Bool); ok {
		return b01(b.Value())
	}
	return "?"
}

func cmpChar(a, b object.Object) string {
	c, ok := a.(object.Comparable)
	if !ok {
		return "X"
	}
	v, err := c.Compare(b)
	if err != nil {
		return "X"
	}
	switch {
	case v < 0:
		return "L"
	case v > 0:
		return "G"
	}
	return "E"
}

func opChar(t op.CompareOpType, a, b object.Object) string {
	r, err := object.Compare(t, a, b)
	if err != nil {
		return "X"
	}
	return truth(r)
}

var relOps = []op.CompareOpType{op.LessThan, op.LessThanOrEqual, op.GreaterThan, op.GreaterThanOrEqual}

func pairAPI(a, b object.Object) string {
	var sb strings.Builder
	sb.WriteString("E" + opChar(op.Equal, a, b) + opChar(op.Equal, b, a))
	sb.WriteString(" N" + opChar(op.NotEqual, a, b) + opChar(op.NotEqual, b, a))
	sb.WriteString(" C" + cmpChar(a, b) + cmpChar(b, a))
	sb.WriteString(" O")
	for _, t := range relOps {
		sb.WriteString(opChar(t, a, b))
	}
	for _, t := range relOps {
		sb.WriteString(opChar(t, b, a))
	}
	ha, oka := a.(object.Hashable)
	hb, okb := b.(object.Hashable)
	if oka && okb {
		sb.WriteString(" H" + b01(ha.HashKey() == hb.HashKey()))
	} else {
		sb.WriteString(" H-")
	}
	return sb.String()
}

const pairScript = `
func w(f) { return try(f, "X") }
[w(func() { return a == b }), w(func() { return b == a }),
 w(func() { return a != b }), w(func() { return b != a }),
 w(func() { return a < b }), w(func() { return a <= b }), w(func() { return a > b }), w(func() { return a >= b }),
 w(func() { return b < a }), w(func() { return b <= a }), w(func() { return b > a }), w(func() { return b >= a }),
 w(func() { return len({a, b}) })]
`

func evalScript(src string, g map[string]any) (res object.Object, errText string) {
	defer func() {
		if r := recover(); r != nil {
			res, errText = nil, fmt.Sprintf("gopanic: %v", r)
		}
	}()
	v, err := risor.Eval(context.Background(), src, risor.WithGlobals(g))
	if err != nil {
		return nil, err.Error()
	}
	return v, ""
}

func scriptChar(o object.Object) string {
	switch o := o.(type) {
	case *object.Bool:
		return b01(o.Value())
	case *object.String:
		if o.Value() == "X" {
			return "X"
		}
	case *object.Int:
		return strconv.FormatInt(o.Value(), 10)
	}
	return "?"
}

func pairScriptObs(a, b object.Object) string {
	v, e := evalScript(pairScript, map[string]any{"a": a, "b": b})
	if e != "" {
		return "SCRIPTERR " + errClass(e)
	}
	l, ok := v.(*object.List)
	if !ok || len(l.Value()) != 13 {
		return "SCRIPTERR shape"
	}
	return pairLine(l.Value())
}

// pairLine turns the 13 answers of one block of pair operators into the line shape of pairAPI
func pairLine(it []object.Object) string {
	c := make([]string, len(it))
	for i := range it {
		c[i] = scriptChar(it[i])
	}
	// derive the three-way results from the operators so that the line has the same shape as pairAPI
	three := func(lt, le, gt, ge string) string {
		switch {
		case lt == "X" || le == "X" || gt == "X" || ge == "X":
			return "X"
		case lt == "1":
			return "L"
		case gt == "1":
			return "G"
		}
		return "E"
	}
	h := "-"
	if c[12] == "1" {
		h = "1"
	} else if c[12] == "2" {
		h = "0"
	}
	return "E" + c[0] + c[1] + " N" + c[2] + c[3] + " C" + three(c[4], c[5], c[6], c[7]) + three(c[8], c[9], c[10], c[11]) +
		" O" + strings.Join(c[4:12], "") + " H" + h
}

func errClass(m string) string {
	switch {
	case strings.Contains(m, "panic"):
		return "panic"
	case strings.HasPrefix(m, "type error"):
		return "type"
	}
	return "other"
}

func iterate(c object.Object) []object.Object {
	it, ok := c.(object.Iterable)
	if !ok {
		return nil
	}
	iter := it.Iter()
	var out []object.Object
	for {
		v, ok := iter.Next(context.Background())
		if !ok {
			break
		}
		out = append(out, v)
	}
	return out
}

// the iteration order of sets and maps is not part of the observation
func canonQ(c object.Object, q []string) string {
	switch c.(type) {
	case *object.Set, *object.Map:
		sort.Strings(q)
	}
	return strings.Join(q, "")
}

func containsAPI(c, x object.Object) string {
	cont, ok := c.(object.Container)
	if !ok {
		return "IX"
	}
	var sb strings.Builder
	sb.WriteString("I" + truth(cont.Contains(x)) + " Q")
	var q []string
	for _, e := range iterate(c) {
		q = append(q, truth(e.Equals(x)))
	}
	sb.WriteString(canonQ(c, q))
	return sb.String()
}

const containsScript = `
r := try(func() { return x in c }, "X")
q := []
for _, e := range c { q.append(e == x) }
[r, q]
`

func containsScriptObs(c, x object.Object) string {
	if _, ok := c.(*object.Map); ok {
		// a range loop over a map yields key, value; iterate the keys
		v, e := evalScript("r := try(func() { return x in c }, \"X\")\nq := []\nfor k, _ := range c { q.append(k == x) }\n[r, q]", map[string]any{"c": c, "x": x})
		return containsFmt(c, v, e)
	}
	if _, ok := c.(*object.Set); ok {
		v, e := evalScript("r := try(func() { return x in c }, \"X\")\nq := []\nfor e, _ := range c { q.append(e == x) }\n[r, q]", map[string]any{"c": c, "x": x})
		return containsFmt(c, v, e)
	}
	switch c.(type) {
	case *object.List, *object.String, *object.ByteSlice:
		v, e := evalScript(containsScript, map[string]any{"c": c, "x": x})
		return containsFmt(c, v, e)
	}
	// not a collection: only the membership test itself (an int is iterable, but not a container)
	v, e := evalScript("[try(func() { return x in c }, \"X\"), []]", map[string]any{"c": c, "x": x})
	return containsFmt(c, v, e)
}

func containsFmt(c, v object.Object, e string) string {
	if e != "" {
		if strings.Contains(e, "not a container") || strings.Contains(e, "not an iterable") || strings.Contains(e, "not iterable") {
			return "IX"
		}
		return "SCRIPTERR " + errClass(e)
	}
	l, ok := v.(*object.List)
	if !ok || len(l.Value()) != 2 {
		return "SCRIPTERR shape"
	}
	q, ok := l.Value()[1].(*object.List)
	if !ok {
		return "SCRIPTERR shape"
	}
	var sb strings.Builder
	if scriptChar(l.Value()[0]) == "X" {
		return "IX"
	}
	sb.WriteString("I" + scriptChar(l.Value()[0]) + " Q")
	var qs []string
	for _, e := range q.Value() {
		qs = append(qs, scriptChar(e))
	}
	sb.WriteString(canonQ(c, qs))
	return sb.String()
}

// permutation performed by a sort: result[i] is the original index of the object now at position i.
// Objects are identified by pointer; several occurrences of one pointer are numbered left to right.
func permutation(orig, res []object.Object) string {
	if len(orig) != len(res) {
		return "?len"
	}
	used := make([]bool, len(orig))
	parts := make([]string, len(res))
	for i, r := range res {
		found := -1
		for j, o := range orig {
			if !used[j] && o == r {
				found = j
				break
			}
		}
		if found < 0 {
			return "?notperm"
		}
		used[found] = true
		parts[i] = strconv.Itoa(found)
	}
	return strings.Join(parts, ",")
}

func callSorted(l *object.List) (res *object.List, status string) {
	defer func() {
		if r := recover(); r != nil {
			res, status = nil, "PANIC"
		}
	}()
	out := builtins.Sorted(context.Background(), l)
	switch o := out.(type) {
	case *object.List:
		return o, "OK"
	case *object.Error:
		return nil, "ERR"
	}
	return nil, "?"
}

func distinct(items []object.Object) []object.Object {
	// give every position its own object so that the permutation is observable (small ints, bytes,
	// booleans and nil are shared singletons in the implementation; they stay shared)
	return items
}

func sortedAPI(v object.Object) string {
	l, ok := v.(*object.List)
	if !ok {
		return "BADCASE"
	}
	orig := append([]object.Object{}, l.Value()...)
	var sb strings.Builder
	r1, st := callSorted(l)
	sb.WriteString("R" + st)
	if st == "OK" {
		sb.WriteString(" " + permutation(orig, r1.Value()))
		// the argument must be left alone
		sb.WriteString(" A" + permutation(orig, l.Value()))
		first := append([]object.Object{}, r1.Value()...)
		r2, st2 := callSorted(r1)
		sb.WriteString(" R" + st2)
		if st2 == "OK" {
			sb.WriteString(" " + permutation(first, r2.Value()))
		}
	}
	sb.WriteString(" M")
	for _, a := range orig {
		for _, b := range orig {
			sb.WriteString(cmpChar(a, b))
		}
	}
	return sb.String()
}

func sortedScriptObs(v object.Object) string {
	l, ok := v.(*object.List)
	if !ok {
		return "BADCASE"
	}
	orig := append([]object.Object{}, l.Value()...)
	var sb strings.Builder
	r, e := evalScript("sorted(l)", map[string]any{"l": l})
	if e != "" {
		if errClass(e) == "panic" {
			sb.WriteString("RPANIC")
		} else {
			sb.WriteString("RERR")
		}
	} else if r1, ok := r.(*object.List); ok {
		sb.WriteString("ROK " + permutation(orig, r1.Value()))
		sb.WriteString(" A" + permutation(orig, l.Value()))
		first := append([]object.Object{}, r1.Value()...)
		r2, e2 := evalScript("sorted(sorted(l))", map[string]any{"l": l})
		if e2 != "" {
			if errClass(e2) == "panic" {
				sb.WriteString(" RPANIC")
			} else {
				sb.WriteString(" RERR")
			}
		} else if l2, ok := r2.(*object.List); ok {
			sb.WriteString(" ROK " + permutation(first, l2.Value()))
		}
	} else {
		sb.WriteString("R?")
	}
	sb.WriteString(" M")
	for _, a := range orig {
		for _, b := range orig {
			sb.WriteString(cmpChar(a, b))
		}
	}
	return sb.String()
}

func setAPI(v object.Object) string {
	l, ok := v.(*object.List)
	if !ok {
		return "BADCASE"
	}
	s := object.NewSet(l.Value())
	set, ok := s.(*object.Set)
	if !ok {
		return "UNHASHABLE"
	}
	var sb strings.Builder
	sb.WriteString("N" + strconv.FormatInt(set.Len().Value(), 10) + " T" + b01(set.IsTruthy()) + " I")
	for _, it := range l.Value() {
		sb.WriteString(truth(set.Contains(it)))
	}
	sb.WriteString(" E")
	for _, a := range l.Value() {
		for _, b := range l.Value() {
			sb.WriteString(truth(a.Equals(b)))
		}
	}
	sb.WriteString(" V " + show(set, 0))
	return sb.String()
}

func truthyObs(v object.Object) string {
	n := "-"
	if c, ok := v.(object.Container); ok {
		n = strconv.FormatInt(c.Len().Value(), 10)
	}
	return "T" + b01(v.IsTruthy()) + " N" + n
}

func main() {
	in := bufio.NewReaderSize(os.Stdin, 1<<20)
	out := bufio.NewWriterSize(os.Stdout, 1<<20)
	defer out.Flush()
	sc := bufio.NewScanner(in)
	sc.Buffer(make([]byte, 1<<20), 1<<26)
	for sc.Scan() {
		line := sc.Text()
		if line == "" {
			continue
		}
		p := &parser{toks: strings.Fields(line)}
		kind, _ := p.next()
		if kind == "H" || kind == "h" {
			c, err1 := p.parseValue()
			var u object.Object
			var err2 error
			if err1 == nil {
				u, err2 = p.parseValue()
			}
			if err1 != nil || err2 != nil {
				fmt.Fprintln(out, "BADCASE history values")
				continue
			}
			fmt.Fprintln(out, historyObs(kind, c, u, p.toks[p.pos:]))
			continue
		}
		var vals []object.Object
		bad := false
		for p.pos < len(p.toks) {
			v, err := p.parseValue()
			if err != nil {
				fmt.Fprintf(out, "BADCASE %v\n", err)
				bad = true
				break
			}
			vals = append(vals, v)
		}
		if bad {
			continue
		}
		need := map[string]int{"P": 2, "p": 2, "C": 2, "c": 2, "S": 1, "s": 1, "U": 1, "Y": 1, "k": 2, "e": 2}[kind]
		if need == 0 || len(vals) != need {
			fmt.Fprintln(out, "BADCASE arity")
			continue
		}
		switch kind {
		case "P":
			fmt.Fprintln(out, pairAPI(vals[0], vals[1]))
		case "p":
			fmt.Fprintln(out, pairScriptObs(vals[0], vals[1]))
		case "C":
			fmt.Fprintln(out, containsAPI(vals[0], vals[1]))
		case "c":
			fmt.Fprintln(out, containsScriptObs(vals[0], vals[1]))
		case "k":
			fmt.Fprintln(out, spelledContainsObs(vals[0], vals[1]))
		case "e":
			fmt.Fprintln(out, spelledPairObs(vals[0], vals[1]))
		case "S":
			fmt.Fprintln(out, sortedAPI(vals[0]))
		case "s":
			fmt.Fprintln(out, sortedScriptObs(vals[0]))
		case "U":
			fmt.Fprintln(out, setAPI(vals[0]))
		case "Y":
			fmt.Fprintln(out, truthyObs(vals[0]))
		}
	}
}
