// Spelled observations: the values of a case written out as SOURCE TEXT, so that what the compiler does with a literal
// operand (a container literal after `in`, literal operands of a comparison) is part of what is observed.
//
//	k c x   -> membership of x in c through every spelling of container and needle: literal in place, held in a variable,
//	           returned by a call, element of an enclosing literal, parenthesised, passed as an argument, as a condition,
//	           through `not in`; and the elementwise == of an iteration over the literal and over the variable
//	e a b   -> the pair observations of `p` with the operands spelled as literals, as variables, and mixed
//
// Every part of a value that has a literal form is written as that literal (ints, floats with a finite decimal expansion,
// bools, nil, strings of printable text, lists, non-empty sets, maps; byte(n) and byte_slice("...") as calls); a part that has none
// (NaN, infinities, -0.0, the smallest int, text with control or invalid bytes, errors, empty sets) is handed in as a global.
package main

import (
	"encoding/hex"
	"fmt"
	"math"
	"sort"
	"strconv"
	"strings"
	"unicode"
	"unicode/utf8"

	"github.com/risor-io/risor/object"
)

type speller struct {
	g map[string]any
	n int
}

func (s *speller) bind(o object.Object) string {
	name := fmt.Sprintf("g%d", s.n)
	s.n++
	s.g[name] = o
	return name
}

func plainText(t string) bool {
	if !utf8.ValidString(t) {
		return false
	}
	for _, r := range t {
		if r == '"' || r == '\\' || r == utf8.RuneError || !unicode.IsPrint(r) {
			return false
		}
	}
	return true
}

func (s *speller) lit(o object.Object) string {
	switch v := o.(type) {
	case *object.NilType:
		return "nil"
	case *object.Bool:
		if v.Value() {
			return "true"
		}
		return "false"
	case *object.Int:
		if v.Value() == math.MinInt64 {
			return s.bind(o)
		}
		return strconv.FormatInt(v.Value(), 10)
	case *object.Float:
		f := v.Value()
		if f != f || math.IsInf(f, 0) || (f == 0 && math.Signbit(f)) {
			return s.bind(o)
		}
		t := strconv.FormatFloat(f, 'f', -1, 64)
		if !strings.Contains(t, ".") {
			t += ".0"
		}
		if back, err := strconv.ParseFloat(t, 64); err != nil || back != f || len(t) > 40 {
			return s.bind(o)
		}
		return t
	case *object.Byte:
		return fmt.Sprintf("byte(%d)", v.Value())
	case *object.String:
		if plainText(v.Value()) {
			return "\"" + v.Value() + "\""
		}
		return s.bind(o)
	case *object.ByteSlice:
		if plainText(string(v.Value())) {
			return "byte_slice(\"" + string(v.Value()) + "\")"
		}
		return s.bind(o)
	case *object.List:
		parts := make([]string, 0, len(v.Value()))
		for _, it := range v.Value() {
			parts = append(parts, s.lit(it))
		}
		return "[" + strings.Join(parts, ", ") + "]"
	case *object.Set:
		items := v.SortedItems()
		if len(items) == 0 {
			return s.bind(o)
		}
		parts := make([]string, 0, len(items))
		for _, it := range items {
			parts = append(parts, s.lit(it))
		}
		return "{" + strings.Join(parts, ", ") + "}"
	case *object.Map:
		m := v.Value()
		keys := make([]string, 0, len(m))
		for k := range m {
			if !plainText(k) {
				return s.bind(o)
			}
			keys = append(keys, k)
		}
		sort.Strings(keys)
		parts := make([]string, 0, len(keys))
		for _, k := range keys {
			parts = append(parts, "\""+k+"\": "+s.lit(m[k]))
		}
		return "{" + strings.Join(parts, ", ") + "}"
	}
	return s.bind(o)
}

// names of the membership spellings, in the order of the script's result list
var inSpellings = []string{"literal-in-literal", "not-in-literal", "literal-in-variable", "variable-in-literal", "variable-in-variable",
	"in-call-result", "in-element-of-list-literal", "in-value-of-map-literal", "in-parenthesised-literal", "as-arguments", "as-if-condition",
	"as-ternary-condition", "not-in-variable", "in-literal-plus-empty"}

func spelledContainsObs(c, x object.Object) string {
	sp := &speller{g: map[string]any{}}
	C, X := sp.lit(c), sp.lit(x)
	loop := "for _, e := range %s { %s.append(e == %s) }"
	switch c.(type) {
	case *object.Map, *object.Set:
		loop = "for e, _ := range %s { %s.append(e == %s) }"
	case *object.List, *object.String, *object.ByteSlice:
	default:
		loop = "" // not a collection: only the membership tests
	}
	var sb strings.Builder
	sb.WriteString("func w(f) { return try(f, \"X\") }\n")
	sb.WriteString("c := " + C + "\nx := " + X + "\n")
	sb.WriteString("mk := func() { return " + C + " }\n")
	sb.WriteString("r := [\n")
	forms := []string{
		"return " + X + " in " + C,
		"return !(" + X + " not in " + C + ")",
		"return " + X + " in c",
		"return x in " + C,
		"return x in c",
		"return " + X + " in mk()",
		"return " + X + " in [" + C + "][0]",
		"return " + X + " in {\"k\": " + C + "}[\"k\"]",
		"return " + X + " in (" + C + ")",
		"return func(cc, xx) { return xx in cc }(" + C + ", " + X + ")",
		"if (" + X + " in " + C + ") { return true }; return false",
		"return (" + X + " in " + C + ") ? true : false",
		"return !(x not in c)",
	}
	if _, ok := c.(*object.List); ok {
		forms = append(forms, "return "+X+" in ("+C+" + [])")
	} else {
		forms = append(forms, "return x in c")
	}
	for _, f := range forms {
		sb.WriteString(" w(func() { " + f + " }),\n")
	}
	sb.WriteString("]\nq := []\nq2 := []\n")
	if loop != "" {
		sb.WriteString(fmt.Sprintf(loop, "("+C+")", "q", X) + "\n")
		sb.WriteString(fmt.Sprintf(loop, "c", "q2", "x") + "\n")
	}
	sb.WriteString("[r, q, q2]\n")
	src := sb.String()
	v, e := evalScript(src, sp.g)
	hx := "SRC=" + hex.EncodeToString([]byte(src))
	if e != "" {
		return "SCRIPTERR " + errClass(e) + " " + hex.EncodeToString([]byte(e)) + " " + hx
	}
	l, ok := v.(*object.List)
	if !ok || len(l.Value()) != 3 {
		return "SCRIPTERR shape " + hx
	}
	r, ok1 := l.Value()[0].(*object.List)
	q, ok2 := l.Value()[1].(*object.List)
	q2, ok3 := l.Value()[2].(*object.List)
	if !ok1 || !ok2 || !ok3 || len(r.Value()) != len(inSpellings) {
		return "SCRIPTERR shape " + hx
	}
	out := []string{"K"}
	for i, it := range r.Value() {
		out = append(out, inSpellings[i]+"=I"+scriptChar(it))
	}
	qs := func(l *object.List) string {
		var s []string
		for _, e := range l.Value() {
			s = append(s, scriptChar(e))
		}
		return canonQ(c, s)
	}
	out = append(out, "Q"+qs(q), "V"+qs(q2), fmt.Sprintf("G%d", len(sp.g)), hx)
	return strings.Join(out, " ")
}

var pairSpellings = []string{"literal-literal", "variable-literal", "literal-variable", "through-parameters"}

func spelledPairObs(a, b object.Object) string {
	sp := &speller{g: map[string]any{}}
	A, B := sp.lit(a), sp.lit(b)
	var sb strings.Builder
	sb.WriteString("func w(f) { return try(f, \"X\") }\n")
	sb.WriteString("a := " + A + "\nb := " + B + "\n")
	block := func(l, r string) {
		sb.WriteString("[")
		for _, o := range [][3]string{{l, "==", r}, {r, "==", l}, {l, "!=", r}, {r, "!=", l}, {l, "<", r}, {l, "<=", r}, {l, ">", r}, {l, ">=", r},
			{r, "<", l}, {r, "<=", l}, {r, ">", l}, {r, ">=", l}} {
			sb.WriteString("w(func() { return " + o[0] + " " + o[1] + " " + o[2] + " }), ")
		}
		sb.WriteString("w(func() { return len({" + l + ", " + r + "}) })]")
	}
	sb.WriteString("[")
	block(A, B)
	sb.WriteString(",\n")
	block("a", B)
	sb.WriteString(",\n")
	block(A, "b")
	sb.WriteString(",\n")
	sb.WriteString("func(a, b) { return ")
	block("a", "b")
	sb.WriteString(" }(" + A + ", " + B + ")]\n")
	src := sb.String()
	hx := "SRC=" + hex.EncodeToString([]byte(src))
	v, e := evalScript(src, sp.g)
	if e != "" {
		return "SCRIPTERR " + errClass(e) + " " + hex.EncodeToString([]byte(e)) + " " + hx
	}
	l, ok := v.(*object.List)
	if !ok || len(l.Value()) != len(pairSpellings) {
		return "SCRIPTERR shape " + hx
	}
	var parts []string
	for _, blk := range l.Value() {
		bl, ok := blk.(*object.List)
		if !ok || len(bl.Value()) != 13 {
			return "SCRIPTERR shape " + hx
		}
		parts = append(parts, pairLine(bl.Value()))
	}
	return "E " + strings.Join(parts, " | ") + " | " + fmt.Sprintf("G%d", len(sp.g)) + " " + hx
}
