// Embedding rounds (mode "embed-conc" / "embed-seq"): the lower-level route a host takes when it serves requests itself -
// parser.Parse + compiler.New(WithGlobalNames(names)) / compiler.Compile + vm.New(WithGlobals, WithImporter) + Run -
// with host-side inputs SHARED by all evaluations of a round and never written by the host: ONE global-names slice
// (unsorted, with spare capacity) handed to every compiler and to the importer, ONE importer (FSImporter over an fs
// whose Open is a host hook, or LocalImporter over the module directory) and its module files.  Every evaluation has
// its own VM, its own globals map (same names, own values), its own context, and imports the round's module - which
// nobody has imported before - at the same time as the others.
//
// In a round with a victim one evaluation is released first; when the importer opens the module's file on its behalf
// the others are released (they arrive at the importer while the load is in progress), then the victim's context is
// cancelled before the file is handed out.  The victim's outcome is its own business (`context canceled`, or its
// value); every other evaluation must return exactly the value its own globals make it.
//
// After every round the host compares its shared inputs with the copies it kept.
//
// Request: {"mode":"embed-conc"|"embed-seq","rounds":R,"workers":W,"seed":S,"dir":"<module dir>"}; "seq" runs the
// evaluations of a round one after the other (the victim first, with the same cancellation).
// Output: {"embed":[{"round","worker","route","victim","script","got","want","error"}...],"modified":["..."]}
package main

import (
	"context"
	"encoding/json"
	"fmt"
	"io/fs"
	"os"
	"path/filepath"
	"runtime"
	"sort"
	"strings"
	"sync"
	"testing/fstest"
	"time"

	"github.com/risor-io/risor/compiler"
	"github.com/risor-io/risor/importer"
	"github.com/risor-io/risor/object"
	"github.com/risor-io/risor/parser"
	"github.com/risor-io/risor/vm"
)

type embedResult struct {
	Round  int         `json:"round"`
	Worker int         `json:"worker"`
	Route  string      `json:"route"`
	Victim bool        `json:"victim"`
	Script string      `json:"script"`
	Got    interface{} `json:"got"`
	Want   interface{} `json:"want"`
	Error  *string     `json:"error"`
}

type embedFS struct {
	files fstest.MapFS
	mu    sync.Mutex
	hooks map[string]func()
}

func (g *embedFS) Open(name string) (fs.File, error) {
	g.mu.Lock()
	h := g.hooks[name]
	delete(g.hooks, name)
	g.mu.Unlock()
	if h != nil {
		h()
	}
	return g.files.Open(name)
}

func runEmbed(ctx context.Context, req request) {
	seq := req.Mode == "embed-seq"
	var results []embedResult
	var modified []string
	var mu sync.Mutex
	for round := 0; round < req.Rounds; round++ {
		// ---- the host's shared inputs
		nn := 5 + int(fuPick(req.Seed, round, 0, 1)%36)
		names := make([]string, 0, nn+8)
		for k := 0; k < nn; k++ {
			names = append(names, fmt.Sprintf("g%c_%d", 'a'+byte(fuPick(req.Seed, round, k, 2)%26), k))
		}
		for k := len(names) - 1; k > 0; k-- {
			j := int(fuPick(req.Seed, round, k, 3) % uint64(k+1))
			names[k], names[j] = names[j], names[k]
		}
		if sort.StringsAreSorted(names) {
			names[0], names[len(names)-1] = names[len(names)-1], names[0]
		}
		keptNames := append([]string(nil), names...)
		modName := fmt.Sprintf("em%d_%d", req.Seed%100000, round)
		var msrc strings.Builder
		fmt.Fprintf(&msrc, "base := %d\n", round+1)
		for k := 0; k < 200+int(fuPick(req.Seed, round, 0, 4)%2000); k++ {
			fmt.Fprintf(&msrc, "p%d := %d\n", k, k)
		}
		msrc.WriteString("func plus(x) { return x + base }\n")
		modBytes := []byte(msrc.String())
		keptMod := string(modBytes)
		useFS := fuPick(req.Seed, round, 0, 5)%3 != 0
		hasVictim := req.Workers >= 2 && round%2 == 1
		if hasVictim {
			useFS = true
		}
		gfs := &embedFS{files: fstest.MapFS{modName + ".risor": &fstest.MapFile{Data: modBytes}}, hooks: map[string]func(){}}
		var imp importer.Importer
		var modPath string
		if useFS {
			imp = importer.NewFSImporter(importer.FSImporterOptions{GlobalNames: names, SourceFS: gfs})
		} else {
			modPath = filepath.Join(req.Dir, modName+".risor")
			if err := os.WriteFile(modPath, modBytes, 0o644); err != nil {
				fmt.Fprintln(os.Stderr, "cannot write module:", err)
				os.Exit(2)
			}
			imp = importer.NewLocalImporter(importer.LocalImporterOptions{GlobalNames: names, SourceDir: req.Dir})
		}

		// ---- the evaluations
		victim := -1
		if hasVictim {
			victim = int(fuPick(req.Seed, round, 0, 6) % uint64(req.Workers))
		}
		victimCtx, cancelVictim := context.WithCancel(ctx)
		release := make(chan struct{})
		var once sync.Once
		openGate := func() { once.Do(func() { close(release) }) }
		if hasVictim {
			gfs.hooks[modName+".risor"] = func() {
				if !seq {
					openGate()
					// let the others reach the importer while this load is in progress (if they do not get there in
					// time the round only shows less)
					for k := 0; k < 50; k++ {
						runtime.Gosched()
					}
					time.Sleep(3 * time.Millisecond)
				}
				cancelVictim()
			}
		}
		type own struct {
			globals map[string]any
			kept    map[string]int64
		}
		owns := make([]own, req.Workers)
		res := make([]embedResult, req.Workers)
		runOne := func(w int) {
			route := []string{"compiler.New+Compile", "compiler.Compile"}[int(fuPick(req.Seed, round, w, 7)%2)]
			o := own{globals: map[string]any{}, kept: map[string]int64{}}
			for k, n := range keptNames {
				v := int64(fuPick(req.Seed, round, w*100+k, 8) % 1000)
				o.globals[n] = v
				o.kept[n] = v
			}
			owns[w] = o
			// the script uses a few of the globals by name
			var terms []string
			want := int64(round + 1)
			for k := 0; k < 3+int(fuPick(req.Seed, round, w, 9)%4); k++ {
				n := keptNames[int(fuPick(req.Seed, round, w*10+k, 10)%uint64(len(keptNames)))]
				f := int64(1 + k)
				terms = append(terms, fmt.Sprintf("%s * %d", n, f))
				want += o.kept[n] * f
			}
			src := fmt.Sprintf("import %s\n%s.plus(%s)", modName, modName, strings.Join(terms, " + "))
			r := embedResult{Round: round, Worker: w, Route: route, Victim: w == victim, Script: src, Want: want}
			defer func() {
				if p := recover(); p != nil {
					m := fmt.Sprintf("GOPANIC %v", p)
					r.Error = &m
				}
				res[w] = r
			}()
			fail := func(err error) { m := err.Error(); r.Error = &m }
			myctx := ctx
			if w == victim {
				myctx = victimCtx
			}
			ast, err := parser.Parse(myctx, src)
			if err != nil {
				fail(err)
				return
			}
			var code *compiler.Code
			if route == "compiler.Compile" {
				code, err = compiler.Compile(ast, compiler.WithGlobalNames(names))
			} else {
				var c *compiler.Compiler
				c, err = compiler.New(compiler.WithGlobalNames(names))
				if err == nil {
					code, err = c.Compile(ast)
				}
			}
			if err != nil {
				fail(err)
				return
			}
			machine := vm.New(code, vm.WithGlobals(o.globals), vm.WithImporter(imp))
			if err := machine.Run(myctx); err != nil {
				fail(err)
				return
			}
			if tos, ok := machine.TOS(); ok {
				r.Got = canon(tos, 0)
			}
		}
		if seq {
			order := []int{}
			if victim >= 0 {
				order = append(order, victim)
			}
			for w := 0; w < req.Workers; w++ {
				if w != victim {
					order = append(order, w)
				}
			}
			for _, w := range order {
				runOne(w)
			}
		} else {
			var wg sync.WaitGroup
			for w := 0; w < req.Workers; w++ {
				wg.Add(1)
				go func(w int) {
					defer wg.Done()
					if w != victim {
						<-release
					}
					runOne(w)
				}(w)
			}
			if victim < 0 {
				openGate()
			} else {
				// a victim that never gets to the importer must not hold up the others
				go func() {
					select {
					case <-release:
					case <-time.After(2 * time.Second):
						openGate()
					}
				}()
			}
			wg.Wait()
		}
		openGate()
		cancelVictim()
		if modPath != "" {
			os.Remove(modPath)
		}
		// ---- what the host handed out and never wrote
		mu.Lock()
		if len(names) != len(keptNames) || strings.Join(names, ",") != strings.Join(keptNames, ",") {
			modified = append(modified, fmt.Sprintf("round %d: the global-names slice the host passes to compiler.WithGlobalNames and to the importer was %v and is now %v",
				round, keptNames, names))
		}
		if string(modBytes) != keptMod {
			modified = append(modified, fmt.Sprintf("round %d: the bytes of module %s were changed", round, modName))
		}
		for w, o := range owns {
			if len(o.globals) != len(o.kept) {
				modified = append(modified, fmt.Sprintf("round %d: the globals map of evaluation %d has %d entries, the host put %d", round, w, len(o.globals), len(o.kept)))
				continue
			}
			for n, v := range o.kept {
				if x, ok := o.globals[n].(int64); !ok || x != v {
					modified = append(modified, fmt.Sprintf("round %d: global %s of evaluation %d was %d and is now %v", round, n, w, v, o.globals[n]))
					break
				}
			}
		}
		results = append(results, res...)
		mu.Unlock()
	}
	if modified == nil {
		modified = []string{}
	}
	json.NewEncoder(os.Stdout).Encode(map[string]interface{}{"embed": results, "modified": modified})
}

var _ = object.Nil
