// c09obs: implementation-side observations for C09 (evaluations on separate VMs run concurrently).
//
// stdin : ONE JSON object  {"mode":"seq"|"conc", "jobs":[{"prog":"<name>","tag":K}, ...], "seed":S, "dir":"<module dir>"}
// stdout: ONE JSON object  {"results":[{"prog":..,"tag":..,"value":V,"error":".."}, ...]}
//
// Every job is one evaluation on its own VM with its own globals.  "seq" runs them one after the other, "conc" starts
// one goroutine per job behind a barrier, so that the FIRST USE of every piece of package-level state (type converter
// and Go type registries, codec registry, importer cache, caches of small ints/bytes, shared compiled code) happens in
// several evaluations at the same time.  The process is meant to be built with -race; a race report goes to stderr
// and makes the exit status 66.
//
// Programs (by name): see `programs`.  `tag` selects one of 16 instantiations of the generic host types, i.e. 16
// disjoint families of Go types whose converters do not exist until first used.
package main

import (
	"context"
	"encoding/json"
	"fmt"
	"os"
	"sort"
	"sync"
	"time"

	"github.com/risor-io/risor"
	"github.com/risor-io/risor/builtins"
	"github.com/risor-io/risor/compiler"
	"github.com/risor-io/risor/importer"
	"github.com/risor-io/risor/object"
	"github.com/risor-io/risor/parser"
)

// ---- host types: 16 type families through a type parameter

type Pt[T any] struct {
	X, Y int
	Tags []string
}

func (p *Pt[T]) Sum() int { return p.X + p.Y }

type Svc[T any] struct {
	Name   string
	Limits map[string]int
	Origin Pt[T]
}

func (s *Svc[T]) Make(x, y int) *Pt[T]        { return &Pt[T]{X: x, Y: y, Tags: []string{"m"}} }
func (s *Svc[T]) Move(p *Pt[T], d int) *Pt[T] { return &Pt[T]{X: p.X + d, Y: p.Y + d, Tags: p.Tags} }
func (s *Svc[T]) All(n int) []*Pt[T] {
	out := make([]*Pt[T], n)
	for i := range out {
		out[i] = &Pt[T]{X: i, Y: i * i}
	}
	return out
}
func (s *Svc[T]) Total(ps []*Pt[T]) int {
	t := 0
	for _, p := range ps {
		t += p.X + p.Y
	}
	return t
}
func (s *Svc[T]) Index(m map[string]*Pt[T]) []string {
	var ks []string
	for k := range m {
		ks = append(ks, k)
	}
	sort.Strings(ks)
	return ks
}
func (s *Svc[T]) SumInts(xs []int) int {
	t := 0
	for _, x := range xs {
		t += x
	}
	return t
}
func (s *Svc[T]) Scale(m map[string]float64, k float64) map[string]float64 {
	out := map[string]float64{}
	for key, v := range m {
		out[key] = v * k
	}
	return out
}
func (s *Svc[T]) Grid() [3][2]int                            { return [3][2]int{{1, 2}, {3, 4}, {5, 6}} }
func (s *Svc[T]) Nested(m map[string][]int) map[string][]int { return m }
func (s *Svc[T]) Div(a, b int) (int, error) {
	if b == 0 {
		return 0, fmt.Errorf("division by zero")
	}
	return a / b, nil
}

type t0 struct{}
type t1 struct{}
type t2 struct{}
type t3 struct{}
type t4 struct{}
type t5 struct{}
type t6 struct{}
type t7 struct{}
type t8 struct{}
type t9 struct{}
type t10 struct{}
type t11 struct{}
type t12 struct{}
type t13 struct{}
type t14 struct{}
type t15 struct{}

func newSvc(tag int) any {
	lim := map[string]int{"a": 1, "b": 2}
	switch tag % 16 {
	case 0:
		return &Svc[t0]{Name: "svc", Limits: lim}
	case 1:
		return &Svc[t1]{Name: "svc", Limits: lim}
	case 2:
		return &Svc[t2]{Name: "svc", Limits: lim}
	case 3:
		return &Svc[t3]{Name: "svc", Limits: lim}
	case 4:
		return &Svc[t4]{Name: "svc", Limits: lim}
	case 5:
		return &Svc[t5]{Name: "svc", Limits: lim}
	case 6:
		return &Svc[t6]{Name: "svc", Limits: lim}
	case 7:
		return &Svc[t7]{Name: "svc", Limits: lim}
	case 8:
		return &Svc[t8]{Name: "svc", Limits: lim}
	case 9:
		return &Svc[t9]{Name: "svc", Limits: lim}
	case 10:
		return &Svc[t10]{Name: "svc", Limits: lim}
	case 11:
		return &Svc[t11]{Name: "svc", Limits: lim}
	case 12:
		return &Svc[t12]{Name: "svc", Limits: lim}
	case 13:
		return &Svc[t13]{Name: "svc", Limits: lim}
	case 14:
		return &Svc[t14]{Name: "svc", Limits: lim}
	}
	return &Svc[t15]{Name: "svc", Limits: lim}
}

// ---- programs

type program struct {
	src     string
	proxy   bool // needs the host object `svc`
	globals bool // plain Go values as globals (converted by the locked NewTypeConverter path)
	imp     bool // uses the shared importer
	shared  bool // runs shared precompiled code
	tagged  bool // gets its job's tag as the global `tag`
}

var programs = map[string]program{
	// the Go-type and type-converter registries through proxy method calls (first use of []*Pt[T], map[string]*Pt[T], ...)
	"proxy_slices":  {src: `ps := svc.All(4); svc.Total(ps) + svc.SumInts([1, 2, 3]) + len(svc.Grid())`, proxy: true},
	"proxy_structs": {src: `p := svc.Make(1, 2); q := svc.Move(p, 10); [q.X, q.Y, q.Sum(), p.Tags]`, proxy: true},
	"proxy_maps": {src: `a := svc.Make(1, 1); b := svc.Make(2, 2); ks := svc.Index({"b": b, "a": a}); m := svc.Scale({"x": 1.5}, 2.0);
	    n := svc.Nested({"k": [1, 2]}); [ks, m["x"], n["k"]]`, proxy: true},
	"proxy_fields": {src: `[svc.Name, svc.Limits["b"], svc.Origin.X, try(func() { return svc.Div(7, 0) }, func(e) { return string(e) }), svc.Div(7, 2)]`, proxy: true},
	// globals converted on the way in (the locked path)
	"globals": {src: `[ints[1] + len(names), m["b"], f * 2.0, nested["k"][0]]`, globals: true},
	// the codec registry
	"codecs": {src: `[encode("hello", "base64"), decode(encode("hi", "hex"), "hex"), decode(encode([1, 2], "json"), "json"),
	    string(decode(encode("zz", "gzip"), "gzip")), try(func() { return encode("x", "nope") }, func(e) { return string(e) })]`},
	// results of the codecs are values of their own: one that is still held while other evaluations (and this one) keep
	// encoding must decode to what was encoded (self-checking; tag makes every evaluation's payload different)
	"codecs_held": {src: `s := ""; for i := 0; i < 60; i++ { s = s + sprintf("%d.%d;", tag, i) }
	    a := encode(s, "gzip"); b := encode(s + "second", "gzip"); h := encode(s, "hex"); z := encode(s + "z", "base64")
	    x := 0; for i := 0; i < 3000; i++ { x += i % 3 }
	    c := encode("third" + s, "gzip")
	    [string(decode(a, "gzip")) == s, string(decode(b, "gzip")) == s + "second", string(decode(c, "gzip")) == "third" + s,
	     string(decode(h, "hex")) == s, string(decode(z, "base64")) == s + "z"]`, tagged: true},
	// caches of small ints and bytes, plain arithmetic, strings, errors (errz switch is read)
	"arith": {src: `x := 0; for i := 0; i < 300; i++ { x += i % 7 }; [x, byte(3) + byte(4), "a" + "b", try(func() { return 1 + "a" }, func(e) { return string(e) }), 255 + 1]`},
	// standard modules from the default globals
	"modules": {src: `[strings.to_upper("abc"), math.max(1, 2), json.unmarshal("[1,2]"), strconv.atoi("42"), len(rand.shuffle([1, 2, 3])),
	    regexp.match("a+", "caab"), sprintf("%d-%s", 7, "x")]`},
	// the importer cache (one importer shared by every evaluation)
	"import": {src: `import c09mod; from c09mod2 import twice; [c09mod.add(1, 2), twice(21)]`, imp: true},
	// imports executed on threads the script starts: the clone loads a module the main code has not loaded yet, then the
	// main code (and the other clones) import it as well and call into it
	"spawn_import": {src: `t := spawn(func() { import c09mod; return c09mod.add(1, 2) }); a := t.wait(); import c09mod; from c09mod2 import twice
	    [a, c09mod.add(3, 4), twice(21)]`, imp: true},
	"spawn_import_many": {src: `func w3() { import c09mod3; return c09mod3.plus(1) }
	    func w4() { import c09mod4; return c09mod4.plus(1) }
	    func w5() { import c09mod5; return c09mod5.plus(1) }
	    func w6() { import c09mod6; return c09mod6.plus(1) }
	    func w7() { import c09mod7; return c09mod7.plus(1) }
	    func w8() { import c09mod8; return c09mod8.plus(1) }
	    ts := [spawn(w3), spawn(w4), spawn(w5), spawn(w6), spawn(w7), spawn(w8)]
	    r := ts.map(func(t) { return t.wait() })
	    import c09mod8; import c09mod3
	    [r, c09mod8.plus(5), c09mod3.base * 2]`, imp: true},
	// the malformed stream: a module that does not exist, a program that does not parse
	"bad_import": {src: `import nosuchmodule; 1`, imp: true},
	"syntax":     {src: `x := 1 +`},
	// one compiled program shared read-only by every evaluation
	"shared_code": {shared: true},
	// clones of one VM: spawned calls
	"spawn": {src: `func work(i) { return i * i }; ts := []; for i := 0; i < 4; i++ { ts.append(spawn(work, i)) }; ts.map(func(t) { return t.wait() })`},
}

const sharedSrc = `
func fib(n) { if n < 2 { return n }; return fib(n - 1) + fib(n - 2) }
acc := []
for i := 0; i < 12; i++ { acc.append(fib(i)) }
m := {"k": acc, "n": len(acc)}
[m["n"], acc[11], sprintf("%v", acc[3:6])]
`

type job struct {
	Prog string `json:"prog"`
	Tag  int    `json:"tag"`
	// program "config" (config.go): the job's own options, script and API route
	Config []optDesc `json:"config,omitempty"`
	Src    string    `json:"src,omitempty"`
	Route  string    `json:"route,omitempty"`
}

type request struct {
	Mode string `json:"mode"`
	Jobs []job  `json:"jobs"`
	Dir  string `json:"dir"`
	Reg  bool   `json:"register"` // a host goroutine registers codecs while the evaluations run
	// first-use rounds (firstuse.go): mode "firstuse-conc" / "firstuse-seq"
	Rounds  int    `json:"rounds"`
	Workers int    `json:"workers"`
	Seed    uint64 `json:"seed"`
}

type result struct {
	Prog  string      `json:"prog"`
	Tag   int         `json:"tag"`
	Value interface{} `json:"value"`
	Error *string     `json:"error"`
}

func canon(o object.Object, depth int) interface{} {
	if depth > 8 {
		return "deep"
	}
	switch o := o.(type) {
	case nil:
		return "gonil"
	case *object.NilType:
		return nil
	case *object.Int:
		return o.Value()
	case *object.Byte:
		return fmt.Sprintf("byte:%d", o.Value())
	case *object.Float:
		return fmt.Sprintf("float:%v", o.Value())
	case *object.Bool:
		return o.Value()
	case *object.String:
		return "s:" + o.Value()
	case *object.List:
		out := make([]interface{}, 0, len(o.Value()))
		for _, it := range o.Value() {
			out = append(out, canon(it, depth+1))
		}
		return out
	case *object.Map:
		m := map[string]interface{}{}
		for k, v := range o.Value() {
			m[k] = canon(v, depth+1)
		}
		return m
	case *object.Error:
		return "err:" + o.Value().Error()
	}
	return "other:" + string(o.Type())
}

func main() {
	var req request
	if err := json.NewDecoder(os.Stdin).Decode(&req); err != nil {
		fmt.Fprintln(os.Stderr, "bad request:", err)
		os.Exit(2)
	}
	ctx, cancel := context.WithTimeout(context.Background(), 60*time.Second)
	defer cancel()
	if req.Mode == "firstuse-conc" || req.Mode == "firstuse-seq" {
		runFirstUse(ctx, req)
		return
	}

	if req.Mode == "embed-conc" || req.Mode == "embed-seq" {
		runEmbed(ctx, req)
		return
	}

	// shared importer and shared compiled code are created once, before the evaluations start
	cfg := risor.NewConfig(risor.WithConcurrency())
	imp := importer.NewLocalImporter(importer.LocalImporterOptions{GlobalNames: cfg.GlobalNames(), SourceDir: req.Dir})
	ast, err := parser.Parse(ctx, sharedSrc)
	if err != nil {
		fmt.Fprintln(os.Stderr, "shared program does not parse:", err)
		os.Exit(2)
	}
	shared, err := compiler.Compile(ast, cfg.CompilerOpts()...)
	if err != nil {
		fmt.Fprintln(os.Stderr, "shared program does not compile:", err)
		os.Exit(2)
	}

	results := make([]result, len(req.Jobs))
	runJob := func(i int) {
		j := req.Jobs[i]
		results[i] = result{Prog: j.Prog, Tag: j.Tag}
		defer func() {
			if r := recover(); r != nil {
				m := fmt.Sprintf("GOPANIC %v", r)
				results[i].Error = &m
			}
		}()
		if j.Prog == "config" {
			res, err := runConfigJob(ctx, j)
			if err != nil {
				m := err.Error()
				results[i].Error = &m
				return
			}
			results[i].Value = canon(res, 0)
			return
		}
		p, ok := programs[j.Prog]
		if !ok {
			m := "unknown program"
			results[i].Error = &m
			return
		}
		opts := []risor.Option{risor.WithConcurrency()}
		if p.proxy {
			opts = append(opts, risor.WithGlobal("svc", newSvc(j.Tag)))
		}
		if p.globals {
			opts = append(opts, risor.WithGlobals(map[string]any{
				"ints": []int{1, 2, 3}, "names": []string{"a", "b"}, "m": map[string]int{"a": 1, "b": 2}, "f": 1.25,
				"nested": map[string][]int{"k": {9}},
			}))
		}
		if p.imp {
			opts = append(opts, risor.WithImporter(imp))
		}
		if p.tagged {
			opts = append(opts, risor.WithGlobal("tag", j.Tag))
		}
		var res object.Object
		var err error
		if p.shared {
			res, err = risor.EvalCode(ctx, shared, opts...)
		} else {
			res, err = risor.Eval(ctx, p.src, opts...)
		}
		if err != nil {
			m := err.Error()
			results[i].Error = &m
			return
		}
		results[i].Value = canon(res, 0)
	}

	if req.Mode == "seq" {
		for i := range req.Jobs {
			runJob(i)
		}
	} else {
		var wg sync.WaitGroup
		start := make(chan struct{})
		for i := range req.Jobs {
			wg.Add(1)
			go func(i int) {
				defer wg.Done()
				<-start
				runJob(i)
			}(i)
		}
		if req.Reg {
			wg.Add(1)
			go func() {
				defer wg.Done()
				<-start
				for k := 0; k < 20; k++ {
					name := fmt.Sprintf("c09codec%d", k)
					builtins.RegisterCodec(name, &builtins.Codec{
						Encode: func(ctx context.Context, o object.Object) object.Object { return o },
						Decode: func(ctx context.Context, o object.Object) object.Object { return o },
					})
				}
			}()
		}
		close(start)
		wg.Wait()
	}
	json.NewEncoder(os.Stdout).Encode(map[string]interface{}{"results": results})
}
