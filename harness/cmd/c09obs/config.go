// Evaluations with DIFFERENT configurations (program "config"): every job carries its own list of options - dotted
// denylist entries and dotted overrides on the default modules, top-level denies, extra globals - and its own script of
// probes.  Each evaluation must see exactly its own configuration, whatever the other evaluations (at the same time on
// other VMs, or earlier in the same process) were configured with.
//
//	{"prog": "config", "route": "eval"|"hostmap"|"newconfig", "src": "<probes>",
//	 "config": [{"k":"deny","name":"strings.to_lower"}, {"k":"denies","names":["math.PI","http"]},
//	            {"k":"override","name":"math.E","int":3}, {"k":"override","name":"strings.to_upper","marker":"OV7"},
//	            {"k":"global","name":"extra","int":5}]}
//
// Routes: "eval" hands the options to risor.Eval; "hostmap" is the embedder that asks for risor.DefaultGlobals() itself,
// edits ITS map and passes it with WithoutDefaultGlobals + WithGlobals; "newconfig" builds a risor.Config first and
// compiles / runs with its CompilerOpts / VMOpts.
package main

import (
	"context"
	"fmt"

	"github.com/risor-io/risor"
	"github.com/risor-io/risor/compiler"
	"github.com/risor-io/risor/object"
	"github.com/risor-io/risor/parser"
	"github.com/risor-io/risor/vm"
)

type optDesc struct {
	K      string   `json:"k"`
	Name   string   `json:"name"`
	Names  []string `json:"names"`
	Int    *int64   `json:"int"`
	Str    *string  `json:"str"`
	Marker string   `json:"marker"`
}

func configOptions(descs []optDesc) ([]risor.Option, error) {
	var opts []risor.Option
	for _, d := range descs {
		switch d.K {
		case "deny":
			opts = append(opts, risor.WithoutGlobal(d.Name))
		case "denies":
			opts = append(opts, risor.WithoutGlobals(d.Names...))
		case "override", "global":
			var v any
			switch {
			case d.Int != nil:
				v = *d.Int
			case d.Str != nil:
				v = *d.Str
			default:
				marker := d.Marker
				v = object.NewBuiltin("override_"+marker, func(ctx context.Context, args ...object.Object) object.Object {
					return object.NewString(marker)
				})
			}
			if d.K == "override" {
				opts = append(opts, risor.WithGlobalOverride(d.Name, v))
			} else {
				opts = append(opts, risor.WithGlobal(d.Name, v))
			}
		default:
			return nil, fmt.Errorf("unknown option kind %q", d.K)
		}
	}
	return opts, nil
}

func runConfigJob(ctx context.Context, j job) (object.Object, error) {
	opts, err := configOptions(j.Config)
	if err != nil {
		return nil, err
	}
	switch j.Route {
	case "hostmap":
		g := risor.DefaultGlobals()
		g["host_extra"] = int64(11) // the map belongs to the caller
		opts = append([]risor.Option{risor.WithoutDefaultGlobals(), risor.WithGlobals(g)}, opts...)
		return risor.Eval(ctx, j.Src, opts...)
	case "newconfig":
		cfg := risor.NewConfig(opts...)
		ast, err := parser.Parse(ctx, j.Src)
		if err != nil {
			return nil, err
		}
		code, err := compiler.Compile(ast, cfg.CompilerOpts()...)
		if err != nil {
			return nil, err
		}
		return vm.Run(ctx, code, cfg.VMOpts()...)
	}
	return risor.Eval(ctx, j.Src, opts...)
}
