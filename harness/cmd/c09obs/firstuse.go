// firstuse.go: rounds in which several evaluations, each on its own VM with its own globals, meet on the FIRST use of
// process-wide lazily filled state:
//
//   - the Go-type registry and the type-converter registry: every round builds Go types the process has never seen
//     (reflect.StructOf with a round-specific field; a record type with 8..250 fields, an inner struct type, a wrapper
//     type, and the slice / map / pointer types over them), and every worker hands a value of its own of those types to
//     its script through one of the routes an embedder has: object.NewProxy, object.NewGoType + NewProxy, the raw Go
//     pointer as a global, the struct by value, inside a slice / a map / a field of another struct, or a host builtin
//     that wraps the value while the script runs;
//   - the importer's module table: a module no evaluation has imported yet (fu<round>.risor), one importer for all;
//   - the codec registry: a codec registered by the worker just before its evaluation uses it.
//
// Request: {"mode":"firstuse-conc"|"firstuse-seq","rounds":R,"workers":W,"seed":S,"dir":"<module dir>"}; "conc" releases
// the W workers of a round together (barrier), "seq" runs them one after the other.  Every result carries what the
// script returned (`got`) and what the Go values hold, read with reflect and without risor (`want`).
package main

import (
	"context"
	"encoding/json"
	"fmt"
	"os"
	"reflect"
	"strings"
	"sync"

	"github.com/risor-io/risor"
	"github.com/risor-io/risor/builtins"
	"github.com/risor-io/risor/importer"
	"github.com/risor-io/risor/object"
)

type fuResult struct {
	Round  int         `json:"round"`
	Worker int         `json:"worker"`
	Route  string      `json:"route"`
	Fields int         `json:"fields"`
	Script string      `json:"script"`
	Got    interface{} `json:"got"`
	Want   interface{} `json:"want"`
	Error  *string     `json:"error"`
}

func fuMix(z uint64) uint64 {
	z += 0x9E3779B97F4A7C15
	z = (z ^ (z >> 30)) * 0xBF58476D1CE4E5B9
	z = (z ^ (z >> 27)) * 0x94D049BB133111EB
	return z ^ (z >> 31)
}

func fuPick(seed uint64, a, b, c int) uint64 {
	return fuMix(fuMix(fuMix(seed^uint64(a+1)*0x1000193)^uint64(b+7)*0x100000001B3) ^ uint64(c+13))
}

var fuRoutes = []string{"proxy", "raw", "gotype", "builtin", "byvalue", "inslice", "inmap", "field", "proxy", "raw"}

const (
	fkInt = iota
	fkString
	fkStrings
	fkFloat
	fkMapInt
	fkBool
	fkPInner
	fkInner
	fkPInners
	fkMapPInner
	fkKinds
)

// the types of one round: none of them exists in the process before
type fuRound struct {
	round   int
	inner   reflect.Type
	rec     reflect.Type
	wrap    reflect.Type
	kinds   []int
	picked  []int // the fields the script reads
	modName string
}

func fuNewRound(seed uint64, round int) *fuRound {
	uniq := fmt.Sprintf("U%d_%d", seed%1000003, round)
	inner := reflect.StructOf([]reflect.StructField{
		{Name: "V", Type: reflect.TypeOf(int(0))},
		{Name: "S", Type: reflect.TypeOf("")},
		{Name: "Tags", Type: reflect.TypeOf([]string{})},
		{Name: "I" + uniq, Type: reflect.TypeOf(int(0))},
	})
	nf := 8 + int(fuPick(seed, round, 0, 0)%243)
	kinds := make([]int, nf)
	fields := make([]reflect.StructField, 0, nf+1)
	for i := 0; i < nf; i++ {
		k := int(fuPick(seed, round, i, 1) % fkKinds)
		if i < fkKinds {
			k = (i + round) % fkKinds // every kind occurs
		}
		kinds[i] = k
		var t reflect.Type
		switch k {
		case fkInt:
			t = reflect.TypeOf(int(0))
		case fkString:
			t = reflect.TypeOf("")
		case fkStrings:
			t = reflect.TypeOf([]string{})
		case fkFloat:
			t = reflect.TypeOf(float64(0))
		case fkMapInt:
			t = reflect.TypeOf(map[string]int{})
		case fkBool:
			t = reflect.TypeOf(false)
		case fkPInner:
			t = reflect.PointerTo(inner)
		case fkInner:
			t = inner
		case fkPInners:
			t = reflect.SliceOf(reflect.PointerTo(inner))
		case fkMapPInner:
			t = reflect.MapOf(reflect.TypeOf(""), reflect.PointerTo(inner))
		}
		fields = append(fields, reflect.StructField{Name: fmt.Sprintf("F%d", i), Type: t})
	}
	fields = append(fields, reflect.StructField{Name: "R" + uniq, Type: reflect.TypeOf(int(0))})
	rec := reflect.StructOf(fields)
	wrap := reflect.StructOf([]reflect.StructField{
		{Name: "N", Type: reflect.TypeOf(int(0))},
		{Name: "Rec", Type: reflect.PointerTo(rec)},
		{Name: "W" + uniq, Type: reflect.TypeOf(int(0))},
	})
	// the script reads the first, the last and some other fields
	picked := []int{0, nf - 1, nf / 2}
	for j := 0; j < 9; j++ {
		picked = append(picked, int(fuPick(seed, round, j, 2)%uint64(nf)))
	}
	return &fuRound{round: round, inner: inner, rec: rec, wrap: wrap, kinds: kinds, picked: picked, modName: fmt.Sprintf("fu%d", round)}
}

func (fr *fuRound) newInner(base int) reflect.Value {
	p := reflect.New(fr.inner)
	p.Elem().Field(0).SetInt(int64(base))
	p.Elem().Field(1).SetString(fmt.Sprintf("in%d", base))
	p.Elem().Field(2).Set(reflect.ValueOf([]string{"t", fmt.Sprint(base)}))
	return p
}

// a record of the worker's own: every field is a function of (round, worker, index)
func (fr *fuRound) newRecord(worker int) reflect.Value {
	base := fr.round*1000000 + worker*10000
	p := reflect.New(fr.rec)
	e := p.Elem()
	for i, k := range fr.kinds {
		f := e.Field(i)
		switch k {
		case fkInt:
			f.SetInt(int64(base + i))
		case fkString:
			f.SetString(fmt.Sprintf("s%d", base+i))
		case fkStrings:
			f.Set(reflect.ValueOf([]string{fmt.Sprintf("a%d", i), fmt.Sprintf("b%d", worker)}))
		case fkFloat:
			f.SetFloat(float64(base+i) + 0.5)
		case fkMapInt:
			f.Set(reflect.ValueOf(map[string]int{"k": base + i, "z": i}))
		case fkBool:
			f.SetBool((base+i)%3 == 0)
		case fkPInner:
			f.Set(fr.newInner(base + i))
		case fkInner:
			f.Set(fr.newInner(base + i).Elem())
		case fkPInners:
			s := reflect.MakeSlice(f.Type(), 0, 2)
			s = reflect.Append(s, fr.newInner(base+i), fr.newInner(base+i+1))
			f.Set(s)
		case fkMapPInner:
			m := reflect.MakeMap(f.Type())
			m.SetMapIndex(reflect.ValueOf("k"), fr.newInner(base+i))
			f.Set(m)
		}
	}
	return p
}

// the script and, read from the Go value itself, what it must return
func (fr *fuRound) scriptAndWant(rec reflect.Value, prefix string, worker int, withImport, withCodec bool) (string, []interface{}) {
	var sb strings.Builder
	if withImport {
		sb.WriteString("import " + fr.modName + "\n")
	}
	sb.WriteString(prefix)
	sb.WriteString("r := []\n")
	want := []interface{}{}
	e := rec.Elem()
	for _, i := range fr.picked {
		name := fmt.Sprintf("rec.F%d", i)
		f := e.Field(i)
		switch fr.kinds[i] {
		case fkInt:
			sb.WriteString("r.append(" + name + ")\n")
			want = append(want, f.Int())
		case fkString:
			sb.WriteString("r.append(" + name + ")\n")
			want = append(want, "s:"+f.String())
		case fkStrings:
			sb.WriteString("r.append(" + name + ")\n")
			l := []interface{}{}
			for j := 0; j < f.Len(); j++ {
				l = append(l, "s:"+f.Index(j).String())
			}
			want = append(want, l)
		case fkFloat:
			sb.WriteString("r.append(" + name + ")\n")
			want = append(want, fmt.Sprintf("float:%v", f.Float()))
		case fkMapInt:
			sb.WriteString("r.append(" + name + "[\"k\"])\n")
			want = append(want, f.MapIndex(reflect.ValueOf("k")).Int())
		case fkBool:
			sb.WriteString("r.append(" + name + ")\n")
			want = append(want, f.Bool())
		case fkPInner:
			sb.WriteString("r.append([" + name + ".V, " + name + ".S, " + name + ".Tags])\n")
			want = append(want, fuInnerWant(f.Elem()))
		case fkInner:
			sb.WriteString("r.append([" + name + ".V, " + name + ".S, " + name + ".Tags])\n")
			want = append(want, fuInnerWant(f))
		case fkPInners:
			sb.WriteString("r.append([len(" + name + "), " + name + "[1].V])\n")
			want = append(want, []interface{}{int64(f.Len()), f.Index(1).Elem().Field(0).Int()})
		case fkMapPInner:
			sb.WriteString("r.append(" + name + "[\"k\"].S)\n")
			want = append(want, "s:"+f.MapIndex(reflect.ValueOf("k")).Elem().Field(1).String())
		}
	}
	// a write through the proxy, read back
	for i, k := range fr.kinds {
		if k == fkInt {
			sb.WriteString(fmt.Sprintf("rec.F%d = rec.F%d + 1\nr.append(rec.F%d)\n", i, i, i))
			want = append(want, e.Field(i).Int()+1)
			break
		}
	}
	if withImport {
		sb.WriteString(fmt.Sprintf("r.append(%s.plus(%d))\n", fr.modName, worker))
		want = append(want, int64(fr.round+worker))
	}
	if withCodec {
		sb.WriteString(fmt.Sprintf("r.append(decode(encode(\"p%d\", \"fu%d_%d\"), \"fu%d_%d\"))\n", worker, fr.round, worker, fr.round, worker))
		want = append(want, fmt.Sprintf("s:<<p%d>>", worker))
	}
	sb.WriteString("r\n")
	return sb.String(), want
}

func fuInnerWant(v reflect.Value) []interface{} {
	tags := []interface{}{}
	for j := 0; j < v.Field(2).Len(); j++ {
		tags = append(tags, "s:"+v.Field(2).Index(j).String())
	}
	return []interface{}{v.Field(0).Int(), "s:" + v.Field(1).String(), tags}
}

func runFirstUse(ctx context.Context, req request) {
	cfg := risor.NewConfig(risor.WithConcurrency())
	imp := importer.NewLocalImporter(importer.LocalImporterOptions{GlobalNames: cfg.GlobalNames(), SourceDir: req.Dir})
	conc := req.Mode == "firstuse-conc"
	var all []fuResult
	for round := 0; round < req.Rounds; round++ {
		fr := fuNewRound(req.Seed, round)
		results := make([]fuResult, req.Workers)
		start := make(chan struct{})
		var ready sync.WaitGroup
		work := func(w int) {
			res := &results[w]
			res.Round, res.Worker, res.Fields = round, w, len(fr.kinds)
			route := fuRoutes[fuPick(req.Seed, round, w, 3)%uint64(len(fuRoutes))]
			res.Route = route
			withImport := fuPick(req.Seed, round, w, 4)%2 == 0
			withCodec := fuPick(req.Seed, round, w, 5)%3 == 0
			rec := fr.newRecord(w)
			prefix := ""
			switch route {
			case "builtin":
				prefix = "rec := get()\n"
			case "inslice":
				prefix = "rec := recs[0]\n"
			case "inmap":
				prefix = "rec := recm[\"k\"]\n"
			case "field":
				prefix = "rec := wrap.Rec\n"
			}
			src, want := fr.scriptAndWant(rec, prefix, w, withImport, withCodec)
			res.Script, res.Want = src, want
			if conc {
				ready.Done()
				<-start
			}
			defer func() {
				if r := recover(); r != nil {
					m := fmt.Sprintf("GOPANIC %v", r)
					res.Error = &m
				}
			}()
			fail := func(err error) {
				m := err.Error()
				res.Error = &m
			}
			opts := []risor.Option{risor.WithConcurrency(), risor.WithImporter(imp)}
			switch route {
			case "proxy":
				p, err := object.NewProxy(rec.Interface())
				if err != nil {
					fail(err)
					return
				}
				opts = append(opts, risor.WithGlobal("rec", p))
			case "gotype":
				if _, err := object.NewGoType(rec.Type()); err != nil {
					fail(err)
					return
				}
				p, err := object.NewProxy(rec.Interface())
				if err != nil {
					fail(err)
					return
				}
				opts = append(opts, risor.WithGlobal("rec", p))
			case "raw":
				opts = append(opts, risor.WithGlobal("rec", rec.Interface()))
			case "byvalue":
				opts = append(opts, risor.WithGlobal("rec", rec.Elem().Interface()))
			case "inslice":
				s := reflect.MakeSlice(reflect.SliceOf(rec.Type()), 0, 1)
				opts = append(opts, risor.WithGlobal("recs", reflect.Append(s, rec).Interface()))
			case "inmap":
				m := reflect.MakeMap(reflect.MapOf(reflect.TypeOf(""), rec.Type()))
				m.SetMapIndex(reflect.ValueOf("k"), rec)
				opts = append(opts, risor.WithGlobal("recm", m.Interface()))
			case "field":
				wv := reflect.New(fr.wrap)
				wv.Elem().Field(1).Set(rec)
				opts = append(opts, risor.WithGlobal("wrap", wv.Interface()))
			case "builtin":
				opts = append(opts, risor.WithGlobal("get", object.NewBuiltin("get", func(ctx context.Context, args ...object.Object) object.Object {
					p, err := object.NewProxy(rec.Interface())
					if err != nil {
						return object.NewError(err)
					}
					return p
				})))
			}
			if withCodec {
				err := builtins.RegisterCodec(fmt.Sprintf("fu%d_%d", round, w), &builtins.Codec{
					Encode: func(ctx context.Context, o object.Object) object.Object {
						return object.NewString("<<" + o.(*object.String).Value())
					},
					Decode: func(ctx context.Context, o object.Object) object.Object {
						return object.NewString(o.(*object.String).Value() + ">>")
					},
				})
				if err != nil {
					fail(err)
					return
				}
			}
			val, err := risor.Eval(ctx, src, opts...)
			if err != nil {
				fail(err)
				return
			}
			res.Got = canon(val, 0)
		}
		if conc {
			var wg sync.WaitGroup
			ready.Add(req.Workers)
			for w := 0; w < req.Workers; w++ {
				wg.Add(1)
				go func(w int) {
					defer wg.Done()
					work(w)
				}(w)
			}
			ready.Wait()
			close(start)
			wg.Wait()
		} else {
			for w := 0; w < req.Workers; w++ {
				work(w)
			}
		}
		all = append(all, results...)
	}
	// the comparison of got and want is made on the JSON forms (int64 / float64 / nested lists)
	json.NewEncoder(os.Stdout).Encode(map[string]interface{}{"firstuse": all})
}
