//go:build verif

// c11obs: implementation-side observations for property C11 (scripts reach only the configured globals).
//
//	c11obs base <repo-dir>      the base object graph (text form of what c11gen renders for Coq, plus the harness's
//	                            nested custom modules as instance 3)
//	c11obs configs <repo-dir>   one JSON configuration per stdin line -> one JSON observation per line: globals names,
//	                            identities reachable by GetAttr closure, identity seen under names, risor.Eval results
//	c11obs sessions <repo-dir>  one JSON history per stdin line (one host map / VM / precompiled code under a sequence of
//	                            configurations) -> one JSON observation per line (see c11lib/session.go)
//	c11obs impsessions <repo-dir>  one JSON importer history per stdin line (2-4 configurations with kept VMs share ONE importer
//	                            over local script modules; handlers are called after other configurations imported the same
//	                            modules) -> one JSON observation per line (see c11lib/impsession.go)
//	c11obs aliases <repo-dir>   pairs of distinct builtins of one default configuration that wrap the same Go function
package main

import (
	"bufio"
	"encoding/json"
	"fmt"
	"os"
	"reflect"
	"sort"

	"github.com/risor-io/risor/object"
	"verifharness/c11lib"
)

func main() {
	if len(os.Args) < 2 {
		fmt.Fprintln(os.Stderr, "usage: c11obs base|configs|sessions|impsessions|aliases <repo-dir>")
		os.Exit(2)
	}
	repo := "/repo"
	if len(os.Args) > 2 {
		repo = os.Args[2]
	}
	b, err := c11lib.BuildBase(repo)
	if err != nil {
		fmt.Fprintln(os.Stderr, err)
		os.Exit(1)
	}
	switch os.Args[1] {
	case "base":
		fmt.Print(b.Text())
	case "aliases":
		byFn := map[uintptr][]string{}
		in1 := b.H.Reachable(b.Roots[0])
		for _, n := range b.H.Nodes {
			if bi, ok := n.Obj.(*object.Builtin); ok && !n.Fresh && in1[n.ID] {
				p := reflect.ValueOf(bi.Value()).Pointer()
				byFn[p] = append(byFn[p], fmt.Sprintf("%d:%s", n.ID, n.Desc))
			}
		}
		var out []string
		for _, v := range byFn {
			if len(v) > 1 {
				sort.Strings(v)
				j, _ := json.Marshal(v)
				out = append(out, string(j))
			}
		}
		sort.Strings(out)
		for _, l := range out {
			fmt.Println(l)
		}
	case "configs":
		sc := bufio.NewScanner(os.Stdin)
		sc.Buffer(make([]byte, 1<<20), 1<<26)
		// scripts may print (e.g. when getattr is overridden with print): keep the protocol stream clean
		real := os.Stdout
		if null, err := os.OpenFile(os.DevNull, os.O_WRONLY, 0); err == nil {
			os.Stdout = null
		}
		w := bufio.NewWriter(real)
		defer w.Flush()
		for sc.Scan() {
			var spec c11lib.ConfigSpec
			if err := json.Unmarshal(sc.Bytes(), &spec); err != nil {
				fmt.Fprintln(os.Stderr, "bad config line:", err)
				os.Exit(2)
			}
			obs := b.RunConfig(spec)
			j, _ := json.Marshal(obs)
			w.Write(j)
			w.WriteByte('\n')
		}
	case "sessions":
		// histories: one host map / VM / precompiled code under a sequence of configurations (c11lib/session.go)
		sc := bufio.NewScanner(os.Stdin)
		sc.Buffer(make([]byte, 1<<20), 1<<26)
		real := os.Stdout
		if null, err := os.OpenFile(os.DevNull, os.O_WRONLY, 0); err == nil {
			os.Stdout = null
		}
		w := bufio.NewWriter(real)
		defer w.Flush()
		for sc.Scan() {
			var spec c11lib.SessionSpec
			if err := json.Unmarshal(sc.Bytes(), &spec); err != nil {
				fmt.Fprintln(os.Stderr, "bad session line:", err)
				os.Exit(2)
			}
			obs := b.RunSession(spec)
			j, _ := json.Marshal(obs)
			w.Write(j)
			w.WriteByte('\n')
		}
	case "impsessions":
		sc := bufio.NewScanner(os.Stdin)
		sc.Buffer(make([]byte, 1<<20), 1<<26)
		real := os.Stdout
		if null, err := os.OpenFile(os.DevNull, os.O_WRONLY, 0); err == nil {
			os.Stdout = null
		}
		w := bufio.NewWriter(real)
		defer w.Flush()
		for sc.Scan() {
			var spec c11lib.ImpSessionSpec
			if err := json.Unmarshal(sc.Bytes(), &spec); err != nil {
				fmt.Fprintln(os.Stderr, "bad importer session line:", err)
				os.Exit(2)
			}
			obs := b.RunImpSession(spec)
			j, _ := json.Marshal(obs)
			w.Write(j)
			w.WriteByte('\n')
		}
	default:
		fmt.Fprintln(os.Stderr, "unknown subcommand")
		os.Exit(2)
	}
}
