// rootcfg: how the import root is CONFIGURED.  The process changes into a scratch working directory that holds
// module files ("loot") of the names the scripts import - in the working directory itself, in its parent, and in the
// directory that serves as import root - and evaluates every import spelling under every configuration of the root:
// none at all, the empty path (Config.VMOpts: imports are disabled), relative spellings ("root", "./root/", "root/../root",
// ".", "sub/.."), absolute ones.  Every module file reports its own location when its code runs.
// Judged on the observations alone: with no root / the empty path no module code runs (imports are disabled); with a
// root every module file whose code runs lies under the directory the host named.
package main

import (
	"context"
	"fmt"
	"os"
	"path/filepath"
	"strings"
	"sync"
	"time"

	"github.com/risor-io/risor"
	"github.com/risor-io/risor/object"
)

type rootCfg struct {
	name  string
	chdir string // relative to the scratch directory
	arg   *string
	named string // the directory the host named, relative to the scratch directory ("" = none: imports disabled)
}

func sp(s string) *string { return &s }

func rootcfgRun() int {
	top, err := os.MkdirTemp("", "c14root-")
	if err != nil {
		fmt.Println("ERROR", err)
		return 2
	}
	defer os.RemoveAll(top)
	if real, e := filepath.EvalSymlinks(top); e == nil {
		top = real
	}
	// module files: every directory level holds the same names, each file reports where it is
	names := []string{"a", "loot", "pkg/a", "pkg/sub/a", "pkg"}
	dirs := []string{"", "cwd", "cwd/root", "cwd/sub", "cwd/root/inner", "other"}
	for _, d := range dirs {
		for _, n := range names {
			for _, ext := range []string{".risor"} {
				f := filepath.Join(top, d, n+ext)
				os.MkdirAll(filepath.Dir(f), 0o755)
				rel, _ := filepath.Rel(top, f)
				os.WriteFile(f, []byte(fmt.Sprintf("mark(%q)\nx0 := 7\nfunc get() { return x0 }\n", rel)), 0o644)
			}
		}
	}
	cfgs := []rootCfg{
		{"no-importer", "cwd", nil, ""},
		{"empty", "cwd", sp(""), ""},
		{"empty-from-root", "cwd/root", sp(""), ""},
		{"rel", "cwd", sp("root"), "cwd/root"},
		{"rel-dot-slash", "cwd", sp("./root/"), "cwd/root"},
		{"rel-updown", "cwd", sp("root/../root"), "cwd/root"},
		{"rel-doubled", "cwd", sp("root//inner/.."), "cwd/root"},
		{"dot", "cwd", sp("."), "cwd"},
		{"dot-slash", "cwd/root", sp("./"), "cwd/root"},
		{"sub-up", "cwd", sp("sub/.."), "cwd"},
		{"sub", "cwd", sp("sub"), "cwd/sub"},
		{"parent-rel", "cwd/sub", sp("../root"), "cwd/root"},
		{"abs", "cwd", sp(filepath.Join(top, "cwd/root")), "cwd/root"},
		{"abs-trailing", "cwd", sp(filepath.Join(top, "cwd/root") + "/"), "cwd/root"},
		{"abs-unclean", "cwd", sp(top + "//cwd/./sub/../root"), "cwd/root"},
	}
	scripts := []string{
		`import a`, `import loot`, `import pkg`, `import "pkg/a"`, `import "pkg/sub/a"`, `import a as z`, `import "loot" as z`,
		`from pkg import a`, `from pkg.sub import a`, `from "pkg" import a`, `from "pkg/sub" import (a as z)`, `from a import x0`,
		`from loot import get, x0`, `from pkg import (a, sub)`, `import "./a"`, `import "../a"`, `import "../loot"`,
		`import "root/a"`, `import "cwd/a"`, `import "../cwd/loot"`, `from ".." import loot`, `from "." import a`,
		`func f() { import loot }; f()`, `try(func() { import a }); import loot`,
	}
	evals, viol, ran := 0, 0, 0
	for _, c := range cfgs {
		for _, s := range scripts {
			if err := os.Chdir(filepath.Join(top, c.chdir)); err != nil {
				fmt.Println("ERROR chdir", err)
				return 2
			}
			var mu sync.Mutex
			var marks []string
			mark := func(ctx context.Context, args ...object.Object) object.Object {
				mu.Lock()
				defer mu.Unlock()
				if len(args) == 1 {
					if str, ok := args[0].(*object.String); ok {
						marks = append(marks, str.Value())
					}
				}
				return object.Nil
			}
			opts := []risor.Option{risor.WithGlobals(map[string]any{"mark": object.NewBuiltin("mark", mark)})}
			if c.arg != nil {
				opts = append(opts, risor.WithLocalImporter(*c.arg))
			}
			ctx, cancel := context.WithTimeout(context.Background(), 60*time.Second)
			_, err := risor.Eval(ctx, s, opts...)
			cancel()
			evals++
			status := "ok"
			if err != nil {
				status = "error: " + err.Error()
				if len(status) > 160 {
					status = status[:160]
				}
			}
			var bad []string
			for _, m := range marks {
				ran++
				if c.named == "" || !(strings.HasPrefix(m, c.named+"/")) {
					bad = append(bad, m)
				}
			}
			arg := "<no WithLocalImporter option>"
			if c.arg != nil {
				arg = strings.Replace(*c.arg, top, "<scratch>", 1)
			}
			if len(bad) > 0 {
				viol++
				what := "imports are disabled (no import root was named)"
				if c.named != "" {
					what = "the host named the directory <scratch>/" + c.named
				}
				fmt.Printf("VIOL\t%s\t%s\t%s\t%s\t%s\t%s\t%s\n", c.name, c.chdir, arg, s, strings.Join(bad, ","), status, what)
			} else if c.named == "" && err == nil {
				viol++
				fmt.Printf("VIOL\t%s\t%s\t%s\t%s\t%s\t%s\t%s\n", c.name, c.chdir, arg, s, "", status,
					"imports are disabled (no import root was named) but the import statement succeeded")
			}
		}
	}
	fmt.Printf("SUMMARY\tevals=%d\tviolations=%d\tconfigs=%d\tscripts=%d\tmodule_bodies_run=%d\n", evals, viol, len(cfgs), len(scripts), ran)
	return 0
}
