// c14obs: implementation-side observations for property C14 (imports: confinement, once, own globals).
//
// stdin: one JSON object per line
//
//	{"files": {"<path relative to the case dir>": "<hex source>", ...},   module tree AND sentinels outside the root
//	 "root": "<import root relative to the case dir>",
//	 "rootarg": "<optional: the spelling of the root handed to the importer, relative to the case dir>",
//	 "mains": ["<hex source>", ...]}
//
// stdout: one JSON object per main program with the observations of three ways of configuring the importer:
//
//	plain   risor.Eval(..., risor.WithLocalImporter(root))                    the public route
//	local   risor.WithImporter(recording wrapper around importer.NewLocalImporter)
//	fs      risor.WithImporter(recording wrapper around importer.NewFSImporter over a recording fs.FS)
//
// Observations per route: events (ticks of module bodies, obs() values, importer requests, files opened),
// error class.  Host builtins given to the scripts: tick(idx, phase), obs(v, static id); every event carries
// the import depth read off the Go call stack.  The text @CASEDIR@ in a main program is replaced by the
// absolute path of the case directory.
package main

import (
	"bufio"
	"context"
	"encoding/hex"
	"encoding/json"
	"fmt"
	"io/fs"
	"os"
	"path/filepath"
	"runtime"
	"strings"
	"time"

	"github.com/risor-io/risor"
	"github.com/risor-io/risor/compiler"
	"github.com/risor-io/risor/importer"
	"github.com/risor-io/risor/object"
	"github.com/risor-io/risor/parser"
	"github.com/risor-io/risor/vm"
)

type caseIn struct {
	Files   map[string]string `json:"files"`
	Root    string            `json:"root"`
	RootArg string            `json:"rootarg"`
	Mains   []string          `json:"mains"`
	// several import roots in ONE process: Roots lists them (relative to the case dir), MainRoot[i] is the index of the
	// root the i-th main program is evaluated with, MainRootArg[i] (optional) the spelling handed to the importer.
	// With ShareLocal the "local" route reuses one LocalImporter per root for all evaluations of the case (documented as
	// safe: "It is safe to reuse the same local importer across multiple VMs and evaluations").
	Roots       []string `json:"roots"`
	MainRoot    []int    `json:"mainroot"`
	MainRootArg []string `json:"mainrootarg"`
	ShareLocal  bool     `json:"sharelocal"`
}

type routeOut struct {
	Events []string `json:"events"`
	Err    string   `json:"err"`
	Raw    string   `json:"raw,omitempty"`
}

type caseOut struct {
	Marker string   `json:"marker"`
	Plain  routeOut `json:"plain"`
	Local  routeOut `json:"local"`
	FS     routeOut `json:"fs"`
	Incr   routeOut `json:"incr"`
}

type recorder struct {
	events []string
	mods   map[*object.Module]int
	starts map[int64]int64
}

// importDepth: number of module bodies in progress, read off the Go call stack (one importModule
// activation per body being evaluated).  Independent of the VM's own bookkeeping.
// The import depth of an event = number of module bodies in progress = number of activations, on the Go
// call stack, of the function that evaluates a module body.  That function is not looked up by name: it is
// discovered by calibration (see calibrate): the function whose activation count grows by exactly one per
// nested import and not at all under try(func(){...}).
var (
	markerEntry uintptr // entry pc of the marker function; 0 = depth unavailable
	pcMemo      = map[uintptr]uintptr{}
	pcBuffer    = make([]uintptr, 1<<16)
)

func stackEntries() []uintptr {
	n := runtime.Callers(2, pcBuffer)
	out := make([]uintptr, 0, n)
	for _, pc := range pcBuffer[:n] {
		e, ok := pcMemo[pc]
		if !ok {
			if f := runtime.FuncForPC(pc - 1); f != nil {
				e = f.Entry()
			}
			pcMemo[pc] = e
		}
		out = append(out, e)
	}
	return out
}

func importDepth() int {
	if calibrating != nil {
		*calibrating = stackEntries()
		return 0
	}
	if markerEntry == 0 {
		return -1
	}
	n := runtime.Callers(2, pcBuffer)
	d := 0
	for _, pc := range pcBuffer[:n] {
		e, ok := pcMemo[pc]
		if !ok {
			if f := runtime.FuncForPC(pc - 1); f != nil {
				e = f.Entry()
			}
			pcMemo[pc] = e
		}
		if e == markerEntry {
			d++
		}
	}
	return d
}

var calibrating *[]uintptr

func countOf(xs []uintptr) map[uintptr]int {
	m := map[uintptr]int{}
	for _, x := range xs {
		m[x]++
	}
	return m
}

// calibrate runs four tiny programs and picks the marker function.
func calibrate() string {
	if os.Getenv("C14OBS_NODEPTH") != "" {
		return "unavailable" // test knob: exercise the check's fallback path
	}
	dir, err := os.MkdirTemp("", "c14cal-")
	if err != nil {
		return "no temp dir"
	}
	defer os.RemoveAll(dir)
	_ = os.WriteFile(filepath.Join(dir, "m1.risor"), []byte("tick(0, 0)\n"), 0o644)
	_ = os.WriteFile(filepath.Join(dir, "m2.risor"), []byte("import m1\n"), 0o644)
	run := func(src string) []uintptr {
		var got []uintptr
		calibrating = &got
		defer func() { calibrating = nil }()
		rec := newRecorder()
		_, _ = risor.Eval(context.Background(), src, risor.WithGlobals(rec.builtins()), risor.WithLocalImporter(dir))
		return got
	}
	s0 := countOf(run("tick(0, 0)"))
	s1 := countOf(run("import m1"))
	s2 := countOf(run("import m2"))
	st := countOf(run("try(func() { tick(0, 0) })"))
	var best uintptr
	bestName := ""
	for e := range s2 {
		if s1[e]-s0[e] == 1 && s2[e]-s0[e] == 2 && st[e]-s0[e] == 0 {
			name := ""
			if f := runtime.FuncForPC(e); f != nil {
				name = f.Name()
			}
			if best == 0 || name < bestName {
				best, bestName = e, name
			}
		}
	}
	markerEntry = best
	if best == 0 {
		return "unavailable"
	}
	return bestName
}

func newRecorder() *recorder {
	return &recorder{mods: map[*object.Module]int{}, starts: map[int64]int64{}}
}

func (r *recorder) val(o object.Object) string {
	switch o := o.(type) {
	case *object.Int:
		return fmt.Sprintf("i:%d", o.Value())
	case *object.Bool:
		if o.Value() {
			return "b:true"
		}
		return "b:false"
	case *object.NilType:
		return "nil"
	case *object.Module:
		id, ok := r.mods[o]
		if !ok {
			id = len(r.mods)
			r.mods[o] = id
		}
		return fmt.Sprintf("m:%s#%d", hex.EncodeToString([]byte(o.Name().Value())), id)
	case nil:
		return "gonil"
	}
	return "o:" + string(o.Type())
}

func (r *recorder) builtins() map[string]any {
	tick := object.NewBuiltin("tick", func(ctx context.Context, args ...object.Object) object.Object {
		if len(args) != 2 {
			return object.Errorf("tick: 2 args")
		}
		a, ok1 := args[0].(*object.Int)
		b, ok2 := args[1].(*object.Int)
		if !ok1 || !ok2 {
			return object.Errorf("tick: ints")
		}
		switch {
		case a.Value() < 0:
			r.events = append(r.events, fmt.Sprintf("ESC:%d", b.Value()))
			return object.NewInt(0)
		case b.Value() == 0:
			r.starts[a.Value()]++
			r.events = append(r.events, fmt.Sprintf("S:%d:%d@%d", a.Value(), r.starts[a.Value()], importDepth()))
			return object.NewInt(r.starts[a.Value()])
		default:
			r.events = append(r.events, fmt.Sprintf("D:%d@%d", a.Value(), importDepth()))
			return object.NewInt(0)
		}
	})
	obs := object.NewBuiltin("obs", func(ctx context.Context, args ...object.Object) object.Object {
		if len(args) != 2 {
			return object.Errorf("obs: 2 args")
		}
		sid, _ := args[1].(*object.Int)
		var id int64 = -1
		if sid != nil {
			id = sid.Value()
		}
		r.events = append(r.events, fmt.Sprintf("O:%s@%d#%d", r.val(args[0]), importDepth(), id))
		return object.Nil
	})
	return map[string]any{"tick": tick, "obs": obs}
}

// recording importer: every call the VM makes to Import, and the file the module code was compiled from
type recImporter struct {
	inner importer.Importer
	rec   *recorder
	base  string // case dir, to print file names relative to it
}

func (ri *recImporter) Import(ctx context.Context, name string) (*object.Module, error) {
	m, err := ri.inner.Import(ctx, name)
	h := hex.EncodeToString([]byte(name))
	if err != nil {
		cls := "bad"
		if strings.Contains(err.Error(), "not found") && strings.HasPrefix(err.Error(), "import error: module") {
			cls = "notfound"
		}
		ri.rec.events = append(ri.rec.events, "R:"+h+":"+cls)
		return nil, err
	}
	fn := m.Code().Filename()
	if ri.base != "" && filepath.IsAbs(fn) {
		if rel, e := filepath.Rel(ri.base, fn); e == nil {
			fn = rel
		}
	}
	ri.rec.events = append(ri.rec.events, "R:"+h+":found:"+hex.EncodeToString([]byte(fn)))
	return m, nil
}

// recording fs.FS
type recFS struct {
	inner fs.FS
	rec   *recorder
}

func (f *recFS) Open(name string) (fs.File, error) {
	file, err := f.inner.Open(name)
	st := "ok"
	if err != nil {
		st = "miss"
	}
	f.rec.events = append(f.rec.events, "F:"+hex.EncodeToString([]byte(name))+":"+st)
	return file, err
}

func errClass(err error) string {
	if err == nil {
		return "ok"
	}
	m := err.Error()
	switch {
	case strings.HasPrefix(m, "panic: runtime error: index out of range [1024]"):
		return "panic-depth"
	case strings.HasPrefix(m, "panic:"):
		return "panic-other"
	case strings.HasPrefix(m, "import error: module") && strings.Contains(m, "not found"):
		return "notfound"
	case strings.HasPrefix(m, "import error: import cycle detected"):
		return "cycle"
	case strings.HasPrefix(m, "import error: cannot import name"):
		return "cannotimport"
	case strings.Contains(m, "boom"):
		return "boom"
	case strings.HasPrefix(m, "parse error") || strings.HasPrefix(m, "syntax error"):
		return "parse"
	case strings.HasPrefix(m, "compile error"):
		return "compile"
	case strings.Contains(m, "attribute"):
		return "attr"
	case strings.Contains(m, "context deadline"):
		return "timeout"
	case strings.Contains(m, "imports are disabled"):
		return "disabled"
	}
	return "other"
}

func evalRoute(src string, rec *recorder, opts ...risor.Option) (out routeOut) {
	defer func() {
		if r := recover(); r != nil {
			out.Events = rec.events
			out.Err = "GOPANIC"
			out.Raw = fmt.Sprint(r)
		}
	}()
	ctx, cancel := context.WithTimeout(context.Background(), 120*time.Second)
	defer cancel()
	_, err := risor.Eval(ctx, src, opts...)
	out.Events = rec.events
	if out.Events == nil {
		out.Events = []string{}
	}
	out.Err = errClass(err)
	if err != nil {
		raw := err.Error()
		if len(raw) > 300 {
			raw = raw[:300]
		}
		out.Raw = raw
	}
	return out
}

// splitTop cuts a program into its top-level statements: at every line break outside brackets and string literals
func splitTop(src string) []string {
	var out []string
	depth := 0
	inStr := byte(0)
	start := 0
	for i := 0; i < len(src); i++ {
		ch := src[i]
		if inStr != 0 {
			if ch == '\\' && inStr != '`' {
				i++
			} else if ch == inStr {
				inStr = 0
			}
			continue
		}
		switch ch {
		case '"', '\'', '`':
			inStr = ch
		case '(', '{', '[':
			depth++
		case ')', '}', ']':
			depth--
		case '\n':
			if depth == 0 {
				if strings.TrimSpace(src[start:i]) != "" {
					out = append(out, src[start:i])
				}
				start = i + 1
			}
		}
	}
	if strings.TrimSpace(src[start:]) != "" {
		out = append(out, src[start:])
	}
	return out
}

// evalIncr runs the program statement by statement on ONE compiler and ONE VM whose main code grows (what a REPL
// does): the modules imported by earlier statements and their functions stay loaded across the Runs
func evalIncr(src string, rec *recorder, opts ...risor.Option) (out routeOut) {
	defer func() {
		if r := recover(); r != nil {
			out.Events = rec.events
			out.Err = "GOPANIC"
			out.Raw = fmt.Sprint(r)
		}
	}()
	ctx, cancel := context.WithTimeout(context.Background(), 120*time.Second)
	defer cancel()
	cfg := risor.NewConfig(opts...)
	var err error
	var c *compiler.Compiler
	var v *vm.VirtualMachine
	c, err = compiler.New(cfg.CompilerOpts()...)
	if err == nil {
		for _, piece := range splitTop(src) {
			prog, e := parser.Parse(ctx, piece)
			if e != nil {
				err = e
				break
			}
			code, e := c.Compile(prog)
			if e != nil {
				err = e
				break
			}
			if v == nil {
				v = vm.New(code, cfg.VMOpts()...)
			}
			if e := v.Run(ctx); e != nil {
				err = e
				break
			}
		}
	}
	out.Events = rec.events
	if out.Events == nil {
		out.Events = []string{}
	}
	out.Err = errClass(err)
	if err != nil {
		raw := err.Error()
		if len(raw) > 300 {
			raw = raw[:300]
		}
		out.Raw = raw
	}
	return out
}

func globalNames(opts ...risor.Option) []string {
	return risor.NewConfig(opts...).GlobalNames()
}

func main() {
	if len(os.Args) > 1 && os.Args[1] == "rootcfg" {
		os.Exit(rootcfgRun())
	}
	w := bufio.NewWriterSize(os.Stdout, 1<<20)
	defer w.Flush()
	sc := bufio.NewScanner(os.Stdin)
	sc.Buffer(make([]byte, 1<<20), 1<<26)
	enc := json.NewEncoder(w)
	marker := calibrate()
	for sc.Scan() {
		var c caseIn
		if err := json.Unmarshal(sc.Bytes(), &c); err != nil {
			fmt.Fprintln(os.Stderr, "bad case:", err)
			os.Exit(2)
		}
		dir, err := os.MkdirTemp("", "c14obs-")
		if err != nil {
			fmt.Fprintln(os.Stderr, err)
			os.Exit(2)
		}
		// a symlinked temp dir would make relative file names unreliable
		if real, e := filepath.EvalSymlinks(dir); e == nil {
			dir = real
		}
		for p, h := range c.Files {
			b, _ := hex.DecodeString(h)
			full := filepath.Join(dir, p)
			if err := os.MkdirAll(filepath.Dir(full), 0o755); err != nil {
				continue
			}
			_ = os.WriteFile(full, b, 0o644)
		}
		root := filepath.Join(dir, c.Root)
		_ = os.MkdirAll(root, 0o755)
		rootArg := root
		if c.RootArg != "" {
			rootArg = dir + "/" + c.RootArg // deliberately not cleaned
		}
		for _, r := range c.Roots {
			_ = os.MkdirAll(filepath.Join(dir, r), 0o755)
		}
		shared := map[string]importer.Importer{}
		for mi, mh := range c.Mains {
			b, _ := hex.DecodeString(mh)
			src := strings.ReplaceAll(string(b), "@CASEDIR@", dir)
			if mi < len(c.MainRoot) && c.MainRoot[mi] >= 0 && c.MainRoot[mi] < len(c.Roots) {
				root = filepath.Join(dir, c.Roots[c.MainRoot[mi]])
				rootArg = root
				if mi < len(c.MainRootArg) && c.MainRootArg[mi] != "" {
					rootArg = dir + "/" + c.MainRootArg[mi] // deliberately not cleaned
				}
			}
			var out caseOut
			out.Marker = marker
			{
				rec := newRecorder()
				out.Plain = evalRoute(src, rec, risor.WithGlobals(rec.builtins()), risor.WithLocalImporter(rootArg), risor.WithConcurrency())
			}
			{
				rec := newRecorder()
				g := risor.WithGlobals(rec.builtins())
				var inner importer.Importer
				if c.ShareLocal {
					inner = shared[rootArg]
				}
				if inner == nil {
					inner = importer.NewLocalImporter(importer.LocalImporterOptions{
						GlobalNames: globalNames(g), SourceDir: rootArg, Extensions: []string{".risor", ".rsr"}})
					if c.ShareLocal {
						shared[rootArg] = inner
					}
				}
				out.Local = evalRoute(src, rec, g, risor.WithImporter(&recImporter{inner: inner, rec: rec, base: dir}), risor.WithConcurrency())
			}
			{
				rec := newRecorder()
				g := risor.WithGlobals(rec.builtins())
				inner := importer.NewFSImporter(importer.FSImporterOptions{
					GlobalNames: globalNames(g), SourceFS: &recFS{inner: os.DirFS(root), rec: rec},
					Extensions: []string{".risor", ".rsr"}})
				out.FS = evalRoute(src, rec, g, risor.WithImporter(&recImporter{inner: inner, rec: rec}), risor.WithConcurrency())
			}
			{
				rec := newRecorder()
				out.Incr = evalIncr(src, rec, risor.WithGlobals(rec.builtins()), risor.WithLocalImporter(rootArg), risor.WithConcurrency())
			}
			_ = enc.Encode(&out)
		}
		_ = os.RemoveAll(dir)
	}
}
