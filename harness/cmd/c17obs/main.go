// c17obs: marshal / unmarshal observations for C17.
//
//	c17obs rt < hex sources  ->  per line:
//	  SKIP parse|compile
//	  RT det=<0|1> stable=<0|1> unmarshal=<ok|ERR:..|PANIC:..> same_dump=<0|1> orig=<outcome> reloaded=<outcome> defs=<flat code defs>
//
//	c17obs life: histories on one growing code, see life.go
//
// outcome = OK <value> TRACE <print trace> | ERR <class> TRACE ... ; defs = the marshalled code objects in
// order: id|name|parent|funcid|fnrefs(id:name,...) joined by ';' (hex fields), used to tie the Coq model.
package main

import (
	"bufio"
	"bytes"
	"context"
	"encoding/hex"
	"encoding/json"
	"fmt"
	"os"
	"sort"
	"strings"
	"time"

	"github.com/risor-io/risor"
	"github.com/risor-io/risor/builtins"
	"github.com/risor-io/risor/compiler"
	"github.com/risor-io/risor/object"
	"github.com/risor-io/risor/parser"
)

func val(o object.Object, depth int) string {
	if depth > 20 {
		return "(deep)"
	}
	switch o := o.(type) {
	case nil:
		return "(gonil)"
	case *object.NilType:
		return "(nil)"
	case *object.Bool:
		if o.Value() {
			return "(b 1)"
		}
		return "(b 0)"
	case *object.Int:
		return fmt.Sprintf("(i %d)", o.Value())
	case *object.Float:
		return fmt.Sprintf("(f %x)", o.Value())
	case *object.String:
		return "(s " + hex.EncodeToString([]byte(o.Value())) + ")"
	case *object.List:
		var parts []string
		for _, it := range o.Value() {
			parts = append(parts, val(it, depth+1))
		}
		return "(l " + strings.Join(parts, " ") + ")"
	case *object.Map:
		m := o.Value()
		var keys []string
		for k := range m {
			keys = append(keys, k)
		}
		sort.Strings(keys)
		var parts []string
		for _, k := range keys {
			parts = append(parts, "("+hex.EncodeToString([]byte(k))+" "+val(m[k], depth+1)+")")
		}
		return "(m " + strings.Join(parts, " ") + ")"
	case *object.Function:
		return "(f)"
	}
	return "(other " + string(o.Type()) + ")"
}

func errClass(m string) string {
	switch {
	case strings.HasPrefix(m, "panic:"):
		return "XPanic"
	case strings.Contains(m, "context deadline"):
		return "TIMEOUT"
	}
	i := strings.Index(m, ":")
	if i > 0 && i < 24 {
		return "X" + strings.ReplaceAll(m[:i], " ", "_")
	}
	return "XOther"
}

func runCode(code *compiler.Code) string {
	var trace []string
	out := ""
	func() {
		defer func() {
			if r := recover(); r != nil {
				out = "GOPANIC " + strings.ReplaceAll(fmt.Sprint(r), " ", "_")
			}
		}()
		ctx, cancel := context.WithTimeout(context.Background(), time.Second)
		defer cancel()
		printFn := object.NewBuiltin("print", func(ctx context.Context, args ...object.Object) object.Object {
			var parts []string
			for _, a := range args {
				parts = append(parts, val(a, 0))
			}
			trace = append(trace, "("+strings.Join(parts, " ")+")")
			return object.Nil
		})
		globals := map[string]any{"len": builtins.Builtins()["len"], "print": printFn}
		res, err := risor.EvalCode(ctx, code, risor.WithoutDefaultGlobals(), risor.WithGlobals(globals))
		if err != nil {
			out = "ERR " + errClass(err.Error())
		} else {
			out = "OK " + val(res, 0)
		}
	}()
	return out + " TRACE " + strings.Join(trace, "")
}

func dumpCode(code *compiler.Code) string {
	var parts []string
	for _, c := range code.Flatten() {
		var ins, ks []string
		for i := 0; i < c.InstructionCount(); i++ {
			ins = append(ins, fmt.Sprint(uint16(c.Instruction(i))))
		}
		for i := 0; i < c.ConstantsCount(); i++ {
			switch k := c.Constant(i).(type) {
			case *compiler.Function:
				var ds, ps []string
				for i := 0; i < k.DefaultsCount(); i++ {
					d := k.Default(i)
					ds = append(ds, fmt.Sprintf("%T:%v", d, d))
				}
				for i := 0; i < k.ParametersCount(); i++ {
					ps = append(ps, k.Parameter(i))
				}
				cid := "nocode"
				if k.Code() != nil {
					cid = k.Code().ID()
				}
				ks = append(ks, fmt.Sprintf("fn(%s,%s,%s,%s,%s)", k.ID(), k.Name(), strings.Join(ps, ":"), strings.Join(ds, ":"), cid))
			default:
				ks = append(ks, fmt.Sprintf("%T:%v", k, k))
			}
		}
		named := 0
		if c.IsNamed() {
			named = 1
		}
		var names []string
		for i := 0; i < c.NameCount(); i++ {
			names = append(names, c.Name(i))
		}
		parts = append(parts, fmt.Sprintf("%s|%s|%d|%s|%s|%s|%s|%d", c.ID(), c.CodeName(), named, c.FunctionID(), strings.Join(ins, ","),
			hex.EncodeToString([]byte(strings.Join(ks, ";"))), hex.EncodeToString([]byte(strings.Join(names, ","))), c.LocalsCount()))
	}
	return strings.Join(parts, " || ")
}

type fnDef struct {
	ID   string `json:"id"`
	Name string `json:"name"`
}
type constDef struct {
	Type  string          `json:"type"`
	Value json.RawMessage `json:"value"`
}
type codeDef struct {
	ID         string            `json:"id"`
	Name       string            `json:"name"`
	ParentID   string            `json:"parent_id"`
	FunctionID string            `json:"function_id"`
	Constants  []json.RawMessage `json:"constants"`
}
type stateDef struct {
	Code []codeDef `json:"code"`
}

func defs(m []byte) string {
	var st stateDef
	if err := json.Unmarshal(m, &st); err != nil {
		return "BADJSON"
	}
	var parts []string
	h := func(s string) string { return hex.EncodeToString([]byte(s)) }
	for _, c := range st.Code {
		var refs []string
		for _, raw := range c.Constants {
			var cd constDef
			if json.Unmarshal(raw, &cd) == nil && cd.Type == "function" {
				var fd fnDef
				json.Unmarshal(cd.Value, &fd)
				refs = append(refs, h(fd.ID)+":"+h(fd.Name))
			}
		}
		parts = append(parts, h(c.ID)+"|"+h(c.Name)+"|"+h(c.ParentID)+"|"+h(c.FunctionID)+"|"+strings.Join(refs, ","))
	}
	return strings.Join(parts, ";")
}

// linkage of a code tree: per code object (Flatten order) parent index, the indices of the codes its
// function constants run, and the named flag
func linkage(code *compiler.Code) (string, string) {
	flat := code.Flatten()
	idx := map[*compiler.Code]int{}
	for i, c := range flat {
		idx[c] = i
	}
	var parts, named []string
	for _, c := range flat {
		p := "-"
		if c.Parent() != nil {
			if i, ok := idx[c.Parent()]; ok {
				p = fmt.Sprint(i)
			} else {
				p = "?"
			}
		}
		var links []string
		for i := 0; i < c.ConstantsCount(); i++ {
			if fn, ok := c.Constant(i).(*compiler.Function); ok {
				if fn.Code() == nil {
					links = append(links, "nil")
				} else if j, ok := idx[fn.Code()]; ok {
					links = append(links, fmt.Sprint(j))
				} else {
					links = append(links, "?")
				}
			}
		}
		n := "0"
		if c.IsNamed() {
			n = "1"
		}
		named = append(named, n)
		parts = append(parts, p+","+strings.Join(links, ".")+","+n)
	}
	return strings.Join(parts, ";"), strings.Join(named, ",")
}

func main() {
	if len(os.Args) > 1 && os.Args[1] == "life" {
		lifeMain()
		return
	}
	w := bufio.NewWriterSize(os.Stdout, 1<<20)
	defer w.Flush()
	sc := bufio.NewScanner(os.Stdin)
	sc.Buffer(make([]byte, 1<<20), 1<<24)
	ctx := context.Background()
	// the bytes of the previous program's code, as returned by MarshalCode, and a private copy taken at once: what
	// MarshalCode returned belongs to the caller and must not change when other code is marshalled later
	var prevM, prevCopy []byte
	for sc.Scan() {
		b, _ := hex.DecodeString(sc.Text())
		func() {
			defer func() {
				if r := recover(); r != nil {
					fmt.Fprintf(w, "GOPANIC %v\n", strings.ReplaceAll(fmt.Sprint(r), "\n", " "))
				}
			}()
			prog, err := parser.Parse(ctx, string(b))
			if err != nil {
				fmt.Fprintln(w, "SKIP parse")
				return
			}
			code, err := compiler.Compile(prog, compiler.WithGlobalNames([]string{"len", "print"}))
			if err != nil {
				fmt.Fprintln(w, "SKIP compile")
				return
			}
			m1, err1 := compiler.MarshalCode(code)
			m1c := append([]byte{}, m1...)
			m2, err2 := compiler.MarshalCode(code)
			if err1 != nil || err2 != nil {
				fmt.Fprintf(w, "RT marshal=ERR:%v\n", err1)
				return
			}
			det := 0
			if bytes.Equal(m1, m2) {
				det = 1
			}
			um := "ok"
			var code2 *compiler.Code
			func() {
				defer func() {
					if r := recover(); r != nil {
						um = "PANIC:" + strings.ReplaceAll(fmt.Sprint(r), " ", "_")
					}
				}()
				c2, err := compiler.UnmarshalCode(m1)
				if err != nil {
					um = "ERR:" + strings.ReplaceAll(err.Error(), " ", "_")
					return
				}
				code2 = c2
			}()
			stable, same := 0, 0
			orig := runCode(code)
			reloaded := "-"
			if code2 != nil {
				if m3, err := compiler.MarshalCode(code2); err == nil && bytes.Equal(m1, m3) {
					stable = 1
				}
				if dumpCode(code) == dumpCode(code2) {
					same = 1
				}
				reloaded = runCode(code2)
			}
			origLink, origNamed := linkage(code)
			relLink := "-"
			if code2 != nil {
				relLink, _ = linkage(code2)
			}
			held := 1
			if !bytes.Equal(m1, m1c) || (prevM != nil && !bytes.Equal(prevM, prevCopy)) {
				held = 0
			}
			if prevM != nil && held == 1 {
				if _, err := compiler.UnmarshalCode(prevM); err != nil {
					held = 0
				}
			}
			prevM, prevCopy = m1, m1c
			fmt.Fprintf(w, "RT det=%d stable=%d unmarshal=%s same_dump=%d held=%d\t%s\t%s\t%s\t%s\t%s\t%s\n", det, stable, um, same, held, orig, reloaded,
				defs(m1c), origNamed, origLink, relLink)
		}()
	}
}
