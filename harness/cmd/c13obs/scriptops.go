// scriptops: the SCRIPT-LEVEL builtins that take paths (every builtin of the os module and its top-level aliases: cp,
// rename, symlink, write_file, mkdir, remove, read_file, stat, ls, cat, ...) evaluated by risor under a VirtualOS whose
// mounts are rooted filesystems over REAL directory trees.
//
// The property, judged without a model of the builtins: the host outside the mount sources is neither WRITTEN (a
// snapshot of everything outside the sources is unchanged) nor READ (non-interference: the same call is made in two
// worlds that differ ONLY outside the mount sources - in world A the path strings the script uses also name
// directories and files on the host, at the root and in the process's working directory, in world B they name nothing
// there - and the result of the call and the content of every mount source afterwards must be identical).
//
// Runs inside a chroot jail (a scratch directory), so "the host" is the scratch tree.
package main

import (
	"context"
	"encoding/hex"
	"fmt"
	"os"
	"path/filepath"
	"reflect"
	"regexp"
	"sort"
	"strings"
	"syscall"
	"time"

	"github.com/risor-io/risor"
	modos "github.com/risor-io/risor/modules/os"
	ros "github.com/risor-io/risor/os"
	"github.com/risor-io/risor/os/localfs"
)

type vosLayout struct {
	name   string
	cwd    string
	mounts [][2]string // mount point, source directory (in the jail)
}

var vosLayouts = []vosLayout{
	{"root+m", "/", [][2]string{{"/", "/src0"}, {"/m", "/src1"}}},
	{"root+m-cwd-d", "/d", [][2]string{{"/", "/src0"}, {"/m", "/src1"}}},
	{"m-only", "/m", [][2]string{{"/m", "/src1"}}},
	{"root-only", "/", [][2]string{{"/", "/src0"}}},
}

// the path strings: names that exist in the mounts (d: directory, f.txt / g.txt: files), names that exist only on
// the host in world A (h: directory, x: file), names whose KIND differs between the host of world A and the mounts
// (d: a file on the host, f.txt: a directory on the host), host spellings of the sources, and new names
var scriptPaths = []string{
	"/h", "h", "/d", "d", "/f.txt", "f.txt", "/x", "x", "/m", "/m/g.txt", "/m/d", "/m/h", "m/h", ".", "/", "..", "",
	"/d/../h", "./h/", "/new", "new", "/h/new", "h/new", "/d/new", "d/new", "/m/new", "/src0", "/src0/f.txt", "/src1/d",
	"/cwd/h", "/cwd", "/tmp", "/d/f.txt", "../h",
}

var secondPaths = []string{"/h", "h", "/d", "d", "/x", "/f.txt", "/m/h", "/new", "new", ".", "/h/new", "/m/new", "/src0"}

var stamp = time.Unix(1500000000, 0)

func buildSources() {
	for _, s := range []string{"/src0", "/src1"} {
		os.RemoveAll(s)
		os.MkdirAll(s+"/d", 0o755)
		os.MkdirAll(s+"/m", 0o755)
		os.WriteFile(s+"/f.txt", []byte("in-"+s[1:]+"-f"), 0o644)
		os.WriteFile(s+"/g.txt", []byte("in-"+s[1:]+"-g"), 0o644)
		os.WriteFile(s+"/d/f.txt", []byte("in-"+s[1:]+"-d-f"), 0o644)
		filepath.Walk(s, func(p string, _ os.FileInfo, _ error) error { os.Chtimes(p, stamp, stamp); return nil })
	}
}

// world A: the script's names also exist on the host outside the sources; world B: they do not
func buildHost(world string) {
	for _, d := range []string{"/", "/cwd/"} {
		for _, n := range []string{"h", "x", "d", "f.txt", "new", "m", "tmp"} {
			if d == "/" && n == "tmp" {
				continue
			}
			os.RemoveAll(d + n)
		}
	}
	os.MkdirAll("/cwd", 0o755)
	os.RemoveAll("/tmp")
	os.MkdirAll("/tmp", 0o777)
	if world == "A" {
		for _, d := range []string{"/", "/cwd/"} {
			os.MkdirAll(d+"h/d", 0o755)
			os.WriteFile(d+"h/f.txt", []byte("host-h-f"), 0o644)
			os.WriteFile(d+"x", []byte("host-x"), 0o644)
			os.WriteFile(d+"d", []byte("host-d-is-a-file"), 0o644)
			os.MkdirAll(d+"f.txt", 0o755)
			os.MkdirAll(d+"m/h", 0o755)
			os.WriteFile(d+"m/g.txt", []byte("host-m-g"), 0o644)
		}
	}
}

func snapshotRel(root string) map[string]string {
	m := map[string]string{}
	for k, v := range snapshot(root, "") {
		m[strings.TrimPrefix(k, root)] = v
	}
	return m
}

func hostSnapshot() map[string]string {
	m := snapshot("/", "")
	for k := range m {
		if k == "/src0" || k == "/src1" || strings.HasPrefix(k, "/src0/") || strings.HasPrefix(k, "/src1/") {
			delete(m, k)
		}
	}
	return m
}

var tempName = regexp.MustCompile(`[0-9]+-TT|TT[0-9]+`)
var arityError = regexp.MustCompile(`takes (exactly|at least|at most|between)? ?[0-9]|wrong number of arguments|args error|argument`)
var addrText = regexp.MustCompile(`0x[0-9a-f]+`)

func osBuiltinNames() (mod []string, top []string) {
	v := reflect.ValueOf(modos.Module()).Elem().FieldByName("builtins")
	for _, k := range v.MapKeys() {
		mod = append(mod, k.String())
	}
	sort.Strings(mod)
	for k := range modos.Builtins() {
		top = append(top, k)
	}
	sort.Strings(top)
	return
}

func quote(s string) string { return fmt.Sprintf("%q", s) }

func scriptOpsRun(filter []string) int {
	top, err := os.MkdirTemp("", "verif-c13s-")
	if err != nil {
		fmt.Println("ERROR mkdirtemp", err)
		return 2
	}
	if err := syscall.Chroot(top); err != nil {
		os.RemoveAll(top)
		fmt.Printf("NOJAIL\t%v\n", err)
		return 0
	}
	os.Chdir("/")
	os.Setenv("TMPDIR", "/tmp")
	modNames, topNames := osBuiltinNames()
	var calls []string // expression prefix: "os.rename", "cp"
	for _, n := range modNames {
		if n == "exit" || strings.HasPrefix(n, "err_") || n == "stdin" || n == "stdout" || n == "stderr" {
			continue
		}
		calls = append(calls, "os."+n)
	}
	for _, n := range topNames {
		calls = append(calls, n)
	}
	evals, viol, differ, effects := 0, 0, 0, 0
	builtinsWithEffect := map[string]bool{}
	type scase struct{ call, src string }
	for _, lay := range vosLayouts {
		if len(filter) > 0 && filter[0] != lay.name {
			continue
		}
		var cases []scase
		for ci, call := range calls {
			if len(filter) > 1 && strings.HasPrefix(filter[1], "#") {
				var k, n int
				fmt.Sscanf(filter[1], "#%d/%d", &k, &n)
				if n > 0 && ci%n != k {
					continue
				}
			} else if len(filter) > 1 && filter[1] != call {
				continue
			}
			// a shape (one / two arguments) that the builtin refuses for its argument COUNT, before looking at any argument,
			// is not enumerated
			var shapeOK [2]bool
			for n := 0; n < 2; n++ {
				probe := call + "(" + strings.Join([]string{quote("/zz-probe"), quote("/zz-probe2")}[:n+1], ", ") + ")"
				_, err := risor.Eval(context.Background(), probe, risor.WithOS(ros.NewVirtualOS(context.Background(), ros.WithExitHandler(func(int) {}))))
				shapeOK[n] = !(err != nil && arityError.MatchString(err.Error()) && !strings.Contains(err.Error(), "zz-probe"))
			}
			for _, p1 := range scriptPaths {
				if len(filter) > 2 && filter[2] != p1 {
					continue
				}
				for k2 := -1; k2 < len(secondPaths); k2++ {
					if (k2 < 0 && !shapeOK[0]) || (k2 >= 0 && !shapeOK[1]) {
						continue
					}
					args := quote(p1)
					p2 := ""
					if k2 >= 0 {
						p2 = secondPaths[k2]
						args += ", " + quote(p2)
					}
					if len(filter) > 3 && (k2 < 0 || filter[3] != p2) {
						continue
					}
					if strings.HasSuffix(call, "mkdir_temp") && k2 >= 0 {
						args = quote(p1) + ", \"TT\"" // the second argument is the name pattern: keep it recognisable
						if k2 > 0 {
							continue
						}
					}
					cases = append(cases, scase{call, call + "(" + args + ")"})
				}
			}
		}
		obs := [2][]string{make([]string, len(cases)), make([]string, len(cases))}
		for w, world := range []string{"A", "B"} {
			// the trees are rebuilt only after a call that changed something
			dirty := true
			var before map[string]string
			var srcBefore [2]map[string]string
			for ci, c := range cases {
				if dirty {
					buildSources()
					buildHost(world)
					before = hostSnapshot()
					srcBefore = [2]map[string]string{snapshotRel("/src0"), snapshotRel("/src1")}
					dirty = false
				}
				os.Chdir("/cwd")
				mounts := map[string]*ros.Mount{}
				for _, m := range lay.mounts {
					lfs, err := localfs.New(context.Background(), localfs.WithBase(m[1]))
					if err != nil {
						fmt.Println("ERROR localfs.New", err)
						return 2
					}
					mounts[m[0]] = &ros.Mount{Source: lfs, Target: m[0]}
				}
				ctx := context.Background()
				vos := ros.NewVirtualOS(ctx, ros.WithMounts(mounts), ros.WithCwd(lay.cwd), ros.WithTmp("/m/d"),
					ros.WithExitHandler(func(int) {}))
				res, err := risor.Eval(ctx, c.src, risor.WithOS(vos))
				out := ""
				if err != nil {
					out = "ERR " + err.Error()
				} else if res != nil {
					out = "OK " + string(res.Type()) + " " + res.Inspect()
				}
				after := hostSnapshot()
				evals++
				out = addrText.ReplaceAllString(tempName.ReplaceAllString(out, "TT#"), "0x#")
				var tree []string
				for i, s := range []string{"/src0", "/src1"} {
					now := snapshotRel(s)
					ds := diffSnap(srcBefore[i], now)
					if len(ds) > 0 {
						effects++
						builtinsWithEffect[c.call] = true
						dirty = true
					}
					for _, d := range ds {
						f := strings.SplitN(d, " ", 2)
						tree = append(tree, f[0]+" "+s+tempName.ReplaceAllString(f[1], "TT#")+" = "+tempName.ReplaceAllString(now[f[1]], "TT#"))
					}
				}
				obs[w][ci] = out + "\n" + strings.Join(tree, "\n")
				if d := diffSnap(before, after); len(d) > 0 {
					viol++
					dirty = true
					fmt.Printf("VIOL\thost-written\t%s\t%s\t%s\t%s\t%s\n", lay.name, hex.EncodeToString([]byte(c.src)), world,
						hex.EncodeToString([]byte(strings.Join(d, ";"))), hex.EncodeToString([]byte(obs[w][ci])))
				}
			}
		}
		for ci, c := range cases {
			if obs[0][ci] != obs[1][ci] {
				differ++
				fmt.Printf("VIOL\thost-read\t%s\t%s\tAB\t%s\t%s\n", lay.name, hex.EncodeToString([]byte(c.src)),
					hex.EncodeToString([]byte(obs[0][ci])), hex.EncodeToString([]byte(obs[1][ci])))
			}
		}
	}
	var eff []string
	for k := range builtinsWithEffect {
		eff = append(eff, k)
	}
	sort.Strings(eff)
	fmt.Printf("SUMMARY\tevals=%d\tviolations=%d\tcalls=%d\tlayouts=%d\tpaths=%d\teffects=%d\tbuiltins_with_effect=%s\n", evals, viol+differ, len(calls),
		len(vosLayouts), len(scriptPaths), effects, strings.Join(eff, ","))
	return 0
}
