// c13obs: implementation-side observations for property C13 (rooted filesystems and mounts).
//
//	c13obs paths  <maxseg>                      enumerate the property's path alphabet, one per line
//	c13obs resolve <base> <maxseg>              path \t Clean(path) \t ResolvePath(base,path)
//	c13obs mounts <cwd> <maxseg> <k1,k2,...>    path \t mount \t rel   (through VirtualOS.Stat on recording filesystems)
//	c13obs stdin-resolve <base>                 same as resolve for paths read from stdin (hex, one per line)
//	c13obs stdin-mounts <cwd> <k1,k2,...>       same as mounts for paths read from stdin (hex)
//	c13obs two <cwd> <k1,k2,...>                TWO-path operations (Rename, Symlink) with DIFFERENT arguments on recording
//	                                            filesystems: stdin lines "<hex p1> <hex p2>" -> line \t NONE | hex(mount):hex(rel1):hex(rel2)
//	c13obs twotree <cwd> <k1,k2,...>            the same operations on a VirtualOS whose mounts are rooted filesystems over REAL
//	                                            directory trees (a skeleton of directories in every source, so that a wrongly
//	                                            resolved path can land): stdin lines "<op> <hex p1> <hex p2> <src index> <hex rel1>"
//	                                            (where the harness puts the file to be renamed / linked: decided by the caller);
//	                                            prints every host entry created / removed / changed by the operation
//	c13obs localfs <maxseg>                     every localfs method over a temp tree with sentinels
//	c13obs localfs-base <maxseg> <k>            the same for the k-th SPELLING of the base (relative, ".", "./", "a/..", doubled
//	                                            and trailing separators, a symbolic link as working directory ...) inside a
//	                                            chroot jail: the filesystem must be rooted at the directory the text names
//	c13obs scriptops [layout [call|#k/n [p1 [p2]]]]  the script-level builtins with path arguments under a VirtualOS over real
//	                                            trees, in two worlds that differ only OUTSIDE the mount sources (see scriptops.go)
//	c13obs lfshist                              histories of localfs operations (stdin, one per line: ops separated by ';',
//	                                            op = Name:hex(arg1)[:hex(arg2)]) on a fresh sentinel tree each; after EVERY
//	                                            operation: where does every symbolic link inside the base physically lead,
//	                                            is everything outside the base unchanged, did a read reveal outside content
package main

import (
	"bufio"
	"context"
	"encoding/hex"
	"encoding/json"
	"errors"
	"fmt"
	"io/fs"
	"os"
	"path/filepath"
	"sort"
	"strconv"
	"strings"
	"syscall"

	ros "github.com/risor-io/risor/os"
	"github.com/risor-io/risor/os/localfs"
)

var alphabet = []string{"", ".", "..", "a", "b", "..a", "a.."}

func enumerate(maxSeg int, emit func(string)) {
	emit("")
	emit("/")
	var rec func(segs []string, depth int)
	rec = func(segs []string, depth int) {
		if len(segs) > 0 {
			j := strings.Join(segs, "/")
			for _, abs := range []string{"", "/"} {
				for _, trail := range []string{"", "/"} {
					emit(abs + j + trail)
				}
			}
		}
		if depth == maxSeg {
			return
		}
		for _, a := range alphabet {
			rec(append(append([]string{}, segs...), a), depth+1)
		}
	}
	rec(nil, 0)
}

// recording filesystem: every method records (mount name, method, path) and fails with ErrNotExist
type recFS struct {
	name string
	log  *[]string
}

func (r *recFS) rec(m, p string) { *r.log = append(*r.log, r.name+"\t"+m+"\t"+p) }
func (r *recFS) Create(name string) (ros.File, error) {
	r.rec("Create", name)
	return nil, fs.ErrNotExist
}
func (r *recFS) Mkdir(name string, perm ros.FileMode) error {
	r.rec("Mkdir", name)
	return fs.ErrNotExist
}
func (r *recFS) MkdirAll(path string, perm ros.FileMode) error {
	r.rec("MkdirAll", path)
	return fs.ErrNotExist
}
func (r *recFS) Open(name string) (ros.File, error) { r.rec("Open", name); return nil, fs.ErrNotExist }
func (r *recFS) ReadFile(name string) ([]byte, error) {
	r.rec("ReadFile", name)
	return nil, fs.ErrNotExist
}
func (r *recFS) Remove(name string) error    { r.rec("Remove", name); return fs.ErrNotExist }
func (r *recFS) RemoveAll(path string) error { r.rec("RemoveAll", path); return fs.ErrNotExist }
func (r *recFS) Rename(oldpath, newpath string) error {
	r.rec("Rename", oldpath+"\x00"+newpath)
	return fs.ErrNotExist
}
func (r *recFS) Stat(name string) (ros.FileInfo, error) {
	r.rec("Stat", name)
	return nil, fs.ErrNotExist
}
func (r *recFS) Symlink(oldname, newname string) error {
	r.rec("Symlink", oldname+"\x00"+newname)
	return fs.ErrNotExist
}
func (r *recFS) WriteFile(name string, data []byte, perm ros.FileMode) error {
	r.rec("WriteFile", name)
	return fs.ErrNotExist
}
func (r *recFS) ReadDir(name string) ([]ros.DirEntry, error) {
	r.rec("ReadDir", name)
	return nil, fs.ErrNotExist
}
func (r *recFS) WalkDir(root string, fn ros.WalkDirFunc) error {
	r.rec("WalkDir", root)
	return fs.ErrNotExist
}
func (r *recFS) OpenFile(name string, flag int, perm ros.FileMode) (ros.File, error) {
	r.rec("OpenFile", name)
	return nil, fs.ErrNotExist
}
func (r *recFS) MkdirTemp(dir, pattern string) (string, error) {
	r.rec("MkdirTemp", dir)
	return "", fs.ErrNotExist
}

var _ ros.FS = (*recFS)(nil)

func newVOS(cwd string, keys []string, log *[]string) *ros.VirtualOS {
	mounts := map[string]*ros.Mount{}
	for _, k := range keys {
		mounts[k] = &ros.Mount{Source: &recFS{name: k, log: log}, Target: k}
	}
	return ros.NewVirtualOS(context.Background(), ros.WithMounts(mounts), ros.WithCwd(cwd))
}

// every single-path method of VirtualOS must choose the same (mount, rel)
func mountObs(vos *ros.VirtualOS, log *[]string, p string) string {
	type call struct {
		name string
		f    func()
		two  bool
	}
	calls := []call{
		{"Stat", func() { vos.Stat(p) }, false},
		{"Open", func() { vos.Open(p) }, false},
		{"Create", func() { vos.Create(p) }, false},
		{"Mkdir", func() { vos.Mkdir(p, 0o755) }, false},
		{"MkdirAll", func() { vos.MkdirAll(p, 0o755) }, false},
		{"ReadFile", func() { vos.ReadFile(p) }, false},
		{"Remove", func() { vos.Remove(p) }, false},
		{"RemoveAll", func() { vos.RemoveAll(p) }, false},
		{"WriteFile", func() { vos.WriteFile(p, nil, 0o644) }, false},
		{"ReadDir", func() { vos.ReadDir(p) }, false},
		{"OpenFile", func() { vos.OpenFile(p, os.O_RDONLY, 0) }, false},
		{"WalkDir", func() { vos.WalkDir(p, func(string, fs.DirEntry, error) error { return nil }) }, false},
		{"Rename", func() { vos.Rename(p, p) }, true},
		{"Symlink", func() { vos.Symlink(p, p) }, true},
	}
	first := ""
	for i, c := range calls {
		*log = (*log)[:0]
		c.f()
		obs := "NONE"
		if len(*log) == 1 {
			parts := strings.SplitN((*log)[0], "\t", 3)
			// ReadFile is served through Open by VirtualOS
			obs = parts[0] + "\t" + parts[2]
			if c.two {
				two := strings.SplitN(parts[2], "\x00", 2)
				if len(two) == 2 && two[0] == two[1] {
					obs = parts[0] + "\t" + two[0]
				}
			}
		} else if len(*log) > 1 {
			obs = "MULTI:" + strings.Join(*log, "|")
		}
		if i == 0 {
			first = obs
		} else if obs != first {
			return "DISAGREE " + c.name + ": " + obs + " vs Stat: " + first
		}
	}
	return first
}

// two-path operations with different arguments: Rename and Symlink must agree, and hand (rel1, rel2) to ONE mount or refuse
func twoObs(vos *ros.VirtualOS, log *[]string, p1, p2 string) string {
	one := func(f func()) string {
		*log = (*log)[:0]
		f()
		if len(*log) == 0 {
			return "NONE"
		}
		if len(*log) > 1 {
			return "MULTI:" + hex.EncodeToString([]byte(strings.Join(*log, "|")))
		}
		parts := strings.SplitN((*log)[0], "\t", 3)
		two := strings.SplitN(parts[2], "\x00", 2)
		if len(two) != 2 {
			return "BAD:" + hex.EncodeToString([]byte((*log)[0]))
		}
		return hex.EncodeToString([]byte(parts[0])) + ":" + hex.EncodeToString([]byte(two[0])) + ":" + hex.EncodeToString([]byte(two[1]))
	}
	a := one(func() { vos.Rename(p1, p2) })
	b := one(func() { vos.Symlink(p1, p2) })
	if a != b {
		return "DISAGREE:Rename=" + a + ",Symlink=" + b
	}
	return a
}

// ---------------------------------------------------------------- two-path operations on real trees

// every source gets the same skeleton of directories: the names of the generator's alphabet, every proper suffix of
// them (where a raw string-prefix trim of a sibling name lands), and one more level under the names themselves
func skeletonDirs(names []string) []string {
	seen := map[string]bool{}
	var first []string
	add := func(n string) {
		if n != "" && n != "." && n != ".." && !strings.Contains(n, "/") && !seen[n] {
			seen[n] = true
			first = append(first, n)
		}
	}
	for _, n := range names {
		add(n)
		for i := 1; i < len(n); i++ {
			add(n[i:])
		}
	}
	out := append([]string{}, first...)
	for _, a := range first {
		for _, b := range names {
			if b != "" && b != "." && b != ".." {
				out = append(out, a+"/"+b)
			}
		}
	}
	return out
}

func listEntries(root string) map[string]string {
	m := map[string]string{}
	filepath.WalkDir(root, func(path string, d fs.DirEntry, err error) error {
		if err != nil || d == nil || path == root {
			return nil
		}
		info, e := os.Lstat(path)
		if e != nil {
			return nil
		}
		rel, _ := filepath.Rel(root, path)
		switch {
		case info.Mode()&os.ModeSymlink != 0:
			t, _ := os.Readlink(path)
			m[rel] = "link->" + t
		case info.Mode().IsRegular():
			b, _ := os.ReadFile(path)
			m[rel] = "file:" + string(b)
		default:
			m[rel] = "dir"
		}
		return nil
	})
	return m
}

func twoTree(cwd string, keys []string, names []string) int {
	root, err := os.MkdirTemp("", "c13two")
	if err != nil {
		fmt.Fprintln(os.Stderr, err)
		return 1
	}
	defer os.RemoveAll(root)
	root, _ = filepath.EvalSymlinks(root)
	skel := skeletonDirs(names)
	mounts := map[string]*ros.Mount{}
	for i, k := range keys {
		src := filepath.Join(root, fmt.Sprintf("src%d", i))
		for _, d := range skel {
			os.MkdirAll(filepath.Join(src, d), 0o755)
		}
		os.MkdirAll(src, 0o755)
		os.WriteFile(filepath.Join(src, "SENTINEL.txt"), []byte(fmt.Sprintf("sentinel of source %d", i)), 0o644)
		lfs, err := localfs.New(context.Background(), localfs.WithBase(src))
		if err != nil {
			fmt.Fprintln(os.Stderr, err)
			return 1
		}
		mounts[k] = &ros.Mount{Source: lfs, Target: k}
	}
	os.WriteFile(filepath.Join(root, "OUTSIDE.txt"), []byte("outside"), 0o644)
	vos := ros.NewVirtualOS(context.Background(), ros.WithMounts(mounts), ros.WithCwd(cwd))
	w := bufio.NewWriterSize(os.Stdout, 1<<20)
	defer w.Flush()
	sc := bufio.NewScanner(os.Stdin)
	sc.Buffer(make([]byte, 1<<20), 1<<20)
	unhex := func(h string) string { b, _ := hex.DecodeString(h); return string(b) }
	for sc.Scan() {
		f := strings.Split(sc.Text(), " ")
		if len(f) != 5 {
			fmt.Fprintln(w, sc.Text()+"\tBADLINE")
			continue
		}
		op, p1, p2 := f[0], unhex(f[1]), unhex(f[2])
		si, _ := strconv.Atoi(f[3])
		rel1 := unhex(f[4])
		// the file the operation is about, placed by the harness where the CALLER says the first path lives
		if si >= 0 && rel1 != "" {
			host := filepath.Join(root, fmt.Sprintf("src%d", si), rel1)
			os.MkdirAll(filepath.Dir(host), 0o755)
			if st, err := os.Lstat(host); err != nil || !st.IsDir() {
				os.WriteFile(host, []byte("payload"), 0o644)
			}
		}
		before := listEntries(root)
		var opErr error
		if op == "Rename" {
			opErr = vos.Rename(p1, p2)
		} else {
			opErr = vos.Symlink(p1, p2)
		}
		after := listEntries(root)
		var changes []string
		for k, v := range before {
			if a, ok := after[k]; !ok {
				changes = append(changes, "-"+k)
			} else if a != v {
				changes = append(changes, "~"+k)
			}
		}
		for k, v := range after {
			if _, ok := before[k]; !ok {
				if strings.HasPrefix(v, "link->") {
					t := strings.TrimPrefix(v, "link->")
					if r, err := filepath.Rel(root, t); err == nil && !strings.HasPrefix(r, "..") {
						t = "@ROOT/" + r
					}
					changes = append(changes, "+"+k+"=link->"+t)
				} else {
					changes = append(changes, "+"+k)
				}
			}
		}
		sort.Strings(changes)
		e := "ok"
		if opErr != nil {
			e = "err"
		}
		fmt.Fprintf(w, "%s\t%s\t%s\n", sc.Text(), e, hex.EncodeToString([]byte(strings.Join(changes, "\n"))))
		// back to the skeleton: everything that is not a directory or a sentinel goes
		for k, v := range after {
			if v != "dir" && !strings.HasSuffix(k, "SENTINEL.txt") && k != "OUTSIDE.txt" {
				os.Remove(filepath.Join(root, k))
			}
		}
		for i := range keys {
			os.WriteFile(filepath.Join(root, fmt.Sprintf("src%d", i), "SENTINEL.txt"), []byte(fmt.Sprintf("sentinel of source %d", i)), 0o644)
		}
	}
	return 0
}

func resolveLine(base, p string) string {
	c := filepath.Clean(p)
	r, err := ros.ResolvePath(base, p, "op")
	rs := "OK " + r
	if err != nil {
		rs = "INVALID"
	}
	return p + "\t" + c + "\t" + rs
}

// ---------------------------------------------------------------- localfs over a sentinel tree

func snapshot(root string, skip string) map[string]string {
	m := map[string]string{}
	filepath.WalkDir(root, func(path string, d fs.DirEntry, err error) error {
		if err != nil {
			return nil
		}
		if path == skip {
			if d != nil && d.IsDir() {
				return filepath.SkipDir
			}
			return nil // the base was replaced by a file: skipping "the directory" would skip its siblings
		}
		info, e := os.Lstat(path)
		if e != nil {
			return nil
		}
		desc := info.Mode().String()
		if info.Mode().IsRegular() {
			b, _ := os.ReadFile(path)
			desc += ":" + string(b)
		}
		if info.Mode()&os.ModeSymlink != 0 {
			t, _ := os.Readlink(path)
			desc += "->" + t
		}
		m[path] = desc
		return nil
	})
	return m
}

func diffSnap(a, b map[string]string) []string {
	var out []string
	for k, v := range a {
		if w, ok := b[k]; !ok {
			out = append(out, "removed "+k)
		} else if w != v {
			out = append(out, "changed "+k)
		}
	}
	for k := range b {
		if _, ok := a[k]; !ok {
			out = append(out, "created "+k)
		}
	}
	sort.Strings(out)
	return out
}

var hostRoots = []string{"/a", "/b", "/..a", "/a.."}

func hostRootState() string {
	var s []string
	for _, r := range hostRoots {
		if _, err := os.Lstat(r); err == nil {
			s = append(s, r)
		}
	}
	return strings.Join(s, ",")
}

// baseLayout: one SPELLING of the base directory of a rooted filesystem.  Inside the jail (a chroot into a scratch
// directory, so that "the host" is the scratch tree and an unrooted filesystem cannot reach the machine) the base is
// always the directory /base; chdir is the working directory of the process, base the text handed to WithBase.
type baseLayout struct{ name, chdir, base string }

var baseLayouts = []baseLayout{
	{"dot", "/base", "."},
	{"dot-slash", "/base", "./"},
	{"dot-slash-dot", "/base", "./."},
	{"sub-up", "/base", "a/.."},
	{"sub-sub-up", "/base", "a/b/../../"},
	{"rel", "/", "base"},
	{"rel-dot-slash", "/", "./base/"},
	{"rel-doubled", "/", "base//"},
	{"rel-updown", "/", "cwd/../base"},
	{"rel-from-sibling", "/cwd", "../base"},
	{"abs-doubled", "/cwd", "//base//"},
	{"abs-dot", "/cwd", "/base/."},
	{"abs-updown", "/cwd", "/outside/../base/"},
	{"link-cwd", "/linkbase", "."},
	{"link-cwd-slash", "/linkbase", "./"},
	{"abs", "/cwd", "/base"},
}

func localfsRun(maxSeg int, layout *baseLayout) int {
	top, err := os.MkdirTemp("", "verif-c13-")
	if err != nil {
		fmt.Println("ERROR mkdirtemp", err)
		return 2
	}
	defer os.RemoveAll(top)
	if layout != nil {
		// jail: from here on "/" is the scratch directory
		if err := syscall.Chroot(top); err != nil {
			fmt.Printf("NOJAIL\t%v\n", err)
			return 0
		}
		os.Chdir("/")
		top = "/"
		os.Setenv("TMPDIR", "/tmp")
		os.MkdirAll("/tmp", 0o777)
	}
	base := filepath.Join(top, "base")
	cwd := filepath.Join(top, "cwd")
	outside := filepath.Join(top, "outside")
	chdir := cwd
	baseText := base
	if layout != nil {
		chdir, baseText = layout.chdir, layout.base
		os.Symlink("base", "/linkbase")
	}
	reset := func() {
		os.RemoveAll(base)
		os.MkdirAll(filepath.Join(base, "a", "b"), 0o755)
		os.WriteFile(filepath.Join(base, "a", "f"), []byte("inside"), 0o644)
		os.WriteFile(filepath.Join(base, "b"), []byte("inside-b"), 0o644)
		if layout != nil {
			os.Chdir(chdir) // the working directory may be the base itself, which was just replaced
		}
	}
	os.MkdirAll(cwd, 0o755)
	os.MkdirAll(filepath.Join(outside, "a"), 0o755)
	os.WriteFile(filepath.Join(outside, "secret"), []byte("secret"), 0o644)
	os.WriteFile(filepath.Join(outside, "a", "f"), []byte("secret-a"), 0o644)
	os.WriteFile(filepath.Join(top, "a"), []byte("sentinel-a"), 0o644)
	os.WriteFile(filepath.Join(top, "b"), []byte("sentinel-b"), 0o644)
	os.WriteFile(filepath.Join(cwd, "a"), []byte("cwd-a"), 0o644)
	// siblings of the base whose names extend the base's name: a string-prefix test would take them for the base
	for _, sib := range []string{"basex", "base-old", "base.bak"} {
		os.MkdirAll(filepath.Join(top, sib, "a"), 0o755)
		os.WriteFile(filepath.Join(top, sib, "secret"), []byte("secret-sibling"), 0o644)
		os.WriteFile(filepath.Join(top, sib, "a", "f"), []byte("secret-sibling-a"), 0o644)
	}
	reset()
	if err := os.Chdir(chdir); err != nil {
		fmt.Println("ERROR chdir", err)
		return 2
	}
	lfs, err := localfs.New(context.Background(), localfs.WithBase(baseText))
	if err != nil {
		if layout != nil {
			// a spelling the constructor refuses roots nothing: nothing to judge
			fmt.Printf("REFUSED\t%s\t%v\n", layout.name, err)
			fmt.Printf("SUMMARY\tevals=0\trejected=0\tviolations=0\tpaths=0\tops=0\n")
			return 0
		}
		fmt.Println("ERROR localfs.New", err)
		return 2
	}
	hostBefore := hostRootState()
	var paths []string
	enumerate(maxSeg, func(p string) { paths = append(paths, p) })
	// host spellings: what a script sees in error messages, in MkdirTemp / WalkDir results or in its configuration
	for _, hp := range []string{base, base + "/", base + "/a/f", base + "/a", base + "x", base + "x/secret", base + "x/a/f", base + "x/new",
		base + "-old/secret", base + ".bak/a/f", base + "/../basex/secret", base + "/../outside/secret", top, top + "/outside/secret",
		top + "/a", "/" + base, base + "//a/f", base + "/./a/../../basex/a/f", strings.TrimPrefix(base, "/"), strings.TrimPrefix(base, "/") + "x/secret"} {
		paths = append(paths, hp)
	}
	type op struct {
		name string
		f    func(p, q string) error
		two  bool
	}
	ops := []op{
		{"Create", func(p, _ string) error {
			f, e := lfs.Create(p)
			if f != nil {
				f.Close()
			}
			return e
		}, false},
		{"Mkdir", func(p, _ string) error { return lfs.Mkdir(p, 0o755) }, false},
		{"MkdirAll", func(p, _ string) error { return lfs.MkdirAll(p, 0o755) }, false},
		{"MkdirTemp", func(p, _ string) error { _, e := lfs.MkdirTemp(p, "t"); return e }, false},
		{"Open", func(p, _ string) error {
			f, e := lfs.Open(p)
			if f != nil {
				f.Close()
			}
			return e
		}, false},
		{"OpenFile", func(p, _ string) error {
			f, e := lfs.OpenFile(p, os.O_RDWR|os.O_CREATE, 0o644)
			if f != nil {
				f.Close()
			}
			return e
		}, false},
		{"ReadFile", func(p, _ string) error { _, e := lfs.ReadFile(p); return e }, false},
		{"Remove", func(p, _ string) error { return lfs.Remove(p) }, false},
		{"RemoveAll", func(p, _ string) error { return lfs.RemoveAll(p) }, false},
		{"Stat", func(p, _ string) error { _, e := lfs.Stat(p); return e }, false},
		{"WriteFile", func(p, _ string) error { return lfs.WriteFile(p, []byte("w"), 0o644) }, false},
		{"ReadDir", func(p, _ string) error { _, e := lfs.ReadDir(p); return e }, false},
		{"WalkDir", func(p, _ string) error {
			return lfs.WalkDir(p, func(string, fs.DirEntry, error) error { return nil })
		}, false},
		{"Rename", func(p, q string) error { return lfs.Rename(p, q) }, true},
		{"Symlink", func(p, q string) error { return lfs.Symlink(p, q) }, true},
	}
	// partner paths for the two-path operations
	partners := []string{"a/f", "new", "../a", "/../b", "a/../../outside/secret", "..a", "b", base + "x/secret", base + "x/moved"}
	violations := 0
	evals := 0
	rejected := 0
	readLeak := 0
	for _, o := range ops {
		for _, p := range paths {
			qs := []string{""}
			if o.two {
				qs = partners
			}
			for _, q := range qs {
				for swap := 0; swap < 2; swap++ {
					if !o.two && swap == 1 {
						continue
					}
					a, b := p, q
					if swap == 1 {
						a, b = q, p
					}
					reset()
					before := snapshot(top, base)
					err := o.f(a, b)
					after := snapshot(top, base)
					evals++
					var pe *fs.PathError
					if err != nil && errors.As(err, &pe) && errors.Is(pe.Err, fs.ErrInvalid) {
						rejected++
					}
					d := diffSnap(before, after)
					hr := hostRootState()
					if len(d) > 0 || hr != hostBefore {
						violations++
						fmt.Printf("VIOL\t%s\t%s\t%s\t%s\thost=%s\n", o.name, hex.EncodeToString([]byte(a)),
							hex.EncodeToString([]byte(b)), strings.Join(d, ";"), hr)
						for _, r := range hostRoots {
							if !strings.Contains(hostBefore, r) {
								os.RemoveAll(r)
							}
						}
						// restore sentinels
						os.MkdirAll(filepath.Join(outside, "a"), 0o755)
						os.WriteFile(filepath.Join(outside, "secret"), []byte("secret"), 0o644)
						os.WriteFile(filepath.Join(outside, "a", "f"), []byte("secret-a"), 0o644)
						os.WriteFile(filepath.Join(top, "a"), []byte("sentinel-a"), 0o644)
						os.WriteFile(filepath.Join(top, "b"), []byte("sentinel-b"), 0o644)
						os.MkdirAll(cwd, 0o755)
						os.WriteFile(filepath.Join(cwd, "a"), []byte("cwd-a"), 0o644)
						if layout != nil {
							os.MkdirAll("/tmp", 0o777)
							if t, e := os.Readlink("/linkbase"); e != nil || t != "base" {
								os.RemoveAll("/linkbase")
								os.Symlink("base", "/linkbase")
							}
						}
						for _, sib := range []string{"basex", "base-old", "base.bak"} {
							os.RemoveAll(filepath.Join(top, sib))
							os.MkdirAll(filepath.Join(top, sib, "a"), 0o755)
							os.WriteFile(filepath.Join(top, sib, "secret"), []byte("secret-sibling"), 0o644)
							os.WriteFile(filepath.Join(top, sib, "a", "f"), []byte("secret-sibling-a"), 0o644)
						}
					}
					// reads must not reveal outside content
					if o.name == "ReadFile" {
						if data, e := lfs.ReadFile(a); e == nil {
							s := string(data)
							if strings.HasPrefix(s, "secret") || strings.HasPrefix(s, "sentinel") || s == "cwd-a" {
								readLeak++
								fmt.Printf("VIOL\tReadFile-leak\t%s\t\t%s\n", hex.EncodeToString([]byte(a)), s)
							}
						}
					}
				}
			}
		}
	}
	fmt.Printf("SUMMARY\tevals=%d\trejected=%d\tviolations=%d\tpaths=%d\tops=%d\n", evals, rejected, violations+readLeak, len(paths), len(ops))
	return 0
}

// ---------------------------------------------------------------- localfs histories (symbolic links, renames, chains)

// physical resolves an absolute path the way the kernel does: component by component, following symbolic links
// (a relative link text is taken against the directory that holds the link), ".." taken physically.  Components
// that do not exist are appended as they are.  ok=false: more than 40 links (a loop).
func physical(p string) (string, bool) {
	var todo []string
	push := func(t string) {
		var cs []string
		for _, c := range strings.Split(t, "/") {
			if c != "" && c != "." {
				cs = append(cs, c)
			}
		}
		todo = append(cs, todo...)
	}
	push(p)
	cur := "/"
	links := 0
	for len(todo) > 0 {
		c := todo[0]
		todo = todo[1:]
		if c == ".." {
			cur = filepath.Dir(cur)
			continue
		}
		cand := filepath.Join(cur, c)
		info, err := os.Lstat(cand)
		if err == nil && info.Mode()&os.ModeSymlink != 0 {
			links++
			if links > 40 {
				return "", false
			}
			t, err := os.Readlink(cand)
			if err != nil {
				return "", false
			}
			if strings.HasPrefix(t, "/") {
				cur = "/"
			}
			push(t)
			continue
		}
		cur = cand
	}
	return cur, true
}

func under(dir, p string) bool {
	return p == dir || strings.HasPrefix(p, dir+"/")
}

type histOut struct {
	I       int        `json:"i"`
	Res     []string   `json:"res"`   // per executed operation: ok | invalid | err
	Links   [][]string `json:"links"` // [op index, hex(first argument), hex(stored link text, the base written as @BASE)]
	Viol    []string   `json:"viol"`  // what left the base (after the first one only the reading operations are carried out)
	Chain   int        `json:"chain"` // links whose creation or target path went through another link
	Problem string     `json:"problem,omitempty"`
}

const outMark = "OUT-"

func lfsHistories() int {
	scratch, err := os.MkdirTemp("", "verif-c13h-")
	if err != nil {
		fmt.Println("ERROR mkdirtemp", err)
		return 2
	}
	defer os.RemoveAll(scratch)
	if real, e := filepath.EvalSymlinks(scratch); e == nil {
		scratch = real
	}
	// the base lies several directories deep, so that a link that climbs a few levels is still inside the scratch tree
	top := filepath.Join(scratch, outMark+"l1", outMark+"l2", outMark+"l3", outMark+"l4", "top")
	base := filepath.Join(top, "base")
	outsideFiles := map[string]string{}
	for d := filepath.Dir(top); under(scratch, d); d = filepath.Dir(d) {
		outsideFiles[filepath.Join(d, outMark+"secret.txt")] = "secret-up"
	}
	outsideFiles[filepath.Join(top, outMark+"secret.txt")] = "secret"
	outsideFiles[filepath.Join(top, "secret.txt")] = "secret-plain"
	outsideFiles[filepath.Join(top, "a")] = "sentinel-a"
	outsideFiles[filepath.Join(top, "f")] = "sentinel-f"
	outsideFiles[filepath.Join(top, outMark+"dir", "a", "f")] = "secret-a"
	outsideFiles[filepath.Join(top, outMark+"dir", "f")] = "secret-f"
	outsideFiles[filepath.Join(top, "basex", "f")] = "secret-sibling"
	restoreOutside := func() {
		for p, c := range outsideFiles {
			os.MkdirAll(filepath.Dir(p), 0o755)
			if fi, e := os.Lstat(p); e == nil && !fi.Mode().IsRegular() {
				os.RemoveAll(p)
			}
			os.WriteFile(p, []byte(c), 0o644)
		}
	}
	reset := func() {
		os.RemoveAll(base)
		os.MkdirAll(filepath.Join(base, "a", "b"), 0o755)
		os.MkdirAll(filepath.Join(base, "d"), 0o755)
		os.WriteFile(filepath.Join(base, "a", "f"), []byte("inside"), 0o644)
		os.WriteFile(filepath.Join(base, "f"), []byte("inside-f"), 0o644)
	}
	restoreOutside()
	cwd := filepath.Join(top, "cwd")
	os.MkdirAll(cwd, 0o755)
	os.Chdir(cwd)
	lfs, err := localfs.New(context.Background(), localfs.WithBase(base))
	if err != nil {
		fmt.Println("ERROR localfs.New", err)
		return 2
	}
	realBase, _ := physical(base)
	unhex := func(h string) string { b, _ := hex.DecodeString(h); return string(b) }
	w := bufio.NewWriterSize(os.Stdout, 1<<20)
	defer w.Flush()
	enc := json.NewEncoder(w)
	sc := bufio.NewScanner(os.Stdin)
	sc.Buffer(make([]byte, 1<<20), 1<<24)
	idx := 0
	for sc.Scan() {
		line := strings.TrimSpace(sc.Text())
		out := histOut{I: idx, Res: []string{}, Links: [][]string{}, Viol: []string{}}
		idx++
		if line == "" {
			enc.Encode(&out)
			continue
		}
		reset()
		before := snapshot(scratch, base)
		readOnly := false
		for k, o := range strings.Split(line, ";") {
			f := strings.Split(o, ":")
			name := f[0]
			a, b := "", ""
			if len(f) > 1 {
				a = unhex(f[1])
			}
			if len(f) > 2 {
				b = unhex(f[2])
			}
			var err error
			var leak string
			// where do the host paths of the arguments lead, physically, before the operation (the first argument of
			// Symlink is only stored, not accessed: it is judged by where the new link leads)
			var reach []string
			for ai, arg := range []string{a, b} {
				if ai >= len(f)-1 || (name == "Symlink" && ai == 0) {
					continue
				}
				if hp, e := ros.ResolvePath(base, arg, "op"); e == nil {
					if leads, ok := physical(hp); ok && !under(realBase, leads) {
						reach = append(reach, fmt.Sprintf("argument %q reaches %s", arg, strings.Replace(leads, scratch, "<scratch>", 1)))
					}
				}
			}
			if readOnly && name != "ReadFile" && name != "ReadDir" && name != "Stat" && name != "WalkDir" {
				out.Res = append(out.Res, "skipped")
				continue
			}
			switch name {
			case "Mkdir":
				err = lfs.Mkdir(a, 0o755)
			case "MkdirAll":
				err = lfs.MkdirAll(a, 0o755)
			case "Symlink":
				err = lfs.Symlink(a, b)
			case "Rename":
				err = lfs.Rename(a, b)
			case "WriteFile":
				err = lfs.WriteFile(a, []byte("written"), 0o644)
			case "Create":
				var fl ros.File
				fl, err = lfs.Create(a)
				if fl != nil {
					fl.Close()
				}
			case "Remove":
				err = lfs.Remove(a)
			case "RemoveAll":
				err = lfs.RemoveAll(a)
			case "Stat":
				_, err = lfs.Stat(a)
			case "ReadFile":
				var data []byte
				data, err = lfs.ReadFile(a)
				if err == nil && (strings.HasPrefix(string(data), "secret") || strings.HasPrefix(string(data), "sentinel")) {
					leak = "ReadFile returned the content of a file outside the base: " + string(data)
				}
			case "ReadDir":
				_, err = lfs.ReadDir(a)
			case "WalkDir":
				err = lfs.WalkDir(a, func(p string, d fs.DirEntry, e error) error {
					if !under(base, p) {
						leak = "WalkDir visited " + p
					}
					return nil
				})
			default:
				fmt.Fprintln(os.Stderr, "unknown op", name)
				return 2
			}
			r := "ok"
			var pe *fs.PathError
			if err != nil {
				r = "err"
				if errors.As(err, &pe) && errors.Is(pe.Err, fs.ErrInvalid) {
					r = "invalid"
				}
			}
			out.Res = append(out.Res, r)
			if leak != "" {
				out.Viol = append(out.Viol, fmt.Sprintf("op %d %s: %s", k, name, leak))
			}
			if err == nil && len(reach) > 0 {
				out.Viol = append(out.Viol, fmt.Sprintf("op %d %s succeeded on a host path outside the base: %s", k, name, strings.Join(reach, "; ")))
			}
			// the link just made: what text was stored, and did making it involve another link
			if name == "Symlink" && err == nil {
				if np, e := ros.ResolvePath(base, b, "symlink"); e == nil {
					if t, e := os.Readlink(np); e == nil {
						st := t
						if under(base, t) {
							st = "@BASE" + strings.TrimPrefix(t, base)
						}
						out.Links = append(out.Links, []string{strconv.Itoa(k), hex.EncodeToString([]byte(a)), hex.EncodeToString([]byte(st))})
					}
				}
			}
			// (1) every symbolic link inside the base must physically lead into the base
			through := 0
			filepath.WalkDir(base, func(p string, d fs.DirEntry, e error) error {
				if e != nil || d.Type()&os.ModeSymlink == 0 {
					return nil
				}
				t, _ := os.Readlink(p)
				leads, ok := physical(p)
				// the resolver of this harness against the standard library's (which asks the kernel about every component)
				if ev, e := filepath.EvalSymlinks(p); e == nil && ok && ev != leads {
					out.Problem = fmt.Sprintf("op %d: resolver disagreement on %s: physical=%s EvalSymlinks=%s", k, p, leads, ev)
				}
				if ok && !under(realBase, leads) {
					out.Viol = append(out.Viol, fmt.Sprintf("op %d %s: the link %s (stored text %q) leads to %s, outside the base",
						k, name, strings.TrimPrefix(p, base+"/"), t, strings.Replace(leads, scratch, "<scratch>", 1)))
				}
				// a chain: the directory holding the link, or the stored target, passes through another link
				tp := t
				if !strings.HasPrefix(tp, "/") {
					tp = filepath.Join(filepath.Dir(p), tp)
				}
				if dir, ok := physical(filepath.Dir(p)); ok && dir != filepath.Dir(p) {
					through++
				} else if lead2, ok := physical(tp); ok && lead2 != filepath.Clean(tp) {
					through++
				}
				return nil
			})
			if through > out.Chain {
				out.Chain = through
			}
			// (2) nothing outside the base may change
			after := snapshot(scratch, base)
			if d := diffSnap(before, after); len(d) > 0 {
				for i := range d {
					d[i] = strings.Replace(d[i], scratch, "<scratch>", 1)
				}
				out.Viol = append(out.Viol, fmt.Sprintf("op %d %s: effect outside the base: %s", k, name, strings.Join(d, "; ")))
				for p := range after {
					if _, ok := before[p]; !ok {
						os.RemoveAll(p)
					}
				}
				restoreOutside()
				os.MkdirAll(cwd, 0o755)
			}
			if len(out.Viol) > 0 {
				readOnly = true // nothing is changed THROUGH a link that leaves the base; reads go on (what do they reveal)
			}
		}
		enc.Encode(&out)
	}
	return 0
}

func main() {
	if len(os.Args) < 2 {
		fmt.Fprintln(os.Stderr, "usage: c13obs <mode> ...")
		os.Exit(2)
	}
	w := bufio.NewWriterSize(os.Stdout, 1<<20)
	defer w.Flush()
	switch os.Args[1] {
	case "paths":
		n, _ := strconv.Atoi(os.Args[2])
		enumerate(n, func(p string) { fmt.Fprintln(w, p) })
	case "resolve":
		base := os.Args[2]
		n, _ := strconv.Atoi(os.Args[3])
		enumerate(n, func(p string) { fmt.Fprintln(w, resolveLine(base, p)) })
	case "stdin-resolve":
		base := os.Args[2]
		sc := bufio.NewScanner(os.Stdin)
		sc.Buffer(make([]byte, 1<<20), 1<<20)
		for sc.Scan() {
			b, _ := hex.DecodeString(sc.Text())
			p := string(b)
			c := filepath.Clean(p)
			r, err := ros.ResolvePath(base, p, "op")
			rs := "OK " + hex.EncodeToString([]byte(r))
			if err != nil {
				rs = "INVALID"
			}
			fmt.Fprintf(w, "%s\t%s\t%s\n", sc.Text(), hex.EncodeToString([]byte(c)), rs)
		}
	case "mounts":
		cwd := os.Args[2]
		n, _ := strconv.Atoi(os.Args[3])
		keys := strings.Split(os.Args[4], ",")
		var log []string
		vos := newVOS(cwd, keys, &log)
		enumerate(n, func(p string) { fmt.Fprintln(w, p+"\t"+mountObs(vos, &log, p)) })
	case "stdin-mounts":
		cwd := os.Args[2]
		keys := strings.Split(os.Args[3], ",")
		var log []string
		vos := newVOS(cwd, keys, &log)
		sc := bufio.NewScanner(os.Stdin)
		sc.Buffer(make([]byte, 1<<20), 1<<20)
		for sc.Scan() {
			b, _ := hex.DecodeString(sc.Text())
			o := mountObs(vos, &log, string(b))
			fmt.Fprintf(w, "%s\t%s\n", sc.Text(), hex.EncodeToString([]byte(o)))
		}
	case "two":
		cwd := os.Args[2]
		keys := strings.Split(os.Args[3], ",")
		var log []string
		vos := newVOS(cwd, keys, &log)
		sc := bufio.NewScanner(os.Stdin)
		sc.Buffer(make([]byte, 1<<20), 1<<20)
		for sc.Scan() {
			f := strings.Split(sc.Text(), " ")
			if len(f) != 2 {
				fmt.Fprintln(w, sc.Text()+"\tBADLINE")
				continue
			}
			a, _ := hex.DecodeString(f[0])
			b, _ := hex.DecodeString(f[1])
			fmt.Fprintf(w, "%s\t%s\n", sc.Text(), twoObs(vos, &log, string(a), string(b)))
		}
	case "twotree":
		w.Flush()
		os.Exit(twoTree(os.Args[2], strings.Split(os.Args[3], ","), strings.Split(os.Args[4], ",")))
	case "hist":
		// one history per line: cwd0 SP keys SP ops (hex; op = C<hex> | U<hex>, ';' separated), replayed on ONE VirtualOS
		sc := bufio.NewScanner(os.Stdin)
		sc.Buffer(make([]byte, 1<<20), 1<<20)
		unhex := func(h string) string { b, _ := hex.DecodeString(h); return string(b) }
		for sc.Scan() {
			f := strings.Split(sc.Text(), " ")
			if len(f) != 3 {
				fmt.Fprintln(w, "BADLINE")
				continue
			}
			var keys []string
			for _, k := range strings.Split(f[1], ",") {
				keys = append(keys, unhex(k))
			}
			var log []string
			vos := newVOS(unhex(f[0]), keys, &log)
			var outs []string
			for i, o := range strings.Split(f[2], ";") {
				body := unhex(o[1:])
				if o[0] == 'C' {
					vos.Chdir(body)
					continue
				}
				// rotate through the single-path methods so that every one of them is exercised in histories
				log = log[:0]
				switch i % 6 {
				case 0:
					vos.Stat(body)
				case 1:
					vos.ReadFile(body)
				case 2:
					vos.WriteFile(body, nil, 0o644)
				case 3:
					vos.Remove(body)
				case 4:
					vos.ReadDir(body)
				case 5:
					vos.MkdirAll(body, 0o755)
				}
				if len(log) == 1 {
					parts := strings.SplitN(log[0], "\t", 3)
					outs = append(outs, hex.EncodeToString([]byte(parts[0]))+":"+hex.EncodeToString([]byte(parts[2])))
				} else if len(log) == 0 {
					outs = append(outs, "NONE")
				} else {
					outs = append(outs, "MULTI")
				}
			}
			fmt.Fprintln(w, strings.Join(outs, ";"))
		}
	case "localfs":
		n, _ := strconv.Atoi(os.Args[2])
		w.Flush()
		rc := localfsRun(n, nil)
		os.Exit(rc)
	case "localfs-layouts":
		for _, l := range baseLayouts {
			fmt.Fprintf(w, "%s\t%s\t%s\n", l.name, l.chdir, l.base)
		}
	case "localfs-base":
		// the same run for one SPELLING of the base (index into baseLayouts), inside a chroot jail
		n, _ := strconv.Atoi(os.Args[2])
		k, _ := strconv.Atoi(os.Args[3])
		w.Flush()
		if k < 0 || k >= len(baseLayouts) {
			os.Exit(2)
		}
		os.Exit(localfsRun(n, &baseLayouts[k]))
	case "scriptops":
		// c13obs scriptops [layout [call | #k/n [p1 [p2]]]]
		w.Flush()
		os.Exit(scriptOpsRun(os.Args[2:]))
	case "lfshist":
		w.Flush()
		os.Exit(lfsHistories())
	default:
		fmt.Fprintln(os.Stderr, "unknown mode")
		os.Exit(2)
	}
}
