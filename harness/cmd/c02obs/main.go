// c02obs: implementation-side observations for C02 that need the default globals, concurrency,
// or calls from Go through the VM's Call API.
//
//	c02obs eval    < hex sources            -> OK <value> | ERR <class>
//	c02obs vmcall  < hexsource \t n         -> runs the program on a VM, then from Go calls the global
//	                                           `inc` n times and `get` once: OK (l v1 ... vn g)
package main

import (
	"bufio"
	"context"
	"encoding/hex"
	"fmt"
	"os"
	"sort"
	"strconv"
	"strings"
	"time"

	"github.com/risor-io/risor"
	"github.com/risor-io/risor/compiler"
	"github.com/risor-io/risor/object"
	"github.com/risor-io/risor/parser"
	"github.com/risor-io/risor/vm"
)

func val(o object.Object, depth int) string {
	if depth > 20 {
		return "(deep)"
	}
	switch o := o.(type) {
	case nil:
		return "(gonil)"
	case *object.NilType:
		return "(nil)"
	case *object.Bool:
		if o.Value() {
			return "(b 1)"
		}
		return "(b 0)"
	case *object.Int:
		return fmt.Sprintf("(i %d)", o.Value())
	case *object.String:
		return "(s " + hex.EncodeToString([]byte(o.Value())) + ")"
	case *object.List:
		var parts []string
		for _, it := range o.Value() {
			parts = append(parts, val(it, depth+1))
		}
		return "(l" + pre(parts) + ")"
	case *object.Map:
		m := o.Value()
		var keys []string
		for k := range m {
			keys = append(keys, k)
		}
		sort.Strings(keys)
		var parts []string
		for _, k := range keys {
			parts = append(parts, "("+hex.EncodeToString([]byte(k))+" "+val(m[k], depth+1)+")")
		}
		return "(m" + pre(parts) + ")"
	case *object.Function:
		return "(f)"
	case *object.Error:
		return "(err " + hex.EncodeToString([]byte(o.Value().Error())) + ")"
	}
	return "(other " + string(o.Type()) + ")"
}

func pre(parts []string) string {
	if len(parts) == 0 {
		return ""
	}
	return " " + strings.Join(parts, " ")
}

func errClass(m string) string {
	switch {
	case strings.HasPrefix(m, "panic:"):
		return "XPanic(" + strings.ReplaceAll(m, "\n", " ") + ")"
	case strings.Contains(m, "context deadline"):
		return "TIMEOUT"
	}
	i := strings.Index(m, ":")
	if i > 0 && i < 24 {
		return "X" + strings.ReplaceAll(m[:i], " ", "_")
	}
	return "XOther(" + strings.ReplaceAll(m, "\n", " ") + ")"
}

func main() {
	mode := os.Args[1]
	w := bufio.NewWriterSize(os.Stdout, 1<<20)
	defer w.Flush()
	sc := bufio.NewScanner(os.Stdin)
	sc.Buffer(make([]byte, 1<<20), 1<<24)
	for sc.Scan() {
		line := sc.Text()
		func() {
			defer func() {
				if r := recover(); r != nil {
					fmt.Fprintf(w, "GOPANIC %v\n", r)
				}
			}()
			ctx, cancel := context.WithTimeout(context.Background(), 3*time.Second)
			defer cancel()
			switch mode {
			case "eval":
				b, _ := hex.DecodeString(line)
				res, err := risor.Eval(ctx, string(b), risor.WithConcurrency())
				if err != nil {
					fmt.Fprintln(w, "ERR "+errClass(err.Error()))
					return
				}
				fmt.Fprintln(w, "OK "+val(res, 0))
			case "vmcall":
				f := strings.Split(line, "\t")
				b, _ := hex.DecodeString(f[0])
				n, _ := strconv.Atoi(f[1])
				cfg := risor.NewConfig(risor.WithConcurrency())
				prog, err := parser.Parse(ctx, string(b))
				if err != nil {
					fmt.Fprintln(w, "ERR parse")
					return
				}
				code, err := compiler.Compile(prog, cfg.CompilerOpts()...)
				if err != nil {
					fmt.Fprintln(w, "ERR compile")
					return
				}
				machine, err := vm.NewEmpty()
				if err != nil {
					fmt.Fprintln(w, "ERR vm")
					return
				}
				if err := machine.RunCode(ctx, code, cfg.VMOpts()...); err != nil {
					fmt.Fprintln(w, "ERR "+errClass(err.Error()))
					return
				}
				get := func(name string) *object.Function {
					o, err := machine.Get(name)
					if err != nil {
						return nil
					}
					fn, _ := o.(*object.Function)
					return fn
				}
				inc, g := get("inc"), get("get")
				if inc == nil || g == nil {
					fmt.Fprintln(w, "ERR noclosure")
					return
				}
				var parts []string
				for i := 0; i < n; i++ {
					r, err := machine.Call(ctx, inc, nil)
					if err != nil {
						fmt.Fprintln(w, "ERR "+errClass(err.Error()))
						return
					}
					parts = append(parts, val(r, 0))
				}
				r, err := machine.Call(ctx, g, nil)
				if err != nil {
					fmt.Fprintln(w, "ERR "+errClass(err.Error()))
					return
				}
				parts = append(parts, val(r, 0))
				fmt.Fprintln(w, "OK (l "+strings.Join(parts, " ")+")")
			}
		}()
	}
}
