// c08obs: implementation-side observations for property C08 (Go values cross the host/script boundary
// faithfully or are rejected cleanly).
//
// stdin: one JSON case per line (see type caseIn); stdout: one JSON observation per line.
//
// Types are described structurally ({"k":"int8"}, {"k":"slice","e":T}, {"k":"struct","id":7,"f":[["F0",T],...]},
// {"k":"named","id":1}) and built with reflect (StructOf/SliceOf/ArrayOf/MapOf/PointerTo); named types and the
// receiver type with methods come from the zoo declared below.  Values are described as trees and built with
// reflect.  Every evaluation runs under recover, so "conversion never panics" is observed directly; a panic that
// escapes risor.Eval is reported as "escaped", one that the VM recovered as "panic".
package main

import (
	"bufio"
	"context"
	"encoding/hex"
	"encoding/json"
	"fmt"
	"math"
	"os"
	"reflect"
	"sort"
	"strconv"
	"strings"
	"time"

	"github.com/risor-io/risor"
	"github.com/risor-io/risor/object"
	"github.com/risor-io/risor/vm"
)

// ---------------------------------------------------------------- the zoo of declared types

type MyInt int
type MyI8 int8
type MyU64 uint64
type MyStr string
type MyBool bool
type MyF64 float64
type MyF32 float32
type MyByte uint8
type Ints []int
type Strs []string
type MyInts []MyInt
type SMap map[string]int
type Arr2 [2]int
type PInt *int
type Bytes []byte

type Inner struct {
	A int
	B string
}

var namedTypes = map[int]reflect.Type{
	1: reflect.TypeOf(MyInt(0)), 2: reflect.TypeOf(MyI8(0)), 3: reflect.TypeOf(MyU64(0)), 4: reflect.TypeOf(MyStr("")),
	5: reflect.TypeOf(MyBool(false)), 6: reflect.TypeOf(MyF64(0)), 7: reflect.TypeOf(MyF32(0)), 8: reflect.TypeOf(MyByte(0)),
	9: reflect.TypeOf(time.Duration(0)), 10: reflect.TypeOf(Ints(nil)), 11: reflect.TypeOf(Strs(nil)), 12: reflect.TypeOf(MyInts(nil)),
	13: reflect.TypeOf(SMap(nil)), 14: reflect.TypeOf(Arr2{}), 15: reflect.TypeOf(PInt(nil)), 16: reflect.TypeOf(Bytes(nil)),
}

const innerID = 100

// Rec is the receiver of the method zoo; every method records what it received.
type Rec struct {
	N   int
	got []reflect.Value
}

func (r *Rec) rec(vs ...any) {
	for _, v := range vs {
		r.got = append(r.got, reflect.ValueOf(v))
	}
}
func (r *Rec) TakeInt(a int)                  { r.rec(a) }
func (r *Rec) TakeI8(a int8)                  { r.rec(a) }
func (r *Rec) TakeI64(a int64)                { r.rec(a) }
func (r *Rec) TakeU8(a uint8)                 { r.rec(a) }
func (r *Rec) TakeU32(a uint32)               { r.rec(a) }
func (r *Rec) TakeU64(a uint64)               { r.rec(a) }
func (r *Rec) TakeF32(a float32)              { r.rec(a) }
func (r *Rec) TakeF64(a float64)              { r.rec(a) }
func (r *Rec) TakeStr(a string)               { r.rec(a) }
func (r *Rec) TakeBool(a bool)                { r.rec(a) }
func (r *Rec) TakeTime(a time.Time)           { r.rec(a) }
func (r *Rec) TakeDur(a time.Duration)        { r.rec(a) }
func (r *Rec) TakeMyInt(a MyInt)              { r.rec(a) }
func (r *Rec) TakeMyStr(a MyStr)              { r.rec(a) }
func (r *Rec) TakePInt(a *int)                { r.rec(a) }
func (r *Rec) TakePMyInt(a *MyInt)            { r.rec(a) }
func (r *Rec) TakePInts(a *Ints)              { r.rec(a) }
func (r *Rec) TakeInts(a []int)               { r.rec(a) }
func (r *Rec) TakeNamedInts(a Ints)           { r.rec(a) }
func (r *Rec) TakeMyInts(a MyInts)            { r.rec(a) }
func (r *Rec) TakeStrs(a []string)            { r.rec(a) }
func (r *Rec) TakeBytes(a []byte)             { r.rec(a) }
func (r *Rec) TakeF64s(a []float64)           { r.rec(a) }
func (r *Rec) TakeArr(a [2]int)               { r.rec(a) }
func (r *Rec) TakeArr3S(a [3]string)          { r.rec(a) }
func (r *Rec) TakeMap(a map[string]int)       { r.rec(a) }
func (r *Rec) TakeSMap(a SMap)                { r.rec(a) }
func (r *Rec) TakeMapS(a map[string][]string) { r.rec(a) }
func (r *Rec) TakeAny(a any)                  { r.rec(a) }
func (r *Rec) TakeAnys(a []any)               { r.rec(a) }
func (r *Rec) TakeInner(a Inner)              { r.rec(a) }
func (r *Rec) TakePInner(a *Inner)            { r.rec(a) }
func (r *Rec) TakeSlP(a []*int)               { r.rec(a) }
func (r *Rec) TakeInners(a []Inner)           { r.rec(a) }
func (r *Rec) TakeTwo(a int, b string)        { r.rec(a, b) }
func (r *Rec) TakeThree(a int8, b []int, c map[string]string) {
	r.rec(a, b, c)
}
func (r *Rec) RetInt() int            { return -7 }
func (r *Rec) RetU64() uint64         { return math.MaxUint64 }
func (r *Rec) RetU8() uint8           { return 200 }
func (r *Rec) RetF32() float32        { return 1.5 }
func (r *Rec) RetStr() string         { return "ret" }
func (r *Rec) RetDur() time.Duration  { return time.Second }
func (r *Rec) RetMyInt() MyInt        { return 7 }
func (r *Rec) RetInts() Ints          { return Ints{1, 2} }
func (r *Rec) RetMyInts() MyInts      { return MyInts{1} }
func (r *Rec) RetArr() [2]int         { return [2]int{3, 4} }
func (r *Rec) RetMap() map[string]int { return map[string]int{"a": 1} }
func (r *Rec) RetPInt() *int          { x := 5; return &x }
func (r *Rec) RetNilPInt() *int       { return nil }
func (r *Rec) RetInner() Inner        { return Inner{1, "b"} }
func (r *Rec) RetPInner() *Inner      { return &Inner{2, "c"} }
func (r *Rec) RetAny() any            { return int32(9) }
func (r *Rec) RetNilAny() any         { return nil }
func (r *Rec) RetBytes() []byte       { return []byte("ab") }
func (r *Rec) RetTime() time.Time     { return time.Unix(0, 1500).UTC() }

// ---------------------------------------------------------------- type and value descriptions

type tdesc struct {
	K  string          `json:"k"`
	E  *tdesc          `json:"e,omitempty"`
	N  int             `json:"n,omitempty"`
	ID int             `json:"id,omitempty"`
	F  [][]interface{} `json:"f,omitempty"`
}

var structCache = map[int]reflect.Type{innerID: reflect.TypeOf(Inner{})}

func parseT(raw json.RawMessage) (*tdesc, error) {
	var t tdesc
	if err := json.Unmarshal(raw, &t); err != nil {
		return nil, err
	}
	return &t, nil
}

var scalarTypes = map[string]reflect.Type{
	"bool": reflect.TypeOf(false), "int": reflect.TypeOf(int(0)), "int8": reflect.TypeOf(int8(0)), "int16": reflect.TypeOf(int16(0)),
	"int32": reflect.TypeOf(int32(0)), "int64": reflect.TypeOf(int64(0)), "uint": reflect.TypeOf(uint(0)), "uint8": reflect.TypeOf(uint8(0)),
	"uint16": reflect.TypeOf(uint16(0)), "uint32": reflect.TypeOf(uint32(0)), "uint64": reflect.TypeOf(uint64(0)),
	"float32": reflect.TypeOf(float32(0)), "float64": reflect.TypeOf(float64(0)), "string": reflect.TypeOf(""),
	"time": reflect.TypeOf(time.Time{}), "iface": reflect.TypeOf((*any)(nil)).Elem(),
}

func buildType(t *tdesc) (reflect.Type, error) {
	if st, ok := scalarTypes[t.K]; ok {
		return st, nil
	}
	switch t.K {
	case "chan": // kinds outside the property's quantifier: only "rejected with an error, not a panic" is observed
		return reflect.TypeOf(make(chan int)), nil
	case "func":
		return reflect.TypeOf(func() {}), nil
	case "complex":
		return reflect.TypeOf(complex128(0)), nil
	case "mapint":
		return reflect.TypeOf(map[int]int{}), nil
	case "named":
		if nt, ok := namedTypes[t.ID]; ok {
			return nt, nil
		}
		return nil, fmt.Errorf("unknown named type %d", t.ID)
	case "ptr", "slice", "array", "map":
		e, err := buildType(t.E)
		if err != nil {
			return nil, err
		}
		switch t.K {
		case "ptr":
			return reflect.PointerTo(e), nil
		case "slice":
			return reflect.SliceOf(e), nil
		case "array":
			return reflect.ArrayOf(t.N, e), nil
		default:
			return reflect.MapOf(reflect.TypeOf(""), e), nil
		}
	case "struct":
		if st, ok := structCache[t.ID]; ok {
			return st, nil
		}
		var fields []reflect.StructField
		for _, f := range t.F {
			name := f[0].(string)
			raw, _ := json.Marshal(f[1])
			ft, err := parseT(raw)
			if err != nil {
				return nil, err
			}
			rt, err := buildType(ft)
			if err != nil {
				return nil, err
			}
			fields = append(fields, reflect.StructField{Name: name, Type: rt})
		}
		st := reflect.StructOf(fields)
		structCache[t.ID] = st
		return st, nil
	}
	return nil, fmt.Errorf("unknown type kind %q", t.K)
}

// value descriptions: {"b":true} {"i":"-5"} {"f":"3ff8000000000000"} {"s":"6869"} {"t":"1500"} "nil"
// {"box":V} {"sl":[V..]} {"arr":[V..]} {"map":[[hexkey,V]..]} {"st":[V..]} {"dyn":[T,V]} {"cell":1} (pointer to heap cell)
func buildValue(rt reflect.Type, raw json.RawMessage, cells []reflect.Value) (reflect.Value, error) {
	var s string
	if json.Unmarshal(raw, &s) == nil {
		if s == "nil" {
			return reflect.Zero(rt), nil
		}
		return reflect.Value{}, fmt.Errorf("bad value %q", s)
	}
	var m map[string]json.RawMessage
	if err := json.Unmarshal(raw, &m); err != nil {
		return reflect.Value{}, err
	}
	out := reflect.New(rt).Elem()
	for k, v := range m {
		switch k {
		case "b":
			var b bool
			json.Unmarshal(v, &b)
			out.SetBool(b)
		case "i":
			var ds string
			json.Unmarshal(v, &ds)
			switch rt.Kind() {
			case reflect.Int, reflect.Int8, reflect.Int16, reflect.Int32, reflect.Int64:
				n, err := strconv.ParseInt(ds, 10, 64)
				if err != nil {
					return out, err
				}
				out.SetInt(n)
			default:
				n, err := strconv.ParseUint(ds, 10, 64)
				if err != nil {
					return out, err
				}
				out.SetUint(n)
			}
		case "f":
			var hs string
			json.Unmarshal(v, &hs)
			bits, err := strconv.ParseUint(hs, 16, 64)
			if err != nil {
				return out, err
			}
			out.SetFloat(math.Float64frombits(bits))
		case "s":
			var hs string
			json.Unmarshal(v, &hs)
			b, _ := hex.DecodeString(hs)
			out.SetString(string(b))
		case "t":
			var ds string
			json.Unmarshal(v, &ds)
			n, _ := strconv.ParseInt(ds, 10, 64)
			if n != 0 { // 0 denotes the zero time.Time
				out.Set(reflect.ValueOf(time.Unix(0, n).UTC()))
			}
		case "box":
			e, err := buildValue(rt.Elem(), v, cells)
			if err != nil {
				return out, err
			}
			p := reflect.New(rt.Elem())
			p.Elem().Set(e)
			if p.Type() != rt { // named pointer type
				p = p.Convert(rt)
			}
			out.Set(p)
		case "cell":
			var n int
			json.Unmarshal(v, &n)
			out.Set(cells[n])
		case "sl", "arr":
			var items []json.RawMessage
			json.Unmarshal(v, &items)
			if k == "sl" {
				out.Set(reflect.MakeSlice(rt, len(items), len(items)))
			}
			for i, it := range items {
				e, err := buildValue(rt.Elem(), it, cells)
				if err != nil {
					return out, err
				}
				out.Index(i).Set(e)
			}
		case "map":
			var items [][]json.RawMessage
			json.Unmarshal(v, &items)
			out.Set(reflect.MakeMapWithSize(rt, len(items)))
			for _, kv := range items {
				var hk string
				json.Unmarshal(kv[0], &hk)
				kb, _ := hex.DecodeString(hk)
				e, err := buildValue(rt.Elem(), kv[1], cells)
				if err != nil {
					return out, err
				}
				out.SetMapIndex(reflect.ValueOf(string(kb)), e)
			}
		case "st":
			var items []json.RawMessage
			json.Unmarshal(v, &items)
			for i, it := range items {
				e, err := buildValue(rt.Field(i).Type, it, cells)
				if err != nil {
					return out, err
				}
				out.Field(i).Set(e)
			}
		case "dyn":
			var tv []json.RawMessage
			json.Unmarshal(v, &tv)
			dt, err := parseT(tv[0])
			if err != nil {
				return out, err
			}
			drt, err := buildType(dt)
			if err != nil {
				return out, err
			}
			e, err := buildValue(drt, tv[1], cells)
			if err != nil {
				return out, err
			}
			out.Set(e)
		default:
			return out, fmt.Errorf("bad value key %q", k)
		}
	}
	return out, nil
}

// ---------------------------------------------------------------- canonical descriptions

func typeStr(t reflect.Type) string {
	if t == nil {
		return "nil"
	}
	for id, nt := range namedTypes {
		if nt == t {
			return fmt.Sprintf("N%d", id)
		}
	}
	if t == reflect.TypeOf(time.Time{}) {
		return "time"
	}
	switch t.Kind() {
	case reflect.Pointer:
		return "*" + typeStr(t.Elem())
	case reflect.Slice:
		return "[]" + typeStr(t.Elem())
	case reflect.Array:
		return fmt.Sprintf("[%d]%s", t.Len(), typeStr(t.Elem()))
	case reflect.Map:
		return "map[" + typeStr(t.Key()) + "]" + typeStr(t.Elem())
	case reflect.Struct:
		for id, st := range structCache {
			if st == t {
				return fmt.Sprintf("S%d", id)
			}
		}
		if t == reflect.TypeOf(Rec{}) {
			return "Rec"
		}
		return "S?" + t.String()
	case reflect.Interface:
		return "iface"
	}
	return t.Kind().String()
}

// the Go value as a tree; pointers to structs show the pointee (the model compares contents, not addresses)
func descGo(v reflect.Value, depth int) string {
	if !v.IsValid() {
		return "nil"
	}
	if depth > 12 {
		return "deep"
	}
	t := v.Type()
	if t == reflect.TypeOf(time.Time{}) {
		if v.Interface().(time.Time).IsZero() {
			return "t:0"
		}
		return fmt.Sprintf("t:%d", v.Interface().(time.Time).UnixNano())
	}
	switch t.Kind() {
	case reflect.Bool:
		return fmt.Sprintf("b:%v", v.Bool())
	case reflect.Int, reflect.Int8, reflect.Int16, reflect.Int32, reflect.Int64:
		return fmt.Sprintf("i:%d", v.Int())
	case reflect.Uint, reflect.Uint8, reflect.Uint16, reflect.Uint32, reflect.Uint64:
		return fmt.Sprintf("i:%d", v.Uint())
	case reflect.Float32, reflect.Float64:
		return fmt.Sprintf("f:%016x", math.Float64bits(v.Float()))
	case reflect.String:
		return "s:" + hex.EncodeToString([]byte(v.String()))
	case reflect.Pointer:
		if v.IsNil() {
			return "nil"
		}
		if t.Elem().Kind() == reflect.Struct {
			return "ref(" + descGo(v.Elem(), depth+1) + ")"
		}
		return "box(" + descGo(v.Elem(), depth+1) + ")"
	case reflect.Slice:
		if v.IsNil() {
			return "nil"
		}
		fallthrough
	case reflect.Array:
		parts := make([]string, v.Len())
		for i := range parts {
			parts[i] = descGo(v.Index(i), depth+1)
		}
		if t.Kind() == reflect.Array {
			return "arr[" + strings.Join(parts, ",") + "]"
		}
		return "sl[" + strings.Join(parts, ",") + "]"
	case reflect.Map:
		if v.IsNil() {
			return "nil"
		}
		var parts []string
		for _, k := range v.MapKeys() {
			parts = append(parts, hex.EncodeToString([]byte(k.String()))+"="+descGo(v.MapIndex(k), depth+1))
		}
		sort.Strings(parts)
		return "map{" + strings.Join(parts, ",") + "}"
	case reflect.Struct:
		var parts []string
		for i := 0; i < v.NumField(); i++ {
			if t.Field(i).IsExported() {
				parts = append(parts, descGo(v.Field(i), depth+1))
			}
		}
		return "st{" + strings.Join(parts, ",") + "}"
	case reflect.Interface:
		if v.IsNil() {
			return "nil"
		}
		return "dyn(" + typeStr(v.Elem().Type()) + ";" + descGo(v.Elem(), depth+1) + ")"
	}
	return "?" + t.String()
}

func descIface(x any) string {
	if x == nil {
		return "nil"
	}
	v := reflect.ValueOf(x)
	return "dyn(" + typeStr(v.Type()) + ";" + descGo(v, 0) + ")"
}

// the script-side object
func descObj(o object.Object, depth int) string {
	if depth > 12 {
		return "deep"
	}
	switch o := o.(type) {
	case nil:
		return "gonil"
	case *object.NilType:
		return "nil"
	case *object.Bool:
		return fmt.Sprintf("bool:%v", o.Value())
	case *object.Int:
		return fmt.Sprintf("int:%d", o.Value())
	case *object.Byte:
		return fmt.Sprintf("byte:%d", o.Value())
	case *object.Float:
		return fmt.Sprintf("float:%016x", math.Float64bits(o.Value()))
	case *object.String:
		return "str:" + hex.EncodeToString([]byte(o.Value()))
	case *object.Time:
		if o.Value().IsZero() {
			return "time:0"
		}
		return fmt.Sprintf("time:%d", o.Value().UnixNano())
	case *object.List:
		parts := make([]string, 0)
		for _, it := range o.Value() {
			parts = append(parts, descObj(it, depth+1))
		}
		return "list[" + strings.Join(parts, ",") + "]"
	case *object.Map:
		var parts []string
		for k, v := range o.Value() {
			parts = append(parts, hex.EncodeToString([]byte(k))+"="+descObj(v, depth+1))
		}
		sort.Strings(parts)
		return "map{" + strings.Join(parts, ",") + "}"
	case *object.ByteSlice:
		parts := make([]string, 0)
		for _, b := range o.Value() {
			parts = append(parts, strconv.Itoa(int(b)))
		}
		return "bytes[" + strings.Join(parts, ",") + "]"
	case *object.FloatSlice:
		parts := make([]string, 0)
		for _, f := range o.Value() {
			parts = append(parts, fmt.Sprintf("%016x", math.Float64bits(f)))
		}
		return "floats[" + strings.Join(parts, ",") + "]"
	case *object.Proxy:
		v := reflect.ValueOf(o.Interface())
		if v.Kind() == reflect.Pointer && v.IsNil() {
			return "proxynil(" + typeStr(v.Type()) + ")"
		}
		return "proxy(" + typeStr(v.Type()) + ";" + descGo(v, depth+1) + ")"
	case *object.Error:
		return "error"
	}
	return "other:" + string(o.Type())
}

// ---------------------------------------------------------------- cases

type globalIn struct {
	T json.RawMessage `json:"t"`
	V json.RawMessage `json:"v"`
}

type caseIn struct {
	// heap cells: pointer-to-struct globals c0, c1, ...; cell 0 is the subject of field operations.
	// A cell with "rec": true is a *Rec (method zoo).
	Cells []struct {
		T   json.RawMessage `json:"t"`
		V   json.RawMessage `json:"v"`
		Rec bool            `json:"rec"`
	} `json:"cells"`
	// plain globals g0, g1, ... (typed values; "untyped": true = an untyped nil)
	Globals []struct {
		T       json.RawMessage `json:"t"`
		V       json.RawMessage `json:"v"`
		Untyped bool            `json:"untyped"`
		// sequences only: hand over the very Go value this name was given in the previous step (the same pointer, slice
		// header, map, or an equal copy of a value type); with "poke" the host first stores new contents IN PLACE through
		// that pointer / into that slice (same length) / into that map
		Same bool            `json:"same,omitempty"`
		Poke json.RawMessage `json:"poke,omitempty"`
	} `json:"globals"`
	Src string `json:"src"` // hex of the script
	// a sequence of evaluations that pass globals under the same names: "reuse": true runs them all on ONE VM
	// (vm.NewEmpty + risor.WithVM), false gives every step a VM of its own; the Go values live across the steps either way
	Seq   []caseIn `json:"seq,omitempty"`
	Reuse bool     `json:"reuse,omitempty"`
}

// what lives across the steps of a sequence
type session struct {
	machine *vm.VirtualMachine
	prev    []reflect.Value // the Go value handed over as g<i> in the previous step
	prevOK  []bool
}

// pokeInPlace stores the contents of nv into the memory old refers to
func pokeInPlace(old, nv reflect.Value) error {
	switch old.Kind() {
	case reflect.Pointer:
		if old.IsNil() || nv.IsNil() {
			return fmt.Errorf("poke through a nil pointer")
		}
		old.Elem().Set(nv.Elem())
	case reflect.Slice:
		if old.Len() != nv.Len() {
			return fmt.Errorf("poke of a slice with another length")
		}
		reflect.Copy(old, nv)
	case reflect.Map:
		if old.IsNil() || nv.IsNil() {
			return fmt.Errorf("poke of a nil map")
		}
		for _, k := range old.MapKeys() {
			old.SetMapIndex(k, reflect.Value{})
		}
		for _, k := range nv.MapKeys() {
			old.SetMapIndex(k, nv.MapIndex(k))
		}
	default:
		return fmt.Errorf("poke of a %s", old.Kind())
	}
	return nil
}

type caseOut struct {
	Steps   []caseOut `json:"steps,omitempty"` // sequences: one observation per step
	Outcome string    `json:"outcome"`         // ok | err | panic (recovered by the VM) | escaped (panic out of Eval)
	Raw     string    `json:"raw,omitempty"`
	Obj     string    `json:"obj,omitempty"`   // the result object
	Iface   string    `json:"iface,omitempty"` // result.Interface()
	Cells   []string  `json:"cells"`           // the Go-side cells after the evaluation
	Got     []string  `json:"got"`             // arguments received by the methods of *Rec cells
}

func runSeq(c *caseIn) (out caseOut) {
	ss := &session{}
	if c.Reuse {
		m, err := vm.NewEmpty()
		if err != nil {
			return caseOut{Outcome: "BADCASE", Raw: err.Error()}
		}
		ss.machine = m
	}
	out.Outcome = "seq"
	for i := range c.Seq {
		out.Steps = append(out.Steps, runCaseIn(&c.Seq[i], ss))
	}
	return out
}

func runCase(c *caseIn) (out caseOut) {
	if len(c.Seq) > 0 {
		return runSeq(c)
	}
	return runCaseIn(c, nil)
}

func runCaseIn(c *caseIn, ss *session) (out caseOut) {
	out.Cells = []string{}
	out.Got = []string{}
	var opts []risor.Option
	if ss != nil && ss.machine != nil {
		opts = append(opts, risor.WithVM(ss.machine))
	}
	var handed []reflect.Value
	var handedOK []bool
	defer func() {
		if ss != nil {
			ss.prev, ss.prevOK = handed, handedOK
		}
	}()
	var cells []reflect.Value
	var recs []*Rec
	for i, cd := range c.Cells {
		if cd.Rec {
			r := &Rec{N: 1}
			recs = append(recs, r)
			cells = append(cells, reflect.ValueOf(r))
			opts = append(opts, risor.WithGlobal(fmt.Sprintf("c%d", i), r))
			continue
		}
		td, err := parseT(cd.T)
		if err != nil {
			return caseOut{Outcome: "BADCASE", Raw: err.Error()}
		}
		rt, err := buildType(td)
		if err != nil {
			return caseOut{Outcome: "BADCASE", Raw: err.Error()}
		}
		v, err := buildValue(rt, cd.V, cells)
		if err != nil {
			return caseOut{Outcome: "BADCASE", Raw: err.Error()}
		}
		p := reflect.New(rt)
		p.Elem().Set(v)
		cells = append(cells, p)
		opts = append(opts, risor.WithGlobal(fmt.Sprintf("c%d", i), p.Interface()))
	}
	for i, gd := range c.Globals {
		if gd.Untyped {
			opts = append(opts, risor.WithGlobal(fmt.Sprintf("g%d", i), nil))
			handed, handedOK = append(handed, reflect.Value{}), append(handedOK, false)
			continue
		}
		if gd.Same {
			if ss == nil || i >= len(ss.prev) || !ss.prevOK[i] {
				return caseOut{Outcome: "BADCASE", Raw: "same: no value from the previous step"}
			}
			v := ss.prev[i]
			if len(gd.Poke) > 0 {
				nv, err := buildValue(v.Type(), gd.Poke, cells)
				if err != nil {
					return caseOut{Outcome: "BADCASE", Raw: err.Error()}
				}
				if err := pokeInPlace(v, nv); err != nil {
					return caseOut{Outcome: "BADCASE", Raw: err.Error()}
				}
			}
			opts = append(opts, risor.WithGlobal(fmt.Sprintf("g%d", i), v.Interface()))
			handed, handedOK = append(handed, v), append(handedOK, true)
			continue
		}
		td, err := parseT(gd.T)
		if err != nil {
			return caseOut{Outcome: "BADCASE", Raw: err.Error()}
		}
		rt, err := buildType(td)
		if err != nil {
			return caseOut{Outcome: "BADCASE", Raw: err.Error()}
		}
		v, err := buildValue(rt, gd.V, cells)
		if err != nil {
			return caseOut{Outcome: "BADCASE", Raw: err.Error()}
		}
		opts = append(opts, risor.WithGlobal(fmt.Sprintf("g%d", i), v.Interface()))
		handed, handedOK = append(handed, v), append(handedOK, true)
	}
	srcb, _ := hex.DecodeString(c.Src)
	finish := func() {
		for _, cell := range cells {
			if cell.Type() == reflect.TypeOf(&Rec{}) {
				out.Cells = append(out.Cells, "rec")
			} else {
				out.Cells = append(out.Cells, descGo(cell.Elem(), 0))
			}
		}
		for _, r := range recs {
			for _, g := range r.got {
				if !g.IsValid() { // a nil interface{} argument
					out.Got = append(out.Got, "iface;nil")
					continue
				}
				out.Got = append(out.Got, typeStr(g.Type())+";"+descGo(g, 0))
			}
		}
	}
	func() {
		defer func() {
			if r := recover(); r != nil {
				out.Outcome = "escaped"
				out.Raw = fmt.Sprint(r)
			}
		}()
		ctx, cancel := context.WithTimeout(context.Background(), 10*time.Second)
		defer cancel()
		res, err := risor.Eval(ctx, string(srcb), opts...)
		if err != nil {
			msg := err.Error()
			if len(msg) > 300 {
				msg = msg[:300]
			}
			out.Raw = msg
			if strings.HasPrefix(msg, "panic:") {
				out.Outcome = "panic"
			} else {
				out.Outcome = "err"
			}
			return
		}
		out.Outcome = "ok"
		out.Obj = descObj(res, 0)
		func() {
			defer func() {
				if r := recover(); r != nil {
					out.Iface = "PANIC " + fmt.Sprint(r)
				}
			}()
			out.Iface = descIface(res.Interface())
		}()
	}()
	finish()
	return out
}

func main() {
	w := bufio.NewWriterSize(os.Stdout, 1<<20)
	defer w.Flush()
	sc := bufio.NewScanner(os.Stdin)
	sc.Buffer(make([]byte, 1<<20), 1<<26)
	enc := json.NewEncoder(w)
	for sc.Scan() {
		var c caseIn
		if err := json.Unmarshal(sc.Bytes(), &c); err != nil {
			_ = enc.Encode(&caseOut{Outcome: "BADCASE", Raw: err.Error()})
			continue
		}
		o := runCase(&c)
		_ = enc.Encode(&o)
	}
}
