// c09gen: prints coq/gen/GenLockSites.v (`c09gen coq`) or the same facts as JSON (`c09gen json`) for the module at
// $VERIF_REPO (default /repo).  The analysis lives in package verifharness/locksites.
package main

import (
	"fmt"
	"os"

	"verifharness/locksites"
)

func main() {
	repo := "/repo"
	if r := os.Getenv("VERIF_REPO"); r != "" {
		repo = r
	}
	mode := "coq"
	if len(os.Args) > 1 {
		mode = os.Args[1]
	}
	o := locksites.Build(repo)
	if mode == "json" {
		fmt.Print(locksites.JSON(o))
	} else {
		fmt.Print(locksites.EmitCoq(o))
	}
}
