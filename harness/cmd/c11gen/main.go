//go:build verif

// c11gen: prints coq/gen/GenGlobalsGraph.v - the GetAttr closure of two independent default
// configurations of the running risor packages (needs the overlay hook object.(*Module).VerifAttrNames).
//
//	c11gen <repo-dir>
package main

import (
	"fmt"
	"os"

	"verifharness/c11lib"
)

func main() {
	repo := "/repo"
	if len(os.Args) > 1 {
		repo = os.Args[1]
	}
	b, err := c11lib.BuildBase(repo)
	if err != nil {
		fmt.Fprintln(os.Stderr, err)
		os.Exit(1)
	}
	s, err := b.Coq()
	if err != nil {
		fmt.Fprintln(os.Stderr, err)
		os.Exit(1)
	}
	fmt.Print(s)
}
