// c05obs: determinism observations.  For every hex source on stdin: compile it <n> times and
// evaluate it <n> times in fresh VMs (default globals, virtual OS with a three-variable environment,
// captured stdout) and print one line:
//
//	D <sha of (marshal bytes)> <sha of (result inspect, error text, stdout)> same_compile=<0|1> same_eval=<0|1>
//
// The check runs this tool in several fresh processes and compares the digests across them.
package main

import (
	"bufio"
	"bytes"
	"context"
	"crypto/sha256"
	"encoding/hex"
	"fmt"
	"os"
	"strconv"
	"strings"
	"time"

	"github.com/risor-io/risor"
	"github.com/risor-io/risor/compiler"
	ros "github.com/risor-io/risor/os"
	"github.com/risor-io/risor/parser"
)

type bufFile struct {
	bytes.Buffer
}

func (b *bufFile) Close() error                                 { return nil }
func (b *bufFile) Stat() (ros.FileInfo, error)                  { return nil, fmt.Errorf("no stat") }
func (b *bufFile) ReadAt(p []byte, off int64) (int, error)      { return 0, fmt.Errorf("no readat") }
func (b *bufFile) Seek(offset int64, whence int) (int64, error) { return 0, fmt.Errorf("no seek") }

var denied = []string{"exec", "http", "net", "ssh", "sql", "pgx", "aws", "redis", "kubernetes", "vault", "slack", "github",
	"playwright", "fetch", "nslookup", "rand", "time", "uuid", "sched"}

func evalOnce(parent context.Context, src string) string {
	// every evaluation has its own time budget; one that runs into it is reported as such (what a cancelled
	// evaluation has produced so far depends on the clock, not on the program)
	ctx, cancel := context.WithTimeout(context.Background(), 4*time.Second)
	defer cancel()
	out := &bufFile{}
	vos := ros.NewVirtualOS(ctx, ros.WithStdout(out), ros.WithEnvironment(map[string]string{"B": "2", "A": "1", "C": "3"}))
	res, err := risor.Eval(ctx, src, risor.WithOS(vos), risor.WithoutGlobals(denied...))
	s := ""
	if err != nil {
		if ctx.Err() != nil || strings.Contains(err.Error(), "context deadline exceeded") {
			return "TIMEOUT"
		}
		s = "ERR " + err.Error()
	} else if res != nil {
		s = "OK " + res.Inspect()
	}
	return s + "\x00" + out.String()
}

func main() {
	n, _ := strconv.Atoi(os.Args[1])
	w := bufio.NewWriterSize(os.Stdout, 1<<20)
	defer w.Flush()
	sc := bufio.NewScanner(os.Stdin)
	sc.Buffer(make([]byte, 1<<20), 1<<24)
	for sc.Scan() {
		b, _ := hex.DecodeString(sc.Text())
		src := string(b)
		func() {
			defer func() {
				if r := recover(); r != nil {
					fmt.Fprintf(w, "GOPANIC %v\n", strings.ReplaceAll(fmt.Sprint(r), "\n", " "))
				}
			}()
			ctx, cancel := context.WithTimeout(context.Background(), 60*time.Second)
			defer cancel()
			cfg := risor.NewConfig(risor.WithoutGlobals(denied...))
			var firstM []byte
			sameC := 1
			for i := 0; i < n; i++ {
				prog, err := parser.Parse(ctx, src)
				if err != nil {
					fmt.Fprintln(w, "SKIP parse")
					return
				}
				code, err := compiler.Compile(prog, cfg.CompilerOpts()...)
				if err != nil {
					// the error text must be the same each time too
					m := []byte("ERR " + err.Error())
					if i == 0 {
						firstM = m
					} else if !bytes.Equal(m, firstM) {
						sameC = 0
					}
					continue
				}
				m, err := compiler.MarshalCode(code)
				if err != nil {
					m = []byte("MERR " + err.Error())
				}
				if i == 0 {
					firstM = m
				} else if !bytes.Equal(m, firstM) {
					sameC = 0
				}
			}
			firstE := ""
			sameE := 1
			timedOut := false
			for i := 0; i < n; i++ {
				e := evalOnce(ctx, src)
				if e == "TIMEOUT" {
					timedOut = true
					break
				}
				if i == 0 {
					firstE = e
				} else if e != firstE {
					sameE = 0
				}
			}
			if timedOut {
				fmt.Fprintln(w, "TIMEOUT evaluation exceeded its time budget")
				return
			}
			hm := sha256.Sum256(firstM)
			he := sha256.Sum256([]byte(firstE))
			show := hex.EncodeToString([]byte(strings.SplitN(firstE, "\x00", 2)[0]))
			if len(show) > 80 {
				show = show[:80]
			}
			fmt.Fprintf(w, "D %x %x same_compile=%d same_eval=%d %s\n", hm[:8], he[:8], sameC, sameE, show)
		}()
	}
}
