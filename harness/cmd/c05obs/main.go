// c05obs: determinism observations.  For every hex source on stdin: compile it <n> times and
// evaluate it <n> times in fresh VMs (default globals, virtual OS with a three-variable environment,
// captured stdout) and print one line:
//
//	D <sha of (marshal bytes)> <sha of (result inspect, error text, stdout)> same_compile=<0|1> same_eval=<0|1> same_reload=<0|1> <hex result> <hex why>
//
// same_reload: MarshalCode -> UnmarshalCode -> MarshalCode gives the same bytes (two rounds) and the code read back evaluates
// (risor.EvalCode) to the same result / error / output as the source.
//
// The check runs this tool in several fresh processes and compares the digests across them.
package main

import (
	"bufio"
	"bytes"
	"context"
	"crypto/sha256"
	"encoding/hex"
	"fmt"
	"os"
	"strconv"
	"strings"
	"time"

	"github.com/risor-io/risor"
	"github.com/risor-io/risor/compiler"
	"github.com/risor-io/risor/object"
	ros "github.com/risor-io/risor/os"
	"github.com/risor-io/risor/parser"
)

type bufFile struct {
	bytes.Buffer
}

func (b *bufFile) Close() error                                 { return nil }
func (b *bufFile) Stat() (ros.FileInfo, error)                  { return nil, fmt.Errorf("no stat") }
func (b *bufFile) ReadAt(p []byte, off int64) (int, error)      { return 0, fmt.Errorf("no readat") }
func (b *bufFile) Seek(offset int64, whence int) (int64, error) { return 0, fmt.Errorf("no seek") }

var denied = []string{"exec", "http", "net", "ssh", "sql", "pgx", "aws", "redis", "kubernetes", "vault", "slack", "github",
	"playwright", "fetch", "nslookup", "rand", "time", "uuid", "sched"}

func evalOnce(parent context.Context, src string) string {
	return evalOnceOS(parent, src, nil)
}

func evalOnceOS(parent context.Context, src string, oc *osCase) string {
	return evalAny(parent, src, nil, oc)
}

// evalAny evaluates the source, or - when code is given - that compiled code (risor.EvalCode), under the same configuration
func evalAny(parent context.Context, src string, code *compiler.Code, oc *osCase) string {
	return evalAnyOpts(parent, src, code, oc, nil)
}

// evalAnyOpts: the same with additional options of the embedding API (dotted denies / overrides, extra globals)
func evalAnyOpts(parent context.Context, src string, code *compiler.Code, oc *osCase, extra []risor.Option) string {
	// every evaluation has its own time budget; one that runs into it is reported as such (what a cancelled
	// evaluation has produced so far depends on the clock, not on the program)
	ctx, cancel := context.WithTimeout(context.Background(), 4*time.Second)
	defer cancel()
	out := &bufFile{}
	vos := ros.NewVirtualOS(ctx, ros.WithStdout(out), ros.WithEnvironment(map[string]string{"B": "2", "A": "1", "C": "3"}))
	if oc != nil {
		vos = buildOS(ctx, oc, out)
	}
	var res object.Object
	var err error
	opts := append([]risor.Option{risor.WithOS(vos), risor.WithoutGlobals(denied...)}, extra...)
	if code != nil {
		res, err = risor.EvalCode(ctx, code, opts...)
	} else {
		res, err = risor.Eval(ctx, src, opts...)
	}
	s := ""
	if err != nil {
		if ctx.Err() != nil || strings.Contains(err.Error(), "context deadline exceeded") {
			return "TIMEOUT"
		}
		s = "ERR " + err.Error()
	} else if res != nil {
		s = "OK " + res.Inspect()
	}
	// what the embedding program sees when it converts the result: Interface(), MarshalJSON, String()
	return s + "\x00" + out.String() + "\x00" + hostView(res)
}

// obsDiff names the part of the observation (result / error, stdout, host view) in which two evaluations differ and shows both
func obsDiff(a, b string) string {
	pa, pb := strings.SplitN(a, "\x00", 3), strings.SplitN(b, "\x00", 3)
	names := []string{"result / error text", "captured stdout", "host view of the result (I: Interface(), J: json.Marshal, S: String())"}
	for i := 0; i < 3 && i < len(pa) && i < len(pb); i++ {
		if pa[i] != pb[i] {
			x, y := pa[i], pb[i]
			j := 0
			for j < len(x) && j < len(y) && x[j] == y[j] {
				j++
			}
			lo := j - 60
			if lo < 0 {
				lo = 0
			}
			cut := func(t string) string {
				hi := j + 100
				if hi > len(t) {
					hi = len(t)
				}
				return t[lo:hi]
			}
			return fmt.Sprintf("the %s differs at byte %d: evaluation 1 `...%s` vs a later evaluation `...%s`", names[i], j, cut(x), cut(y))
		}
	}
	return "observations differ"
}

// firstDiff shows the neighbourhood of the first byte at which two marshalled forms differ
func firstDiff(a, b []byte) string {
	i := 0
	for i < len(a) && i < len(b) && a[i] == b[i] {
		i++
	}
	lo := i - 30
	if lo < 0 {
		lo = 0
	}
	cut := func(x []byte) string {
		hi := i + 30
		if hi > len(x) {
			hi = len(x)
		}
		if lo > len(x) {
			return ""
		}
		return string(x[lo:hi])
	}
	return fmt.Sprintf("at-byte-%d:`%s`-vs-`%s`", i, cut(a), cut(b))
}

func main() {
	if os.Args[1] == "hist" {
		histMain()
		return
	}
	n, _ := strconv.Atoi(os.Args[1])
	w := bufio.NewWriterSize(os.Stdout, 1<<20)
	defer w.Flush()
	sc := bufio.NewScanner(os.Stdin)
	sc.Buffer(make([]byte, 1<<20), 1<<24)
	for sc.Scan() {
		line := sc.Text()
		var oc *osCase
		if strings.HasPrefix(line, "O ") {
			js, _ := hex.DecodeString(line[2:])
			c, err := parseOSCase(js)
			if err != nil {
				fmt.Fprintln(w, "SKIP bad os case")
				continue
			}
			oc = c
			line = hex.EncodeToString([]byte(c.Src))
		}
		b, _ := hex.DecodeString(line)
		src := string(b)
		func() {
			defer func() {
				if r := recover(); r != nil {
					fmt.Fprintf(w, "GOPANIC %v\n", strings.ReplaceAll(fmt.Sprint(r), "\n", " "))
				}
			}()
			ctx, cancel := context.WithTimeout(context.Background(), 60*time.Second)
			defer cancel()
			cfg := risor.NewConfig(risor.WithoutGlobals(denied...))
			var firstM []byte
			var lastCode *compiler.Code
			sameC := 1
			for i := 0; i < n; i++ {
				prog, err := parser.Parse(ctx, src)
				if err != nil {
					fmt.Fprintln(w, "SKIP parse")
					return
				}
				code, err := compiler.Compile(prog, cfg.CompilerOpts()...)
				if err != nil {
					// the error text must be the same each time too
					m := []byte("ERR " + err.Error())
					if i == 0 {
						firstM = m
					} else if !bytes.Equal(m, firstM) {
						sameC = 0
					}
					continue
				}
				lastCode = code
				m, err := compiler.MarshalCode(code)
				if err != nil {
					m = []byte("MERR " + err.Error())
				}
				if i == 0 {
					firstM = m
				} else if !bytes.Equal(m, firstM) {
					sameC = 0
				}
			}
			// "identical bytecode, also after serialisation": the marshalled form read back and marshalled again gives the same
			// bytes (a second round too), and the code that was read back evaluates like the source
			sameR := 1
			reloadWhy := ""
			var reloaded *compiler.Code
			if lastCode != nil && firstM != nil && !bytes.HasPrefix(firstM, []byte("MERR ")) {
				cur := firstM
				for round := 0; round < 2 && sameR == 1; round++ {
					c2, err := compiler.UnmarshalCode(cur)
					if err != nil {
						sameR, reloadWhy = 0, "unmarshal:"+err.Error()
						break
					}
					m2, err := compiler.MarshalCode(c2)
					if err != nil {
						sameR, reloadWhy = 0, "remarshal:"+err.Error()
						break
					}
					if !bytes.Equal(m2, firstM) {
						sameR, reloadWhy = 0, fmt.Sprintf("bytes-differ-round-%d:%s", round+1, firstDiff(firstM, m2))
						break
					}
					if round == 0 {
						reloaded = c2
					}
					cur = m2
				}
			}
			firstE := ""
			evalWhy := ""
			sameE := 1
			timedOut := false
			for i := 0; i < n; i++ {
				e := evalOnceOS(ctx, src, oc)
				if e == "TIMEOUT" {
					timedOut = true
					break
				}
				if i == 0 {
					firstE = e
				} else if e != firstE {
					if sameE == 1 {
						evalWhy = obsDiff(firstE, e)
					}
					sameE = 0
				}
			}
			if !timedOut && reloaded != nil && sameR == 1 {
				e := evalAny(ctx, src, reloaded, oc)
				if e == "TIMEOUT" {
					timedOut = true
				} else if e != firstE {
					sameR = 0
					reloadWhy = "evaluation-of-reloaded-code-differs:" + strings.SplitN(e, "\x00", 2)[0]
					if strings.SplitN(e, "\x00", 2)[0] == strings.SplitN(firstE, "\x00", 2)[0] {
						reloadWhy = "evaluation-of-reloaded-code-differs(output-or-host-view):" + strings.ReplaceAll(e, "\x00", "|")
					}
				}
			}
			if timedOut {
				fmt.Fprintln(w, "TIMEOUT evaluation exceeded its time budget")
				return
			}
			hm := sha256.Sum256(firstM)
			he := sha256.Sum256([]byte(firstE))
			show := hex.EncodeToString([]byte(strings.SplitN(firstE, "\x00", 2)[0]))
			if len(show) > 80 {
				show = show[:80]
			}
			if len(reloadWhy) > 300 {
				reloadWhy = reloadWhy[:300]
			}
			fmt.Fprintf(w, "D %x %x same_compile=%d same_eval=%d same_reload=%d %s %s %s\n", hm[:8], he[:8], sameC, sameE, sameR, show,
				hex.EncodeToString([]byte(reloadWhy)), hex.EncodeToString([]byte(evalWhy)))
		}()
	}
}
