// OS-layer cases of c05obs: the same script evaluated under the same VirtualOS CONFIGURATION (mounts nested in one another,
// environment, working directory) must see the same filesystem and the same answers every time.  The
// configuration lives in Go maps inside the VirtualOS; a lookup that depends on their iteration order shows up as a
// different result between evaluations of one process or between processes.
//
// Input line:  O <hex JSON>   with JSON {"mounts": {"<mount point>": "<tag>", ...}, "cwd": "...", "env": {...},
// "src": "..."}.  (Users and groups cannot be configured from outside package os: their types have no constructor.)
// Every mount is a tagged in-memory filesystem: a path that nothing was written to reads as "<tag>:<relative path>", so
// the answer tells which mount served the access; writes, removes and renames are remembered by the mount that got them.
package main

import (
	"context"
	"encoding/json"
	"fmt"
	"io/fs"
	"path"
	"sort"
	"strings"
	"time"

	ros "github.com/risor-io/risor/os"
)

type osCase struct {
	Mounts map[string]string `json:"mounts"`
	Cwd    string            `json:"cwd"`
	Env    map[string]string `json:"env"`
	Src    string            `json:"src"`
}

type tagInfo struct {
	name string
	size int64
	dir  bool
}

func (i tagInfo) Name() string       { return i.name }
func (i tagInfo) Size() int64        { return i.size }
func (i tagInfo) Mode() fs.FileMode  { return 0o644 }
func (i tagInfo) ModTime() time.Time { return time.Unix(1700000000, 0).UTC() }
func (i tagInfo) IsDir() bool        { return i.dir }
func (i tagInfo) Sys() any           { return nil }

type tagEntry struct{ tagInfo }

func (e tagEntry) Type() fs.FileMode          { return 0 }
func (e tagEntry) Info() (fs.FileInfo, error) { return e.tagInfo, nil }
func (e tagEntry) HasInfo() bool              { return true }

type tagFS struct {
	tag     string
	written map[string][]byte
	removed map[string]bool
}

func newTagFS(tag string) *tagFS {
	return &tagFS{tag: tag, written: map[string][]byte{}, removed: map[string]bool{}}
}

func (t *tagFS) content(name string) ([]byte, error) {
	if t.removed[name] {
		return nil, fmt.Errorf("%s: %s was removed", t.tag, name)
	}
	if b, ok := t.written[name]; ok {
		return b, nil
	}
	return []byte(t.tag + ":" + name), nil
}

func (t *tagFS) Create(name string) (ros.File, error) {
	t.written[name] = []byte{}
	delete(t.removed, name)
	return ros.NewInMemoryFile(nil), nil
}
func (t *tagFS) Mkdir(name string, perm ros.FileMode) error    { t.written[name+"/.dir"] = []byte(t.tag); return nil }
func (t *tagFS) MkdirAll(name string, perm ros.FileMode) error { t.written[name+"/.dir"] = []byte(t.tag); return nil }
func (t *tagFS) Open(name string) (ros.File, error) {
	b, err := t.content(name)
	if err != nil {
		return nil, err
	}
	return ros.NewInMemoryFile(append([]byte{}, b...)), nil
}
func (t *tagFS) OpenFile(name string, flag int, perm ros.FileMode) (ros.File, error) { return t.Open(name) }
func (t *tagFS) ReadFile(name string) ([]byte, error)                                 { return t.content(name) }
func (t *tagFS) Remove(name string) error {
	if t.removed[name] {
		return fmt.Errorf("%s: %s was removed already", t.tag, name)
	}
	t.removed[name] = true
	delete(t.written, name)
	return nil
}
func (t *tagFS) RemoveAll(name string) error { t.removed[name] = true; delete(t.written, name); return nil }
func (t *tagFS) Rename(oldpath, newpath string) error {
	b, err := t.content(oldpath)
	if err != nil {
		return err
	}
	t.written[newpath] = b
	delete(t.removed, newpath)
	t.removed[oldpath] = true
	delete(t.written, oldpath)
	return nil
}
func (t *tagFS) Stat(name string) (ros.FileInfo, error) {
	b, err := t.content(name)
	if err != nil {
		return nil, err
	}
	return tagInfo{name: t.tag + "@" + path.Base(name), size: int64(len(b))}, nil
}
func (t *tagFS) Symlink(oldname, newname string) error {
	t.written[newname] = []byte("link:" + oldname)
	return nil
}
func (t *tagFS) WriteFile(name string, data []byte, perm ros.FileMode) error {
	t.written[name] = append([]byte{}, data...)
	delete(t.removed, name)
	return nil
}
func (t *tagFS) ReadDir(name string) ([]ros.DirEntry, error) {
	// the directory's own tag plus what was written below it (sorted)
	names := []string{t.tag + ".here"}
	prefix := strings.TrimSuffix(name, "/") + "/"
	for k := range t.written {
		if strings.HasPrefix(k, prefix) && !strings.Contains(k[len(prefix):], "/") {
			names = append(names, path.Base(k))
		}
	}
	sort.Strings(names)
	var out []ros.DirEntry
	for _, n := range names {
		out = append(out, tagEntry{tagInfo{name: n, size: int64(len(name))}})
	}
	return out, nil
}
func (t *tagFS) WalkDir(root string, fn ros.WalkDirFunc) error {
	return fn(root, tagEntry{tagInfo{name: t.tag + ".walk", dir: true}}, nil)
}

var _ ros.FS = (*tagFS)(nil)

func buildOS(ctx context.Context, c *osCase, out ros.File) *ros.VirtualOS {
	mounts := map[string]*ros.Mount{}
	for k, tag := range c.Mounts {
		mounts[k] = &ros.Mount{Source: newTagFS(tag), Target: k}
	}
	opts := []ros.Option{ros.WithStdout(out), ros.WithMounts(mounts)}
	if c.Cwd != "" {
		opts = append(opts, ros.WithCwd(c.Cwd))
	}
	if c.Env != nil {
		opts = append(opts, ros.WithEnvironment(c.Env))
	}
	return ros.NewVirtualOS(ctx, opts...)
}

func parseOSCase(js []byte) (*osCase, error) {
	var c osCase
	if err := json.Unmarshal(js, &c); err != nil {
		return nil, err
	}
	return &c, nil
}
