// Host-side view of an evaluation result, and option histories.
//
// hostView: what the embedding program sees when it converts the value returned by risor.Eval - result.Interface() (slices in
// the order they come, Go maps rendered with sorted keys, anything that is not plain data by its type name only, so no
// address is ever printed), json.Marshal(result) (the objects' MarshalJSON) and String().  It is part of every evaluation's
// observation: the order of a slice built from a set or a map must not change between evaluations.
//
// histMain (c05obs hist): every input line is a HISTORY - hex JSON {"steps": [{"src", "deny", "override", "globals"}, ...]} -
// whose steps are evaluated one after the other in this process, each with its own options (dotted denies / overrides on
// default modules, extra globals) in a fresh Config / compiler / VM.  One output line per history: `H <hex observation>...`.
// The check compares every step with the same step evaluated alone in a fresh process.
package main

import (
	"bufio"
	"context"
	"encoding/hex"
	"encoding/json"
	"fmt"
	"os"
	"reflect"
	"sort"
	"strings"

	"github.com/risor-io/risor"
	"github.com/risor-io/risor/object"
)

func renderGo(b *strings.Builder, v any, depth int) {
	if depth > 40 {
		b.WriteString("<deep>")
		return
	}
	if v == nil {
		b.WriteString("nil")
		return
	}
	rv := reflect.ValueOf(v)
	switch rv.Kind() {
	case reflect.Bool, reflect.Int, reflect.Int8, reflect.Int16, reflect.Int32, reflect.Int64, reflect.Uint, reflect.Uint8,
		reflect.Uint16, reflect.Uint32, reflect.Uint64, reflect.Float32, reflect.Float64, reflect.String:
		fmt.Fprintf(b, "%T(%#v)", v, v)
	case reflect.Slice, reflect.Array:
		if rv.Kind() == reflect.Slice && rv.Type().Elem().Kind() == reflect.Uint8 {
			fmt.Fprintf(b, "bytes(%x)", rv.Bytes())
			return
		}
		b.WriteString("[")
		for i := 0; i < rv.Len(); i++ {
			if i > 0 {
				b.WriteString(", ")
			}
			renderGo(b, rv.Index(i).Interface(), depth+1)
		}
		b.WriteString("]")
	case reflect.Map:
		type kv struct {
			k string
			v any
		}
		var kvs []kv
		it := rv.MapRange()
		for it.Next() {
			var kb strings.Builder
			renderGo(&kb, it.Key().Interface(), depth+1)
			kvs = append(kvs, kv{kb.String(), it.Value().Interface()})
		}
		sort.Slice(kvs, func(i, j int) bool { return kvs[i].k < kvs[j].k })
		b.WriteString("map{")
		for i, e := range kvs {
			if i > 0 {
				b.WriteString(", ")
			}
			b.WriteString(e.k + ": ")
			renderGo(b, e.v, depth+1)
		}
		b.WriteString("}")
	default:
		fmt.Fprintf(b, "<%T>", v)
	}
}

func hostView(res object.Object) (view string) {
	if res == nil {
		return ""
	}
	defer func() {
		if r := recover(); r != nil {
			view = "HOSTPANIC"
		}
	}()
	var b strings.Builder
	b.WriteString("I:")
	renderGo(&b, res.Interface(), 0)
	b.WriteString(" J:")
	if _, isErr := res.(*object.Error); !isErr {
		if js, err := json.Marshal(res); err != nil {
			b.WriteString("ERR")
		} else {
			b.Write(js)
		}
	}
	if s, ok := res.(fmt.Stringer); ok {
		b.WriteString(" S:" + s.String())
	}
	return b.String()
}

type histStep struct {
	Src      string         `json:"src"`
	Deny     []string       `json:"deny"`
	Override map[string]any `json:"override"`
	Globals  map[string]any `json:"globals"`
}

type history struct {
	Steps []histStep `json:"steps"`
}

func plain(v any) any {
	// JSON numbers arrive as float64; the histories only use integers
	if f, ok := v.(float64); ok && f == float64(int64(f)) {
		return int64(f)
	}
	return v
}

func histMain() {
	w := bufio.NewWriterSize(os.Stdout, 1<<20)
	defer w.Flush()
	sc := bufio.NewScanner(os.Stdin)
	sc.Buffer(make([]byte, 1<<20), 1<<24)
	for sc.Scan() {
		js, _ := hex.DecodeString(sc.Text())
		var h history
		if err := json.Unmarshal(js, &h); err != nil {
			fmt.Fprintln(w, "SKIP bad history")
			continue
		}
		var outs []string
		for _, st := range h.Steps {
			o := func() (o string) {
				defer func() {
					if r := recover(); r != nil {
						o = "GOPANIC " + strings.ReplaceAll(fmt.Sprint(r), "\n", " ")
					}
				}()
				var extra []risor.Option
				if len(st.Deny) > 0 {
					extra = append(extra, risor.WithoutGlobals(st.Deny...))
				}
				names := make([]string, 0, len(st.Override))
				for k := range st.Override {
					names = append(names, k)
				}
				sort.Strings(names)
				for _, k := range names {
					extra = append(extra, risor.WithGlobalOverride(k, plain(st.Override[k])))
				}
				names = names[:0]
				for k := range st.Globals {
					names = append(names, k)
				}
				sort.Strings(names)
				for _, k := range names {
					extra = append(extra, risor.WithGlobal(k, plain(st.Globals[k])))
				}
				return evalAnyOpts(context.Background(), st.Src, nil, nil, extra)
			}()
			outs = append(outs, hex.EncodeToString([]byte(o)))
		}
		fmt.Fprintln(w, "H "+strings.Join(outs, " "))
	}
}
