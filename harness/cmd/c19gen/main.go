// c19gen: regenerates the wrapper table of property C19 from the CURRENT risor source.
//
//	c19gen <repo-dir> coq    -> coq/gen/GenWrappers.v on stdout
//	c19gen <repo-dir> json   -> the same records as JSON (for the check's bookkeeping)
//
// For every exported module function of strings, strconv, math, bytes, base64, filepath, regexp and
// every method of string, byte_slice and the regexp object it symbolically walks the function body
// (go/ast, no type checking) and records: accepted arities; for each parameter, in the order in which
// the wrapper converts it, the script argument it comes from, the object.AsX conversion, the cast and
// the position at which it is handed to the Go standard-library function; constant arguments of that
// call; the callee; the result constructor.  Bodies that do not have the regular shape are recorded
// with regular=false and a reason (they are covered by the differential run only).
package main

import (
	"encoding/json"
	"fmt"
	"go/ast"
	"go/parser"
	"go/token"
	"os"
	"path/filepath"
	"sort"
	"strconv"
	"strings"
)

// ---------------------------------------------------------------------------- records

type Param struct {
	Arg  int    `json:"arg"`
	Conv string `json:"conv"`
	Cast string `json:"cast"`
	Pos  int    `json:"pos"`
	Opt  *Const `json:"opt,omitempty"`
	len1 bool
}

type Const struct {
	Kind string `json:"kind"` // int | bool
	Val  string `json:"val"`
	Pos  int    `json:"pos"`
}

// Guard: a check on converted parameters made before the Go call; when it fires the wrapper
// returns an error of its own.
type Guard struct {
	Kind  string `json:"kind"` // neg | toolong
	Pos   int    `json:"pos"`  // callee position of the int parameter
	SPos  int    `json:"spos"` // toolong: callee position of the string/bytes parameter
	Bound int64  `json:"bound"`
	n, s  *Param
}

type Record struct {
	Name    string   `json:"name"`
	Min     int      `json:"min"`
	Max     int      `json:"max"`
	Params  []*Param `json:"params"`
	Consts  []Const  `json:"consts"`
	Guards  []*Guard `json:"guards"`
	Callee  string   `json:"callee"`
	Ret     string   `json:"ret"`
	Regular bool     `json:"regular"`
	Reason  string   `json:"reason,omitempty"`
	Source  string   `json:"source"`
}

// ---------------------------------------------------------------------------- symbolic values

type sym interface{}

type sArgs struct{}                // the args slice
type sArg struct{ i int }          // args[i], a script object
type sLenArgs struct{}             // len(args)
type sConv struct{ p *Param }      // a converted parameter (Go value)
type sObjOf struct{ p *Param }     // the *object.ByteSlice / *object.List a strict conversion returned
type sRecv struct{ typ string }    // the receiver object of a method
type sConst struct{ c Const }      // literal
type sIndex0 struct{ p *Param }    // x[0] of a converted parameter
type sLen struct{ p *Param }       // len(x) of a converted parameter
type sTSVar struct{ p *Param; intCase bool } // the variable bound by a type switch on args[i]
type sTSVal struct{ p *Param; intCase bool } // arg.Value() of it
type sCall struct {
	callee  string
	args    []sym
	nres    int
}
type sRes struct{ c *sCall; idx int } // i-th result of a call
type sStrList struct{ from sym }      // list of object.NewString(x) for x in from
type sErrVar struct{}                 // an *object.Error / error variable
type sUnknown struct{ why string }

type pkgInfo struct {
	dir     string
	files   []*ast.File
	funcs   map[string]*ast.FuncDecl            // plain functions
	methods map[string]map[string]*ast.FuncDecl // receiver type -> name -> decl
	imports map[*ast.File]map[string]string     // file -> local name -> import path
	consts  map[string]ast.Expr                 // package-level constants
	fileOf  map[ast.Node]*ast.File
}

var fset = token.NewFileSet()
var repo string
var pkgs = map[string]*pkgInfo{}

func loadPkg(rel string) *pkgInfo {
	if p, ok := pkgs[rel]; ok {
		return p
	}
	dir := filepath.Join(repo, rel)
	ents, err := os.ReadDir(dir)
	if err != nil {
		fmt.Fprintln(os.Stderr, "c19gen:", err)
		os.Exit(2)
	}
	p := &pkgInfo{dir: rel, funcs: map[string]*ast.FuncDecl{}, methods: map[string]map[string]*ast.FuncDecl{},
		imports: map[*ast.File]map[string]string{}, fileOf: map[ast.Node]*ast.File{}, consts: map[string]ast.Expr{}}
	for _, e := range ents {
		n := e.Name()
		if !strings.HasSuffix(n, ".go") || strings.HasSuffix(n, "_test.go") {
			continue
		}
		f, err := parser.ParseFile(fset, filepath.Join(dir, n), nil, parser.ParseComments)
		if err != nil {
			fmt.Fprintln(os.Stderr, "c19gen:", err)
			os.Exit(2)
		}
		p.files = append(p.files, f)
		imp := map[string]string{}
		for _, is := range f.Imports {
			path, _ := strconv.Unquote(is.Path.Value)
			name := path[strings.LastIndex(path, "/")+1:]
			if is.Name != nil {
				name = is.Name.Name
			}
			imp[name] = path
		}
		p.imports[f] = imp
		for _, d := range f.Decls {
			if gd, ok := d.(*ast.GenDecl); ok && gd.Tok == token.CONST {
				for _, sp := range gd.Specs {
					vs := sp.(*ast.ValueSpec)
					for i, n := range vs.Names {
						if i < len(vs.Values) {
							p.consts[n.Name] = vs.Values[i]
						}
					}
				}
			}
			fd, ok := d.(*ast.FuncDecl)
			if !ok {
				continue
			}
			p.fileOf[fd] = f
			if fd.Recv == nil {
				p.funcs[fd.Name.Name] = fd
			} else if len(fd.Recv.List) == 1 {
				t := fd.Recv.List[0].Type
				if st, ok := t.(*ast.StarExpr); ok {
					t = st.X
				}
				if id, ok := t.(*ast.Ident); ok {
					if p.methods[id.Name] == nil {
						p.methods[id.Name] = map[string]*ast.FuncDecl{}
					}
					p.methods[id.Name][fd.Name.Name] = fd
				}
			}
		}
	}
	pkgs[rel] = p
	return p
}

// ---------------------------------------------------------------------------- evaluator

type eval struct {
	rec      *Record
	shift    int // args[i] of the source is script argument i+shift (methods: receiver is argument 0)
	recvP    *Param
	recvType string
	call     *sCall
	depth    int
	arity    bool
}

type frame struct {
	pkg  *pkgInfo
	file *ast.File
	env  map[string]sym
}

func (e *eval) fail(format string, a ...interface{}) {
	if e.rec.Regular {
		e.rec.Regular = false
		e.rec.Reason = fmt.Sprintf(format, a...)
	}
}

func (e *eval) newParam(arg int, conv string) *Param {
	if len(e.rec.Guards) > 0 {
		e.fail("a parameter is converted after a value check")
	}
	p := &Param{Arg: arg, Conv: conv, Cast: "KNone", Pos: -1}
	e.rec.Params = append(e.rec.Params, p)
	return p
}

func (e *eval) recvParam() *Param {
	if e.recvP == nil {
		conv := map[string]string{"String": "CRecvString", "ByteSlice": "CRecvBytes", "Regexp": "CRecvRegexp"}[e.recvType]
		p := &Param{Arg: 0, Conv: conv, Cast: "KNone", Pos: -1}
		// the receiver is available before any argument is converted
		e.rec.Params = append([]*Param{p}, e.rec.Params...)
		e.recvP = p
	}
	return e.recvP
}

func intLit(x ast.Expr) (int, bool) {
	switch v := x.(type) {
	case *ast.BasicLit:
		if v.Kind == token.INT {
			n, err := strconv.Atoi(v.Value)
			return n, err == nil
		}
	case *ast.UnaryExpr:
		if v.Op == token.SUB {
			n, ok := intLit(v.X)
			return -n, ok
		}
	case *ast.CallExpr: // int64(10)
		if id, ok := v.Fun.(*ast.Ident); ok && (id.Name == "int64" || id.Name == "int") && len(v.Args) == 1 {
			return intLit(v.Args[0])
		}
	}
	return 0, false
}

func selName(x ast.Expr) (string, string, bool) {
	s, ok := x.(*ast.SelectorExpr)
	if !ok {
		return "", "", false
	}
	id, ok := s.X.(*ast.Ident)
	if !ok {
		return "", "", false
	}
	return id.Name, s.Sel.Name, true
}

var convNames = map[string]string{"AsString": "CString", "AsInt": "CInt", "AsFloat": "CFloat", "AsBytes": "CBytes",
	"AsBool": "CBool", "AsStringSlice": "CStrings", "AsList": "CList"}

var retNames = map[string]string{"NewBool": "RBool", "NewInt": "RInt", "NewFloat": "RFloat", "NewString": "RString",
	"NewByteSlice": "RBytes", "NewStringList": "RStrList", "NewRegexp": "RRegexp"}

// isStdlib: import paths of the Go standard library have no dot in their first element
func isStdlib(path string) bool {
	first := path
	if i := strings.Index(path, "/"); i >= 0 {
		first = path[:i]
	}
	return !strings.Contains(first, ".")
}

func (e *eval) expr(fr *frame, x ast.Expr) sym {
	switch v := x.(type) {
	case *ast.ParenExpr:
		return e.expr(fr, v.X)
	case *ast.Ident:
		if s, ok := fr.env[v.Name]; ok {
			return s
		}
		switch v.Name {
		case "true", "false":
			return sConst{Const{Kind: "bool", Val: v.Name}}
		case "nil":
			return sConst{Const{Kind: "nil", Val: "nil"}}
		}
		return sUnknown{"identifier " + v.Name}
	case *ast.BasicLit, *ast.UnaryExpr:
		if n, ok := intLit(x); ok {
			return sConst{Const{Kind: "int", Val: strconv.Itoa(n)}}
		}
		return sUnknown{"literal"}
	case *ast.IndexExpr:
		base := e.expr(fr, v.X)
		n, isLit := intLit(v.Index)
		switch b := base.(type) {
		case sArgs:
			if isLit {
				return sArg{n + e.shift}
			}
		case sConv:
			if isLit && n == 0 {
				return sIndex0{b.p}
			}
		}
		return sUnknown{"index expression"}
	case *ast.SelectorExpr:
		base := e.expr(fr, v.X)
		if v.Sel.Name == "value" {
			switch b := base.(type) {
			case sRecv:
				return sConv{e.recvParam()}
			case sObjOf:
				return sConv{b.p}
			}
		}
		if _, ok := base.(sUnknown); ok {
			if id, ok := v.X.(*ast.Ident); ok {
				if path, ok := fr.pkg.imports[fr.file][id.Name]; ok && path == "math" {
					return sConst{Const{Kind: "limit", Val: v.Sel.Name}}
				}
			}
		}
		return sUnknown{"selector ." + v.Sel.Name}
	case *ast.CallExpr:
		return e.callExpr(fr, v)
	}
	return sUnknown{fmt.Sprintf("expression %T", x)}
}

func (e *eval) callExpr(fr *frame, c *ast.CallExpr) sym {
	// builtin conversions and len
	if id, ok := c.Fun.(*ast.Ident); ok {
		switch id.Name {
		case "len":
			if len(c.Args) == 1 {
				a := e.expr(fr, c.Args[0])
				if _, ok := a.(sArgs); ok {
					return sLenArgs{}
				}
				if cv, ok := a.(sConv); ok {
					return sLen{cv.p}
				}
			}
			return sUnknown{"len"}
		case "int", "int64":
			if len(c.Args) == 1 {
				a := e.expr(fr, c.Args[0])
				switch av := a.(type) {
				case sConv:
					if av.p.Conv == "CInt" {
						if id.Name == "int" && av.p.Cast == "KNone" {
							av.p.Cast = "KInt"
						}
						return a
					}
					if av.p.Conv == "CFloat" && id.Name == "int" && av.p.Cast == "KNone" {
						av.p.Cast = "KFloatToInt"
						return a
					}
					return sUnknown{id.Name + "() of a " + av.p.Conv + " parameter"}
				case sRes, sConst:
					return a
				}
				return a
			}
		case "make":
			if len(c.Args) >= 2 {
				if at, ok := c.Args[0].(*ast.ArrayType); ok {
					if _, sel, ok := selName(at.Elt); ok && sel == "Object" {
						return sStrList{nil}
					}
				}
			}
			return sUnknown{"call of make"}
		case "float64":
			if len(c.Args) == 1 {
				a := e.expr(fr, c.Args[0])
				if tv, ok := a.(sTSVal); ok && tv.intCase {
					return sConv{tv.p}
				}
				return sUnknown{"float64()"}
			}
		case "string":
			if len(c.Args) == 1 {
				return e.expr(fr, c.Args[0])
			}
		case "rune":
			if len(c.Args) == 1 {
				if ix, ok := e.expr(fr, c.Args[0]).(sIndex0); ok && ix.p.Conv == "CString" && ix.p.len1 {
					ix.p.Cast = "KRune1"
					return sConv{ix.p}
				}
				return sUnknown{"rune()"}
			}
		}
		// function of the same package
		if fd, ok := fr.pkg.funcs[id.Name]; ok {
			if id.Name == "asBytes" && len(c.Args) == 1 {
				if a, ok := e.expr(fr, c.Args[0]).(sArg); ok {
					return sObjOf{e.newParam(a.i, "CBytesOnly")}
				}
			}
			if conv, ok := convNames[id.Name]; ok && len(c.Args) == 1 { // inside package object
				return e.conversion(fr, conv, c.Args[0])
			}
			if _, ok := retNames[id.Name]; ok {
				return e.constructor(fr, id.Name, c)
			}
			return e.delegate(fr.pkg, fd, nil, c.Args, fr)
		}
		if _, ok := retNames[id.Name]; ok {
			return e.constructor(fr, id.Name, c)
		}
		return sUnknown{"call of " + id.Name}
	}
	sel, ok := c.Fun.(*ast.SelectorExpr)
	if !ok {
		return sUnknown{"call"}
	}
	// package-qualified call
	if id, ok := sel.X.(*ast.Ident); ok {
		if _, bound := fr.env[id.Name]; !bound {
			if path, ok := fr.pkg.imports[fr.file][id.Name]; ok {
				if strings.HasSuffix(path, "risor/object") {
					if conv, ok := convNames[sel.Sel.Name]; ok && len(c.Args) == 1 {
						return e.conversion(fr, conv, c.Args[0])
					}
					if _, ok := retNames[sel.Sel.Name]; ok {
						return e.constructor(fr, sel.Sel.Name, c)
					}
					if sel.Sel.Name == "NewList" && len(c.Args) == 1 {
						a := e.expr(fr, c.Args[0])
						if sl, ok := a.(sStrList); ok {
							return sl
						}
						return sUnknown{"object.NewList of something else than a list of strings"}
					}
					if sel.Sel.Name == "NewError" && len(c.Args) == 1 {
						return sErrVar{}
					}
					return sUnknown{"object." + sel.Sel.Name}
				}
				if isStdlib(path) {
					return e.stdCall(fr, id.Name+"."+sel.Sel.Name, nil, c.Args)
				}
				return sUnknown{"call into " + path}
			}
		}
	}
	// method call
	base := e.expr(fr, sel.X)
	switch b := base.(type) {
	case sTSVar:
		if sel.Sel.Name == "Value" && len(c.Args) == 0 {
			if b.intCase {
				return sTSVal{b.p, true}
			}
			return sConv{b.p}
		}
	case sObjOf:
		if sel.Sel.Name == "Value" && len(c.Args) == 0 {
			return sConv{b.p}
		}
		if b.p.Conv == "CBytesOnly" {
			if fd := loadPkg("object").methods["ByteSlice"][sel.Sel.Name]; fd != nil {
				return e.delegate(loadPkg("object"), fd, base, c.Args, fr)
			}
		}
	case sRecv:
		if fd := fr.pkg.methods[b.typ][sel.Sel.Name]; fd != nil {
			return e.delegate(fr.pkg, fd, base, c.Args, fr)
		}
	case sConv:
		// r.value.MatchString(...): a method of the standard-library type behind the receiver
		if b.p.Conv == "CRecvRegexp" {
			return e.stdCall(fr, "(*regexp.Regexp)."+sel.Sel.Name, base, c.Args)
		}
	}
	return sUnknown{"method call ." + sel.Sel.Name}
}

func (e *eval) conversion(fr *frame, conv string, argx ast.Expr) sym {
	a, ok := e.expr(fr, argx).(sArg)
	if !ok {
		return sUnknown{"conversion of something else than a script argument"}
	}
	p := e.newParam(a.i, conv)
	if conv == "CList" {
		return sObjOf{p}
	}
	return sConv{p}
}

func (e *eval) constructor(fr *frame, name string, c *ast.CallExpr) sym {
	if len(c.Args) != 1 {
		return sUnknown{"constructor arity"}
	}
	a := e.expr(fr, c.Args[0])
	r, ok := a.(sRes)
	if !ok || r.idx != 0 {
		if u, ok := a.(sUnknown); ok {
			return sUnknown{"result constructor applied to: " + u.why}
		}
		return sUnknown{"result constructor not applied to the result of the Go call"}
	}
	if e.rec.Ret != "" && e.rec.Ret != retNames[name] {
		return sUnknown{"two different result constructors"}
	}
	e.rec.Ret = retNames[name]
	return a
}

func (e *eval) stdCall(fr *frame, callee string, recv sym, args []ast.Expr) sym {
	var as []sym
	if recv != nil {
		as = append(as, recv)
	}
	for _, a := range args {
		as = append(as, e.expr(fr, a))
	}
	c := &sCall{callee: callee, args: as}
	if e.call != nil {
		// the same call reached on another path (type switch): must be identical
		if !sameCall(e.call, c) {
			e.fail("more than one standard-library call (%s, %s)", e.call.callee, callee)
		}
		return sRes{e.call, 0}
	}
	e.call = c
	return sRes{c, 0}
}

func sameCall(a, b *sCall) bool {
	if a.callee != b.callee || len(a.args) != len(b.args) {
		return false
	}
	for i := range a.args {
		x, ok1 := a.args[i].(sConv)
		y, ok2 := b.args[i].(sConv)
		if ok1 != ok2 {
			return false
		}
		if ok1 && x.p != y.p {
			return false
		}
		if !ok1 && fmt.Sprint(a.args[i]) != fmt.Sprint(b.args[i]) {
			return false
		}
	}
	return true
}

// delegate: evaluate the body of another function of the risor source with its parameters bound
func (e *eval) delegate(pkg *pkgInfo, fd *ast.FuncDecl, recv sym, args []ast.Expr, caller *frame) sym {
	if e.depth > 4 {
		return sUnknown{"delegation too deep"}
	}
	env := map[string]sym{}
	if fd.Recv != nil && len(fd.Recv.List) == 1 && len(fd.Recv.List[0].Names) == 1 {
		env[fd.Recv.List[0].Names[0].Name] = recv
	}
	var names []string
	for _, f := range fd.Type.Params.List {
		for _, n := range f.Names {
			names = append(names, n.Name)
		}
	}
	if len(names) != len(args) {
		return sUnknown{"delegation arity"}
	}
	for i, n := range names {
		env[n] = e.expr(caller, args[i])
	}
	fr := &frame{pkg: pkg, file: pkg.fileOf[fd], env: env}
	e.depth++
	r := e.block(fr, fd.Body.List)
	e.depth--
	if r == nil {
		return sUnknown{"delegate " + fd.Name.Name + " does not return"}
	}
	return r
}

func isErrIdent(fr *frame, x ast.Expr) bool {
	id, ok := x.(*ast.Ident)
	if !ok {
		return false
	}
	_, ok = fr.env[id.Name].(sErrVar)
	return ok
}

// block evaluates statements; returns the symbolic value returned on the success path (nil: none)
func (e *eval) block(fr *frame, stmts []ast.Stmt) sym {
	for _, st := range stmts {
		switch s := st.(type) {
		case *ast.DeclStmt: // var err *object.Error ; var matches []object.Object
			gd, ok := s.Decl.(*ast.GenDecl)
			if !ok || gd.Tok != token.VAR {
				e.fail("declaration")
				return nil
			}
			for _, sp := range gd.Specs {
				vs := sp.(*ast.ValueSpec)
				for _, n := range vs.Names {
					if len(vs.Values) == 0 {
						fr.env[n.Name] = sUnknown{"zero value"}
						if st, ok := vs.Type.(*ast.StarExpr); ok {
							if _, sel, ok := selName(st.X); ok && sel == "Error" {
								fr.env[n.Name] = sErrVar{}
							}
						}
						if at, ok := vs.Type.(*ast.ArrayType); ok {
							_ = at
							fr.env[n.Name] = sStrList{nil}
						}
					}
				}
			}
		case *ast.AssignStmt:
			if !e.assign(fr, s) {
				return nil
			}
		case *ast.IfStmt:
			done, r := e.ifStmt(fr, s)
			if done {
				return r
			}
		case *ast.ReturnStmt:
			if len(s.Results) == 2 {
				if id, ok := s.Results[1].(*ast.Ident); !ok || id.Name != "nil" {
					e.fail("return of a value together with an error")
					return nil
				}
			} else if len(s.Results) != 1 {
				e.fail("return with %d values", len(s.Results))
				return nil
			}
			r := e.expr(fr, s.Results[0])
			if u, ok := r.(sUnknown); ok {
				e.fail("return value: %s", u.why)
				return nil
			}
			return r
		case *ast.TypeSwitchStmt:
			return e.typeSwitch(fr, s)
		case *ast.RangeStmt:
			if !e.rangeStmt(fr, s) {
				return nil
			}
		default:
			e.fail("statement %T", st)
			return nil
		}
		if !e.rec.Regular {
			return nil
		}
	}
	return nil
}

func (e *eval) assign(fr *frame, s *ast.AssignStmt) bool {
	if len(s.Rhs) != 1 {
		e.fail("multiple assignment")
		return false
	}
	// strs = append(strs, x)
	if c, ok := s.Rhs[0].(*ast.CallExpr); ok {
		if id, ok := c.Fun.(*ast.Ident); ok && id.Name == "append" {
			e.fail("append outside a recognised loop")
			return false
		}
	}
	r := e.expr(fr, s.Rhs[0])
	if u, ok := r.(sUnknown); ok {
		e.fail("assignment: %s", u.why)
		return false
	}
	names := []string{}
	for _, l := range s.Lhs {
		id, ok := l.(*ast.Ident)
		if !ok {
			e.fail("assignment target")
			return false
		}
		names = append(names, id.Name)
	}
	switch len(names) {
	case 1:
		if old, ok := fr.env[names[0]].(sConst); ok && s.Tok == token.ASSIGN {
			// an optional parameter overriding its default
			if cv, ok := r.(sConv); ok {
				c := old.c
				cv.p.Opt = &c
			}
		}
		fr.env[names[0]] = r
	case 2:
		// v, err := conversion  |  v, err := Go call  |  a, b := Go call
		switch rv := r.(type) {
		case sConv, sObjOf:
			if old, ok := fr.env[names[0]].(sConst); ok && s.Tok == token.ASSIGN {
				if cv, ok := r.(sConv); ok {
					c := old.c
					cv.p.Opt = &c
				}
			}
			fr.env[names[0]] = r
			fr.env[names[1]] = sErrVar{}
		case sRes:
			rv.c.nres = 2
			fr.env[names[0]] = sRes{rv.c, 0}
			if strings.Contains(strings.ToLower(names[1]), "err") {
				fr.env[names[1]] = sErrVar{}
			} else {
				fr.env[names[1]] = sRes{rv.c, 1}
			}
		default:
			e.fail("two-valued assignment of %T", r)
			return false
		}
	default:
		e.fail("assignment of %d values", len(names))
		return false
	}
	return true
}

// lenCond recognises conditions on the number of arguments; returns (min, max) accepted when the
// condition is FALSE (for a guard that returns an arity error), ok
func (e *eval) arityGuard(fr *frame, cond ast.Expr) (int, int, bool) {
	b, ok := cond.(*ast.BinaryExpr)
	if !ok {
		return 0, 0, false
	}
	if b.Op == token.LOR {
		lo, _, ok1 := e.arityGuard(fr, b.X)
		_, hi, ok2 := e.arityGuard(fr, b.Y)
		if ok1 && ok2 {
			return lo, hi, true
		}
		return 0, 0, false
	}
	if _, ok := e.expr(fr, b.X).(sLenArgs); !ok {
		return 0, 0, false
	}
	n, ok := intLit(b.Y)
	if !ok {
		return 0, 0, false
	}
	switch b.Op {
	case token.NEQ:
		return n, n, true
	case token.LSS: // len < n is an error: min = n
		return n, 1 << 20, true
	case token.GTR: // len > n is an error: max = n
		return 0, n, true
	}
	return 0, 0, false
}

// presentCond: `len(args) > k`, `len(args) == k`, `nArgs == k`: the block runs when optional
// arguments are present
func (e *eval) presentCond(fr *frame, cond ast.Expr) bool {
	b, ok := cond.(*ast.BinaryExpr)
	if !ok {
		return false
	}
	if _, ok := e.expr(fr, b.X).(sLenArgs); !ok {
		return false
	}
	_, ok = intLit(b.Y)
	return ok && (b.Op == token.GTR || b.Op == token.EQL || b.Op == token.GEQ)
}

func returnsErrObject(body *ast.BlockStmt) bool {
	if len(body.List) != 1 {
		return false
	}
	r, ok := body.List[0].(*ast.ReturnStmt)
	if !ok || len(r.Results) != 1 {
		return false
	}
	c, ok := r.Results[0].(*ast.CallExpr)
	if !ok {
		return false
	}
	name := ""
	if _, sel, ok := selName(c.Fun); ok {
		name = sel
	} else if id, ok := c.Fun.(*ast.Ident); ok {
		name = id.Name
	}
	switch name {
	case "NewArgsError", "ArgsErrorf", "NewArgsRangeError", "TypeErrorf", "Errorf":
		return true
	}
	return false
}

func (e *eval) ifStmt(fr *frame, s *ast.IfStmt) (bool, sym) {
	// if err := arg.Require("name", n, args); err != nil { return err }
	if s.Init != nil {
		as, ok := s.Init.(*ast.AssignStmt)
		if !ok || len(as.Rhs) != 1 {
			e.fail("if with an unrecognised initialiser")
			return true, nil
		}
		if c, ok := as.Rhs[0].(*ast.CallExpr); ok {
			if pk, fn, ok := selName(c.Fun); ok && pk == "arg" && (fn == "Require" || fn == "RequireRange") {
				var lo, hi int
				var ok1, ok2 bool
				if fn == "Require" && len(c.Args) == 3 {
					lo, ok1 = intLit(c.Args[1])
					hi, ok2 = lo, ok1
				} else if fn == "RequireRange" && len(c.Args) == 4 {
					lo, ok1 = intLit(c.Args[1])
					hi, ok2 = intLit(c.Args[2])
				}
				if !ok1 || !ok2 {
					e.fail("arity check with non-literal bounds")
					return true, nil
				}
				e.setArity(lo, hi)
				return false, nil
			}
		}
		// if base, typeErr = object.AsInt(args[1]); typeErr != nil { return typeErr }
		if !e.assign(fr, as) {
			return true, nil
		}
		if !e.isErrReturn(fr, s) {
			e.fail("conversion error not returned as is")
			return true, nil
		}
		return false, nil
	}
	// arity guards
	if lo, hi, ok := e.arityGuard(fr, s.Cond); ok && returnsErrObject(s.Body) && s.Else == nil {
		e.setArity(lo, hi)
		return false, nil
	}
	// if err != nil { return err }   (after a conversion)
	if e.isErrReturn(fr, s) {
		return false, nil
	}
	if b, ok := s.Cond.(*ast.BinaryExpr); ok {
		// if goErr != nil { return object.NewError(goErr) }
		if isErrIdent(fr, b.X) && b.Op == token.NEQ && s.Else == nil && len(s.Body.List) == 1 {
			if r, ok := s.Body.List[0].(*ast.ReturnStmt); ok && len(r.Results) == 1 {
				if _, ok := e.expr(fr, r.Results[0]).(sErrVar); ok {
					return false, nil
				}
			}
		}
		// if err == nil { return object.NewInt(int64(i)) }  return object.NewError(err)
		if isErrIdent(fr, b.X) && b.Op == token.EQL && s.Else == nil {
			sub := &frame{pkg: fr.pkg, file: fr.file, env: fr.env}
			r := e.block(sub, s.Body.List)
			return true, r
		}
		// range checks of the generated wrappers: xRaw > math.MaxInt
		if c, ok := e.expr(fr, b.Y).(sConst); ok && c.c.Kind == "limit" && returnsErrObject(s.Body) {
			return false, nil
		}
		// if len(s) != 1 { return Errorf(...) }
		if c, ok := b.X.(*ast.CallExpr); ok && b.Op == token.NEQ {
			if id, ok := c.Fun.(*ast.Ident); ok && id.Name == "len" && len(c.Args) == 1 {
				if n, ok := intLit(b.Y); ok && n == 1 && returnsErrObject(s.Body) {
					if cv, ok := e.expr(fr, c.Args[0]).(sConv); ok {
						cv.p.len1 = true
						return false, nil
					}
				}
			}
		}
	}
	// a value check on converted parameters: if count < 0 { error }, if len(s) > 0 && count > max/len(s) { error }
	if g := e.guardCond(fr, s.Cond); g != nil && s.Else == nil && (returnsErrObject(s.Body) || returnsGoError(s.Body)) {
		e.rec.Guards = append(e.rec.Guards, g)
		return false, nil
	}
	// optional arguments present
	if e.presentCond(fr, s.Cond) && s.Else == nil {
		before := len(e.rec.Params)
		r := e.block(fr, s.Body.List)
		if r != nil {
			e.fail("return inside an optional-argument block")
			return true, nil
		}
		for _, p := range e.rec.Params[before:] {
			if p.Opt == nil {
				e.fail("optional argument without a default")
				return true, nil
			}
		}
		return false, nil
	}
	e.fail("if statement at %s", relPos(s.Pos()))
	return true, nil
}

// returnsGoError: { return <zero>, errors.New(...) } in a function that returns (T, error)
func returnsGoError(body *ast.BlockStmt) bool {
	if len(body.List) != 1 {
		return false
	}
	r, ok := body.List[0].(*ast.ReturnStmt)
	if !ok || len(r.Results) != 2 {
		return false
	}
	c, ok := r.Results[1].(*ast.CallExpr)
	if !ok {
		return false
	}
	pk, fn, ok := selName(c.Fun)
	return ok && ((pk == "errors" && fn == "New") || (pk == "fmt" && fn == "Errorf"))
}

// constInt evaluates an integer constant expression (literals, package constants, << * + -)
func (e *eval) constInt(fr *frame, x ast.Expr, depth int) (int64, bool) {
	if depth > 8 {
		return 0, false
	}
	switch v := x.(type) {
	case *ast.ParenExpr:
		return e.constInt(fr, v.X, depth+1)
	case *ast.BasicLit:
		if v.Kind == token.INT {
			n, err := strconv.ParseInt(v.Value, 0, 64)
			return n, err == nil
		}
	case *ast.Ident:
		if _, bound := fr.env[v.Name]; bound {
			return 0, false
		}
		if c, ok := fr.pkg.consts[v.Name]; ok {
			return e.constInt(fr, c, depth+1)
		}
	case *ast.BinaryExpr:
		a, ok1 := e.constInt(fr, v.X, depth+1)
		b, ok2 := e.constInt(fr, v.Y, depth+1)
		if !ok1 || !ok2 {
			return 0, false
		}
		switch v.Op {
		case token.SHL:
			if b >= 0 && b < 63 {
				return a << uint(b), true
			}
		case token.MUL:
			return a * b, true
		case token.ADD:
			return a + b, true
		case token.SUB:
			return a - b, true
		}
	}
	return 0, false
}

func (e *eval) intParam(fr *frame, x ast.Expr) *Param {
	if cv, ok := e.expr(fr, x).(sConv); ok && cv.p.Conv == "CInt" {
		return cv.p
	}
	return nil
}

func (e *eval) guardCond(fr *frame, cond ast.Expr) *Guard {
	b, ok := cond.(*ast.BinaryExpr)
	if !ok {
		return nil
	}
	switch b.Op {
	case token.LSS: // n < 0
		if z, ok := intLit(b.Y); ok && z == 0 {
			if p := e.intParam(fr, b.X); p != nil {
				return &Guard{Kind: "neg", n: p}
			}
		}
	case token.LAND: // len(s) > 0 && n > bound/len(s)
		l, ok1 := b.X.(*ast.BinaryExpr)
		r, ok2 := b.Y.(*ast.BinaryExpr)
		if !ok1 || !ok2 || l.Op != token.GTR || r.Op != token.GTR {
			return nil
		}
		ls, ok := e.expr(fr, l.X).(sLen)
		if z, isLit := intLit(l.Y); !ok || !isLit || z != 0 {
			return nil
		}
		n := e.intParam(fr, r.X)
		if n == nil {
			return nil
		}
		q := r.Y
		if c, ok := q.(*ast.CallExpr); ok && len(c.Args) == 1 { // int64(bound/len(s))
			if id, ok := c.Fun.(*ast.Ident); ok && (id.Name == "int64" || id.Name == "int") {
				q = c.Args[0]
			}
		}
		if pe, ok := q.(*ast.ParenExpr); ok {
			q = pe.X
		}
		quo, ok := q.(*ast.BinaryExpr)
		if !ok || quo.Op != token.QUO {
			return nil
		}
		ls2, ok := e.expr(fr, quo.Y).(sLen)
		if !ok || ls2.p != ls.p {
			return nil
		}
		bound, ok := e.constInt(fr, quo.X, 0)
		if !ok || bound < 0 {
			return nil
		}
		return &Guard{Kind: "toolong", n: n, s: ls.p, Bound: bound}
	}
	return nil
}

func (e *eval) isErrReturn(fr *frame, s *ast.IfStmt) bool {
	b, ok := s.Cond.(*ast.BinaryExpr)
	if !ok || b.Op != token.NEQ || !isErrIdent(fr, b.X) || s.Else != nil || len(s.Body.List) != 1 {
		return false
	}
	r, ok := s.Body.List[0].(*ast.ReturnStmt)
	if !ok || len(r.Results) != 1 {
		return false
	}
	x, ok1 := b.X.(*ast.Ident)
	y, ok2 := r.Results[0].(*ast.Ident)
	return ok1 && ok2 && x.Name == y.Name
}

func (e *eval) setArity(lo, hi int) {
	if e.arity {
		// the method's closure checked the arity already; a nested check must agree
		return
	}
	e.arity = true
	e.rec.Min, e.rec.Max = lo+e.shift, hi+e.shift
}

// switch arg := args[i].(type) { case *object.Int: ...; case *object.Float: ...; default: type error }
func (e *eval) typeSwitch(fr *frame, s *ast.TypeSwitchStmt) sym {
	as, ok := s.Assign.(*ast.AssignStmt)
	if !ok || len(as.Lhs) != 1 || len(as.Rhs) != 1 {
		e.fail("type switch without a bound variable")
		return nil
	}
	ta, ok := as.Rhs[0].(*ast.TypeAssertExpr)
	if !ok {
		e.fail("type switch")
		return nil
	}
	a, ok := e.expr(fr, ta.X).(sArg)
	if !ok {
		e.fail("type switch on something else than a script argument")
		return nil
	}
	name := as.Lhs[0].(*ast.Ident).Name
	p := e.newParam(a.i, "CNumSwitch")
	var results []sym
	seen := map[string]bool{}
	for _, cl := range s.Body.List {
		cc := cl.(*ast.CaseClause)
		if cc.List == nil {
			if !returnsErrObject(&ast.BlockStmt{List: cc.Body}) {
				e.fail("type switch default is not a type error")
				return nil
			}
			seen["default"] = true
			continue
		}
		if len(cc.List) != 1 {
			e.fail("type switch case with several types")
			return nil
		}
		st, ok := cc.List[0].(*ast.StarExpr)
		if !ok {
			e.fail("type switch case")
			return nil
		}
		_, tn, ok := selName(st.X)
		if !ok || (tn != "Int" && tn != "Float") {
			e.fail("type switch case on %v", tn)
			return nil
		}
		seen[tn] = true
		env := map[string]sym{}
		for k, v := range fr.env {
			env[k] = v
		}
		env[name] = sTSVar{p, tn == "Int"}
		sub := &frame{pkg: fr.pkg, file: fr.file, env: env}
		r := e.block(sub, cc.Body)
		if r == nil {
			e.fail("type switch case %s does not return the wrapped call", tn)
			return nil
		}
		results = append(results, r)
	}
	if !seen["Int"] || !seen["Float"] || !seen["default"] || len(results) != 2 {
		e.fail("type switch is not {int, float, default}")
		return nil
	}
	r0, ok0 := results[0].(sRes)
	r1, ok1 := results[1].(sRes)
	if !ok0 || !ok1 || r0.c != r1.c {
		e.fail("type switch cases return different things")
		return nil
	}
	return results[0]
}

// for _, m := range <Go result> { list = append(list, object.NewString(m)) }
// for _, item := range ls.Value() { s, err := AsString(item); if err != nil { return err }; strs = append(strs, s) }
func (e *eval) rangeStmt(fr *frame, s *ast.RangeStmt) bool {
	src := e.expr(fr, s.X)
	val, _ := s.Value.(*ast.Ident)
	if val == nil {
		e.fail("range without a value variable")
		return false
	}
	last, ok := s.Body.List[len(s.Body.List)-1].(*ast.AssignStmt)
	if !ok || len(last.Lhs) != 1 || len(last.Rhs) != 1 {
		e.fail("loop body")
		return false
	}
	target, _ := last.Lhs[0].(*ast.Ident)
	app, _ := last.Rhs[0].(*ast.CallExpr)
	if target == nil || app == nil || len(app.Args) != 2 {
		e.fail("loop body is not an append")
		return false
	}
	if id, ok := app.Fun.(*ast.Ident); !ok || id.Name != "append" {
		e.fail("loop body is not an append")
		return false
	}
	switch sv := src.(type) {
	case sRes: // list of strings from the result of the Go call
		if len(s.Body.List) != 1 {
			e.fail("loop over the Go result does more than append")
			return false
		}
		c, ok := app.Args[1].(*ast.CallExpr)
		if !ok || len(c.Args) != 1 {
			e.fail("loop appends something else than object.NewString(item)")
			return false
		}
		name := ""
		if _, sel, ok := selName(c.Fun); ok {
			name = sel
		} else if id, ok := c.Fun.(*ast.Ident); ok {
			name = id.Name
		}
		if id, ok := c.Args[0].(*ast.Ident); !ok || id.Name != val.Name || name != "NewString" {
			e.fail("loop appends something else than object.NewString(item)")
			return false
		}
		if e.rec.Ret != "" && e.rec.Ret != "RStrList" {
			e.fail("two different result constructors")
			return false
		}
		e.rec.Ret = "RStrList"
		fr.env[target.Name] = sStrList{sv}
		return true
	case sConv: // items of a list converted one by one
		if sv.p.Conv != "CList" || len(s.Body.List) != 3 {
			e.fail("loop over a parameter")
			return false
		}
		as, ok := s.Body.List[0].(*ast.AssignStmt)
		if !ok || len(as.Rhs) != 1 {
			e.fail("loop over a list parameter")
			return false
		}
		c, ok := as.Rhs[0].(*ast.CallExpr)
		if !ok || len(c.Args) != 1 {
			e.fail("loop over a list parameter")
			return false
		}
		name := ""
		if _, sel, ok := selName(c.Fun); ok {
			name = sel
		} else if id, ok := c.Fun.(*ast.Ident); ok {
			name = id.Name
		}
		if id, ok := c.Args[0].(*ast.Ident); !ok || id.Name != val.Name || name != "AsString" {
			e.fail("list items are not converted with AsString")
			return false
		}
		sub := &frame{pkg: fr.pkg, file: fr.file, env: map[string]sym{}}
		for k, v := range fr.env {
			sub.env[k] = v
		}
		sub.env[as.Lhs[1].(*ast.Ident).Name] = sErrVar{}
		if is, ok := s.Body.List[1].(*ast.IfStmt); !ok || !e.isErrReturn(sub, is) {
			e.fail("item conversion error not returned as is")
			return false
		}
		if id, ok := app.Args[1].(*ast.Ident); !ok || id.Name != as.Lhs[0].(*ast.Ident).Name {
			e.fail("loop appends something else than the converted item")
			return false
		}
		sv.p.Conv = "CStrings"
		fr.env[target.Name] = sConv{sv.p}
		return true
	}
	e.fail("loop over %T", src)
	return false
}

// ---------------------------------------------------------------------------- finishing a record

func (e *eval) finish(ret sym) {
	rec := e.rec
	if !rec.Regular {
		return
	}
	if ret == nil {
		e.fail("no return of the wrapped call found")
		return
	}
	switch r := ret.(type) {
	case sRes:
		if r.c != e.call || r.idx != 0 {
			e.fail("returns something else than the first result of the Go call")
			return
		}
	case sStrList:
		rs, ok := r.from.(sRes)
		if !ok || rs.c != e.call || rs.idx != 0 {
			e.fail("returns a list not built from the Go result")
			return
		}
	default:
		e.fail("returns %T", ret)
		return
	}
	if e.call == nil || rec.Ret == "" {
		e.fail("no standard-library call or no result constructor")
		return
	}
	if !e.arity {
		e.fail("no arity check")
		return
	}
	rec.Callee = e.call.callee
	used := map[*Param]bool{}
	for i, a := range e.call.args {
		switch v := a.(type) {
		case sConv:
			if used[v.p] {
				e.fail("parameter passed twice")
				return
			}
			used[v.p] = true
			v.p.Pos = i
		case sConst:
			if v.c.Kind != "int" && v.c.Kind != "bool" {
				e.fail("constant argument of kind %s", v.c.Kind)
				return
			}
			c := v.c
			c.Pos = i
			rec.Consts = append(rec.Consts, c)
		case sIndex0:
			if v.p.Conv == "CBytes" && v.p.len1 && !used[v.p] {
				v.p.Cast = "KByte1"
				v.p.Pos = i
				used[v.p] = true
			} else {
				e.fail("x[0] passed without a length check")
				return
			}
		case sUnknown:
			e.fail("argument %d of %s: %s", i, rec.Callee, v.why)
			return
		default:
			e.fail("argument %d of %s is %T", i, rec.Callee, a)
			return
		}
	}
	for _, g := range rec.Guards {
		if !used[g.n] || (g.s != nil && !used[g.s]) {
			e.fail("a value check on a parameter that is not passed to %s", rec.Callee)
			return
		}
		g.Pos = g.n.Pos
		if g.s != nil {
			g.SPos = g.s.Pos
		}
	}
	for _, p := range rec.Params {
		if !used[p] {
			e.fail("a converted parameter is not passed to %s", rec.Callee)
			return
		}
		if p.Conv == "CList" {
			e.fail("list parameter passed unconverted")
			return
		}
		if p.len1 && p.Cast == "KNone" {
			e.fail("length-checked parameter passed whole")
			return
		}
	}
}

func relPos(p token.Pos) string {
	s := fset.Position(p).String()
	if strings.HasPrefix(s, repo) {
		s = strings.TrimPrefix(s[len(repo):], "/")
	}
	return s
}

func analyseFunc(name string, pkg *pkgInfo, file *ast.File, typ *ast.FuncType, body *ast.BlockStmt, recvName, recvType string, outer map[string]sym) *Record {
	rec := &Record{Name: name, Regular: true, Source: relPos(body.Pos())}
	e := &eval{rec: rec, recvType: recvType}
	if recvType != "" {
		e.shift = 1
	}
	env := map[string]sym{}
	for k, v := range outer {
		env[k] = v
	}
	// func(ctx context.Context, args ...object.Object) object.Object
	ps := typ.Params.List
	if len(ps) != 2 || len(ps[1].Names) != 1 {
		e.fail("not a builtin function signature")
		return rec
	}
	env[ps[1].Names[0].Name] = sArgs{}
	if recvName != "" {
		env[recvName] = sRecv{recvType}
	}
	fr := &frame{pkg: pkg, file: file, env: env}
	ret := e.block(fr, body.List)
	e.finish(ret)
	if !rec.Regular {
		rec.Callee, rec.Ret = "", "RBool"
		rec.Params, rec.Consts, rec.Guards = nil, nil, nil
		if !e.arity {
			rec.Min, rec.Max = 0, 0
		}
	}
	return rec
}

// ---------------------------------------------------------------------------- discovery

func moduleRecords(mod, rel string) []*Record {
	pkg := loadPkg(rel)
	var out []*Record
	seen := map[string]bool{}
	for _, f := range pkg.files {
		ast.Inspect(f, func(n ast.Node) bool {
			c, ok := n.(*ast.CallExpr)
			if !ok || len(c.Args) != 2 {
				return true
			}
			if pk, fn, ok := selName(c.Fun); !ok || pk != "object" || fn != "NewBuiltin" {
				return true
			}
			lit, ok := c.Args[0].(*ast.BasicLit)
			if !ok {
				return true
			}
			export, _ := strconv.Unquote(lit.Value)
			id, ok := c.Args[1].(*ast.Ident)
			if !ok {
				return true
			}
			fd := pkg.funcs[id.Name]
			if fd == nil || seen[export] {
				return true
			}
			seen[export] = true
			out = append(out, analyseFunc(mod+"."+export, pkg, pkg.fileOf[fd], fd.Type, fd.Body, "", "", nil))
			return true
		})
	}
	return out
}

// methods defined as closures in a GetAttr switch
func methodRecords(prefix, rel, typeName string) []*Record {
	pkg := loadPkg(rel)
	fd := pkg.methods[typeName]["GetAttr"]
	if fd == nil {
		return nil
	}
	recvName := fd.Recv.List[0].Names[0].Name
	var out []*Record
	ast.Inspect(fd.Body, func(n ast.Node) bool {
		cc, ok := n.(*ast.CaseClause)
		if !ok || len(cc.List) != 1 {
			return true
		}
		lit, ok := cc.List[0].(*ast.BasicLit)
		if !ok {
			return true
		}
		attr, _ := strconv.Unquote(lit.Value)
		var fl *ast.FuncLit
		for _, st := range cc.Body {
			ast.Inspect(st, func(m ast.Node) bool {
				if f, ok := m.(*ast.FuncLit); ok && fl == nil {
					fl = f
					return false
				}
				return true
			})
		}
		if fl != nil {
			out = append(out, analyseFunc(prefix+"."+attr, pkg, pkg.fileOf[fd], fl.Type, fl.Body, recvName, typeName, nil))
		}
		return false
	})
	return out
}

// ---------------------------------------------------------------------------- output

func coqConst(c Const) string {
	if c.Kind == "bool" {
		return "GBool " + c.Val
	}
	return "GInt (" + c.Val + ")"
}

func emitCoq(recs []*Record) {
	var b strings.Builder
	b.WriteString("(* GENERATED by harness/cmd/c19gen from the current risor source - do not edit, do not commit. *)\n")
	b.WriteString("From Coq Require Import List ZArith NArith String.\nRequire Import RV.model.Wrappers.\nImport ListNotations.\nOpen Scope string_scope.\n\n")
	b.WriteString("Definition gen_wrappers : list wrapper := [\n")
	for i, r := range recs {
		fmt.Fprintf(&b, "  (* %s%s *)\n", r.Source, map[bool]string{true: "", false: "  IRREGULAR: " + strings.ReplaceAll(r.Reason, "*)", "* )")}[r.Regular])
		fmt.Fprintf(&b, "  {| w_name := %q; w_min := %d; w_max := %d;\n     w_params := [", r.Name, r.Min, r.Max)
		for j, p := range r.Params {
			if j > 0 {
				b.WriteString(";\n                  ")
			}
			opt := "None"
			if p.Opt != nil {
				opt = "Some (" + coqConst(*p.Opt) + ")"
			}
			fmt.Fprintf(&b, "{| p_arg := %d; p_conv := %s; p_cast := %s; p_pos := %d; p_opt := %s |}", p.Arg, p.Conv, p.Cast, p.Pos, opt)
		}
		b.WriteString("];\n     w_consts := [")
		for j, c := range r.Consts {
			if j > 0 {
				b.WriteString("; ")
			}
			fmt.Fprintf(&b, "(%d%%nat, %s)", c.Pos, coqConst(c))
		}
		b.WriteString("];\n     w_guards := [")
		for j, g := range r.Guards {
			if j > 0 {
				b.WriteString("; ")
			}
			if g.Kind == "neg" {
				fmt.Fprintf(&b, "GNeg %d", g.Pos)
			} else {
				fmt.Fprintf(&b, "GTooLong %d %d (%d)", g.SPos, g.Pos, g.Bound)
			}
		}
		fmt.Fprintf(&b, "];\n     w_callee := %q; w_ret := %s; w_regular := %v |}", r.Callee, r.Ret, r.Regular)
		if i+1 < len(recs) {
			b.WriteString(";")
		}
		b.WriteString("\n")
	}
	b.WriteString("].\n")
	fmt.Print(b.String())
}

func main() {
	if len(os.Args) != 3 {
		fmt.Fprintln(os.Stderr, "usage: c19gen <repo-dir> coq|json")
		os.Exit(2)
	}
	repo = filepath.Clean(os.Args[1])
	var recs []*Record
	for _, m := range []struct{ mod, rel string }{
		{"strings", "modules/strings"}, {"strconv", "modules/strconv"}, {"math", "modules/math"},
		{"bytes", "modules/bytes"}, {"base64", "modules/base64"}, {"filepath", "modules/filepath"},
		{"regexp", "modules/regexp"},
	} {
		recs = append(recs, moduleRecords(m.mod, m.rel)...)
	}
	recs = append(recs, methodRecords("string", "object", "String")...)
	recs = append(recs, methodRecords("byte_slice", "object", "ByteSlice")...)
	recs = append(recs, methodRecords("regexp_object", "modules/regexp", "Regexp")...)
	sort.SliceStable(recs, func(i, j int) bool { return recs[i].Name < recs[j].Name })
	if len(recs) == 0 {
		fmt.Fprintln(os.Stderr, "c19gen: no wrappers found under", repo)
		os.Exit(2)
	}
	switch os.Args[2] {
	case "coq":
		emitCoq(recs)
	case "json":
		enc := json.NewEncoder(os.Stdout)
		enc.SetIndent("", " ")
		enc.Encode(recs)
	default:
		os.Exit(2)
	}
}
