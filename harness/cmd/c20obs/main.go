// c20obs: diagnostics observations for C20.
//
//	c20obs diag < hex sources  ->
//	   OK                                   (parses and compiles)
//	   PERR <sl> <sc> <el> <ec> <hex source line> <friendly: ok|PANIC...> <hex message> f<hex error file> f<hex position file> lx=<tokens read>:<line>:<col of the end of the last token read> | lx=-
//	   CERR <hex message>                   (compile error)
//	   GOPANIC <text>
//
// lines/columns are the 1-based LineNumber()/ColumnNumber() of the error's start and end positions.
package main

import (
	"bufio"
	"context"
	"encoding/hex"
	"fmt"
	"os"
	"strings"

	"github.com/risor-io/risor/compiler"
	"github.com/risor-io/risor/errz"
	"github.com/risor-io/risor/lexer"
	"github.com/risor-io/risor/token"
	"github.com/risor-io/risor/parser"
)

// the name given to the parser: every diagnostic must carry it
const fileName = "prog.risor"

func main() {
	w := bufio.NewWriterSize(os.Stdout, 1<<20)
	defer w.Flush()
	sc := bufio.NewScanner(os.Stdin)
	sc.Buffer(make([]byte, 1<<20), 1<<24)
	ctx := context.Background()
	globals := []string{"len", "print", "t", "log"}
	for sc.Scan() {
		b, _ := hex.DecodeString(sc.Text())
		src := string(b)
		func() {
			defer func() {
				if r := recover(); r != nil {
					fmt.Fprintf(w, "GOPANIC %v\n", strings.ReplaceAll(fmt.Sprint(r), "\n", " "))
				}
			}()
			prog, err := parser.Parse(ctx, src, parser.WithFile(fileName))
			if err != nil {
				pe, ok := err.(parser.ParserError)
				if !ok {
					fmt.Fprintf(w, "PERR-OTHER %s\n", hex.EncodeToString([]byte(err.Error())))
					return
				}
				friendly := "ok"
				func() {
					defer func() {
						if r := recover(); r != nil {
							friendly = "PANIC:" + strings.ReplaceAll(fmt.Sprint(r), " ", "_")
						}
					}()
					var fe errz.FriendlyError = pe
					_ = fe.FriendlyErrorMessage()
					_ = pe.Error()
				}()
				// independent reference for lexer errors: where the last token that could be read ends, and how many
				// tokens were read before the lexer gave up ("-" when the whole input lexes)
				lx := "-"
				func() {
					defer func() {
						if r := recover(); r != nil {
							lx = "-"
						}
					}()
					l := lexer.New(src)
					n := 0
					var last token.Token
					for n < 1<<22 {
						t, err := l.Next()
						if err != nil {
							lx = fmt.Sprintf("%d:%d:%d", n, last.EndPosition.LineNumber(), last.EndPosition.ColumnNumber())
							if n == 0 {
								lx = "0:0:0"
							}
							return
						}
						if t.Type == token.EOF {
							return
						}
						last = t
						n++
					}
				}()
				s, e := pe.StartPosition(), pe.EndPosition()
				fmt.Fprintf(w, "PERR %d %d %d %d %s %s %s %s %s %s\n", s.LineNumber(), s.ColumnNumber(), e.LineNumber(), e.ColumnNumber(),
					"h"+hex.EncodeToString([]byte(pe.SourceCode())), friendly, hex.EncodeToString([]byte(pe.Error())),
					"f"+hex.EncodeToString([]byte(pe.File())), "f"+hex.EncodeToString([]byte(s.File)), "lx="+lx)
				return
			}
			if _, err := compiler.Compile(prog, compiler.WithGlobalNames(globals)); err != nil {
				fmt.Fprintf(w, "CERR %s\n", hex.EncodeToString([]byte(err.Error())))
				return
			}
			fmt.Fprintln(w, "OK")
		}()
	}
}
