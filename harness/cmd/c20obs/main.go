// c20obs: diagnostics observations for C20.
//
//	c20obs diag < hex sources  ->
//	   OK                                   (parses and compiles)
//	   PERR <sl> <sc> <el> <ec> <hex source line> <friendly: ok|PANIC...> <hex message>
//	   CERR <hex message>                   (compile error)
//	   GOPANIC <text>
//
// lines/columns are the 1-based LineNumber()/ColumnNumber() of the error's start and end positions.
package main

import (
	"bufio"
	"context"
	"encoding/hex"
	"fmt"
	"os"
	"strings"

	"github.com/risor-io/risor/compiler"
	"github.com/risor-io/risor/errz"
	"github.com/risor-io/risor/parser"
)

func main() {
	w := bufio.NewWriterSize(os.Stdout, 1<<20)
	defer w.Flush()
	sc := bufio.NewScanner(os.Stdin)
	sc.Buffer(make([]byte, 1<<20), 1<<24)
	ctx := context.Background()
	globals := []string{"len", "print", "t", "log"}
	for sc.Scan() {
		b, _ := hex.DecodeString(sc.Text())
		src := string(b)
		func() {
			defer func() {
				if r := recover(); r != nil {
					fmt.Fprintf(w, "GOPANIC %v\n", strings.ReplaceAll(fmt.Sprint(r), "\n", " "))
				}
			}()
			prog, err := parser.Parse(ctx, src)
			if err != nil {
				pe, ok := err.(parser.ParserError)
				if !ok {
					fmt.Fprintf(w, "PERR-OTHER %s\n", hex.EncodeToString([]byte(err.Error())))
					return
				}
				friendly := "ok"
				func() {
					defer func() {
						if r := recover(); r != nil {
							friendly = "PANIC:" + strings.ReplaceAll(fmt.Sprint(r), " ", "_")
						}
					}()
					var fe errz.FriendlyError = pe
					_ = fe.FriendlyErrorMessage()
					_ = pe.Error()
				}()
				s, e := pe.StartPosition(), pe.EndPosition()
				fmt.Fprintf(w, "PERR %d %d %d %d %s %s %s\n", s.LineNumber(), s.ColumnNumber(), e.LineNumber(), e.ColumnNumber(),
					"h"+hex.EncodeToString([]byte(pe.SourceCode())), friendly, hex.EncodeToString([]byte(pe.Error())))
				return
			}
			if _, err := compiler.Compile(prog, compiler.WithGlobalNames(globals)); err != nil {
				fmt.Fprintf(w, "CERR %s\n", hex.EncodeToString([]byte(err.Error())))
				return
			}
			fmt.Fprintln(w, "OK")
		}()
	}
}
