// c16obs: implementation-side observations for C16 (containers behave as abstract containers).
//
// One case per line.  Values in the prefix notation of c15obs; rK names the K-th object of the case's store;
// "-" is an omitted slice bound or default.
//
//	Q <route> op | op | ...     list / map / set store.  route = api (object API) or script (risor.Eval per step)
//	B <route> op | op | ...     byte_slice store
//	X <route> get|slice|len <string> args...
//
// Output: one line per case; per step `<outcome> # <obj> , <obj> ...`, steps separated by " ;; ".
// outcome: V <value> | R<k> (the k-th store object: the receiver, or a freshly created object) | E<class>.
package main

import (
	"bufio"
	"context"
	"encoding/hex"
	"errors"
	"fmt"
	"math"
	"os"
	"sort"
	"strconv"
	"strings"

	"github.com/risor-io/risor"
	"github.com/risor-io/risor/builtins"
	"github.com/risor-io/risor/object"
	"github.com/risor-io/risor/op"
)

// ---------------------------------------------------------------- values

type parser struct {
	toks []string
	pos  int
}

func (p *parser) more() bool { return p.pos < len(p.toks) }

func (p *parser) next() (string, error) {
	if p.pos >= len(p.toks) {
		return "", errors.New("unexpected end of op")
	}
	t := p.toks[p.pos]
	p.pos++
	return t, nil
}

func (p *parser) parseValue() (object.Object, error) {
	t, err := p.next()
	if err != nil {
		return nil, err
	}
	switch {
	case t == "n":
		return object.Nil, nil
	case t == "t":
		return object.True, nil
	case t == "f":
		return object.False, nil
	case t[0] == 'i':
		v, err := strconv.ParseInt(t[1:], 10, 64)
		if err != nil {
			return nil, err
		}
		return object.NewInt(v), nil
	case t[0] == 'd':
		v, err := strconv.ParseUint(t[1:], 16, 64)
		if err != nil {
			return nil, err
		}
		return object.NewFloat(math.Float64frombits(v)), nil
	case t[0] == 'y':
		v, err := strconv.ParseUint(t[1:], 10, 8)
		if err != nil {
			return nil, err
		}
		return object.NewByte(byte(v)), nil
	case strings.HasPrefix(t, "s="):
		b, err := hex.DecodeString(t[2:])
		if err != nil {
			return nil, err
		}
		return object.NewString(string(b)), nil
	case strings.HasPrefix(t, "b="):
		b, err := hex.DecodeString(t[2:])
		if err != nil {
			return nil, err
		}
		return object.NewByteSlice(b), nil
	case t[0] == 'L' || t[0] == 'S':
		k, err := strconv.Atoi(t[1:])
		if err != nil {
			return nil, err
		}
		items := make([]object.Object, 0, k)
		for i := 0; i < k; i++ {
			v, err := p.parseValue()
			if err != nil {
				return nil, err
			}
			items = append(items, v)
		}
		if t[0] == 'L' {
			return object.NewList(items), nil
		}
		s := object.NewSet(items)
		if object.IsError(s) {
			return nil, errors.New("unhashable set member in case")
		}
		return s, nil
	case t[0] == 'M':
		k, err := strconv.Atoi(t[1:])
		if err != nil {
			return nil, err
		}
		m := map[string]object.Object{}
		for i := 0; i < k; i++ {
			kt, err := p.next()
			if err != nil {
				return nil, err
			}
			if !strings.HasPrefix(kt, "k=") {
				return nil, errors.New("map key expected")
			}
			kb, err := hex.DecodeString(kt[2:])
			if err != nil {
				return nil, err
			}
			v, err := p.parseValue()
			if err != nil {
				return nil, err
			}
			m[string(kb)] = v
		}
		return object.NewMap(m), nil
	}
	return nil, fmt.Errorf("bad token %q", t)
}

// an optional value: "-" is absent
func (p *parser) parseOpt() (object.Object, error) {
	if p.pos < len(p.toks) && p.toks[p.pos] == "-" {
		p.pos++
		return nil, nil
	}
	return p.parseValue()
}

func (p *parser) parseRef(n int) (int, error) {
	t, err := p.next()
	if err != nil {
		return 0, err
	}
	if t[0] != 'r' {
		return 0, fmt.Errorf("reference expected, got %q", t)
	}
	k, err := strconv.Atoi(t[1:])
	if err != nil {
		return 0, err
	}
	if k < 0 || k >= n {
		return 0, fmt.Errorf("reference %d outside the store (%d objects)", k, n)
	}
	return k, nil
}

func show(o object.Object, depth int) string {
	if depth > 40 {
		return "?deep"
	}
	switch o := o.(type) {
	case nil:
		return "?gonil"
	case *object.NilType:
		return "n"
	case *object.Bool:
		if o.Value() {
			return "t"
		}
		return "f"
	case *object.Int:
		return "i" + strconv.FormatInt(o.Value(), 10)
	case *object.Float:
		return fmt.Sprintf("d%016x", math.Float64bits(o.Value()))
	case *object.Byte:
		return "y" + strconv.Itoa(int(o.Value()))
	case *object.String:
		return "s=" + hex.EncodeToString([]byte(o.Value()))
	case *object.ByteSlice:
		return "b=" + hex.EncodeToString(o.Value())
	case *object.List:
		parts := []string{"L" + strconv.Itoa(len(o.Value()))}
		for _, it := range o.Value() {
			parts = append(parts, show(it, depth+1))
		}
		return strings.Join(parts, " ")
	case *object.Map:
		m := o.Value()
		keys := make([]string, 0, len(m))
		for k := range m {
			keys = append(keys, k)
		}
		sort.Strings(keys)
		parts := []string{"M" + strconv.Itoa(len(m))}
		for _, k := range keys {
			parts = append(parts, "k="+hex.EncodeToString([]byte(k)), show(m[k], depth+1))
		}
		return strings.Join(parts, " ")
	case *object.Set:
		var ms []string
		for _, it := range o.Value() {
			ms = append(ms, show(it, depth+1))
		}
		sort.Strings(ms)
		return strings.Join(append([]string{"S" + strconv.Itoa(len(ms))}, ms...), " ")
	case *object.Error:
		return "?error"
	}
	return "?" + string(o.Type())
}

func errClass(m string) string {
	switch {
	case strings.Contains(m, "panic") || strings.Contains(m, "runtime error"):
		return "panic"
	case strings.Contains(m, "attribute \""):
		return "attr"
	case strings.HasPrefix(m, "index error"):
		return "index"
	case strings.HasPrefix(m, "slice error"):
		return "slice"
	case strings.HasPrefix(m, "key error"):
		return "key"
	case strings.HasPrefix(m, "args error"):
		return "args"
	case strings.HasPrefix(m, "value error"):
		return "value"
	case strings.HasPrefix(m, "type error") || strings.Contains(m, "does not support"):
		return "type"
	}
	return "other"
}

// ---------------------------------------------------------------- running one operation

type result struct {
	obj object.Object // nil for statements
	err string        // error class, "" if none
}

func evalScript(src string, g map[string]any) (res result) {
	defer func() {
		if r := recover(); r != nil {
			res = result{err: "gopanic"}
		}
	}()
	v, err := risor.Eval(context.Background(), src, risor.WithGlobals(g))
	if err != nil {
		return result{err: errClass(err.Error())}
	}
	return result{obj: v}
}

func fromObj(o object.Object) result {
	if e, ok := o.(*object.Error); ok {
		return result{err: errClass(e.Value().Error())}
	}
	return result{obj: o}
}

func fromErr(o object.Object, e *object.Error) result {
	if e != nil {
		return result{err: errClass(e.Value().Error())}
	}
	return result{obj: o}
}

func callMethod(recv object.Object, name string, args ...object.Object) (res result) {
	defer func() {
		if r := recover(); r != nil {
			res = result{err: "gopanic"}
		}
	}()
	attr, ok := recv.GetAttr(name)
	if !ok {
		return result{err: "attr"}
	}
	c, ok := attr.(object.Callable)
	if !ok {
		return result{err: "attr"}
	}
	return fromObj(c.Call(context.Background(), args...))
}

func callBuiltin(fn func(context.Context, ...object.Object) object.Object, args ...object.Object) (res result) {
	defer func() {
		if r := recover(); r != nil {
			res = result{err: "gopanic"}
		}
	}()
	return fromObj(fn(context.Background(), args...))
}

type spec struct {
	refs   int    // number of store references that follow the name
	vals   int    // number of (optional) values after the references
	kind   string // "alloc": a successful result is a new store object; "self": returns the receiver; "val"; "stmt"
	script string // template over r0 r1 a0 a1; "" = not available in the script route
	api    bool   // available in the API route
}

var specs = map[string]spec{
	"get":           {1, 1, "val", "r0[a0]", true},
	"slice":         {1, 2, "alloc", "", true}, // script template depends on the omitted bounds
	"setitem":       {1, 2, "stmt", "r0[a0] = a1", true},
	"addassign":     {1, 2, "stmt", "r0[a0] += a1", false},
	"del":           {1, 1, "stmt", "delete(r0, a0)", true},
	"contains":      {1, 1, "val", "a0 in r0", true},
	"len":           {1, 0, "val", "len(r0)", true},
	"append":        {1, 1, "self", "r0.append(a0)", true},
	"insert":        {1, 2, "self", "r0.insert(a0, a1)", true},
	"pop":           {1, 1, "val", "r0.pop(a0)", true},
	"remove":        {1, 1, "self", "r0.remove(a0)", true},
	"extend":        {2, 0, "self", "r0.extend(r1)", true},
	"reverse":       {1, 0, "self", "r0.reverse()", true},
	"sort":          {1, 0, "self", "r0.sort()", true},
	"clear":         {1, 0, "self", "r0.clear()", true},
	"copy":          {1, 0, "alloc", "r0.copy()", true},
	"count":         {1, 1, "val", "r0.count(a0)", true},
	"index":         {1, 1, "val", "r0.index(a0)", true},
	"reversed":      {1, 0, "alloc", "reversed(r0)", true},
	"sorted":        {1, 0, "alloc", "sorted(r0)", true},
	"keys":          {1, 0, "alloc", "keys(r0)", true},
	"concat":        {2, 0, "alloc", "r0 + r1", true},
	"map_val":       {1, 0, "alloc", "r0.map(func(x) { return x })", false},
	"map_idx":       {1, 0, "alloc", "r0.map(func(i, x) { return i })", false},
	"map_pair":      {1, 0, "alloc", "r0.map(func(i, x) { return [i, x] })", false},
	"map_idxcopy":   {1, 0, "alloc", "r0.map(func(i, x) { return i + 0 })", false},
	"filter_truthy": {1, 0, "alloc", "r0.filter(func(x) { return x })", false},
	"filter_all":    {1, 0, "alloc", "r0.filter(func(x) { return true })", false},
	"filter_none":   {1, 0, "alloc", "r0.filter(func(x) { return false })", false},
	"each_append":   {2, 0, "val", "r0.each(func(x) { r1.append(x) })", false},
	"mgetd":         {1, 2, "val", "", true},
	"mpop":          {1, 2, "val", "", true},
	"msetdefault":   {1, 2, "val", "r0.setdefault(a0, a1)", true},
	"mupdate":       {2, 0, "self", "r0.update(r1)", true},
	"mvalues":       {1, 0, "alloc", "r0.values()", true},
	"mitems":        {1, 0, "alloc", "r0.items()", true},
	"sadd":          {1, 1, "self", "r0.add(a0)", true},
	"sremove":       {1, 1, "self", "r0.remove(a0)", true},
	"sunion":        {2, 0, "alloc", "r0.union(r1)", true},
	"sinter":        {2, 0, "alloc", "r0.intersection(r1)", true},
	"eq":            {1, 1, "val", "r0 == a0", true},
	"eqwrap":        {1, 1, "val", "[a0] == [a0]", true},
	"enumerate":     {1, 0, "alloc", "acc := []\nfor k, v := range r0 { acc.append([k, v]) }\nacc", false},
}

func runOp(route string, name string, refs []object.Object, vals []object.Object) result {
	sp := specs[name]
	if route == "script" || !sp.api {
		g := map[string]any{}
		for i, r := range refs {
			g["r"+strconv.Itoa(i)] = r
		}
		for i, v := range vals {
			if v != nil {
				g["a"+strconv.Itoa(i)] = v
			}
		}
		src := sp.script
		switch name {
		case "slice":
			lo, hi := "", ""
			if vals[0] != nil {
				lo = "a0"
			}
			if vals[1] != nil {
				hi = "a1"
			}
			src = "r0[" + lo + ":" + hi + "]"
		case "mgetd":
			src = "r0.get(a0)"
			if vals[1] != nil {
				src = "r0.get(a0, a1)"
			}
		case "mpop":
			src = "r0.pop(a0)"
			if vals[1] != nil {
				src = "r0.pop(a0, a1)"
			}
		}
		return evalScript(src, g)
	}
	r0 := refs[0]
	cont, isCont := r0.(object.Container)
	switch name {
	case "get":
		if !isCont {
			return result{err: "type"}
		}
		return fromErr(cont.GetItem(vals[0]))
	case "slice":
		if !isCont {
			return result{err: "type"}
		}
		return fromErr(cont.GetSlice(object.Slice{Start: vals[0], Stop: vals[1]}))
	case "setitem":
		if !isCont {
			return result{err: "type"}
		}
		return fromErr(nil, cont.SetItem(vals[0], vals[1]))
	case "del":
		return callBuiltin(builtins.Delete, r0, vals[0])
	case "contains":
		if !isCont {
			return result{err: "type"}
		}
		return fromObj(cont.Contains(vals[0]))
	case "len":
		if !isCont {
			return result{err: "type"}
		}
		return fromObj(cont.Len())
	case "eq":
		return fromObj(r0.Equals(vals[0]))
	case "eqwrap":
		return fromObj(object.NewList([]object.Object{vals[0]}).Equals(object.NewList([]object.Object{vals[0]})))
	case "append", "pop", "remove", "count", "index", "sadd", "sremove":
		m := map[string]string{"sadd": "add", "sremove": "remove"}[name]
		if m == "" {
			m = name
		}
		return callMethod(r0, m, vals[0])
	case "insert", "msetdefault":
		m := map[string]string{"msetdefault": "setdefault"}[name]
		if m == "" {
			m = name
		}
		return callMethod(r0, m, vals[0], vals[1])
	case "extend", "mupdate", "sunion", "sinter":
		m := map[string]string{"mupdate": "update", "sunion": "union", "sinter": "intersection"}[name]
		if m == "" {
			m = name
		}
		return callMethod(r0, m, refs[1])
	case "reverse", "sort", "clear", "copy", "mvalues", "mitems":
		m := map[string]string{"mvalues": "values", "mitems": "items"}[name]
		if m == "" {
			m = name
		}
		return callMethod(r0, m)
	case "mgetd", "mpop":
		m := map[string]string{"mgetd": "get", "mpop": "pop"}[name]
		if vals[1] != nil {
			return callMethod(r0, m, vals[0], vals[1])
		}
		return callMethod(r0, m, vals[0])
	case "reversed":
		return callBuiltin(builtins.Reversed, r0)
	case "sorted":
		return callBuiltin(builtins.Sorted, r0)
	case "keys":
		return callBuiltin(builtins.Keys, r0)
	case "concat":
		v, err := object.BinaryOp(op.Add, r0, refs[1])
		if err != nil {
			return result{err: errClass(err.Error())}
		}
		return fromObj(v)
	}
	return result{err: "nosuchop"}
}

// resolveAlias: "@r<k>[.<i>]*" is the store object k itself or, following the indices (taken modulo the length) through
// nested lists, the very object stored there - not a copy; an index into something that is not a non-empty list ends the path
func resolveAlias(tok string, store []object.Object) (object.Object, error) {
	parts := strings.Split(tok[2:], ".")
	k, err := strconv.Atoi(parts[0])
	if err != nil || k < 0 || k >= len(store) {
		return nil, fmt.Errorf("bad alias %q", tok)
	}
	cur := store[k]
	for _, ix := range parts[1:] {
		i, err := strconv.Atoi(ix)
		if err != nil {
			return nil, fmt.Errorf("bad alias %q", tok)
		}
		l, ok := cur.(*object.List)
		if !ok || len(l.Value()) == 0 {
			break
		}
		n := len(l.Value())
		cur = l.Value()[((i%n)+n)%n]
	}
	return cur, nil
}

func dump(store []object.Object) string {
	parts := make([]string, len(store))
	for i, o := range store {
		parts[i] = show(o, 0)
	}
	return strings.Join(parts, " , ")
}

func runStoreCase(route string, ops []string) string {
	var store []object.Object
	var steps []string
	for _, opText := range ops {
		p := &parser{toks: strings.Fields(opText)}
		name, err := p.next()
		if err != nil {
			return "BADCASE empty op"
		}
		outcome := ""
		switch name {
		case "newlist", "newset", "newmap":
			v, err := p.parseValue()
			if err != nil {
				return "BADCASE " + err.Error()
			}
			var created object.Object = v
			if route == "script" && name != "newmap" {
				// build the literal through the compiler and VM
				var items []object.Object
				if l, ok := v.(*object.List); ok {
					items = l.Value()
				} else if s, ok := v.(*object.Set); ok {
					items = s.List().Value()
				}
				g := map[string]any{}
				names := make([]string, len(items))
				for i, it := range items {
					names[i] = "a" + strconv.Itoa(i)
					g[names[i]] = it
				}
				src := "[" + strings.Join(names, ", ") + "]"
				if name == "newset" {
					src = "{" + strings.Join(names, ", ") + "}"
					if len(items) == 0 {
						src = "set()"
					}
				}
				r := evalScript(src, g)
				if r.err != "" {
					return "BADCASE literal " + r.err
				}
				created = r.obj
			}
			store = append(store, created)
			outcome = "R" + strconv.Itoa(len(store)-1)
		default:
			sp, ok := specs[name]
			if !ok {
				return "BADCASE unknown op " + name
			}
			refs := make([]object.Object, sp.refs)
			refIdx := make([]int, sp.refs)
			for i := 0; i < sp.refs; i++ {
				k, err := p.parseRef(len(store))
				if err != nil {
					return "BADCASE " + err.Error()
				}
				refs[i], refIdx[i] = store[k], k
			}
			vals := make([]object.Object, sp.vals)
			for i := 0; i < sp.vals; i++ {
				if p.pos < len(p.toks) && strings.HasPrefix(p.toks[p.pos], "@r") {
					// an argument that IS an object of the store: a container itself or a member read back from it
					v, err := resolveAlias(p.toks[p.pos], store)
					if err != nil {
						return "BADCASE " + err.Error()
					}
					p.pos++
					vals[i] = v
					continue
				}
				v, err := p.parseOpt()
				if err != nil {
					return "BADCASE " + err.Error()
				}
				vals[i] = v
			}
			r := runOp(route, name, refs, vals)
			switch {
			case r.err != "":
				outcome = "E" + r.err
			case sp.kind == "alloc":
				store = append(store, r.obj)
				outcome = "R" + strconv.Itoa(len(store)-1)
				for k := 0; k < len(store)-1; k++ {
					if store[k] == r.obj {
						outcome = "?aliased-result-r" + strconv.Itoa(k)
					}
				}
			case sp.kind == "self":
				outcome = "?notself"
				if r.obj == refs[0] {
					outcome = "R" + strconv.Itoa(refIdx[0])
				}
			case sp.kind == "stmt":
				outcome = "V n"
			default:
				outcome = "V " + show(r.obj, 0)
			}
		}
		steps = append(steps, outcome+" # "+dump(store))
	}
	return strings.Join(steps, " ;; ")
}

// ---------------------------------------------------------------- byte_slices

func runBytesCase(route string, ops []string) string {
	var store []object.Object
	var steps []string
	for _, opText := range ops {
		p := &parser{toks: strings.Fields(opText)}
		name, _ := p.next()
		outcome := ""
		var r result
		alloc := false
		switch name {
		case "bnew":
			v, err := p.parseValue()
			if err != nil {
				return "BADCASE " + err.Error()
			}
			store = append(store, v)
			steps = append(steps, "R"+strconv.Itoa(len(store)-1)+" # "+dump(store))
			continue
		case "bget", "bsetitem":
			k, err := p.parseRef(len(store))
			if err != nil {
				return "BADCASE " + err.Error()
			}
			a0, err := p.parseValue()
			if err != nil {
				return "BADCASE " + err.Error()
			}
			if name == "bget" {
				if route == "script" {
					r = evalScript("r0[a0]", map[string]any{"r0": store[k], "a0": a0})
				} else {
					r = fromErr(store[k].(object.Container).GetItem(a0))
				}
			} else {
				a1, err := p.parseValue()
				if err != nil {
					return "BADCASE " + err.Error()
				}
				if route == "script" {
					r = evalScript("r0[a0] = a1", map[string]any{"r0": store[k], "a0": a0, "a1": a1})
				} else {
					r = fromErr(nil, store[k].(object.Container).SetItem(a0, a1))
				}
				if r.err == "" {
					r.obj = object.Nil
				}
			}
		case "bslice":
			k, err := p.parseRef(len(store))
			if err != nil {
				return "BADCASE " + err.Error()
			}
			lo, err := p.parseOpt()
			if err != nil {
				return "BADCASE " + err.Error()
			}
			hi, err := p.parseOpt()
			if err != nil {
				return "BADCASE " + err.Error()
			}
			alloc = true
			if route == "script" {
				g := map[string]any{"r0": store[k]}
				l, h := "", ""
				if lo != nil {
					l, g["a0"] = "a0", lo
				}
				if hi != nil {
					h, g["a1"] = "a1", hi
				}
				r = evalScript("r0["+l+":"+h+"]", g)
			} else {
				r = fromErr(store[k].(object.Container).GetSlice(object.Slice{Start: lo, Stop: hi}))
			}
		case "bclone", "blen":
			k, err := p.parseRef(len(store))
			if err != nil {
				return "BADCASE " + err.Error()
			}
			if name == "bclone" {
				alloc = true
				if route == "script" {
					r = evalScript("r0.clone()", map[string]any{"r0": store[k]})
				} else {
					r = callMethod(store[k], "clone")
				}
			} else if route == "script" {
				r = evalScript("len(r0)", map[string]any{"r0": store[k]})
			} else {
				r = fromObj(store[k].(object.Container).Len())
			}
		case "bconcat":
			k, err := p.parseRef(len(store))
			if err != nil {
				return "BADCASE " + err.Error()
			}
			k2, err := p.parseRef(len(store))
			if err != nil {
				return "BADCASE " + err.Error()
			}
			alloc = true
			if route == "script" {
				r = evalScript("r0 + r1", map[string]any{"r0": store[k], "r1": store[k2]})
			} else {
				v, err := object.BinaryOp(op.Add, store[k], store[k2])
				if err != nil {
					r = result{err: errClass(err.Error())}
				} else {
					r = fromObj(v)
				}
			}
		default:
			return "BADCASE unknown op " + name
		}
		switch {
		case r.err != "":
			outcome = "E" + r.err
		case alloc:
			store = append(store, r.obj)
			outcome = "R" + strconv.Itoa(len(store)-1)
		default:
			outcome = "V " + show(r.obj, 0)
		}
		steps = append(steps, outcome+" # "+dump(store))
	}
	return strings.Join(steps, " ;; ")
}

// ---------------------------------------------------------------- strings

func runStringCase(route string, toks []string) string {
	p := &parser{toks: toks}
	name, _ := p.next()
	s, err := p.parseValue()
	if err != nil {
		return "BADCASE " + err.Error()
	}
	var r result
	switch name {
	case "get":
		k, err := p.parseValue()
		if err != nil {
			return "BADCASE " + err.Error()
		}
		if route == "script" {
			r = evalScript("r0[a0]", map[string]any{"r0": s, "a0": k})
		} else {
			r = fromErr(s.(object.Container).GetItem(k))
		}
	case "slice":
		lo, err := p.parseOpt()
		if err != nil {
			return "BADCASE " + err.Error()
		}
		hi, err := p.parseOpt()
		if err != nil {
			return "BADCASE " + err.Error()
		}
		if route == "script" {
			g := map[string]any{"r0": s}
			l, h := "", ""
			if lo != nil {
				l, g["a0"] = "a0", lo
			}
			if hi != nil {
				h, g["a1"] = "a1", hi
			}
			r = evalScript("r0["+l+":"+h+"]", g)
		} else {
			r = fromErr(s.(object.Container).GetSlice(object.Slice{Start: lo, Stop: hi}))
		}
	case "len":
		if route == "script" {
			r = evalScript("len(r0)", map[string]any{"r0": s})
		} else {
			r = fromObj(s.(object.Container).Len())
		}
	default:
		return "BADCASE unknown string op"
	}
	if r.err != "" {
		return "E" + r.err + " # " + show(s, 0)
	}
	return "V " + show(r.obj, 0) + " # " + show(s, 0)
}

func main() {
	in := bufio.NewReaderSize(os.Stdin, 1<<20)
	out := bufio.NewWriterSize(os.Stdout, 1<<20)
	defer out.Flush()
	sc := bufio.NewScanner(in)
	sc.Buffer(make([]byte, 1<<20), 1<<26)
	for sc.Scan() {
		line := sc.Text()
		if line == "" {
			continue
		}
		f := strings.SplitN(line, " ", 3)
		if len(f) < 3 {
			fmt.Fprintln(out, "BADCASE short")
			continue
		}
		kind, route, rest := f[0], f[1], f[2]
		switch kind {
		case "Q", "A":
			fmt.Fprintln(out, runStoreCase(route, strings.Split(rest, " | ")))
		case "B":
			fmt.Fprintln(out, runBytesCase(route, strings.Split(rest, " | ")))
		case "X":
			fmt.Fprintln(out, runStringCase(route, strings.Fields(rest)))
		default:
			fmt.Fprintln(out, "BADCASE kind")
		}
	}
}
