//go:build !c10gap

package main

func installGap(n int) func() { return func() {} }

const gapSupported = false
