//go:build c10gap

package main

import (
	"sync"
	"time"

	"github.com/risor-io/risor/vm"
)

// installGap makes the first n goroutines that arrive between iter.Next and iter.Entry wait for each other
// (the schedule of C10_refuted_range_multi: Next 1; Next 2; ... ; Entry 1; Entry 2).
func installGap(n int) func() {
	var mu sync.Mutex
	arrived := 0
	release := make(chan struct{})
	vm.VerifIterGap = func() {
		mu.Lock()
		arrived++
		k := arrived
		if k == n {
			close(release)
		}
		mu.Unlock()
		if k <= n {
			select {
			case <-release:
			case <-time.After(3 * time.Second):
			}
		}
	}
	return func() { vm.VerifIterGap = nil }
}

const gapSupported = true
