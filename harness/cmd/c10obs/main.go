// c10obs: implementation-side observations for C10 (channels, spawned threads).
//
// stdin : one JSON object per line  {"id":..,"src":"<risor source>","procs":N,"yield":SEED,"timeout_ms":T}
// stdout: one JSON object per line  {"id":..,"result":V,"error":"..","logs":{"name":[V,...]},"ms":..}
//
// The script talks to the host through builtins registered with risor.WithGlobals:
//
//	rec(name, v)        append the canonical form of v to the log `name` (mutex protected, total order per log)
//	rec2(name, k, v)    append [k, v]
//	yield()             runtime.Gosched()
//	await(n)            blocks until n values have been recorded
//	boom(msg)           a Go panic inside a builtin (tests Thread's recover)
//	fail(msg)           returns a raised error object
//	ident(v...)         returns its argument (list of its arguments): a builtin that can be spawned directly
//	hostspawn(args, pokes)  a host calling object.Spawn from Go: spawns a builtin that waits for a gate and
//	                    then returns the parameters it sees; after Spawn returned the host overwrites
//	                    elements of the slice it passed (pokes = [[index, value], ...]) and opens the gate
//
// `yield` != 0 makes rec/rec2 call runtime.Gosched() on a pseudo-random subset of the calls (injected yields).
// Values are canonicalised: int -> number, nil -> null, bool, string -> "s:<text>", list -> array,
// error -> {"err": "<message>"}, anything else -> {"other": "<type>"}.
package main

import (
	"bufio"
	"context"
	"encoding/json"
	"fmt"
	"os"
	"runtime"
	"sync"
	"sync/atomic"
	"time"

	"github.com/risor-io/risor"
	"github.com/risor-io/risor/object"
)

type request struct {
	ID        string `json:"id"`
	Src       string `json:"src"`
	Procs     int    `json:"procs"`
	Yield     uint64 `json:"yield"`
	TimeoutMs int    `json:"timeout_ms"`
	MaxLog    int    `json:"max_log"`
}

type response struct {
	ID       string                   `json:"id"`
	Result   interface{}              `json:"result"`
	Error    *string                  `json:"error"`
	Logs     map[string][]interface{} `json:"logs"`
	Ms       int64                    `json:"ms"`
	Overflow bool                     `json:"overflow"`
	CtxDone  bool                     `json:"ctx_done"` // the evaluation's context had ended when Eval returned
}

func canon(o object.Object, depth int) interface{} {
	if depth > 8 {
		return map[string]string{"other": "deep"}
	}
	switch o := o.(type) {
	case nil:
		return map[string]string{"other": "gonil"}
	case *object.NilType:
		return nil
	case *object.Int:
		return o.Value()
	case *object.Bool:
		return o.Value()
	case *object.String:
		return "s:" + o.Value()
	case *object.List:
		out := make([]interface{}, 0, len(o.Value()))
		for _, it := range o.Value() {
			out = append(out, canon(it, depth+1))
		}
		return out
	case *object.Map:
		out := map[string]interface{}{}
		for k, v := range o.Value() {
			out[k] = canon(v, depth+1)
		}
		return out
	case *object.Error:
		return map[string]string{"err": o.Value().Error()}
	}
	return map[string]string{"other": string(o.Type())}
}

type recorder struct {
	mu       sync.Mutex
	logs     map[string][]interface{}
	seed     uint64
	count    uint64
	total    int
	limit    int
	overflow bool
	cancel   context.CancelFunc
}

func mix(z uint64) uint64 {
	z += 0x9E3779B97F4A7C15
	z = (z ^ (z >> 30)) * 0xBF58476D1CE4E5B9
	z = (z ^ (z >> 27)) * 0x94D049BB133111EB
	return z ^ (z >> 31)
}

func (r *recorder) maybeYield() {
	if r.seed == 0 {
		return
	}
	n := atomic.AddUint64(&r.count, 1)
	if mix(n^r.seed)%3 == 0 {
		runtime.Gosched()
	}
}

func (r *recorder) add(name string, v interface{}) {
	r.mu.Lock()
	if r.total >= r.limit {
		// a runaway script (e.g. a receive loop that never sees nil): stop recording, stop the evaluation
		if !r.overflow {
			r.overflow = true
			if r.cancel != nil {
				r.cancel()
			}
		}
		r.mu.Unlock()
		return
	}
	r.total++
	r.logs[name] = append(r.logs[name], v)
	r.mu.Unlock()
}

func nameOf(o object.Object) string {
	switch o := o.(type) {
	case *object.String:
		return o.Value()
	case *object.Int:
		return fmt.Sprintf("%d", o.Value())
	}
	return "?"
}

func (r *recorder) globals() map[string]any {
	return map[string]any{
		"rec": object.NewBuiltin("rec", func(ctx context.Context, args ...object.Object) object.Object {
			if len(args) != 2 {
				return object.Errorf("argument error: rec expects 2 arguments")
			}
			r.maybeYield()
			r.add(nameOf(args[0]), canon(args[1], 0))
			r.maybeYield()
			return object.Nil
		}),
		"rec2": object.NewBuiltin("rec2", func(ctx context.Context, args ...object.Object) object.Object {
			if len(args) != 3 {
				return object.Errorf("argument error: rec2 expects 3 arguments")
			}
			r.maybeYield()
			r.add(nameOf(args[0]), []interface{}{canon(args[1], 0), canon(args[2], 0)})
			r.maybeYield()
			return object.Nil
		}),
		"await": object.NewBuiltin("await", func(ctx context.Context, args ...object.Object) object.Object {
			// blocks until at least n values have been recorded (or the context ends)
			n := 0
			if len(args) > 0 {
				if i, ok := args[0].(*object.Int); ok {
					n = int(i.Value())
				}
			}
			for {
				r.mu.Lock()
				t := r.total
				r.mu.Unlock()
				if t >= n || ctx.Err() != nil {
					return object.Nil
				}
				time.Sleep(200 * time.Microsecond)
			}
		}),
		"yield": object.NewBuiltin("yield", func(ctx context.Context, args ...object.Object) object.Object {
			runtime.Gosched()
			return object.Nil
		}),
		"boom": object.NewBuiltin("boom", func(ctx context.Context, args ...object.Object) object.Object {
			msg := "boom"
			if len(args) > 0 {
				msg = nameOf(args[0])
			}
			panic(msg)
		}),
		"fail": object.NewBuiltin("fail", func(ctx context.Context, args ...object.Object) object.Object {
			msg := "fail"
			if len(args) > 0 {
				msg = nameOf(args[0])
			}
			return object.Errorf("%s", msg)
		}),
		"hostspawn": object.NewBuiltin("hostspawn", func(ctx context.Context, args ...object.Object) object.Object {
			if len(args) != 2 {
				return object.Errorf("argument error: hostspawn expects 2 arguments")
			}
			lst, ok1 := args[0].(*object.List)
			pk, ok2 := args[1].(*object.List)
			if !ok1 || !ok2 {
				return object.Errorf("type error: hostspawn expects two lists")
			}
			slice := append([]object.Object{}, lst.Value()...)
			gate := make(chan struct{})
			gated := object.NewBuiltin("gated", func(ctx context.Context, a ...object.Object) object.Object {
				<-gate
				return object.NewList(append([]object.Object{}, a...))
			})
			th, err := object.Spawn(ctx, gated, slice)
			if err != nil {
				close(gate)
				return object.NewError(err)
			}
			for _, p := range pk.Value() {
				if pr, ok := p.(*object.List); ok && len(pr.Value()) == 2 {
					if k, ok := pr.Value()[0].(*object.Int); ok && int(k.Value()) < len(slice) && k.Value() >= 0 {
						slice[k.Value()] = pr.Value()[1]
					}
				}
			}
			close(gate)
			return th
		}),
		"ident": object.NewBuiltin("ident", func(ctx context.Context, args ...object.Object) object.Object {
			if len(args) == 0 {
				return object.Nil
			}
			if len(args) == 1 {
				return args[0]
			}
			return object.NewList(append([]object.Object{}, args...))
		}),
	}
}

func runOne(req request) (resp response) {
	resp.ID = req.ID
	rc := &recorder{logs: map[string][]interface{}{}, seed: req.Yield, limit: req.MaxLog}
	if rc.limit <= 0 {
		rc.limit = 200000
	}
	if req.Procs > 0 {
		runtime.GOMAXPROCS(req.Procs)
	}
	to := time.Duration(req.TimeoutMs) * time.Millisecond
	if to <= 0 {
		to = 5 * time.Second
	}
	ctx, cancel := context.WithTimeout(context.Background(), to)
	defer cancel()
	rc.cancel = cancel
	t0 := time.Now()
	type outcome struct {
		res object.Object
		err error
		pan interface{}
	}
	done := make(chan outcome, 1)
	go func() {
		var o outcome
		defer func() {
			if r := recover(); r != nil {
				o.pan = r
			}
			done <- o
		}()
		o.res, o.err = risor.Eval(ctx, req.Src, risor.WithConcurrency(), risor.WithGlobals(rc.globals()))
	}()
	hang := false
	select {
	case o := <-done:
		if o.pan != nil {
			m := fmt.Sprintf("GOPANIC %v", o.pan)
			resp.Error = &m
		} else if o.err != nil {
			m := o.err.Error()
			resp.Error = &m
		} else {
			resp.Result = canon(o.res, 0)
		}
	case <-time.After(to + 3*time.Second):
		// the evaluation ignores its cancelled context: report and let main exit (the goroutine cannot be killed)
		m := "HANG: evaluation did not return 3s after its deadline"
		resp.Error = &m
		hang = true
	}
	resp.Ms = time.Since(t0).Milliseconds()
	resp.CtxDone = ctx.Err() != nil
	rc.mu.Lock()
	resp.Logs = map[string][]interface{}{}
	for k, v := range rc.logs {
		resp.Logs[k] = append([]interface{}{}, v...)
	}
	resp.Overflow = rc.overflow
	rc.mu.Unlock()
	if hang {
		hung = true
	}
	return
}

var hung bool

func main() {
	w := bufio.NewWriterSize(os.Stdout, 1<<20)
	defer w.Flush()
	sc := bufio.NewScanner(os.Stdin)
	sc.Buffer(make([]byte, 1<<20), 1<<26)
	enc := json.NewEncoder(w)
	for sc.Scan() {
		line := sc.Bytes()
		if len(line) == 0 {
			continue
		}
		var req request
		if err := json.Unmarshal(line, &req); err != nil {
			m := "bad request: " + err.Error()
			enc.Encode(response{ID: "?", Error: &m})
			continue
		}
		enc.Encode(runOne(req))
		w.Flush()
		if hung {
			os.Exit(3)
		}
	}
}
