// c08shape: implementation-side observations for C08 - proxied Go methods with every shape of parameter and result list
// (0-3 and more results, `error` at any position, several errors, interface / pointer / slice / map / struct results,
// variadic parameters, context parameters, pointer and value receivers, methods promoted from an embedded pointer).
//
// The methods live in zoo.go, which lib/c08shape.py generates; what a method does is determined by its name.
//
// stdin: one JSON case per line {"src": "<risor source>"}; the globals are z (*Zoo), zv (ZooV by value), zp (*ZooV),
// ze (*ZooE, embeds *Zoo), pt (*Pt{X: 3}).  stdout: one JSON observation per line
// {"outcome": "ok"|"err"|"panic"|"escaped", "raw": "<error text>", "obj": "<canonical description of the result>"}.
// Every evaluation runs under recover: a panic out of risor.Eval is "escaped", one the VM recovered is "panic".
package main

import (
	"bufio"
	"context"
	"encoding/json"
	"fmt"
	"os"
	"sort"
	"strings"
	"time"

	"github.com/risor-io/risor"
	"github.com/risor-io/risor/object"
)

type Pt struct{ X int }

type Zoo struct{ N int }

func (z *Zoo) mark() { z.N++ }

type ZooV struct{ N int }

func (z ZooV) mark() {}

type ZooE struct {
	*Zoo
	Tag string
}

// how a method echoes one received argument
func sh(v any) string {
	switch x := v.(type) {
	case *Pt:
		if x == nil {
			return "*Pt:nil"
		}
		return fmt.Sprintf("*Pt:%d", x.X)
	}
	return fmt.Sprintf("%T:%v", v, v)
}

func ctxShow(c context.Context) string {
	if c == nil {
		return "ctx-nil"
	}
	return "ctx"
}

func desc(o object.Object, depth int) string {
	if depth > 6 {
		return "deep"
	}
	switch x := o.(type) {
	case nil:
		return "gonil"
	case *object.NilType:
		return "nil"
	case *object.Int:
		return fmt.Sprintf("i:%d", x.Value())
	case *object.Byte:
		return fmt.Sprintf("i:%d", x.Value())
	case *object.Float:
		return fmt.Sprintf("f:%v", x.Value())
	case *object.Bool:
		return fmt.Sprintf("b:%v", x.Value())
	case *object.String:
		return "s:" + x.Value()
	case *object.List:
		var parts []string
		for _, it := range x.Value() {
			parts = append(parts, desc(it, depth+1))
		}
		return "[" + strings.Join(parts, ",") + "]"
	case *object.Map:
		var parts []string
		for k, v := range x.Value() {
			parts = append(parts, k+"="+desc(v, depth+1))
		}
		sort.Strings(parts)
		return "{" + strings.Join(parts, ",") + "}"
	case *object.Error:
		return "error(" + x.Value().Error() + ")"
	case *object.Proxy:
		switch p := x.Interface().(type) {
		case *Pt:
			if p == nil {
				return "pt:nilptr"
			}
			return fmt.Sprintf("pt:%d", p.X)
		case Pt:
			return fmt.Sprintf("ptv:%d", p.X)
		case *Zoo, *ZooV, ZooV, *ZooE:
			return "zoo"
		}
		return fmt.Sprintf("proxy(%T)", x.Interface())
	}
	return "other(" + string(o.Type()) + ")"
}

type caseIn struct {
	Src string `json:"src"`
}

type caseOut struct {
	Outcome string `json:"outcome"`
	Raw     string `json:"raw,omitempty"`
	Obj     string `json:"obj,omitempty"`
}

func runCase(c *caseIn) (out caseOut) {
	defer func() {
		if r := recover(); r != nil {
			out = caseOut{Outcome: "escaped", Raw: fmt.Sprint(r)}
		}
	}()
	ctx, cancel := context.WithTimeout(context.Background(), 10*time.Second)
	defer cancel()
	res, err := risor.Eval(ctx, c.Src,
		risor.WithGlobal("z", &Zoo{}), risor.WithGlobal("zv", ZooV{}), risor.WithGlobal("zp", &ZooV{}),
		risor.WithGlobal("ze", &ZooE{Zoo: &Zoo{}, Tag: "e"}), risor.WithGlobal("pt", &Pt{X: 3}))
	if err != nil {
		msg := err.Error()
		if len(msg) > 300 {
			msg = msg[:300]
		}
		if strings.HasPrefix(msg, "panic:") {
			return caseOut{Outcome: "panic", Raw: msg}
		}
		return caseOut{Outcome: "err", Raw: msg}
	}
	return caseOut{Outcome: "ok", Obj: desc(res, 0)}
}

func main() {
	w := bufio.NewWriterSize(os.Stdout, 1<<20)
	defer w.Flush()
	sc := bufio.NewScanner(os.Stdin)
	sc.Buffer(make([]byte, 1<<20), 1<<24)
	enc := json.NewEncoder(w)
	for sc.Scan() {
		var c caseIn
		if err := json.Unmarshal(sc.Bytes(), &c); err != nil {
			_ = enc.Encode(&caseOut{Outcome: "BADCASE", Raw: err.Error()})
			continue
		}
		o := runCase(&c)
		_ = enc.Encode(&o)
	}
}
