package main

import (
	"bytes"
	"context"
	"fmt"

	"github.com/risor-io/risor"
	"github.com/risor-io/risor/compiler"
	ros "github.com/risor-io/risor/os"
	"github.com/risor-io/risor/parser"
	"github.com/risor-io/risor/vm"
)

type bufFile struct{ bytes.Buffer }

func (b *bufFile) Close() error                                 { return nil }
func (b *bufFile) Stat() (ros.FileInfo, error)                  { return nil, fmt.Errorf("no stat") }
func (b *bufFile) ReadAt(p []byte, off int64) (int, error)      { return 0, fmt.Errorf("no readat") }
func (b *bufFile) Seek(offset int64, whence int) (int64, error) { return 0, fmt.Errorf("no seek") }

func main() {
	ctx := context.Background()
	src := `import os
os.stdout.write("hello")
print("p")`
	cfg := risor.NewConfig()
	ast, _ := parser.Parse(ctx, src)
	code, err := compiler.Compile(ast, cfg.CompilerOpts()...)
	if err != nil {
		panic(err)
	}
	machine := vm.New(code, cfg.VMOpts()...)
	for i := 0; i < 3; i++ {
		out := &bufFile{}
		vos := ros.NewVirtualOS(ctx, ros.WithStdout(out))
		err := machine.RunCode(ros.WithOS(ctx, vos), code)
		fmt.Printf("run %d err=%v this-run's stdout=%q\n", i, err, out.String())
	}
}
