package main

import (
	"context"
	"fmt"

	"github.com/risor-io/risor/parser"
)

func main() {
	for _, src := range []string{"x[\n:]", "x[\n]", "x[\n1]", "x[:\n]", "x[1:\n]", "x[\n:1]", "x[;]", "x[)]", "x[,]", "x[\n\n:]"} {
		func() {
			defer func() {
				if r := recover(); r != nil {
					fmt.Printf("%q PANIC %v\n", src, r)
				}
			}()
			p, err := parser.Parse(context.Background(), src)
			if err != nil {
				fmt.Printf("%q ERR %s\n", src, err.Error()[:60])
				return
			}
			fmt.Printf("%q OK %s\n", src, p.String())
		}()
	}
}
