// Package locksites is the translator for C09 (command harness/cmd/c09gen; `translate locksites` may call it too).  Scans the Go source of the risor main module (go/ast only) and prints
// coq/gen/GenLockSites.v: every access site of the package-level mutable state (and of a few lazily filled
// fields of shared objects) together with the locks that MUST be held there.
//
//	c09gen coq    -> the Coq file on stdout
//	c09gen json   -> the same facts as JSON (evidence, reports)
//
// Method (a must-lock analysis, part of the trusted base):
//   - locations: package-level `var`s of the scanned packages that are assigned, index-assigned, deleted from,
//     inc/dec'ed or address-taken in some function other than init() / a var initialiser; plus the configured fields
//     (object.GoType.converter, importer.LocalImporter.codeCache, importer.FSImporter.codeCache) when accessed through
//     the receiver of a method of the owning type.  sync.* / atomic.* typed variables are locks or self-synchronised.
//   - locks: package-level variables of type sync.Mutex / sync.RWMutex (or pointers to them), and receiver fields of
//     those types (`i.mutex`), named pkg.var / pkg.Type.field.
//   - intra-procedural: statements in order; X.Lock()/RLock() adds, X.Unlock()/RUnlock() removes (a deferred unlock
//     keeps the lock to the end); if/switch/select: intersection of the branches that fall through; loops: the body
//     is analysed with the entry set and does not change it; `go func(){}` and function literals start empty.
//   - inter-procedural: entry lock set of a function = intersection over its static call sites in the package of
//     (caller entry set + locks held at the call); exported functions and methods, init, main and functions used as
//     values start with the empty set (greatest fixpoint otherwise).
//   - host configuration setters (explicit list below) are excluded: they are not reachable from an evaluation.
package locksites

import (
	"encoding/json"
	"fmt"
	"go/ast"
	"go/parser"
	"go/token"
	"os"
	"path/filepath"
	"sort"
	"strings"
)

var repo = "/repo"

// directories of the main module that are not part of what an embedded evaluation runs
var skipDirs = map[string]bool{"cmd": true, "examples": true, "tests": true, "research": true, "bench": true,
	"vscode": true, "terraform": true, "static": true, "design": true, ".git": true, "doctest": true}

// lazily filled / cached fields of objects that are shared between evaluations
var trackedFields = map[string][]string{ // pkg.Type -> fields
	"object.GoType":          {"converter"},
	"importer.LocalImporter": {"codeCache"},
	"importer.FSImporter":    {"codeCache"},
}

// exported configuration setters a host calls before it starts evaluations; not reachable from a script
var hostOnly = map[string]string{
	"errz.SetTypeErrorsAreFatal":   "host configuration switch",
	"os.SetScriptArgs":             "host configuration (script arguments)",
	"internal/color.EnableColors":  "host configuration (disassembler colours)",
	"internal/color.DisableColors": "host configuration (disassembler colours)",
}

type lockset map[string]bool // lock name -> true = write mode (Lock), false = read mode (RLock)

func (l lockset) clone() lockset {
	c := lockset{}
	for k, v := range l {
		c[k] = v
	}
	return c
}

func intersect(a, b lockset) lockset {
	c := lockset{}
	for k, v := range a {
		if w, ok := b[k]; ok {
			c[k] = v && w
		}
	}
	return c
}

type site struct {
	Loc   string   `json:"loc"`
	Write bool     `json:"write"`
	Held  lockset  `json:"-"`
	Locks []string `json:"locks"`
	Func  string   `json:"func"`
	Pos   string   `json:"pos"`
	How   string   `json:"how"`
}

type call struct {
	callee string
	held   lockset
}

type funcInfo struct {
	name     string // pkg.Func or pkg.Type.Method
	pkg      string
	exported bool
	isInit   bool
	sites    []*site
	calls    []call
	entry    lockset
	top      bool // entry == all locks (not yet constrained)
	asValue  bool
}

type pkgInfo struct {
	name    string
	dir     string
	files   []*ast.File
	vars    map[string]string // package-level var -> kind: "lock", "sync", "plain"
	funcs   map[string]*funcInfo
	methods map[string][]string // method name -> owning types
	imports map[*ast.File]map[string]string
	types   map[string]*ast.StructType
	aliases map[string]string // var m = &other
	objects []string          // package-level singleton objects (&T{...} or constructor call)
}

var fset = token.NewFileSet()
var pkgs = map[string]*pkgInfo{} // by directory-relative import path
var byName = map[string]*pkgInfo{}

func fail(format string, a ...any) {
	fmt.Fprintf(os.Stderr, "c09gen: "+format+"\n", a...)
	os.Exit(1)
}

func typeString(e ast.Expr) string {
	switch t := e.(type) {
	case *ast.Ident:
		return t.Name
	case *ast.SelectorExpr:
		return typeString(t.X) + "." + t.Sel.Name
	case *ast.StarExpr:
		return "*" + typeString(t.X)
	case *ast.MapType:
		return "map"
	case *ast.ArrayType:
		return "slice"
	case *ast.UnaryExpr:
		return "&" + typeString(t.X)
	case *ast.CompositeLit:
		return typeString(t.Type)
	case *ast.CallExpr:
		return "call"
	}
	return "?"
}

func lockKind(ts string) string {
	ts = strings.TrimLeft(ts, "*&")
	switch ts {
	case "sync.Mutex", "sync.RWMutex":
		return "lock"
	case "sync.Map", "sync.Once", "sync.WaitGroup", "sync.Pool", "atomic.Int64", "atomic.Int32", "atomic.Bool",
		"atomic.Value", "atomic.Uint64", "atomic.Uint32", "atomic.Pointer":
		return "sync"
	}
	if strings.HasPrefix(ts, "atomic.") {
		return "sync"
	}
	return "plain"
}

func load() {
	filepath.Walk(repo, func(p string, fi os.FileInfo, err error) error {
		if err != nil {
			return nil
		}
		if !fi.IsDir() {
			return nil
		}
		rel, _ := filepath.Rel(repo, p)
		if rel != "." {
			if skipDirs[strings.Split(rel, string(filepath.Separator))[0]] || strings.HasPrefix(fi.Name(), ".") ||
				fi.Name() == "testdata" {
				return filepath.SkipDir
			}
			if _, err := os.Stat(filepath.Join(p, "go.mod")); err == nil {
				return filepath.SkipDir // a separate module
			}
		}
		ents, _ := os.ReadDir(p)
		var files []*ast.File
		pname := ""
		for _, e := range ents {
			n := e.Name()
			if e.IsDir() || !strings.HasSuffix(n, ".go") || strings.HasSuffix(n, "_test.go") {
				continue
			}
			f, err := parser.ParseFile(fset, filepath.Join(p, n), nil, parser.SkipObjectResolution)
			if err != nil {
				fail("cannot parse %s: %v", filepath.Join(p, n), err)
			}
			if f.Name.Name == "main" {
				continue
			}
			if pname == "" {
				pname = f.Name.Name
			}
			if f.Name.Name != pname {
				continue
			}
			files = append(files, f)
		}
		if len(files) > 0 {
			pi := &pkgInfo{name: pname, dir: rel, files: files, vars: map[string]string{}, funcs: map[string]*funcInfo{},
				methods: map[string][]string{}, imports: map[*ast.File]map[string]string{}, types: map[string]*ast.StructType{},
				aliases: map[string]string{}}
			key := rel
			if rel == "." {
				key = "risor"
			}
			pkgs[key] = pi
		}
		return nil
	})
	if len(pkgs) < 10 {
		fail("only %d packages found under %s", len(pkgs), repo)
	}
}

// qualified package label used in names: the directory path relative to the module (object, modules/strings, ...)
func (p *pkgInfo) label() string {
	if p.dir == "." {
		return "risor"
	}
	return filepath.ToSlash(p.dir)
}

func collectDecls() {
	for _, p := range pkgs {
		for _, f := range p.files {
			imps := map[string]string{}
			for _, im := range f.Imports {
				path := strings.Trim(im.Path.Value, `"`)
				const pre = "github.com/risor-io/risor"
				if !strings.HasPrefix(path, pre) {
					continue
				}
				rel := strings.TrimPrefix(strings.TrimPrefix(path, pre), "/")
				if rel == "" {
					rel = "risor"
				}
				name := filepath.Base(path)
				if im.Name != nil {
					name = im.Name.Name
				}
				imps[name] = rel
			}
			p.imports[f] = imps
			for _, d := range f.Decls {
				switch d := d.(type) {
				case *ast.GenDecl:
					for _, sp := range d.Specs {
						switch sp := sp.(type) {
						case *ast.ValueSpec:
							if d.Tok != token.VAR {
								continue
							}
							for i, n := range sp.Names {
								if n.Name == "_" {
									continue
								}
								ts := "?"
								if sp.Type != nil {
									ts = typeString(sp.Type)
								} else if i < len(sp.Values) {
									ts = typeString(sp.Values[i])
								}
								p.vars[n.Name] = lockKind(ts)
								if p.vars[n.Name] == "plain" && i < len(sp.Values) {
									switch v := sp.Values[i].(type) {
									case *ast.UnaryExpr:
										if _, ok := v.X.(*ast.CompositeLit); ok && v.Op == token.AND {
											p.objects = append(p.objects, n.Name)
										}
									case *ast.CallExpr:
										if _, isConv := v.Fun.(*ast.ParenExpr); !isConv {
											if id, ok := v.Fun.(*ast.Ident); !ok || (id.Name != "make" && id.Name != "new") {
												p.objects = append(p.objects, n.Name)
											}
										}
									}
								}
								if i < len(sp.Values) {
									if ue, ok := sp.Values[i].(*ast.UnaryExpr); ok && ue.Op == token.AND {
										if id, ok := ue.X.(*ast.Ident); ok {
											p.aliases[n.Name] = id.Name
										}
									}
								}
							}
						case *ast.TypeSpec:
							if st, ok := sp.Type.(*ast.StructType); ok {
								p.types[sp.Name.Name] = st
							}
						}
					}
				case *ast.FuncDecl:
					name := d.Name.Name
					if d.Recv != nil && len(d.Recv.List) == 1 {
						rt := strings.TrimLeft(typeString(d.Recv.List[0].Type), "*")
						if i := strings.Index(rt, "["); i > 0 {
							rt = rt[:i]
						}
						p.methods[name] = append(p.methods[name], rt)
						name = rt + "." + name
					}
					fi := &funcInfo{name: p.label() + "." + name, pkg: p.label(), exported: ast.IsExported(d.Name.Name),
						isInit: d.Recv == nil && d.Name.Name == "init"}
					if _, dup := p.funcs[name]; dup && fi.isInit {
						name = fmt.Sprintf("init#%d", len(p.funcs))
					}
					p.funcs[name] = fi
				}
			}
		}
	}
}

// a package-level pointer to a package-level lock is that lock
func resolveAliases() {
	for _, p := range pkgs {
		for a, target := range p.aliases {
			if p.vars[target] == "lock" {
				p.vars[a] = "lockalias"
			}
		}
	}
}

// ---------------------------------------------------------------------------------- the walker

type walker struct {
	p        *pkgInfo
	file     *ast.File
	fn       *funcInfo
	recvName string
	recvType string
	scopes   []map[string]bool
	writes   map[string]bool // package vars written outside init (filled in pass 1)
	pass     int
}

func (w *walker) push() { w.scopes = append(w.scopes, map[string]bool{}) }
func (w *walker) pop()  { w.scopes = w.scopes[:len(w.scopes)-1] }
func (w *walker) declare(n string) {
	if n != "_" && len(w.scopes) > 0 {
		w.scopes[len(w.scopes)-1][n] = true
	}
}
func (w *walker) isLocal(n string) bool {
	for i := len(w.scopes) - 1; i >= 0; i-- {
		if w.scopes[i][n] {
			return true
		}
	}
	return false
}

// resolve an expression to a tracked location name ("" if none) and whether it is a package var
func (w *walker) locOf(e ast.Expr) string {
	switch x := e.(type) {
	case *ast.Ident:
		if !w.isLocal(x.Name) {
			if k, ok := w.p.vars[x.Name]; ok && k == "plain" {
				return w.p.label() + "." + x.Name
			}
		}
	case *ast.SelectorExpr:
		if id, ok := x.X.(*ast.Ident); ok {
			if !w.isLocal(id.Name) {
				if rel, ok := w.p.imports[w.file][id.Name]; ok {
					if q, ok := pkgs[rel]; ok {
						if k, ok := q.vars[x.Sel.Name]; ok && k == "plain" {
							return q.label() + "." + x.Sel.Name
						}
					}
				}
			}
			if id.Name == w.recvName && w.recvName != "" {
				for _, f := range trackedFields[w.p.label()+"."+w.recvType] {
					if f == x.Sel.Name {
						return w.p.label() + "." + w.recvType + "." + f
					}
				}
			}
		}
	case *ast.ParenExpr:
		return w.locOf(x.X)
	}
	return ""
}

func (w *walker) lockOf(e ast.Expr) string {
	switch x := e.(type) {
	case *ast.Ident:
		if !w.isLocal(x.Name) {
			if k, ok := w.p.vars[x.Name]; ok && k == "lock" {
				return w.p.label() + "." + x.Name
			} else if ok && k == "lockalias" {
				return w.p.label() + "." + w.p.aliases[x.Name]
			}
		}
	case *ast.SelectorExpr:
		if id, ok := x.X.(*ast.Ident); ok {
			if id.Name == w.recvName && w.recvName != "" {
				if st, ok := w.p.types[w.recvType]; ok {
					for _, f := range st.Fields.List {
						for _, n := range f.Names {
							if n.Name == x.Sel.Name && lockKind(typeString(f.Type)) == "lock" {
								return w.p.label() + "." + w.recvType + "." + n.Name
							}
						}
					}
				}
			}
			if !w.isLocal(id.Name) {
				if rel, ok := w.p.imports[w.file][id.Name]; ok {
					if q, ok := pkgs[rel]; ok {
						if k, ok := q.vars[x.Sel.Name]; ok && k == "lock" {
							return q.label() + "." + x.Sel.Name
						}
					}
				}
			}
		}
	}
	return ""
}

func (w *walker) access(e ast.Expr, write bool, how string, held lockset) {
	loc := w.locOf(e)
	if loc == "" {
		return
	}
	if w.pass == 1 {
		if write && !w.fn.isInit {
			w.writes[loc] = true
		}
		return
	}
	if w.fn.isInit {
		return
	}
	w.fn.sites = append(w.fn.sites, &site{Loc: loc, Write: write, Held: held.clone(), Func: w.fn.name,
		Pos: w.posOf(e), How: how})
}

func (w *walker) posOf(n ast.Node) string {
	p := fset.Position(n.Pos())
	rel, _ := filepath.Rel(repo, p.Filename)
	return fmt.Sprintf("%s:%d", filepath.ToSlash(rel), p.Line)
}

// base of an lvalue: v, v[k], v.f, *v ...
func lvalueBase(e ast.Expr) (ast.Expr, bool) {
	switch x := e.(type) {
	case *ast.IndexExpr:
		return x.X, true
	case *ast.StarExpr:
		return x.X, true
	case *ast.ParenExpr:
		return lvalueBase(x.X)
	}
	return e, false
}

func (w *walker) expr(e ast.Expr, held lockset) {
	if e == nil {
		return
	}
	switch x := e.(type) {
	case *ast.Ident:
		w.access(x, false, "read", held)
	case *ast.SelectorExpr:
		if w.locOf(x) != "" {
			w.access(x, false, "read", held)
			return
		}
		w.expr(x.X, held)
	case *ast.CallExpr:
		w.callExpr(x, held)
	case *ast.FuncLit:
		// a closure: it may run later, on another goroutine: analysed with no locks held
		w.funcBody(x.Type, x.Body, lockset{})
	case *ast.UnaryExpr:
		if x.Op == token.AND {
			if w.locOf(x.X) != "" {
				w.access(x.X, true, "address taken", held)
				return
			}
		}
		w.expr(x.X, held)
	case *ast.BinaryExpr:
		w.expr(x.X, held)
		w.expr(x.Y, held)
	case *ast.IndexExpr:
		w.expr(x.X, held)
		w.expr(x.Index, held)
	case *ast.IndexListExpr:
		w.expr(x.X, held)
	case *ast.SliceExpr:
		w.expr(x.X, held)
		w.expr(x.Low, held)
		w.expr(x.High, held)
		w.expr(x.Max, held)
	case *ast.StarExpr:
		w.expr(x.X, held)
	case *ast.ParenExpr:
		w.expr(x.X, held)
	case *ast.TypeAssertExpr:
		w.expr(x.X, held)
	case *ast.KeyValueExpr:
		if _, isIdent := x.Key.(*ast.Ident); !isIdent {
			w.expr(x.Key, held)
		}
		w.expr(x.Value, held)
	case *ast.CompositeLit:
		for _, el := range x.Elts {
			w.expr(el, held)
		}
	}
}

func (w *walker) callExpr(c *ast.CallExpr, held lockset) {
	// builtins that mutate their argument
	if id, ok := c.Fun.(*ast.Ident); ok && !w.isLocal(id.Name) {
		switch id.Name {
		case "delete":
			if len(c.Args) > 0 && w.locOf(c.Args[0]) != "" {
				w.access(c.Args[0], true, "delete", held)
				for _, a := range c.Args[1:] {
					w.expr(a, held)
				}
				return
			}
		case "clear":
			if len(c.Args) > 0 && w.locOf(c.Args[0]) != "" {
				w.access(c.Args[0], true, "clear", held)
				return
			}
		}
		// static call inside the package
		if _, ok := w.p.funcs[id.Name]; ok && w.pass == 2 {
			w.fn.calls = append(w.fn.calls, call{callee: id.Name, held: held.clone()})
		}
	}
	if sel, ok := c.Fun.(*ast.SelectorExpr); ok {
		// method call: resolve by receiver when it is the current receiver, else by unique method name
		if w.pass == 2 {
			if id, ok := sel.X.(*ast.Ident); ok && id.Name == w.recvName && w.recvName != "" {
				if _, ok := w.p.funcs[w.recvType+"."+sel.Sel.Name]; ok {
					w.fn.calls = append(w.fn.calls, call{callee: w.recvType + "." + sel.Sel.Name, held: held.clone()})
				}
			} else if owners := w.p.methods[sel.Sel.Name]; len(owners) > 0 {
				isPkg := false
				if id, ok := sel.X.(*ast.Ident); ok && !w.isLocal(id.Name) {
					if _, ok := w.p.imports[w.file][id.Name]; ok {
						isPkg = true
					}
				}
				if !isPkg {
					for _, o := range owners {
						w.fn.calls = append(w.fn.calls, call{callee: o + "." + sel.Sel.Name, held: held.clone()})
					}
				}
			}
		}
		w.expr(sel.X, held)
	} else {
		w.expr(c.Fun, held)
	}
	for _, a := range c.Args {
		w.expr(a, held)
	}
}

// returns (lock name, mode acquire/release, write?) for statements of the form X.Lock() etc.
func (w *walker) lockCall(e ast.Expr) (string, string) {
	c, ok := e.(*ast.CallExpr)
	if !ok || len(c.Args) != 0 {
		return "", ""
	}
	sel, ok := c.Fun.(*ast.SelectorExpr)
	if !ok {
		return "", ""
	}
	switch sel.Sel.Name {
	case "Lock", "RLock", "Unlock", "RUnlock":
		if l := w.lockOf(sel.X); l != "" {
			return l, sel.Sel.Name
		}
	}
	return "", ""
}

// walks a statement list; returns the lock set after it and whether control falls through
func (w *walker) block(stmts []ast.Stmt, held lockset) (lockset, bool) {
	w.push()
	defer w.pop()
	for _, s := range stmts {
		var ft bool
		held, ft = w.stmt(s, held)
		if !ft {
			return held, false
		}
	}
	return held, true
}

func (w *walker) stmt(s ast.Stmt, held lockset) (lockset, bool) {
	switch x := s.(type) {
	case nil:
		return held, true
	case *ast.ExprStmt:
		if l, op := w.lockCall(x.X); l != "" {
			h := held.clone()
			switch op {
			case "Lock":
				h[l] = true
			case "RLock":
				if _, ok := h[l]; !ok {
					h[l] = false
				}
			default:
				delete(h, l)
			}
			return h, true
		}
		w.expr(x.X, held)
		if c, ok := x.X.(*ast.CallExpr); ok {
			if id, ok := c.Fun.(*ast.Ident); ok && id.Name == "panic" {
				return held, false
			}
		}
	case *ast.DeferStmt:
		if l, _ := w.lockCall(x.Call); l != "" {
			return held, true // the unlock happens at return: the lock stays held for the rest of the function
		}
		if fl, ok := x.Call.Fun.(*ast.FuncLit); ok {
			w.funcBody(fl.Type, fl.Body, lockset{})
		} else {
			w.expr(x.Call, lockset{})
		}
	case *ast.GoStmt:
		if fl, ok := x.Call.Fun.(*ast.FuncLit); ok {
			w.funcBody(fl.Type, fl.Body, lockset{})
			for _, a := range x.Call.Args {
				w.expr(a, held)
			}
		} else {
			w.callExpr(x.Call, lockset{})
		}
	case *ast.AssignStmt:
		for _, r := range x.Rhs {
			w.expr(r, held)
		}
		for _, l := range x.Lhs {
			base, indexed := lvalueBase(l)
			if id, ok := l.(*ast.Ident); ok && x.Tok == token.DEFINE {
				w.declare(id.Name)
				continue
			}
			if w.locOf(base) != "" {
				how := "assign"
				if indexed {
					how = "element assign"
				}
				w.access(base, true, how, held)
				if ie, ok := l.(*ast.IndexExpr); ok {
					w.expr(ie.Index, held)
				}
				continue
			}
			// v.f = ... on a package-level struct variable
			if se, ok := l.(*ast.SelectorExpr); ok && w.locOf(se.X) != "" {
				w.access(se.X, true, "field assign", held)
				continue
			}
			w.expr(l, held)
		}
	case *ast.IncDecStmt:
		base, _ := lvalueBase(x.X)
		if w.locOf(base) != "" {
			w.access(base, true, "inc/dec", held)
		} else {
			w.expr(x.X, held)
		}
	case *ast.DeclStmt:
		if gd, ok := x.Decl.(*ast.GenDecl); ok {
			for _, sp := range gd.Specs {
				if vs, ok := sp.(*ast.ValueSpec); ok {
					for _, v := range vs.Values {
						w.expr(v, held)
					}
					for _, n := range vs.Names {
						w.declare(n.Name)
					}
				}
			}
		}
	case *ast.ReturnStmt:
		for _, r := range x.Results {
			w.expr(r, held)
		}
		return held, false
	case *ast.BranchStmt:
		return held, x.Tok == token.FALLTHROUGH
	case *ast.BlockStmt:
		return w.block(x.List, held)
	case *ast.LabeledStmt:
		return w.stmt(x.Stmt, held)
	case *ast.IfStmt:
		w.push()
		defer w.pop()
		h, _ := w.stmt(x.Init, held)
		w.expr(x.Cond, h)
		ht, ftT := w.block(x.Body.List, h)
		he, ftE := h, true
		if x.Else != nil {
			he, ftE = w.stmt(x.Else, h)
		}
		switch {
		case ftT && ftE:
			return intersect(ht, he), true
		case ftT:
			return ht, true
		case ftE:
			return he, true
		}
		return h, false
	case *ast.ForStmt:
		w.push()
		defer w.pop()
		h, _ := w.stmt(x.Init, held)
		w.expr(x.Cond, h)
		w.block(x.Body.List, h)
		w.stmt(x.Post, h)
		return h, true
	case *ast.RangeStmt:
		w.push()
		defer w.pop()
		w.expr(x.X, held)
		if x.Tok == token.DEFINE {
			if id, ok := x.Key.(*ast.Ident); ok {
				w.declare(id.Name)
			}
			if id, ok := x.Value.(*ast.Ident); ok {
				w.declare(id.Name)
			}
		}
		w.block(x.Body.List, held)
		return held, true
	case *ast.SwitchStmt:
		w.push()
		defer w.pop()
		h, _ := w.stmt(x.Init, held)
		w.expr(x.Tag, h)
		return w.clauses(x.Body.List, h), true
	case *ast.TypeSwitchStmt:
		w.push()
		defer w.pop()
		h, _ := w.stmt(x.Init, held)
		if as, ok := x.Assign.(*ast.AssignStmt); ok {
			for _, l := range as.Lhs {
				if id, ok := l.(*ast.Ident); ok {
					w.declare(id.Name)
				}
			}
			for _, r := range as.Rhs {
				w.expr(r, h)
			}
		} else if es, ok := x.Assign.(*ast.ExprStmt); ok {
			w.expr(es.X, h)
		}
		return w.clauses(x.Body.List, h), true
	case *ast.SelectStmt:
		return w.clauses(x.Body.List, held), true
	case *ast.SendStmt:
		w.expr(x.Chan, held)
		w.expr(x.Value, held)
	}
	return held, true
}

func (w *walker) clauses(list []ast.Stmt, h lockset) lockset {
	out := h
	for _, c := range list {
		var body []ast.Stmt
		switch cc := c.(type) {
		case *ast.CaseClause:
			for _, e := range cc.List {
				w.expr(e, h)
			}
			body = cc.Body
		case *ast.CommClause:
			w.push()
			w.stmt(cc.Comm, h)
			hb, ft := w.block(cc.Body, h)
			w.pop()
			if ft {
				out = intersect(out, hb)
			}
			continue
		}
		hb, ft := w.block(body, h)
		if ft {
			out = intersect(out, hb)
		}
	}
	return out
}

func (w *walker) funcBody(ft *ast.FuncType, body *ast.BlockStmt, held lockset) {
	if body == nil {
		return
	}
	w.push()
	defer w.pop()
	if ft != nil {
		for _, fl := range []*ast.FieldList{ft.Params, ft.Results} {
			if fl == nil {
				continue
			}
			for _, f := range fl.List {
				for _, n := range f.Names {
					w.declare(n.Name)
				}
			}
		}
	}
	w.block(body.List, held)
}

func walkAll(pass int, writes map[string]bool) {
	for _, p := range pkgs {
		initN := 0
		for _, f := range p.files {
			for _, d := range f.Decls {
				fd, ok := d.(*ast.FuncDecl)
				if !ok {
					continue
				}
				name := fd.Name.Name
				w := &walker{p: p, file: f, writes: writes, pass: pass}
				if fd.Recv != nil && len(fd.Recv.List) == 1 {
					rt := strings.TrimLeft(typeString(fd.Recv.List[0].Type), "*")
					if i := strings.Index(rt, "["); i > 0 {
						rt = rt[:i]
					}
					name = rt + "." + name
					w.recvType = rt
					if len(fd.Recv.List[0].Names) == 1 {
						w.recvName = fd.Recv.List[0].Names[0].Name
					}
				}
				fi := p.funcs[name]
				if fi == nil {
					// additional init functions
					for k, v := range p.funcs {
						if strings.HasPrefix(k, "init#") && v.sites == nil && v.calls == nil {
							fi = v
							break
						}
					}
					if fi == nil {
						initN++
						fi = &funcInfo{name: p.label() + ".init", pkg: p.label(), isInit: true}
					}
				}
				w.fn = fi
				w.push()
				if w.recvName != "" {
					w.declare(w.recvName)
				}
				w.funcBody(fd.Type, fd.Body, lockset{})
				w.pop()
			}
		}
	}
}

// functions referenced as values (callbacks): their entry lock set is empty
func markValues() {
	for _, p := range pkgs {
		for _, f := range p.files {
			ast.Inspect(f, func(n ast.Node) bool {
				switch x := n.(type) {
				case *ast.CallExpr:
					for _, a := range x.Args {
						if id, ok := a.(*ast.Ident); ok {
							if fi, ok := p.funcs[id.Name]; ok {
								fi.asValue = true
							}
						}
					}
				case *ast.KeyValueExpr:
					if id, ok := x.Value.(*ast.Ident); ok {
						if fi, ok := p.funcs[id.Name]; ok {
							fi.asValue = true
						}
					}
				case *ast.AssignStmt:
					for _, r := range x.Rhs {
						if id, ok := r.(*ast.Ident); ok {
							if fi, ok := p.funcs[id.Name]; ok {
								fi.asValue = true
							}
						}
					}
				case *ast.CompositeLit:
					for _, e := range x.Elts {
						if id, ok := e.(*ast.Ident); ok {
							if fi, ok := p.funcs[id.Name]; ok {
								fi.asValue = true
							}
						}
					}
				}
				return true
			})
		}
	}
}

func fixpoint() {
	for _, p := range pkgs {
		callers := map[string]bool{}
		for _, fi := range p.funcs {
			for _, c := range fi.calls {
				callers[c.callee] = true
			}
		}
		for name, fi := range p.funcs {
			base := name
			if i := strings.LastIndex(name, "."); i >= 0 {
				base = name[i+1:]
			}
			if fi.exported || fi.isInit || fi.asValue || !callers[name] || base == "main" {
				fi.entry = lockset{}
			} else {
				fi.top = true
			}
		}
		for changed := true; changed; {
			changed = false
			for _, fi := range p.funcs {
				var callerEntry lockset
				if fi.top {
					continue // unconstrained callers contribute nothing yet
				}
				callerEntry = fi.entry
				for _, c := range fi.calls {
					cal := p.funcs[c.callee]
					if cal == nil || (!cal.top && len(cal.entry) == 0) {
						continue
					}
					in := c.held.clone()
					for k, v := range callerEntry {
						if _, ok := in[k]; !ok {
							in[k] = v
						}
					}
					if cal.top {
						cal.top = false
						cal.entry = in
						changed = true
					} else {
						n := intersect(cal.entry, in)
						if len(n) != len(cal.entry) {
							cal.entry = n
							changed = true
						} else {
							for k, v := range n {
								if cal.entry[k] != v {
									cal.entry = n
									changed = true
									break
								}
							}
						}
					}
				}
			}
		}
		for _, fi := range p.funcs {
			if fi.top { // only reachable from unconstrained functions (dead code cycles)
				fi.top = false
				fi.entry = lockset{}
			}
		}
	}
}

// ---------------------------------------------------------------------------------- compiled code is read-only at run time
//
// The fields of compiler.Code / SymbolTable / Symbol / Function are unexported, so only methods of package compiler
// can write them.  A method mutates if it assigns to (an element of) a field of its receiver, or calls such a
// method on its receiver.  The run-time packages must not call an exported mutating method.

var codeTypes = map[string]bool{"Code": true, "SymbolTable": true, "Symbol": true, "Function": true, "Resolution": true}
var runtimePkgs = map[string]bool{"vm": true, "object": true, "builtins": true, "importer": true}

func codeMutators() (mutators []string, calls []string) {
	cp := pkgs["compiler"]
	if cp == nil {
		fail("package compiler not found")
	}
	mut := map[string]bool{} // Type.Method
	type mdecl struct {
		recv, typ string
		fd        *ast.FuncDecl
	}
	var decls []mdecl
	for _, f := range cp.files {
		for _, d := range f.Decls {
			fd, ok := d.(*ast.FuncDecl)
			if !ok || fd.Recv == nil || len(fd.Recv.List) != 1 || fd.Body == nil || len(fd.Recv.List[0].Names) != 1 {
				continue
			}
			rt := strings.TrimLeft(typeString(fd.Recv.List[0].Type), "*")
			if !codeTypes[rt] {
				continue
			}
			decls = append(decls, mdecl{fd.Recv.List[0].Names[0].Name, rt, fd})
		}
	}
	baseIsRecvField := func(e ast.Expr, recv string) bool {
		for {
			switch x := e.(type) {
			case *ast.IndexExpr:
				e = x.X
				continue
			case *ast.StarExpr:
				e = x.X
				continue
			case *ast.ParenExpr:
				e = x.X
				continue
			case *ast.SelectorExpr:
				if id, ok := x.X.(*ast.Ident); ok && id.Name == recv {
					return true
				}
				e = x.X
				continue
			}
			return false
		}
	}
	for changed := true; changed; {
		changed = false
		for _, m := range decls {
			key := m.typ + "." + m.fd.Name.Name
			if mut[key] {
				continue
			}
			found := false
			// locals bound to something reached through the receiver are aliases of receiver state
			alias := map[string]bool{}
			rooted := func(e ast.Expr) bool {
				for {
					switch x := e.(type) {
					case *ast.IndexExpr:
						e = x.X
					case *ast.StarExpr:
						e = x.X
					case *ast.ParenExpr:
						e = x.X
					case *ast.SelectorExpr:
						e = x.X
					case *ast.Ident:
						return x.Name == m.recv || alias[x.Name]
					default:
						return false
					}
				}
			}
			ast.Inspect(m.fd.Body, func(n ast.Node) bool {
				if as, ok := n.(*ast.AssignStmt); ok && as.Tok == token.DEFINE && len(as.Rhs) >= 1 {
					if _, isSel := as.Rhs[0].(*ast.Ident); !isSel && rooted(as.Rhs[0]) {
						if id, ok := as.Lhs[0].(*ast.Ident); ok {
							alias[id.Name] = true
						}
					}
				}
				return true
			})
			ast.Inspect(m.fd.Body, func(n ast.Node) bool {
				switch x := n.(type) {
				case *ast.AssignStmt:
					for _, l := range x.Lhs {
						if baseIsRecvField(l, m.recv) {
							found = true
						}
						if se, ok := l.(*ast.SelectorExpr); ok && x.Tok != token.DEFINE {
							if id, ok := se.X.(*ast.Ident); ok && alias[id.Name] {
								found = true
							}
						}
					}
				case *ast.IncDecStmt:
					if baseIsRecvField(x.X, m.recv) {
						found = true
					}
				case *ast.CallExpr:
					if sel, ok := x.Fun.(*ast.SelectorExpr); ok {
						if id, ok := sel.X.(*ast.Ident); ok && id.Name == m.recv && mut[m.typ+"."+sel.Sel.Name] {
							found = true
						}
					}
				}
				return true
			})
			if found {
				mut[key] = true
				changed = true
			}
		}
	}
	exportedMut := map[string]bool{}
	for k := range mut {
		mutators = append(mutators, "compiler."+k)
		name := k[strings.Index(k, ".")+1:]
		if ast.IsExported(name) {
			exportedMut[name] = true
		}
	}
	sort.Strings(mutators)
	for key, p := range pkgs {
		if !runtimePkgs[key] {
			continue
		}
		for _, f := range p.files {
			imps := p.imports[f]
			usesCompiler := false
			for _, rel := range imps {
				if rel == "compiler" {
					usesCompiler = true
				}
			}
			if !usesCompiler {
				continue
			}
			ast.Inspect(f, func(n ast.Node) bool {
				c, ok := n.(*ast.CallExpr)
				if !ok {
					return true
				}
				sel, ok := c.Fun.(*ast.SelectorExpr)
				if !ok || !exportedMut[sel.Sel.Name] {
					return true
				}
				if len(p.methods[sel.Sel.Name]) > 0 {
					return true // the package has its own method of that name
				}
				pos := fset.Position(c.Pos())
				rel, _ := filepath.Rel(repo, pos.Filename)
				calls = append(calls, fmt.Sprintf("%s:%d .%s()", filepath.ToSlash(rel), pos.Line, sel.Sel.Name))
				return true
			})
		}
	}
	sort.Strings(calls)
	return
}

type Output struct {
	Objects          []string          `json:"package_level_objects"`
	CodeMutators     []string          `json:"compiler_mutating_methods"`
	RuntimeMutations []string          `json:"runtime_calls_of_code_mutators"`
	Locks            []string          `json:"locks"`
	Locs             []string          `json:"locations"`
	Sites            []*site           `json:"sites"`
	HostOnly         []*site           `json:"host_only_sites"`
	Synced           []string          `json:"self_synchronised_vars"`
	ReadOnly         int               `json:"package_vars_never_written_after_init"`
	Packages         int               `json:"packages"`
	Functions        int               `json:"functions"`
	Entry            map[string]string `json:"entry_locksets"`
}

// Build scans the module rooted at root.
func Build(root string) *Output {
	repo = root
	load()
	collectDecls()
	resolveAliases()
	writes := map[string]bool{}
	walkAll(1, writes)
	markValues()
	walkAll(2, writes)
	fixpoint()
	out := &Output{Entry: map[string]string{}, Packages: len(pkgs)}
	lockSet := map[string]bool{}
	locSet := map[string]bool{}
	for _, p := range pkgs {
		for _, o := range p.objects {
			out.Objects = append(out.Objects, p.label()+"."+o)
		}
		for v, k := range p.vars {
			switch k {
			case "lockalias":
			case "lock":
				lockSet[p.label()+"."+v] = true
			case "sync":
				out.Synced = append(out.Synced, p.label()+"."+v)
			default:
				if !writes[p.label()+"."+v] {
					out.ReadOnly++
				}
			}
		}
		for _, fi := range p.funcs {
			out.Functions++
			if len(fi.entry) > 0 {
				out.Entry[fi.name] = lockNames(fi.entry)
			}
			for _, s := range fi.sites {
				tracked := writes[s.Loc] || strings.Count(s.Loc, ".") >= 2 && isTrackedField(s.Loc)
				if !tracked {
					continue
				}
				for k, v := range fi.entry {
					if cur, ok := s.Held[k]; !ok || (v && !cur) {
						s.Held[k] = v
					}
				}
				for k := range s.Held {
					lockSet[k] = true
				}
				s.Locks = strings.Fields(lockNames(s.Held))
				if why, ok := hostOnly[fi.name]; ok {
					s.How += " [" + why + "]"
					out.HostOnly = append(out.HostOnly, s)
					continue
				}
				locSet[s.Loc] = true
				out.Sites = append(out.Sites, s)
			}
		}
	}
	for l := range lockSet {
		out.Locks = append(out.Locks, l)
	}
	for l := range locSet {
		out.Locs = append(out.Locs, l)
	}
	sort.Strings(out.Locks)
	sort.Strings(out.Locs)
	sort.Strings(out.Synced)
	sort.Strings(out.Objects)
	sort.Slice(out.Sites, func(i, j int) bool {
		a, b := out.Sites[i], out.Sites[j]
		if a.Loc != b.Loc {
			return a.Loc < b.Loc
		}
		if a.Pos != b.Pos {
			return a.Pos < b.Pos
		}
		return !a.Write && b.Write
	})
	sort.Slice(out.HostOnly, func(i, j int) bool { return out.HostOnly[i].Pos < out.HostOnly[j].Pos })
	out.CodeMutators, out.RuntimeMutations = codeMutators()
	return out
}

func isTrackedField(loc string) bool {
	i := strings.LastIndex(loc, ".")
	for _, f := range trackedFields[loc[:i]] {
		if f == loc[i+1:] {
			return true
		}
	}
	return false
}

// LockNames renders a lock set.
func lockNames(l lockset) string {
	var ks []string
	for k, w := range l {
		if w {
			ks = append(ks, k+":W")
		} else {
			ks = append(ks, k+":R")
		}
	}
	sort.Strings(ks)
	return strings.Join(ks, " ")
}

func coqString(s string) string { return `"` + strings.ReplaceAll(s, `"`, `""`) + `"` }

// EmitCoq renders coq/gen/GenLockSites.v.
func EmitCoq(o *Output) string {
	idx := func(xs []string, x string) int {
		for i, y := range xs {
			if y == x {
				return i
			}
		}
		return -1
	}
	var b strings.Builder
	b.WriteString("(* GENERATED by harness/cmd/c09gen from the Go source of the risor main module - do not edit.\n")
	b.WriteString("   Access sites of the package-level mutable state and of the lazily filled fields of shared objects,\n")
	b.WriteString("   with the locks that must be held at each site. *)\n")
	b.WriteString("From Coq Require Import List String Bool.\nRequire Import RV.model.Lockset.\nImport ListNotations.\nOpen Scope string_scope.\n\n")
	b.WriteString("Definition gen_lock_names : list string := [\n")
	for i, l := range o.Locks {
		fmt.Fprintf(&b, "  %s%s\n", coqString(l), sep(i, len(o.Locks)))
	}
	b.WriteString("].\n\nDefinition gen_loc_names : list string := [\n")
	for i, l := range o.Locs {
		fmt.Fprintf(&b, "  %s%s\n", coqString(l), sep(i, len(o.Locs)))
	}
	b.WriteString("].\n\n(* mk_site location is_write [(lock, write_mode)] *)\nDefinition gen_sites : list site := [\n")
	for i, s := range o.Sites {
		var hs []string
		var ks []string
		for k := range s.Held {
			ks = append(ks, k)
		}
		sort.Strings(ks)
		for _, k := range ks {
			hs = append(hs, fmt.Sprintf("(%d, %v)", idx(o.Locks, k), s.Held[k]))
		}
		fmt.Fprintf(&b, "  mk_site %d %v [%s]%s  (* %s %s %s in %s *)\n", idx(o.Locs, s.Loc), s.Write, strings.Join(hs, "; "),
			sep(i, len(o.Sites)), s.Loc, s.How, s.Pos, s.Func)
	}
	b.WriteString("].\n\nDefinition gen_site_labels : list string := [\n")
	for i, s := range o.Sites {
		kind := "read"
		if s.Write {
			kind = "write"
		}
		fmt.Fprintf(&b, "  %s%s\n", coqString(fmt.Sprintf("%s %s at %s in %s holding [%s]", kind, s.Loc, s.Pos, s.Func, lockNames(s.Held))),
			sep(i, len(o.Sites)))
	}
	b.WriteString("].\n\n(* exported or unexported methods of compiler.Code / SymbolTable / Symbol / Function that write a receiver field *)\n")
	b.WriteString("Definition gen_code_mutators : list string := [\n")
	for i, s := range o.CodeMutators {
		fmt.Fprintf(&b, "  %s%s\n", coqString(s), sep(i, len(o.CodeMutators)))
	}
	b.WriteString("].\n\n(* calls of an exported one of them from the run-time packages vm, object, builtins, importer *)\n")
	b.WriteString("Definition gen_runtime_code_mutations : list string := [\n")
	for i, s := range o.RuntimeMutations {
		fmt.Fprintf(&b, "  %s%s\n", coqString(s), sep(i, len(o.RuntimeMutations)))
	}
	b.WriteString("].\n")
	return b.String()
}

func sep(i, n int) string {
	if i+1 < n {
		return ";"
	}
	return ""
}

// JSON renders the facts for evidence and reports.
func JSON(o *Output) string {
	for _, s := range o.Sites {
		s.Locks = strings.Fields(lockNames(s.Held))
	}
	b, _ := json.MarshalIndent(o, "", " ")
	return string(b) + "\n"
}
