//go:build verif

package c11lib

// Importer sessions: 2-4 configurations of one host process share ONE importer object (importer.LocalImporter over a
// directory of script modules, or importer.FSImporter over the same directory) - which the importer documentation allows
// ("It is safe to reuse the same local importer across multiple VMs and evaluations").  Every configuration owns a VM
// that is KEPT: its main script imports the host's script modules and defines handler functions (one per access
// script); the host calls the handlers later (VirtualMachine.Get + VirtualMachine.Call), after evaluations of OTHER
// configurations have imported the same modules through the same importer.  A script module exposes the globals of its
// code as attributes (helper.os, getattr(helper, "exec"), from helper import os), so what a handler reaches through
// the module object must still be decided by the handler's own configuration.
//
// A history is a list of events  load c | call c | eval c  (eval = a one-shot risor.Eval under configuration c with the
// shared importer).  For every call event the harness observes the result of every handler
//   - in the history,
//   - ALONE: the events of configuration c only, with a new importer and a new VM (the "iso" columns),
//   - whether the result is a module / builtin that a handler of ANOTHER configuration obtained first,
//   - for results that are modules: a fingerprint of what the module holds (two levels of attributes).

import (
	"context"
	"fmt"
	"hash/fnv"
	"os"
	"path/filepath"
	"sort"
	"strings"

	"github.com/risor-io/risor"
	"github.com/risor-io/risor/compiler"
	"github.com/risor-io/risor/importer"
	"github.com/risor-io/risor/object"
	"github.com/risor-io/risor/parser"
	"github.com/risor-io/risor/vm"
)

type ImpModule struct {
	Name   string `json:"name"` // file <dir>/<name>.risor
	Source string `json:"source"`
}

type ImpEvent struct {
	Op  string `json:"op"`  // load | call | eval
	Cfg int    `json:"cfg"` // 0-based configuration
}

type ImpSessionSpec struct {
	ID       string         `json:"id"`
	Importer string         `json:"importer"` // local | fs
	Modules  []ImpModule    `json:"modules"`
	Prelude  string         `json:"prelude"`  // import statements at the top of every main script
	EvalSrc  string         `json:"eval_src"` // script of the one-shot evaluations
	Override []OverrideSpec `json:"override"`
	Extra    []OverrideSpec `json:"extra"`
	Probes   []ProbeSpec    `json:"probes"`  // Pre = statements inside the handler before "return Expr"
	Configs  []SessStep     `json:"configs"` // route: vm (compiler.Compile + vm.New + Run) | evalvm (vm.NewEmpty + risor.Eval WithVM)
	Events   []ImpEvent     `json:"events"`
}

type ImpProbeObs struct {
	Res    string `json:"res"`
	Iso    string `json:"iso"`
	Mem    string `json:"mem,omitempty"`
	IsoMem string `json:"iso_mem,omitempty"`
	Stale  int    `json:"stale,omitempty"` // 1-based configuration (another one) whose handler obtained this very object first
}

type ImpCallObs struct {
	Event  int           `json:"event"` // 0-based index into the events
	Cfg    int           `json:"cfg"`
	Load   string        `json:"load"`     // outcome of loading the main script ("ok" or an error class)
	IsoLd  string        `json:"iso_load"` //
	Probes []ImpProbeObs `json:"probes"`
}

type ImpSessionObs struct {
	ID      string       `json:"id"`
	Envs    [][]string   `json:"envs"` // names of the globals of every configuration
	Evals   []string     `json:"evals,omitempty"`
	Calls   []ImpCallObs `json:"calls"`
	Problem string       `json:"problem,omitempty"`
}

func handlerSource(i int, p ProbeSpec) string {
	body := ""
	if p.Pre != "" {
		body = p.Pre + "\n"
	}
	return fmt.Sprintf("func c11p%d() {\n%sreturn %s\n}\n", i, body, p.Expr)
}

// RunImpSession plays one importer history on the real implementation.
func (b *Base) RunImpSession(spec ImpSessionSpec) (obs ImpSessionObs) {
	obs.ID = spec.ID
	ctx := context.Background()
	defer func() {
		if r := recover(); r != nil {
			obs.Problem = fmt.Sprintf("harness panic: %v", r)
		}
	}()
	dir, err := os.MkdirTemp("", "c11imp-")
	if err != nil {
		obs.Problem = err.Error()
		return
	}
	defer os.RemoveAll(dir)
	for _, m := range spec.Modules {
		p := filepath.Join(dir, m.Name+".risor")
		if err := os.MkdirAll(filepath.Dir(p), 0o755); err != nil {
			obs.Problem = err.Error()
			return
		}
		if err := os.WriteFile(p, []byte(m.Source), 0o644); err != nil {
			obs.Problem = err.Error()
			return
		}
	}

	tags := map[key]string{}
	var keep []object.Object
	mk := func(kind, tag string, seq int) object.Object {
		var o object.Object
		switch kind {
		case "int":
			o = object.NewInt(int64(7000 + seq))
		default:
			o = object.NewBuiltin("replacement_"+tag, func(ctx context.Context, args ...object.Object) object.Object {
				return object.NewString("replaced")
			})
		}
		k, _ := keyOf(o)
		tags[k] = tag
		keep = append(keep, o)
		return o
	}
	ovObj := make([]object.Object, len(spec.Override))
	for i, o := range spec.Override {
		ovObj[i] = mk(o.Kind, fmt.Sprintf("%d", i), 100+i)
	}
	exObj := make([]object.Object, len(spec.Extra))
	for i, e := range spec.Extra {
		exObj[i] = mk(e.Kind, fmt.Sprintf("g%d", i), 500+i)
	}

	build := func(st SessStep, imp importer.Importer) ([]risor.Option, error) {
		var opts []risor.Option
		for _, o := range st.Opts {
			switch o.Op {
			case "nodefaults":
				opts = append(opts, risor.WithoutDefaultGlobals())
			case "without":
				if len(o.Names) == 1 {
					opts = append(opts, risor.WithoutGlobal(o.Names[0]))
				}
			case "without_many":
				opts = append(opts, risor.WithoutGlobals(o.Names...))
			case "override":
				if len(o.Idx) == 1 && o.Idx[0] < len(ovObj) {
					opts = append(opts, risor.WithGlobalOverride(spec.Override[o.Idx[0]].Name, ovObj[o.Idx[0]]))
				}
			case "global":
				if len(o.Idx) == 1 && o.Idx[0] < len(exObj) {
					opts = append(opts, risor.WithGlobal(spec.Extra[o.Idx[0]].Name, exObj[o.Idx[0]]))
				}
			case "globals":
				m := map[string]any{}
				for _, j := range o.Idx {
					if j < len(exObj) {
						m[spec.Extra[j].Name] = exObj[j]
					}
				}
				opts = append(opts, risor.WithGlobals(m))
			default:
				return nil, fmt.Errorf("unknown option %q", o.Op)
			}
		}
		opts = append(opts, risor.WithImporter(imp))
		return opts, nil
	}

	// the names the host gives its importer: everything any configuration of the history can provide
	nameSet := map[string]bool{}
	for _, n := range risor.NewConfig().GlobalNames() {
		nameSet[n] = true
	}
	for _, e := range spec.Extra {
		nameSet[e.Name] = true
	}
	for _, o := range spec.Override {
		if o.Name != "" && !strings.Contains(o.Name, ".") {
			nameSet[o.Name] = true
		}
	}
	var allNames []string
	for n := range nameSet {
		allNames = append(allNames, n)
	}
	sort.Strings(allNames)
	newImporter := func() importer.Importer {
		if spec.Importer == "fs" {
			return importer.NewFSImporter(importer.FSImporterOptions{GlobalNames: allNames, SourceFS: os.DirFS(dir),
				Extensions: []string{".risor"}})
		}
		return importer.NewLocalImporter(importer.LocalImporterOptions{GlobalNames: allNames, SourceDir: dir,
			Extensions: []string{".risor"}})
	}

	// identification of a result
	firstSeen := map[key]int{}
	nameOf := func(o object.Object) string {
		if o == nil {
			return "none"
		}
		k, hasKey := keyOf(o)
		if hasKey {
			if t, ok := tags[k]; ok {
				return "new:" + t
			}
		}
		switch o.Type() {
		case object.STRING, object.INT, object.FLOAT, object.BOOL, object.NIL:
			return "val:" + safeInspect(o)
		}
		if hasKey {
			if bid, ok := b.SigID[sigOf(o)]; ok && !b.H.Nodes[bid-1].Fresh {
				return fmt.Sprintf("sig:%d", bid)
			}
		}
		return "other:" + string(o.Type())
	}
	var fingerprint func(m *object.Module, depth int) string
	fingerprint = func(m *object.Module, depth int) string {
		h := fnv.New64a()
		names := m.VerifAttrNames()
		for _, n := range names {
			a, ok := safeGetAttr(m, n)
			id := "absent"
			if ok {
				id = nameOf(a)
				if sub, isMod := a.(*object.Module); isMod && sub != nil && depth > 0 {
					id += "{" + fingerprint(sub, depth-1) + "}"
				}
			}
			fmt.Fprintf(h, "%s=%s;", n, id)
		}
		return fmt.Sprintf("%d:%016x", len(names), h.Sum64())
	}
	type probeRes struct {
		res, mem string
		stale    int
	}
	identify := func(o object.Object, err error, cfgNo int) (r probeRes) {
		if err != nil {
			r.res = classify(err)
			return
		}
		r.res = nameOf(o)
		if o == nil {
			return
		}
		if m, ok := o.(*object.Module); ok && m != nil {
			r.mem = fingerprint(m, 1)
		}
		if cfgNo > 0 && !strings.HasPrefix(r.res, "new:") {
			switch o.Type() {
			case object.MODULE, object.BUILTIN:
				if k, ok := keyOf(o); ok {
					if j, seen := firstSeen[k]; seen {
						if j != cfgNo {
							r.stale = j
						}
					} else {
						firstSeen[k] = cfgNo
						keep = append(keep, o) // (an address must not be reused by a later object)
					}
				}
			}
		}
		return
	}

	type kept struct {
		machine  *vm.VirtualMachine
		load     string
		compiled []string // "" = the handler is part of the main script, otherwise why it is not
	}
	safeCall := func(machine *vm.VirtualMachine, name string) (o object.Object, err error) {
		defer func() {
			if r := recover(); r != nil {
				o, err = nil, fmt.Errorf("panic in the call: %v", r)
			}
		}()
		obj, err := machine.Get(name)
		if err != nil {
			return nil, err
		}
		fn, ok := obj.(*object.Function)
		if !ok {
			return nil, fmt.Errorf("handler %s is not a function", name)
		}
		return machine.Call(ctx, fn, nil)
	}
	load := func(st SessStep, imp importer.Importer) (*kept, error) {
		opts, err := build(st, imp)
		if err != nil {
			return nil, err
		}
		cfg := risor.NewConfig(opts...)
		k := &kept{compiled: make([]string, len(spec.Probes))}
		src := spec.Prelude + "\n"
		for i, p := range spec.Probes {
			// a handler that does not compile under this configuration (a name the configuration lacks) is left out
			one := spec.Prelude + "\n" + handlerSource(i, p)
			ast, err := parser.Parse(ctx, one)
			if err == nil {
				_, err = compiler.Compile(ast, cfg.CompilerOpts()...)
			}
			if err != nil {
				k.compiled[i] = classify(err)
				continue
			}
			src += handlerSource(i, p)
		}
		func() {
			defer func() {
				if r := recover(); r != nil {
					k.load = fmt.Sprintf("err:panic: %v", r)
					k.machine = nil
				}
			}()
			switch st.Route {
			case "evalvm":
				machine, err := vm.NewEmpty()
				if err != nil {
					k.load = classify(err)
					return
				}
				if _, err := risor.Eval(ctx, src, append(opts, risor.WithVM(machine))...); err != nil {
					k.load = classify(err)
					return
				}
				k.machine = machine
			default:
				ast, err := parser.Parse(ctx, src)
				if err != nil {
					k.load = classify(err)
					return
				}
				code, err := compiler.Compile(ast, cfg.CompilerOpts()...)
				if err != nil {
					k.load = classify(err)
					return
				}
				machine := vm.New(code, cfg.VMOpts()...)
				if err := machine.Run(ctx); err != nil {
					k.load = classify(err)
					return
				}
				k.machine = machine
			}
			k.load = "ok"
		}()
		return k, nil
	}

	type callRes struct {
		load   string
		probes []probeRes
	}
	// play the events evs (indices into spec.Events) with ONE new importer; hist: record object identities
	play := func(evs []int, hist bool) (map[int]callRes, map[int]string, error) {
		imp := newImporter()
		vms := map[int]*kept{}
		calls := map[int]callRes{}
		evals := map[int]string{}
		for _, ei := range evs {
			ev := spec.Events[ei]
			if ev.Cfg < 0 || ev.Cfg >= len(spec.Configs) {
				return nil, nil, fmt.Errorf("event %d: no configuration %d", ei, ev.Cfg)
			}
			st := spec.Configs[ev.Cfg]
			switch ev.Op {
			case "load":
				k, err := load(st, imp)
				if err != nil {
					return nil, nil, err
				}
				vms[ev.Cfg] = k
			case "eval":
				opts, err := build(st, imp)
				if err != nil {
					return nil, nil, err
				}
				func() {
					defer func() {
						if r := recover(); r != nil {
							evals[ei] = fmt.Sprintf("err:panic: %v", r)
						}
					}()
					o, err := risor.Eval(ctx, spec.EvalSrc, opts...)
					if err != nil {
						evals[ei] = classify(err)
					} else {
						evals[ei] = nameOf(o)
					}
				}()
			case "call":
				k := vms[ev.Cfg]
				if k == nil {
					return nil, nil, fmt.Errorf("event %d: configuration %d is not loaded", ei, ev.Cfg)
				}
				cr := callRes{load: k.load}
				cfgNo := 0
				if hist {
					cfgNo = ev.Cfg + 1
				}
				for i := range spec.Probes {
					switch {
					case k.compiled[i] != "":
						cr.probes = append(cr.probes, probeRes{res: k.compiled[i]})
					case k.machine == nil:
						cr.probes = append(cr.probes, probeRes{res: "err:notloaded"})
					default:
						o, err := safeCall(k.machine, fmt.Sprintf("c11p%d", i))
						cr.probes = append(cr.probes, identify(o, err, cfgNo))
					}
				}
				calls[ei] = cr
			default:
				return nil, nil, fmt.Errorf("unknown event %q", ev.Op)
			}
		}
		return calls, evals, nil
	}

	for _, st := range spec.Configs {
		opts, err := build(st, newImporter())
		if err != nil {
			obs.Problem = err.Error()
			return
		}
		obs.Envs = append(obs.Envs, risor.NewConfig(opts...).GlobalNames())
	}
	all := make([]int, len(spec.Events))
	for i := range all {
		all[i] = i
	}
	hist, hevals, err := play(all, true)
	if err != nil {
		obs.Problem = err.Error()
		return
	}
	iso := map[int]callRes{}
	isoEvals := map[int]string{}
	for c := range spec.Configs {
		var own []int
		for i, ev := range spec.Events {
			if ev.Cfg == c {
				own = append(own, i)
			}
		}
		r, e, err := play(own, false)
		if err != nil {
			obs.Problem = err.Error()
			return
		}
		for k, v := range r {
			iso[k] = v
		}
		for k, v := range e {
			isoEvals[k] = v
		}
	}
	for i, ev := range spec.Events {
		switch ev.Op {
		case "eval":
			obs.Evals = append(obs.Evals, fmt.Sprintf("%d:%s|%s", i, hevals[i], isoEvals[i]))
		case "call":
			h, a := hist[i], iso[i]
			co := ImpCallObs{Event: i, Cfg: ev.Cfg, Load: h.load, IsoLd: a.load}
			for j := range h.probes {
				po := ImpProbeObs{Res: h.probes[j].res, Mem: h.probes[j].mem, Stale: h.probes[j].stale}
				if j < len(a.probes) {
					po.Iso, po.IsoMem = a.probes[j].res, a.probes[j].mem
				}
				co.Probes = append(co.Probes, po)
			}
			obs.Calls = append(obs.Calls, co)
		}
	}
	_ = keep
	return obs
}
