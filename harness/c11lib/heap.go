//go:build verif

// Package c11lib builds the object graph a risor script can walk from its globals: nodes are
// object identities (Go pointers rendered as small integers in a canonical breadth-first order),
// labelled edges are the results of GetAttr.  It needs the add-only hook
// object.(*Module).VerifAttrNames (hooks/module_verif.go.txt, injected with go build -overlay).
package c11lib

import (
	"fmt"
	"go/ast"
	"go/parser"
	"go/token"
	"os"
	"path/filepath"
	"reflect"
	"sort"
	"strconv"
	"strings"

	"github.com/risor-io/risor/object"
)

type Node struct {
	ID    int
	Kind  string // module | builtin | dynamic_attr | error | ... (object type); fresh objects get the prefix "fresh:"
	Desc  string // Inspect()
	Sig   string // identification across heaps: kind, description, Go function pointer of builtins
	Fresh bool   // a new object is made on every GetAttr (no stable identity)
	Obj   object.Object
	depth int
}

type Edge struct {
	Src    int
	Label  string
	Member bool // stored in the module's attribute tables (what Module.Override edits); false = computed by GetAttr
	Dst    int
}

type Root struct {
	Name string
	Node int
}

type key struct {
	t reflect.Type
	p uintptr
}

type Heap struct {
	Nodes   []*Node // index = ID-1
	Edges   []Edge
	ids     map[key]int
	queue   []int
	Dict    []string
	OutOf   map[int][]int // node -> indices into Edges
	expanded map[int]bool
}

func NewHeap(dict []string) *Heap {
	d := append([]string{}, dict...)
	sort.Strings(d)
	return &Heap{ids: map[key]int{}, Dict: d, OutOf: map[int][]int{}, expanded: map[int]bool{}}
}

func keyOf(o object.Object) (key, bool) {
	v := reflect.ValueOf(o)
	if v.Kind() != reflect.Ptr || v.IsNil() {
		return key{}, false
	}
	return key{v.Type(), v.Pointer()}, true
}

// Lookup returns the id of an object already in the heap (0 if it is not).
func (h *Heap) Lookup(o object.Object) int {
	if o == nil {
		return 0
	}
	k, ok := keyOf(o)
	if !ok {
		return 0
	}
	return h.ids[k]
}

func sigOf(o object.Object) string {
	s := string(o.Type()) + "|" + safeInspect(o)
	if b, ok := o.(*object.Builtin); ok {
		s += "|fn=" + strconv.FormatUint(uint64(reflect.ValueOf(b.Value()).Pointer()), 16)
		if m, ok := b.GetAttr("__module__"); ok {
			if mm, ok := m.(*object.Module); ok {
				s += "|mod=" + mm.Name().Value()
			}
		}
	}
	return s
}

func safeInspect(o object.Object) (s string) {
	defer func() {
		if r := recover(); r != nil {
			s = "<inspect panicked>"
		}
	}()
	s = o.Inspect()
	if len(s) > 80 {
		s = s[:80]
	}
	return s
}

func (h *Heap) add(o object.Object, fresh bool, depth int) int {
	if !fresh {
		if k, ok := keyOf(o); ok {
			if id := h.ids[k]; id != 0 {
				return id
			}
			n := &Node{ID: len(h.Nodes) + 1, Kind: string(o.Type()), Desc: safeInspect(o), Sig: sigOf(o), Obj: o, depth: depth}
			h.Nodes = append(h.Nodes, n)
			h.ids[k] = n.ID
			h.queue = append(h.queue, n.ID)
			return n.ID
		}
		fresh = true
	}
	n := &Node{ID: len(h.Nodes) + 1, Kind: "fresh:" + string(o.Type()), Desc: safeInspect(o), Fresh: true, Obj: o, depth: depth}
	n.Sig = n.Kind + "|" + n.Desc
	h.Nodes = append(h.Nodes, n)
	h.queue = append(h.queue, n.ID)
	return n.ID
}

func safeGetAttr(o object.Object, name string) (r object.Object, ok bool) {
	defer func() {
		if e := recover(); e != nil {
			r, ok = nil, false
		}
	}()
	return o.GetAttr(name)
}

func (h *Heap) edge(src int, label string, member bool, dst int) {
	h.OutOf[src] = append(h.OutOf[src], len(h.Edges))
	h.Edges = append(h.Edges, Edge{src, label, member, dst})
}

func (h *Heap) expand(id int) {
	if h.expanded[id] {
		return
	}
	h.expanded[id] = true
	n := h.Nodes[id-1]
	members := map[string]bool{}
	if m, ok := n.Obj.(*object.Module); ok && !n.Fresh {
		names := m.VerifAttrNames()
		sort.Strings(names)
		for _, name := range names {
			if members[name] {
				continue
			}
			members[name] = true
			if name == "__name__" {
				continue // shadowed by the computed attribute
			}
			o, ok := safeGetAttr(m, name)
			if !ok || o == nil {
				continue
			}
			h.edge(id, name, true, h.add(o, false, 0))
		}
	}
	for _, name := range h.Dict {
		if members[name] && name != "__name__" {
			continue
		}
		o1, ok1 := safeGetAttr(n.Obj, name)
		if !ok1 || o1 == nil {
			continue
		}
		o2, _ := safeGetAttr(n.Obj, name)
		k1, p1 := keyOf(o1)
		k2, p2 := keyOf(o2)
		stable := p1 && p2 && k1 == k2
		if stable {
			h.edge(id, name, false, h.add(o1, false, 0))
		} else if !n.Fresh {
			h.edge(id, name, false, h.add(o1, true, n.depth+1))
		}
		// fresh objects: only their edges to objects with a stable identity are recorded
	}
}

// AddRoots adds the closure of a globals map and returns the roots (sorted by name).
func (h *Heap) AddRoots(globals map[string]any) ([]Root, error) {
	var names []string
	for k := range globals {
		names = append(names, k)
	}
	sort.Strings(names)
	var roots []Root
	for _, name := range names {
		o := object.FromGoType(globals[name])
		if o == nil {
			return nil, fmt.Errorf("global %q cannot be converted to an object", name)
		}
		roots = append(roots, Root{name, h.add(o, false, 0)})
	}
	for len(h.queue) > 0 {
		id := h.queue[0]
		h.queue = h.queue[1:]
		h.expand(id)
	}
	return roots, nil
}

// Reachable computes the set of node ids reachable from the given roots along recorded edges.
func (h *Heap) Reachable(roots []Root) map[int]bool {
	seen := map[int]bool{}
	var stack []int
	for _, r := range roots {
		if !seen[r.Node] {
			seen[r.Node] = true
			stack = append(stack, r.Node)
		}
	}
	for len(stack) > 0 {
		n := stack[len(stack)-1]
		stack = stack[:len(stack)-1]
		for _, ei := range h.OutOf[n] {
			d := h.Edges[ei].Dst
			if !seen[d] {
				seen[d] = true
				stack = append(stack, d)
			}
		}
	}
	return seen
}

// Dictionary collects the attribute names probed on non-module objects: the string case labels of
// every GetAttr method of package object in the source tree, plus the computed names.
func Dictionary(repo string) []string {
	set := map[string]bool{"__name__": true, "__module__": true, "spawn": true}
	files, _ := filepath.Glob(filepath.Join(repo, "object", "*.go"))
	fset := token.NewFileSet()
	for _, f := range files {
		if strings.HasSuffix(f, "_test.go") {
			continue
		}
		src, err := os.ReadFile(f)
		if err != nil {
			continue
		}
		af, err := parser.ParseFile(fset, f, src, 0)
		if err != nil {
			continue
		}
		for _, d := range af.Decls {
			fd, ok := d.(*ast.FuncDecl)
			if !ok || fd.Recv == nil || fd.Name.Name != "GetAttr" || fd.Body == nil {
				continue
			}
			ast.Inspect(fd.Body, func(n ast.Node) bool {
				cc, ok := n.(*ast.CaseClause)
				if !ok {
					return true
				}
				for _, e := range cc.List {
					if bl, ok := e.(*ast.BasicLit); ok && bl.Kind == token.STRING {
						if s, err := strconv.Unquote(bl.Value); err == nil {
							set[s] = true
						}
					}
				}
				return true
			})
		}
	}
	var out []string
	for k := range set {
		out = append(out, k)
	}
	sort.Strings(out)
	return out
}
