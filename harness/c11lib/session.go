//go:build verif

package c11lib

// Sessions: HISTORIES of configurations in one host process.  A host keeps ONE globals map (its own builtins, values and
// modules) and hands that same map object to every configuration it builds; it may keep ONE VM and precompiled code and
// evaluate them again and again (risor.Eval / EvalCode / Call with WithVM) under configurations that differ in
// WithoutDefaultGlobals, deny and override options.  The property quantifies over configurations: what a script reaches in
// evaluation k is decided by the configuration of evaluation k alone.  For every step the harness therefore observes
//   - the names of the configured globals and the result of every access script, in the history (shared map / VM / code),
//   - the same step ALONE: a copy of the host's map, a new VM, newly compiled code (the "iso" columns),
//   - whether a result is an object (module / builtin) that an EARLIER step of the history obtained first (each
//     configuration builds its default modules anew, so this never happens between independent configurations),
//   - the host's map after the step (names, value identities, members of the host's modules),
// and, for Configs the host keeps (route "newconfig"), the same observations once more at the end of the history.

import (
	"context"
	"fmt"
	"sort"
	"strings"

	"github.com/risor-io/risor"
	"github.com/risor-io/risor/compiler"
	"github.com/risor-io/risor/object"
	"github.com/risor-io/risor/parser"
	"github.com/risor-io/risor/vm"
)

type ProbeSpec struct {
	Pre  string `json:"pre"`  // statements before the expression (import forms); may be empty
	Expr string `json:"expr"` // the access expression
}

type SessStep struct {
	// newconfig: cfg := risor.NewConfig(opts...), kept by the host; scripts run with cfg.CompilerOpts() / cfg.VMOpts()
	// eval: risor.Eval(src, opts...)   evalcode: risor.EvalCode(code compiled ONCE per history, opts...)
	// call: risor.Call(code compiled once, "c11probe", nil, opts...)     (eval / evalcode / call: + WithVM when the history has a VM)
	Route string `json:"route"`
	// the option list; ops of OptSpec plus "hostmap" = risor.WithGlobals(<the host's map, the SAME object in every step>)
	Opts []OptSpec `json:"opts"`
}

type SessionSpec struct {
	ID       string         `json:"id"`
	Host     []OverrideSpec `json:"host"`     // entries of the host's map; kinds "new", "int", "hmod" (a module of two builtins)
	Override []OverrideSpec `json:"override"` // values of the override options (shared by the steps)
	Extra    []OverrideSpec `json:"extra"`    // values of WithGlobal(s) options
	VM       bool           `json:"vm"`       // one VM for every eval / evalcode / call step
	Probes   []ProbeSpec    `json:"probes"`
	Steps    []SessStep     `json:"steps"`
}

type ProbeObs struct {
	Res   string `json:"res"`
	Iso   string `json:"iso"`
	Stale int    `json:"stale,omitempty"` // 1-based number of the EARLIER step that first obtained this very object
}

type StepObs struct {
	Env     []string   `json:"env"`
	IsoEnv  []string   `json:"iso_env"`
	Probes  []ProbeObs `json:"probes"`
	HostMap string     `json:"hostmap,omitempty"` // what changed in the host's map during this step ("" = nothing)
}

type LateObs struct {
	Step   int      `json:"step"` // 1-based step that made the Config
	Env    []string `json:"env"`
	Probes []string `json:"probes"`
}

type SessionObs struct {
	ID      string    `json:"id"`
	Steps   []StepObs `json:"steps"`
	Late    []LateObs `json:"late,omitempty"`
	Problem string    `json:"problem,omitempty"`
}

func probeSource(p ProbeSpec, call bool) string {
	src := ""
	if p.Pre != "" {
		src = p.Pre + "\n"
	}
	if call {
		return src + "func c11probe() { return " + p.Expr + " }"
	}
	return src + p.Expr
}

type hostSnap struct {
	keys    []string
	vals    map[string]key
	members map[string]string
}

func snapHost(m map[string]any) hostSnap {
	s := hostSnap{vals: map[string]key{}, members: map[string]string{}}
	for k, v := range m {
		s.keys = append(s.keys, k)
		if o, ok := v.(object.Object); ok {
			if kk, ok := keyOf(o); ok {
				s.vals[k] = kk
			}
			if mod, ok := o.(*object.Module); ok {
				s.members[k] = strings.Join(mod.VerifAttrNames(), ",")
			}
		}
	}
	sort.Strings(s.keys)
	return s
}

func (a hostSnap) diff(b hostSnap) string {
	var out []string
	in := func(xs []string, x string) bool {
		i := sort.SearchStrings(xs, x)
		return i < len(xs) && xs[i] == x
	}
	var gained, lost []string
	for _, k := range b.keys {
		if !in(a.keys, k) {
			gained = append(gained, k)
		}
	}
	for _, k := range a.keys {
		if !in(b.keys, k) {
			lost = append(lost, k)
		}
	}
	if len(gained) > 0 {
		n := len(gained)
		if n > 6 {
			gained = gained[:6]
		}
		out = append(out, fmt.Sprintf("gained %d names (%s)", n, strings.Join(gained, ", ")))
	}
	if len(lost) > 0 {
		out = append(out, "lost "+strings.Join(lost, ", "))
	}
	for _, k := range a.keys {
		if in(b.keys, k) {
			if a.vals[k] != b.vals[k] {
				out = append(out, "value of "+k+" replaced")
			}
			if a.members[k] != b.members[k] {
				out = append(out, "members of the host's module "+k+" changed: "+b.members[k])
			}
		}
	}
	return strings.Join(out, "; ")
}

// RunSession plays one history on the real implementation.
func (b *Base) RunSession(spec SessionSpec) (obs SessionObs) {
	obs.ID = spec.ID
	ctx := context.Background()
	defer func() {
		if r := recover(); r != nil {
			obs.Problem = fmt.Sprintf("harness panic: %v", r)
		}
	}()
	tags := map[key]string{}
	var keep []object.Object
	mk := func(kind, tag string, seq int) object.Object {
		var o object.Object
		switch kind {
		case "int":
			o = object.NewInt(int64(7000 + seq))
		case "hmod":
			nop := func(ctx context.Context, args ...object.Object) object.Object { return object.NewString("host") }
			a := object.NewBuiltin("hm_a_"+tag, nop)
			c := object.NewBuiltin("hm_b_"+tag, nop)
			o = object.NewBuiltinsModule("hostmod_"+tag, map[string]object.Object{"hm_a": a, "hm_b": c})
			for n, x := range map[string]object.Object{"hm_a": a, "hm_b": c} {
				k, _ := keyOf(x)
				tags[k] = tag + "." + n
				keep = append(keep, x)
			}
		default:
			o = object.NewBuiltin("replacement_"+tag, func(ctx context.Context, args ...object.Object) object.Object {
				return object.NewString("replaced")
			})
		}
		k, _ := keyOf(o)
		tags[k] = tag
		keep = append(keep, o)
		return o
	}
	hostMap := map[string]any{}
	for i, h := range spec.Host {
		hostMap[h.Name] = mk(h.Kind, fmt.Sprintf("host%d", i), i)
	}
	ovObj := make([]object.Object, len(spec.Override))
	for i, o := range spec.Override {
		ovObj[i] = mk(o.Kind, fmt.Sprintf("%d", i), 100+i)
	}
	exObj := make([]object.Object, len(spec.Extra))
	for i, e := range spec.Extra {
		exObj[i] = mk(e.Kind, fmt.Sprintf("g%d", i), 500+i)
	}
	snap0 := snapHost(hostMap)
	hostOrig := map[string]any{} // what the host put into its map (the copies given to the steps run alone)
	for k, v := range hostMap {
		hostOrig[k] = v
	}

	firstSeen := map[key]int{}
	identify := func(o object.Object, step int) (string, int) {
		if o == nil {
			return "none", 0
		}
		k, hasKey := keyOf(o)
		if hasKey {
			if t, ok := tags[k]; ok {
				return "new:" + t, 0
			}
		}
		stale := 0
		switch o.Type() {
		case object.MODULE, object.BUILTIN:
			if hasKey && step > 0 {
				if j, ok := firstSeen[k]; ok {
					if j < step {
						stale = j
					}
				} else {
					firstSeen[k] = step
					keep = append(keep, o) // (an address must not be reused by a later object)
				}
			}
		case object.STRING, object.INT, object.FLOAT, object.BOOL, object.NIL:
			return "val:" + safeInspect(o), 0
		}
		if hasKey {
			if bid, ok := b.SigID[sigOf(o)]; ok && !b.H.Nodes[bid-1].Fresh {
				return fmt.Sprintf("sig:%d", bid), stale
			}
		}
		return "other:" + string(o.Type()), stale
	}
	result := func(res object.Object, err error, step int) (string, int) {
		if err != nil {
			return classify(err), 0
		}
		return identify(res, step)
	}

	build := func(st SessStep, hm map[string]any, machine *vm.VirtualMachine) ([]risor.Option, error) {
		var opts []risor.Option
		for _, o := range st.Opts {
			switch o.Op {
			case "hostmap":
				opts = append(opts, risor.WithGlobals(hm))
			case "nodefaults":
				opts = append(opts, risor.WithoutDefaultGlobals())
			case "without":
				if len(o.Names) == 1 {
					opts = append(opts, risor.WithoutGlobal(o.Names[0]))
				}
			case "without_many":
				opts = append(opts, risor.WithoutGlobals(o.Names...))
			case "override":
				if len(o.Idx) == 1 && o.Idx[0] < len(ovObj) {
					opts = append(opts, risor.WithGlobalOverride(spec.Override[o.Idx[0]].Name, ovObj[o.Idx[0]]))
				}
			case "global":
				if len(o.Idx) == 1 && o.Idx[0] < len(exObj) {
					opts = append(opts, risor.WithGlobal(spec.Extra[o.Idx[0]].Name, exObj[o.Idx[0]]))
				}
			case "globals":
				m := map[string]any{}
				for _, j := range o.Idx {
					if j < len(exObj) {
						m[spec.Extra[j].Name] = exObj[j]
					}
				}
				opts = append(opts, risor.WithGlobals(m))
			default:
				return nil, fmt.Errorf("unknown option %q", o.Op)
			}
		}
		if machine != nil {
			opts = append(opts, risor.WithVM(machine))
		}
		return opts, nil
	}

	// the names a precompiled code may mention: everything any configuration of the history can provide
	nameSet := map[string]bool{}
	for _, n := range risor.NewConfig().GlobalNames() {
		nameSet[n] = true
	}
	for _, h := range spec.Host {
		nameSet[h.Name] = true
	}
	for _, e := range spec.Extra {
		nameSet[e.Name] = true
	}
	for _, o := range spec.Override {
		if o.Name != "" && !strings.Contains(o.Name, ".") {
			nameSet[o.Name] = true
		}
	}
	var allNames []string
	for n := range nameSet {
		allNames = append(allNames, n)
	}
	sort.Strings(allNames)
	compile := func(src string, copts ...compiler.Option) (*compiler.Code, error) {
		ast, err := parser.Parse(ctx, src)
		if err != nil {
			return nil, err
		}
		return compiler.Compile(ast, copts...)
	}
	precompile := func(call bool) ([]*compiler.Code, []error) {
		codes := make([]*compiler.Code, len(spec.Probes))
		errs := make([]error, len(spec.Probes))
		for i, p := range spec.Probes {
			codes[i], errs[i] = compile(probeSource(p, call), compiler.WithGlobalNames(allNames))
		}
		return codes, errs
	}
	evalCodes, evalErrs := precompile(false)
	callCodes, callErrs := precompile(true)

	viaConfig := func(cfg *risor.Config, p ProbeSpec) (object.Object, error) {
		code, err := compile(probeSource(p, false), cfg.CompilerOpts()...)
		if err != nil {
			return nil, err
		}
		return vm.Run(ctx, code, cfg.VMOpts()...)
	}

	// one step, in the history (iso=false) or alone (iso=true)
	type kept struct {
		step int
		cfg  *risor.Config
	}
	var keptCfgs []kept
	var sharedVM *vm.VirtualMachine
	if spec.VM {
		var err error
		if sharedVM, err = vm.NewEmpty(); err != nil {
			obs.Problem = err.Error()
			return
		}
	}
	runStep := func(si int, st SessStep, iso bool) (env []string, res []string, stale []int, err error) {
		hm := hostMap
		codes, cerrs, ccodes, ccerrs := evalCodes, evalErrs, callCodes, callErrs
		var machine *vm.VirtualMachine
		if st.Route != "newconfig" {
			machine = sharedVM
		}
		if iso {
			hm = map[string]any{}
			for k, v := range hostOrig {
				hm[k] = v
			}
			if machine != nil {
				if machine, err = vm.NewEmpty(); err != nil {
					return
				}
			}
			switch st.Route {
			case "evalcode":
				codes, cerrs = precompile(false)
			case "call":
				ccodes, ccerrs = precompile(true)
			}
		}
		stepNo := si + 1
		if iso {
			stepNo = 0
		}
		opts, err := build(st, hm, machine)
		if err != nil {
			return
		}
		var cfg *risor.Config
		if st.Route == "newconfig" {
			cfg = risor.NewConfig(opts...)
			env = cfg.GlobalNames()
			if !iso {
				keptCfgs = append(keptCfgs, kept{si + 1, cfg})
			}
		} else {
			env = risor.NewConfig(opts...).GlobalNames()
		}
		for i, p := range spec.Probes {
			var r string
			var s int
			switch st.Route {
			case "newconfig":
				o, e := viaConfig(cfg, p)
				r, s = result(o, e, stepNo)
			case "eval":
				o, e := risor.Eval(ctx, probeSource(p, false), opts...)
				r, s = result(o, e, stepNo)
			case "evalcode":
				if cerrs[i] != nil {
					r = "err:precompile"
				} else {
					o, e := risor.EvalCode(ctx, codes[i], opts...)
					r, s = result(o, e, stepNo)
				}
			case "call":
				if ccerrs[i] != nil {
					r = "err:precompile"
				} else {
					o, e := risor.Call(ctx, ccodes[i], "c11probe", nil, opts...)
					r, s = result(o, e, stepNo)
				}
			default:
				err = fmt.Errorf("unknown route %q", st.Route)
				return
			}
			res = append(res, r)
			stale = append(stale, s)
		}
		return
	}

	for si, st := range spec.Steps {
		env, res, stale, err := runStep(si, st, false)
		if err != nil {
			obs.Problem = err.Error()
			return
		}
		snap1 := snapHost(hostMap)
		so := StepObs{Env: env, HostMap: snap0.diff(snap1)}
		snap0 = snap1
		ienv, ires, _, err := runStep(si, st, true)
		if err != nil {
			obs.Problem = err.Error()
			return
		}
		so.IsoEnv = ienv
		for i := range res {
			so.Probes = append(so.Probes, ProbeObs{Res: res[i], Iso: ires[i], Stale: stale[i]})
		}
		obs.Steps = append(obs.Steps, so)
	}
	for _, kc := range keptCfgs {
		lo := LateObs{Step: kc.step, Env: kc.cfg.GlobalNames()}
		for _, p := range spec.Probes {
			o, e := viaConfig(kc.cfg, p)
			r, _ := result(o, e, 0)
			lo.Probes = append(lo.Probes, r)
		}
		obs.Late = append(obs.Late, lo)
	}
	_ = keep
	return obs
}
