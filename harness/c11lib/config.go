//go:build verif

package c11lib

import (
	"context"
	"crypto/sha256"
	"encoding/hex"
	"fmt"
	"sort"
	"strings"

	"github.com/risor-io/risor"
	"github.com/risor-io/risor/object"
)

// Base is the object graph of two independent default configurations (instances 1 and 2) and of a
// harness-defined nested module tree (instance 3, used for the dotted-name depth tests).
type Base struct {
	H      *Heap
	Roots  [3][]Root
	SigID  map[string]int
	DupSig []string
}

// CustomGlobals returns host-defined globals with nested modules:
// vx{leaf, inner{leaf, deep{leaf2, deeper{leaf3}}}, deep{leaf2}} - dotted names of 2 to 5 components.
func CustomGlobals() map[string]any {
	nop := func(ctx context.Context, args ...object.Object) object.Object { return object.Nil }
	deeper := object.NewBuiltinsModule("deeper", map[string]object.Object{"leaf3": object.NewBuiltin("leaf3", nop)})
	deepA := object.NewBuiltinsModule("deep_a", map[string]object.Object{"leaf2": object.NewBuiltin("leaf2a", nop), "deeper": deeper})
	deepB := object.NewBuiltinsModule("deep_b", map[string]object.Object{"leaf2": object.NewBuiltin("leaf2b", nop)})
	inner := object.NewBuiltinsModule("inner", map[string]object.Object{"leaf": object.NewBuiltin("leafi", nop), "deep": deepA})
	vx := object.NewBuiltinsModule("vx", map[string]object.Object{"leaf": object.NewBuiltin("leafx", nop), "inner": inner, "deep": deepB})
	return map[string]any{"vx": vx}
}

func BuildBase(repo string) (*Base, error) {
	b := &Base{H: NewHeap(Dictionary(repo)), SigID: map[string]int{}}
	for i := 0; i < 3; i++ {
		var g map[string]any
		if i < 2 {
			g = risor.NewConfig().Globals()
		} else {
			g = CustomGlobals()
		}
		r, err := b.H.AddRoots(g)
		if err != nil {
			return nil, err
		}
		b.Roots[i] = r
	}
	// signatures of instance 1 (and 3) for identification across heaps
	in1 := b.H.Reachable(append(append([]Root{}, b.Roots[0]...), b.Roots[2]...))
	for _, n := range b.H.Nodes {
		if n.Fresh || !in1[n.ID] {
			continue
		}
		if _, dup := b.SigID[n.Sig]; dup {
			b.DupSig = append(b.DupSig, n.Sig)
			continue
		}
		b.SigID[n.Sig] = n.ID
	}
	return b, nil
}

// StructHash is independent of addresses: kinds, descriptions, edges and roots in canonical order.
func (b *Base) StructHash() string {
	s := sha256.New()
	for _, n := range b.H.Nodes {
		fmt.Fprintf(s, "N %d %v %s %s\n", n.ID, n.Fresh, n.Kind, n.Desc)
	}
	for _, e := range b.H.Edges {
		fmt.Fprintf(s, "E %d %s %v %d\n", e.Src, e.Label, e.Member, e.Dst)
	}
	for i, rs := range b.Roots {
		for _, r := range rs {
			fmt.Fprintf(s, "R %d %s %d\n", i+1, r.Name, r.Node)
		}
	}
	return hex.EncodeToString(s.Sum(nil))[:32]
}

// Text renders the base graph for the model driver and the check.
func (b *Base) Text() string {
	var sb strings.Builder
	fmt.Fprintf(&sb, "HASH %s\n", b.StructHash())
	for _, n := range b.H.Nodes {
		st := 1
		if n.Fresh {
			st = 0
		}
		fmt.Fprintf(&sb, "N %d %d %s %s\n", n.ID, st, hex.EncodeToString([]byte(n.Kind)), hex.EncodeToString([]byte(n.Desc)))
	}
	for _, e := range b.H.Edges {
		m := 0
		if e.Member {
			m = 1
		}
		fmt.Fprintf(&sb, "E %d %s %d %d\n", e.Src, hex.EncodeToString([]byte(e.Label)), m, e.Dst)
	}
	for i, rs := range b.Roots {
		for _, r := range rs {
			fmt.Fprintf(&sb, "R %d %s %d\n", i+1, hex.EncodeToString([]byte(r.Name)), r.Node)
		}
	}
	for _, n := range b.H.Nodes {
		if n.Kind == "module" {
			fmt.Fprintf(&sb, "M %d\n", n.ID)
		}
	}
	for _, d := range b.DupSig {
		fmt.Fprintf(&sb, "DUPSIG %s\n", hex.EncodeToString([]byte(d)))
	}
	sb.WriteString("END\n")
	return sb.String()
}

func coqString(s string) (string, error) {
	for _, c := range []byte(s) {
		if c < 32 || c > 126 {
			return "", fmt.Errorf("name %q is not printable ASCII", s)
		}
	}
	return "\"" + strings.ReplaceAll(s, "\"", "\"\"") + "\"", nil
}

// Coq renders instances 1 and 2 as the generated file coq/gen/GenGlobalsGraph.v.
func (b *Base) Coq() (string, error) {
	var sb strings.Builder
	in12 := b.H.Reachable(append(append([]Root{}, b.Roots[0]...), b.Roots[1]...))
	sb.WriteString("(* GENERATED on every run by harness/cmd/c11gen from the running packages: the GetAttr closure of two\n")
	sb.WriteString("   independent risor.NewConfig().Globals() calls.  Nodes are object identities (Go pointers) numbered in a\n")
	sb.WriteString("   canonical breadth-first order; fresh objects made by GetAttr on every call are leaf nodes.  Do not edit. *)\n")
	sb.WriteString("From Coq Require Import List String PArith.\nRequire Import RV.model.Graph RV.model.Globals.\nImport ListNotations.\n")
	sb.WriteString("Open Scope string_scope.\nOpen Scope positive_scope.\n\n")
	fmt.Fprintf(&sb, "Definition struct_hash : string := \"%s\".\n\n", b.StructHash())
	sb.WriteString("Definition heap : list edge :=\n  [ ")
	first := true
	maxn := 0
	for _, e := range b.H.Edges {
		if !in12[e.Src] {
			continue
		}
		l, err := coqString(e.Label)
		if err != nil {
			return "", err
		}
		if !first {
			sb.WriteString("  ; ")
		}
		first = false
		fmt.Fprintf(&sb, "E %d %s %v %d\n", e.Src, l, e.Member, e.Dst)
		if e.Src > maxn {
			maxn = e.Src
		}
		if e.Dst > maxn {
			maxn = e.Dst
		}
	}
	sb.WriteString("  ].\n\n")
	for i := 0; i < 2; i++ {
		fmt.Fprintf(&sb, "Definition env%d : env :=\n  [ ", i+1)
		for j, r := range b.Roots[i] {
			l, err := coqString(r.Name)
			if err != nil {
				return "", err
			}
			if j > 0 {
				sb.WriteString("  ; ")
			}
			fmt.Fprintf(&sb, "(%s, %d)\n", l, r.Node)
			if r.Node > maxn {
				maxn = r.Node
			}
		}
		sb.WriteString("  ].\n\n")
	}
	sb.WriteString("Definition modules : list node :=\n  [")
	first = true
	for _, n := range b.H.Nodes {
		if n.Kind == "module" && in12[n.ID] {
			if !first {
				sb.WriteString("; ")
			}
			first = false
			fmt.Fprintf(&sb, "%d", n.ID)
		}
	}
	sb.WriteString("].\n\n")
	fmt.Fprintf(&sb, "Definition max_node : node := %d.\n", maxn)
	return sb.String(), nil
}

// ---------------------------------------------------------------- configurations on the real implementation

type OverrideSpec struct {
	Name string `json:"name"`
	Kind string `json:"kind"` // "new" (a fresh builtin), "int", "ref:<registered name>" (an existing object)
}

// OptSpec is one option of an option list.  Op: "nodefaults" (WithoutDefaultGlobals), "without" (WithoutGlobal(Names[0])),
// "without_many" (WithoutGlobals(Names...)), "override" (WithGlobalOverride of Override[Idx[0]]), "global" (WithGlobal of
// Extra[Idx[0]]), "globals" (WithGlobals of the Extra entries listed in Idx).
type OptSpec struct {
	Op    string   `json:"op"`
	Names []string `json:"names"`
	Idx   []int    `json:"idx"`
}

type ReuseObs struct {
	Env     []string          `json:"env"`
	Reach   []int             `json:"reach"`
	Lookups map[string]string `json:"lookups"`
}

type ConfigSpec struct {
	ID         string         `json:"id"`
	Mode       string         `json:"mode"` // "A": identities captured before configuration; "B": plain API, identification by signature
	NoDefaults bool           `json:"nodefaults"`
	Custom     bool           `json:"custom"`
	Deny       []string       `json:"deny"`
	DenyMany   bool           `json:"deny_many"` // use WithoutGlobals(names...) instead of repeated WithoutGlobal
	Override   []OverrideSpec `json:"override"`
	Lookups    []string       `json:"lookups"`
	Eval       []string       `json:"eval"`
	Indep      bool           `json:"indep"` // also observe a second, untouched default configuration before and after
	// A configuration as the composition of a SEQUENCE of options: when Opts is given the option list is built from it, in
	// that order (Deny / Override then only say what to observe).  Extra holds the values of WithGlobal / WithGlobals options.
	// Value kinds (Override and Extra): "new", "int", "ref:<name>", and modules the HOST assembles with
	// object.NewBuiltinsModule from members of an existing module: "asm:<module>:<m1>,<m2>,..." (members of this
	// configuration's own default module; mode A) and "asmx:<module>:<m1>,..." (members of a separate full instance).
	Extra []OverrideSpec `json:"extra"`
	Opts  []OptSpec      `json:"opts"`
	// Reuse: further Configs made afterwards from sub-lists (indices into Opts) of the SAME Option values (mode B)
	Reuse [][]int `json:"reuse"`
}

type DeniedObs struct {
	Name      string `json:"name"`
	Obj       int    `json:"obj"`
	Reachable bool   `json:"reachable"`
}

type OverObs struct {
	Name         string `json:"name"`
	Old          int    `json:"old"`
	OldReachable bool   `json:"old_reachable"`
	Seen         string `json:"seen"`
	NewReachable bool   `json:"new_reachable"`
}

type EvalObs struct {
	Src string `json:"src"`
	Res string `json:"res"`
}

type ConfigObs struct {
	ID      string            `json:"id"`
	Env     []string          `json:"env"`
	Reach   []int             `json:"reach"`
	NewObjs int               `json:"new_objs"`
	Lookups map[string]string `json:"lookups"`
	Denied  []DeniedObs       `json:"denied"`
	Over    []OverObs         `json:"over"`
	Eval    []EvalObs         `json:"eval"`
	Problem string            `json:"problem,omitempty"`
	Indep   string            `json:"indep,omitempty"` // "" (not asked), "ok", or what changed / is shared
	// base ids (by signature) of reachable objects that belong to NO part of this configuration: copies of default
	// objects from another instance (mode A)
	ReachSig []int      `json:"reach_sig"`
	Reuse    []ReuseObs `json:"reuse,omitempty"`
}

// walk follows a dotted name through real GetAttr calls starting in a globals map.
func walkName(globals map[string]any, name string) object.Object {
	parts := strings.Split(name, ".")
	v, ok := globals[parts[0]]
	if !ok {
		return nil
	}
	o := object.FromGoType(v)
	for _, p := range parts[1:] {
		if o == nil {
			return nil
		}
		n, ok := safeGetAttr(o, p)
		if !ok {
			return nil
		}
		o = n
	}
	return o
}

type ident func(o object.Object) string

func classify(err error) string {
	m := err.Error()
	switch {
	case strings.Contains(m, "undefined variable"):
		return "err:undefined"
	case strings.Contains(m, "attribute") && strings.Contains(m, "not found"):
		return "err:noattr"
	case strings.Contains(m, "has no attribute"):
		return "err:noattr"
	case strings.Contains(m, "import"):
		return "err:import"
	case strings.Contains(m, "parse error"), strings.Contains(m, "syntax error"):
		return "err:parse"
	}
	return "err:other:" + strings.SplitN(m, "\n", 2)[0]
}

// RunConfig applies one configuration through the real risor API and reports what is observable.
func (b *Base) RunConfig(spec ConfigSpec) ConfigObs {
	obs := ConfigObs{ID: spec.ID, Lookups: map[string]string{}}
	ctx := context.Background()
	var opts, tail []risor.Option
	var h0 *Heap
	var g0 map[string]any
	newVals := map[key]string{}
	var keep []object.Object

	if spec.Mode == "A" {
		// capture identities before configuration: fresh default globals, numbered canonically
		h0 = NewHeap(b.H.Dict)
		g0 = map[string]any{}
		if !spec.NoDefaults {
			g0 = risor.NewConfig().Globals()
		}
		if _, err := h0.AddRoots(g0); err != nil {
			obs.Problem = err.Error()
			return obs
		}
		n1 := len(b.H.Reachable(b.Roots[0]))
		if !spec.NoDefaults {
			if len(h0.Nodes) != n1 {
				obs.Problem = fmt.Sprintf("default globals are not reproducible: %d nodes, base has %d", len(h0.Nodes), n1)
				return obs
			}
			for i, n := range h0.Nodes {
				bn := b.H.Nodes[i]
				if bn.Kind != n.Kind || bn.Desc != n.Desc {
					obs.Problem = fmt.Sprintf("default globals are not reproducible at node %d: %s %s / %s %s", i+1, bn.Kind, bn.Desc, n.Kind, n.Desc)
					return obs
				}
			}
		}
		// the captured defaults stand in for applyDefaultGlobals: they are written over what WithGlobal(s) options put
		// there, so WithGlobals(g0) goes to the END of the option list (tail); the order among the other options is kept
		opts = append(opts, risor.WithoutDefaultGlobals())
		tail = append(tail, risor.WithGlobals(g0))
	} else if spec.NoDefaults && len(spec.Opts) == 0 {
		opts = append(opts, risor.WithoutDefaultGlobals()) // (an option list names WithoutDefaultGlobals itself, at its place)
	}
	// custom nested modules get the ids of instance 3 of the base graph (canonical order again)
	var hc *Heap
	var gc map[string]any
	if spec.Custom {
		gc = CustomGlobals()
		hc = NewHeap(b.H.Dict)
		hc.AddRoots(gc)
		opts = append(opts, risor.WithGlobals(gc))
	}
	baseID := func(o object.Object) int {
		if o == nil {
			return 0
		}
		if h0 != nil {
			if id := h0.Lookup(o); id != 0 {
				return id
			}
		}
		if hc != nil {
			if id := hc.Lookup(o); id != 0 {
				// instance 3 of the base heap: identified by signature (the custom objects have distinct names)
				if bid, ok := b.SigID[hc.Nodes[id-1].Sig]; ok {
					return bid
				}
			}
		}
		if spec.Mode == "B" {
			if _, ok := keyOf(o); ok {
				if bid, ok := b.SigID[sigOf(o)]; ok {
					return bid
				}
			}
		}
		return 0
	}
	identify := func(o object.Object) string {
		if o == nil {
			return "none"
		}
		if k, ok := keyOf(o); ok {
			if tag, ok := newVals[k]; ok {
				return "new:" + tag
			}
		}
		if id := baseID(o); id != 0 {
			return fmt.Sprintf("id:%d", id)
		}
		// not an object of this configuration: the same kind of object from ANOTHER configuration?
		if _, ok := keyOf(o); ok && !(o.Type() == object.STRING || o.Type() == object.INT || o.Type() == object.FLOAT) {
			if bid, ok := b.SigID[sigOf(o)]; ok && !b.H.Nodes[bid-1].Fresh {
				return fmt.Sprintf("sig:%d", bid)
			}
		}
		return "other:" + string(o.Type())
	}

	// pre-configuration identities of the names that will be denied / overridden (mode A only)
	pre := map[string]object.Object{}
	preGlobals := map[string]any{}
	for k, v := range g0 {
		preGlobals[k] = v
	}
	for k, v := range gc {
		if _, clash := preGlobals[k]; !clash || spec.NoDefaults {
			preGlobals[k] = v
		}
	}
	if spec.Mode == "B" {
		// no captured identities: use a separate default instance only to name the objects by signature
		for k, v := range risor.NewConfig().Globals() {
			if !spec.NoDefaults {
				preGlobals[k] = v
			}
		}
	}
	for _, nm := range spec.Deny {
		pre[nm] = walkName(preGlobals, nm)
	}
	for _, ov := range spec.Override {
		pre[ov.Name] = walkName(preGlobals, ov.Name)
	}

	// values of overrides and extra globals
	var sepDefaults map[string]any // a separate full instance of the defaults (for "asmx:")
	makeValue := func(kind, tag string, seq int) object.Object {
		switch {
		case kind == "int":
			o := object.NewInt(int64(1000 + seq))
			k, _ := keyOf(o)
			newVals[k] = tag
			keep = append(keep, o)
			return o
		case strings.HasPrefix(kind, "ref:"):
			o := walkName(preGlobals, kind[4:])
			if o == nil {
				o = object.Nil
			}
			return o
		case strings.HasPrefix(kind, "asm:") || strings.HasPrefix(kind, "asmx:"):
			f := strings.SplitN(kind, ":", 3)
			src := preGlobals
			if f[0] == "asmx" {
				if sepDefaults == nil {
					sepDefaults = risor.NewConfig().Globals()
				}
				src = sepDefaults
			}
			members := map[string]object.Object{}
			if len(f) == 3 {
				if full, ok := walkName(src, f[1]).(*object.Module); ok {
					for _, a := range strings.Split(f[2], ",") {
						if v, ok := safeGetAttr(full, a); ok && v != nil {
							members[a] = v
						}
					}
				}
			}
			// what an embedding application does to hand out part of a module: a new module from the members it picked
			o := object.NewBuiltinsModule(f[1], members)
			k, _ := keyOf(o)
			newVals[k] = tag
			keep = append(keep, o)
			return o
		default:
			o := object.NewBuiltin("replacement"+tag, func(ctx context.Context, args ...object.Object) object.Object {
				return object.NewString("replaced")
			})
			k, _ := keyOf(o)
			newVals[k] = tag
			keep = append(keep, o)
			return o
		}
	}
	ovVals := map[string]object.Object{}
	ovObj := make([]object.Object, len(spec.Override))
	for i, ov := range spec.Override {
		ovObj[i] = makeValue(ov.Kind, fmt.Sprintf("%d", i), i)
		ovVals[ov.Name] = ovObj[i] // the last value given for a name is the one installed
	}
	exObj := make([]object.Object, len(spec.Extra))
	for i, ex := range spec.Extra {
		exObj[i] = makeValue(ex.Kind, fmt.Sprintf("g%d", i), 500+i)
	}
	var userOpts []risor.Option
	if len(spec.Opts) > 0 {
		for _, o := range spec.Opts {
			switch o.Op {
			case "nodefaults":
				userOpts = append(userOpts, risor.WithoutDefaultGlobals())
			case "without":
				if len(o.Names) == 1 {
					userOpts = append(userOpts, risor.WithoutGlobal(o.Names[0]))
				}
			case "without_many":
				userOpts = append(userOpts, risor.WithoutGlobals(o.Names...))
			case "override":
				if len(o.Idx) == 1 && o.Idx[0] < len(ovObj) {
					userOpts = append(userOpts, risor.WithGlobalOverride(spec.Override[o.Idx[0]].Name, ovObj[o.Idx[0]]))
				}
			case "global":
				if len(o.Idx) == 1 && o.Idx[0] < len(exObj) {
					userOpts = append(userOpts, risor.WithGlobal(spec.Extra[o.Idx[0]].Name, exObj[o.Idx[0]]))
				}
			case "globals":
				m := map[string]any{}
				for _, j := range o.Idx {
					if j < len(exObj) {
						m[spec.Extra[j].Name] = exObj[j]
					}
				}
				userOpts = append(userOpts, risor.WithGlobals(m))
			default:
				obs.Problem = "unknown option " + o.Op
				return obs
			}
		}
	} else {
		if spec.DenyMany {
			userOpts = append(userOpts, risor.WithoutGlobals(spec.Deny...))
		} else {
			for _, nm := range spec.Deny {
				userOpts = append(userOpts, risor.WithoutGlobal(nm))
			}
		}
		for i, ov := range spec.Override {
			userOpts = append(userOpts, risor.WithGlobalOverride(ov.Name, ovObj[i]))
		}
	}
	for _, o := range spec.Opts {
		if o.Op == "override" && len(o.Idx) == 1 && o.Idx[0] < len(ovObj) {
			ovVals[spec.Override[o.Idx[0]].Name] = ovObj[o.Idx[0]] // the overrides are a map: the last option given for a name wins
		}
	}
	nprefix := len(opts)
	opts = append(opts, userOpts...)
	opts = append(opts, tail...)

	// a second default configuration, created BEFORE this one is initialised and observed again afterwards
	var gB map[string]any
	var sigB string
	var hB *Heap
	if spec.Indep {
		gB = risor.NewConfig().Globals()
		hB = NewHeap(b.H.Dict)
		hB.AddRoots(gB)
		sigB = hB.shape()
	}

	cfg := risor.NewConfig(opts...)
	globals := cfg.Globals()
	for k := range globals {
		obs.Env = append(obs.Env, k)
	}
	sort.Strings(obs.Env)

	h1 := NewHeap(b.H.Dict)
	roots, err := h1.AddRoots(globals)
	if err != nil {
		obs.Problem = err.Error()
		return obs
	}
	reach := h1.Reachable(roots)
	reachBase := map[int]bool{}
	sigSeen := map[int]bool{}
	reachKey := map[key]bool{}
	for id := range reach {
		n := h1.Nodes[id-1]
		if n.Fresh {
			continue
		}
		k, _ := keyOf(n.Obj)
		reachKey[k] = true
		if _, isNew := newVals[k]; isNew {
			obs.NewObjs++
			continue
		}
		if bid := baseID(n.Obj); bid != 0 {
			reachBase[bid] = true
		} else {
			obs.NewObjs++
			// not an object of this configuration: a copy of a default object that belongs to another instance?
			if !(n.Obj.Type() == object.STRING || n.Obj.Type() == object.INT || n.Obj.Type() == object.FLOAT) {
				if bid, ok := b.SigID[sigOf(n.Obj)]; ok && !b.H.Nodes[bid-1].Fresh {
					sigSeen[bid] = true
				}
			}
		}
	}
	for id := range sigSeen {
		obs.ReachSig = append(obs.ReachSig, id)
	}
	sort.Ints(obs.ReachSig)
	for id := range reachBase {
		obs.Reach = append(obs.Reach, id)
	}
	sort.Ints(obs.Reach)
	isReach := func(o object.Object) bool {
		if o == nil {
			return false
		}
		k, ok := keyOf(o)
		if _, isNew := newVals[k]; ok && isNew {
			return reachKey[k]
		}
		if spec.Mode == "B" {
			return reachBase[baseID(o)]
		}
		return ok && reachKey[k]
	}
	for _, nm := range spec.Deny {
		o := pre[nm]
		obs.Denied = append(obs.Denied, DeniedObs{Name: nm, Obj: baseID(o), Reachable: isReach(o)})
	}
	for _, ov := range spec.Override {
		o := pre[ov.Name]
		seen := walkName(globals, ov.Name)
		oo := OverObs{Name: ov.Name, Old: baseID(o), Seen: identify(seen), NewReachable: isReach(ovObj[len(obs.Over)])}
		// the old object counts as still reachable only if it is not itself the replacement
		if o != nil && o != ovVals[ov.Name] && o != ovObj[len(obs.Over)] {
			oo.OldReachable = isReach(o)
		}
		obs.Over = append(obs.Over, oo)
	}
	for _, nm := range spec.Lookups {
		obs.Lookups[nm] = identify(walkName(globals, nm))
	}
	for _, src := range spec.Eval {
		res, err := risor.Eval(ctx, src, opts...)
		r := ""
		if err != nil {
			r = classify(err)
		} else {
			r = identify(res)
		}
		obs.Eval = append(obs.Eval, EvalObs{Src: src, Res: r})
	}
	// further Configs from sub-lists of the SAME Option values: an Option must not carry state from one Config to another
	for _, idx := range spec.Reuse {
		var sub []risor.Option
		sub = append(sub, opts[:nprefix]...)
		for _, j := range idx {
			if j >= 0 && j < len(userOpts) {
				sub = append(sub, userOpts[j])
			}
		}
		sub = append(sub, tail...)
		gR := risor.NewConfig(sub...).Globals()
		ro := ReuseObs{Lookups: map[string]string{}}
		for k := range gR {
			ro.Env = append(ro.Env, k)
		}
		sort.Strings(ro.Env)
		hR := NewHeap(b.H.Dict)
		if rootsR, err := hR.AddRoots(gR); err == nil {
			seen := map[int]bool{}
			for id := range hR.Reachable(rootsR) {
				n := hR.Nodes[id-1]
				if n.Fresh {
					continue
				}
				if k, ok := keyOf(n.Obj); ok {
					if _, isNew := newVals[k]; isNew {
						continue
					}
				}
				if bid := baseID(n.Obj); bid != 0 && !seen[bid] {
					seen[bid] = true
					ro.Reach = append(ro.Reach, bid)
				}
			}
			sort.Ints(ro.Reach)
		}
		for _, nm := range spec.Lookups {
			ro.Lookups[nm] = identify(walkName(gR, nm))
		}
		obs.Reuse = append(obs.Reuse, ro)
	}
	if spec.Indep {
		obs.Indep = "ok"
		hB2 := NewHeap(b.H.Dict)
		rB2, _ := hB2.AddRoots(gB)
		if hB2.shape() != sigB {
			obs.Indep = "the other configuration's object graph changed"
		}
		// identities shared between the two configurations: only immutable singletons are allowed
		for id := range hB2.Reachable(rB2) {
			n := hB2.Nodes[id-1]
			if n.Fresh {
				continue
			}
			k, _ := keyOf(n.Obj)
			if reachKey[k] && (n.Kind == "module" || n.Kind == "builtin" || n.Kind == "dynamic_attr") {
				obs.Indep = "shared " + n.Kind + " " + n.Desc
			}
		}
		// and the other configuration still resolves every one of its names to its own objects
		for _, nm := range spec.Deny {
			if pre[nm] != nil && walkName(gB, nm) == nil {
				obs.Indep = "name " + nm + " disappeared from the other configuration"
			}
		}
		for _, ov := range spec.Override {
			if o := walkName(gB, ov.Name); o != nil {
				if k, ok := keyOf(o); ok {
					if _, isNew := newVals[k]; isNew {
						obs.Indep = "override of " + ov.Name + " visible in the other configuration"
					}
				}
			}
		}
	}
	_ = keep
	return obs
}

// shape renders the heap without addresses (kinds, descriptions, labelled edges in canonical order).
func (h *Heap) shape() string {
	var sb strings.Builder
	for _, n := range h.Nodes {
		fmt.Fprintf(&sb, "%d %v %s %s;", n.ID, n.Fresh, n.Kind, n.Desc)
	}
	for _, e := range h.Edges {
		fmt.Fprintf(&sb, "%d %s %v %d;", e.Src, e.Label, e.Member, e.Dst)
	}
	return sb.String()
}
