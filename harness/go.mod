module verifharness

go 1.23.0

require github.com/risor-io/risor v1.8.1

replace github.com/risor-io/risor => /repo
