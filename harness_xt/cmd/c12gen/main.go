// c12gen: static call graph (go/ssa + callgraph/static) from every function of the risor packages that register the
// OS-facing builtins (modules/os, modules/filepath, modules/fmt, builtins, object/file.go) to the functions of the Go
// packages os, os/user, io/ioutil and syscall.  Calls through interfaces (risor's os.OS / FS / File in particular) are
// dynamic and therefore not edges of the static graph: they are counted and listed by interface type.
//
//	c12gen coq  <harness_xt dir>    -> coq/gen/GenOsCallGraph.v
//	c12gen text <harness_xt dir>    -> the same graph with names, dynamic call-site statistics (JSON)
//	c12gen both <harness_xt dir> <coq file> <json file>
package main

import (
	"encoding/json"
	"fmt"
	"go/token"
	"go/types"
	"os"
	"path/filepath"
	"sort"
	"strings"

	"golang.org/x/tools/go/callgraph"
	"golang.org/x/tools/go/callgraph/static"
	"golang.org/x/tools/go/packages"
	"golang.org/x/tools/go/ssa"
	"golang.org/x/tools/go/ssa/ssautil"
)

const risor = "github.com/risor-io/risor/"

var rootPkgs = []string{risor + "modules/os", risor + "modules/filepath", risor + "modules/fmt", risor + "builtins"}
var realPkgs = map[string]bool{"os": true, "os/user": true, "io/ioutil": true, "syscall": true}
var realGlobals = map[string]bool{"Stdin": true, "Stdout": true, "Stderr": true, "Args": true}

type out struct {
	Nodes       []string       `json:"nodes"` // index+1 = node id
	Edges       [][2]int       `json:"edges"`
	Roots       []int          `json:"roots"`
	Real        []int          `json:"real"`
	RootsByPkg  map[string]int `json:"roots_by_pkg"`
	Dynamic     map[string]int `json:"dynamic_sites_by_interface"`
	Mediated    int            `json:"mediated_sites"`
	FuncValue   int            `json:"function_value_sites"`
	RealReached []string       `json:"real_reached"`
	Witness     [][]string     `json:"witness_paths"`
	TotalFuncs  int            `json:"total_functions"`
	Cuts         map[string]string `json:"cuts"`
	CutIDs       []int             `json:"cut_ids"`
	Probe        []int             `json:"probe"`
	Virtual      []int             `json:"virtual_os"`
	VirtualReal  []string          `json:"virtual_os_real_reached"`
	VirtualWit   [][]string        `json:"virtual_os_witness_paths"`
	ReachedFuncs int               `json:"reached_functions"`
}

// functions whose callees are not followed, with the reason (reported in evidence)
var cuts = map[string]string{
	"time.initLocal": "Go's time package loads the local time zone once per process (reads TZ and the zoneinfo file) when a time value is first formatted; not an operation a script performs",
}

func pkgPathOf(fn *ssa.Function) string {
	for f := fn; f != nil; f = f.Parent() {
		if f.Pkg != nil {
			return f.Pkg.Pkg.Path()
		}
	}
	if fn.Origin() != nil {
		return pkgPathOf(fn.Origin())
	}
	if recv := fn.Signature.Recv(); recv != nil {
		t := recv.Type()
		if p, ok := t.(*types.Pointer); ok {
			t = p.Elem()
		}
		if n, ok := t.(*types.Named); ok && n.Obj().Pkg() != nil {
			return n.Obj().Pkg().Path()
		}
	}
	return ""
}

func main() {
	if len(os.Args) < 3 {
		fmt.Fprintln(os.Stderr, "usage: c12gen coq|text <module dir>")
		os.Exit(2)
	}
	mode, dir := os.Args[1], os.Args[2]
	cfg := &packages.Config{Mode: packages.LoadAllSyntax, Dir: dir, Env: os.Environ()}
	pats := append([]string{}, rootPkgs...)
	pats = append(pats, risor+"object", risor+"os", risor+"vm", risor[:len(risor)-1])
	initial, err := packages.Load(cfg, pats...)
	if err != nil {
		fmt.Fprintln(os.Stderr, "load:", err)
		os.Exit(1)
	}
	if packages.PrintErrors(initial) > 0 {
		os.Exit(1)
	}
	prog, _ := ssautil.AllPackages(initial, ssa.InstantiateGenerics)
	prog.Build()
	cg := static.CallGraph(prog)
	all := ssautil.AllFunctions(prog)

	isRootPkg := map[string]bool{}
	for _, p := range rootPkgs {
		isRootPkg[p] = true
	}
	fset := prog.Fset
	isRoot := func(fn *ssa.Function) bool {
		if fn.Synthetic != "" && fn.Name() == "init" {
			return false // package initialisers are not builtins
		}
		pp := pkgPathOf(fn)
		if isRootPkg[pp] {
			return true
		}
		if pp == risor+"object" {
			pos := fn.Pos()
			if pos == token.NoPos && fn.Parent() != nil {
				pos = fn.Parent().Pos()
			}
			if pos != token.NoPos && filepath.Base(fset.Position(pos).Filename) == "file.go" {
				return true
			}
		}
		return false
	}
	name := func(fn *ssa.Function) string { return fn.String() }

	// successors: static call edges + references to the real process's standard streams / arguments
	globalsOf := func(fn *ssa.Function) []string {
		var out []string
		for _, b := range fn.Blocks {
			for _, ins := range b.Instrs {
				for _, op := range ins.Operands(nil) {
					if g, ok := (*op).(*ssa.Global); ok && g.Pkg != nil && g.Pkg.Pkg.Path() == "os" && realGlobals[g.Name()] {
						out = append(out, "os."+g.Name()+" (variable)")
					}
				}
			}
		}
		return out
	}

	// every function of the program, in a canonical order
	var funcs []*ssa.Function
	for fn := range all {
		funcs = append(funcs, fn)
	}
	sort.Slice(funcs, func(i, j int) bool {
		a, b := name(funcs[i]), name(funcs[j])
		if a != b {
			return a < b
		}
		return fset.Position(funcs[i].Pos()).String() < fset.Position(funcs[j].Pos()).String()
	})
	o := out{RootsByPkg: map[string]int{}, Dynamic: map[string]int{}, TotalFuncs: len(all), Cuts: map[string]string{}}
	id := map[*ssa.Function]int{}
	var names []string
	for _, fn := range funcs {
		names = append(names, name(fn))
		id[fn] = len(names)
	}
	gid := map[string]int{}
	globalID := func(g string) int {
		if v, ok := gid[g]; ok {
			return v
		}
		names = append(names, g)
		gid[g] = len(names)
		return len(names)
	}
	succs := map[int][]int{}
	edgeSeen := map[[2]int]bool{}
	addEdge := func(a, b int) {
		e := [2]int{a, b}
		if !edgeSeen[e] {
			edgeSeen[e] = true
			o.Edges = append(o.Edges, e)
			succs[a] = append(succs[a], b)
		}
	}
	realSet := map[int]bool{}
	for _, fn := range funcs {
		src := id[fn]
		if realPkgs[pkgPathOf(fn)] {
			realSet[src] = true
			continue // a real-OS function is a sink: no need to look inside
		}
		if why, cut := cuts[name(fn)]; cut {
			o.Cuts[name(fn)] = why
			o.CutIDs = append(o.CutIDs, src)
		}
		if isRoot(fn) {
			o.Roots = append(o.Roots, src)
			o.RootsByPkg[pkgPathOf(fn)]++
		}
		if strings.HasPrefix(name(fn), "(*"+risor+"os.SimpleOS).") {
			o.Probe = append(o.Probe, src)
		}
		if strings.HasPrefix(name(fn), "(*"+risor+"os.VirtualOS).") {
			o.Virtual = append(o.Virtual, src)
		}
		for _, g := range globalsOf(fn) {
			gi := globalID(g)
			realSet[gi] = true
			addEdge(src, gi)
		}
		if n := cg.Nodes[fn]; n != nil {
			outs := append([]*callgraph.Edge{}, n.Out...)
			sort.Slice(outs, func(i, j int) bool { return id[outs[i].Callee.Func] < id[outs[j].Callee.Func] })
			for _, e := range outs {
				if t, ok := id[e.Callee.Func]; ok {
					addEdge(src, t)
				}
			}
		}
		// anonymous functions created here may be called later through a function value: creation counts as a call
		for _, anon := range fn.AnonFuncs {
			if t, ok := id[anon]; ok {
				addEdge(src, t)
			}
		}
		for _, b := range fn.Blocks {
			for _, ins := range b.Instrs {
				// functions taken as values (callbacks, tables) count as called
				for _, op := range ins.Operands(nil) {
					if f2, ok := (*op).(*ssa.Function); ok {
						if c, isCall := ins.(ssa.CallInstruction); isCall && c.Common().Value == *op {
							continue
						}
						if t, ok := id[f2]; ok {
							addEdge(src, t)
						}
					}
				}
				if c, ok := ins.(ssa.CallInstruction); ok && isRoot(fn) {
					cc := c.Common()
					if cc.IsInvoke() {
						t := cc.Value.Type().String()
						o.Dynamic[t]++
						if strings.HasPrefix(t, risor+"os.") {
							o.Mediated++
						}
					} else if cc.StaticCallee() == nil {
						if _, isB := cc.Value.(*ssa.Builtin); !isB {
							o.FuncValue++
						}
					}
				}
			}
		}
	}
	if len(o.Roots) == 0 {
		fmt.Fprintln(os.Stderr, "no root functions found (anchor packages missing)")
		os.Exit(1)
	}
	for r := range realSet {
		o.Real = append(o.Real, r)
	}
	sort.Ints(o.Real)
	o.Nodes = names
	// the generator's own search (reporting only: witness paths for a violation; Coq recomputes reachability)
	isCut := map[int]bool{}
	for _, c := range o.CutIDs {
		isCut[c] = true
	}
	pred := map[int]int{}
	seen := map[int]bool{}
	queue := append([]int{}, o.Roots...)
	for _, r := range o.Roots {
		seen[r] = true
	}
	for len(queue) > 0 {
		n := queue[0]
		queue = queue[1:]
		if isCut[n] {
			continue
		}
		for _, m := range succs[n] {
			if !seen[m] {
				seen[m] = true
				pred[m] = n
				queue = append(queue, m)
			}
		}
	}
	o.ReachedFuncs = len(seen)
	for _, r := range o.Real {
		if !seen[r] {
			continue
		}
		o.RealReached = append(o.RealReached, names[r-1])
		var path []string
		for cur, n := r, 0; n < 60; n++ {
			path = append([]string{names[cur-1]}, path...)
			p, ok := pred[cur]
			if !ok {
				break
			}
			cur = p
		}
		if len(o.Witness) < 20 {
			o.Witness = append(o.Witness, path)
		}
	}
	// the same search from the methods of risor's own VirtualOS: a host that supplies a VirtualOS must not be served by
	// the real operating system behind its back
	{
		pred := map[int]int{}
		seen := map[int]bool{}
		queue := append([]int{}, o.Virtual...)
		for _, r := range o.Virtual {
			seen[r] = true
		}
		for len(queue) > 0 {
			n := queue[0]
			queue = queue[1:]
			if isCut[n] {
				continue
			}
			for _, m := range succs[n] {
				if !seen[m] {
					seen[m] = true
					pred[m] = n
					queue = append(queue, m)
				}
			}
		}
		for _, r := range o.Real {
			if !seen[r] {
				continue
			}
			o.VirtualReal = append(o.VirtualReal, names[r-1])
			var path []string
			for cur, n := r, 0; n < 60; n++ {
				path = append([]string{names[cur-1]}, path...)
				p, ok := pred[cur]
				if !ok {
					break
				}
				cur = p
			}
			if len(o.VirtualWit) < 20 {
				o.VirtualWit = append(o.VirtualWit, path)
			}
		}
	}
	if mode == "text" {
		j, _ := json.Marshal(o)
		fmt.Println(string(j))
		return
	}
	if mode == "both" {
		// c12gen both <module dir> <coq file> <json file>: one analysis, both renderings
		if len(os.Args) < 5 {
			fmt.Fprintln(os.Stderr, "usage: c12gen both <module dir> <coq file> <json file>")
			os.Exit(2)
		}
		j, _ := json.Marshal(o)
		if err := os.WriteFile(os.Args[4], j, 0o644); err != nil {
			fmt.Fprintln(os.Stderr, err)
			os.Exit(1)
		}
	}
	var sb strings.Builder
	sb.WriteString("(* GENERATED on every run by harness_xt/cmd/c12gen: the static call graph (go/ssa, callgraph/static; creation and\n")
	sb.WriteString("   use of function values counted as calls) of EVERY function of the program made of the risor packages and their\n")
	sb.WriteString("   dependencies.  [builtins] = every function of modules/os, modules/filepath, modules/fmt, builtins and object/file.go;\n")
	sb.WriteString("   [real] = every function of the Go packages os, os/user, io/ioutil, syscall (sinks) and the variables\n")
	sb.WriteString("   os.Stdin/Stdout/Stderr/Args; [cuts] = functions whose callees are not followed (reasons in the evidence).\n")
	sb.WriteString("   Calls through interfaces are not edges.  Do not edit. *)\n")
	sb.WriteString("From Coq Require Import List PArith.\nImport ListNotations.\nOpen Scope positive_scope.\n\n")
	fmt.Fprintf(&sb, "Definition n_functions : positive := %d.\n\n", len(names))
	const chunk = 2000
	nchunks := 0
	for i, e := range o.Edges {
		if i%chunk == 0 {
			if i > 0 {
				sb.WriteString("\n  ].\n")
			}
			nchunks++
			fmt.Fprintf(&sb, "Definition calls_%d : list (positive * positive) :=\n  [", nchunks)
		} else {
			sb.WriteString(";")
		}
		if i%8 == 0 {
			sb.WriteString("\n   ")
		}
		fmt.Fprintf(&sb, "(%d,%d)", e[0], e[1])
	}
	sb.WriteString("\n  ].\n\nDefinition calls : list (positive * positive) :=\n  ")
	for i := 1; i <= nchunks; i++ {
		if i > 1 {
			sb.WriteString(" ++ ")
		}
		fmt.Fprintf(&sb, "calls_%d", i)
	}
	sb.WriteString(".\n\nDefinition builtins : list positive :=\n  [")
	_ = 0
	for i, r := range o.Roots {
		if i > 0 {
			sb.WriteString(";")
		}
		if i%20 == 0 {
			sb.WriteString("\n   ")
		}
		fmt.Fprintf(&sb, "%d", r)
	}
	sb.WriteString("\n  ].\n\nDefinition real : list positive :=\n  [")
	for i, r := range o.Real {
		if i > 0 {
			sb.WriteString("; ")
		}
		fmt.Fprintf(&sb, "%d", r)
	}
	sb.WriteString("].\n\nDefinition cuts : list positive :=\n  [")
	for i, r := range o.CutIDs {
		if i > 0 {
			sb.WriteString("; ")
		}
		fmt.Fprintf(&sb, "%d", r)
	}
	sb.WriteString("].\n\n(* the methods of risor's SimpleOS: they DO call the real OS (used to show the analysis is not vacuous) *)\nDefinition probe : list positive :=\n  [")
	for i, r := range o.Probe {
		if i > 0 {
			sb.WriteString("; ")
		}
		fmt.Fprintf(&sb, "%d", r)
	}
	sb.WriteString("].\n\n(* the methods of risor's VirtualOS: an OS a host may supply; it must not reach the real one *)\nDefinition virtual_os : list positive :=\n  [")
	for i, r := range o.Virtual {
		if i > 0 {
			sb.WriteString("; ")
		}
		fmt.Fprintf(&sb, "%d", r)
	}
	sb.WriteString("].\n")
	if mode == "both" {
		if err := os.WriteFile(os.Args[3], []byte(sb.String()), 0o644); err != nil {
			fmt.Fprintln(os.Stderr, err)
			os.Exit(1)
		}
		return
	}
	fmt.Print(sb.String())
}
