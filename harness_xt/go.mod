module verifharnessxt

go 1.23.0

require (
	github.com/risor-io/risor v1.8.1
	golang.org/x/tools v0.29.0
)

require (
	golang.org/x/mod v0.22.0 // indirect
	golang.org/x/sync v0.10.0 // indirect
)

replace github.com/risor-io/risor => /repo
